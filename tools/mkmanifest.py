#!/venv/bin/python
"""Regenerate MANIFEST.json from the table below (kept in one place so that the
manifest is always valid and in step with the checks that exist)."""
import json
import os

ROOT = os.path.dirname(os.path.dirname(os.path.abspath(__file__)))

BASELINE = ("cd /repo && /venv/bin/python -m pytest -ra -q -p no:cacheprovider --timeout=900 "
            "--continue-on-collection-errors")

NOTE_COMMON = ("Trusted: Coq 8.16.1 kernel; ExtrOcamlBasic extraction + OCaml driver; the Python "
               "correspondence harness; numpy/pandas/scipy semantics are modelled, not verified. ")

CLAIMS = {
    "C07": dict(
        text=("Theorems (Coq, closed under the global context) over the model of rank.dominance and the "
              "dominance accessor for ALL matrices/objectives/pairs: accessor cells (through the unordered-pair "
              "cache and its reverted flag) equal the definition's counts and relations; partition identity; "
              "irreflexive/asymmetric/transitive; dominators_of = transitive closure with fuel adequacy; no "
              "loops; the per-criterion compare table (three boolean rows and counts, either cache orientation) and the "
              "dominated set are the definition's. Tie to /repo: exact differential correspondence of every accessor table (exhaustive "
              "small scope + random, random call order) run on each check."),
        design="§5 C07",
        note=NOTE_COMMON + "Model: coq/Model/Dominance.v. Python's recursion limit is not modelled.",
        technique="Coq proof over executable model + API-level differential correspondence (extracted OCaml)"),
}

CLAIMS.update({
    "C03": dict(
        text=("Theorems (closed under the global context) about the model of rank_values (scipy dense rank, reverse flag), the "
              "RankResult validator and the kernel: for ALL score vectors, strictly better score <-> strictly smaller rank, "
              "equal scores <-> equal rank, the set of ranks is exactly 1..k (no gaps), one rank per alternative; validator "
              "accepts exactly value sets {1..k}; kernel = alternatives nobody outranks. Tie to /repo: every ranking/kernel "
              "method's own reported score / outranking relation is fed as exact rationals to the extracted model and must "
              "reproduce rank_/kernel_ exactly; constructors and mkagg against the validator model."),
        design="§5 C03",
        note=NOTE_COMMON + "Model: coq/Base/QRank.v, Model/Result.v, Model/Electre.v (kernel).",
        technique="Coq proof (dense rank over Qc) + exact correspondence on the result's own reported score"),
    "C04": dict(
        text=("Theorems over the Q model of the closed-form kernels for ALL inputs: exact characterisation of the refusal "
              "clauses (WSM/WPM/FMF/MultiMOORA domains), WSM score/rank formula, ideal/reference point is the per-criterion "
              "optimum and is attained, anti-ideal is the worst, distances non-negative, similarity in [0,1] with =1 iff at "
              "the ideal and undefined iff both distances are 0; MultiMOORA: the rank matrix is the three component rankings and "
              "the score computed by the loop over index pairs equals the order-free documented dominance count (one point per "
              "pair without a component tie). The formulas are the model's definitions; irrational "
              "closings (sqrt/ln/log10) are evaluated by the harness at 60 digits (partial: no real-valued theorem for them "
              "in this property file). Tie to /repo: scores, ideal/anti-ideal, reference point, rank matrix, win counts "
              "compared with the extracted model in an exact and a float regime; refusal stream."),
        design="§5 C04, §2",
        note=NOTE_COMMON + "Model: coq/Model/Agg.v. Known finding C04-fmf-allmin-offset is reported as KNOWN-FINDING.",
        technique="Coq proof over Q model + two-regime differential correspondence with condition-aware margins"),
    "C06": dict(
        text=("Theorems for ALL matrices/positive weights: strict monotonicity of the signed weighted sum (RatioMOORA, WSM) "
              "under dominance, monotonicity of TOPSIS closeness in (d+, d-), better score <-> smaller rank, identical rows "
              "-> identical scores. Partial: monotonicity of the TOPSIS distances themselves, of ReferencePointMOORA and of "
              "the logarithmic scores (WPM, FMF) is covered by the correspondence/oracle only. Tie to /repo: injected "
              "dominating pairs and duplicates, dominance relation cross-checked three ways, scores vs model."),
        design="§5 C06",
        note=NOTE_COMMON + "Model: coq/Model/Agg.v, Model/Dominance.v.",
        technique="Coq proof (monotonicity lemmas over Q) + differential correspondence on injected dominating pairs"),
})

CLAIMS.update({
    "C01": dict(
        text=("Theorems (closed under the global context) over the model of DecisionMatrix selection (label lists in any "
              "order, inclusive label slices both directions, position lists, positional ranges, masks, copy, dict round "
              "trip): for EVERY well-formed matrix and EVERY finite chain of operations, each surviving criterion looked up "
              "by label has its own objective, weight, dtype and cells; derived matrices list labels in the requested order; "
              "a missing label is refused; every documented alias resolves to the sense it names (finite table). Tie to "
              "/repo: random chains of dm[...]/loc/iloc/copy/round-trip compared exactly with the extracted run_ops, plus a "
              "by-label oracle against the source matrix and the alias enumeration both ways."),
        design="§5 C01",
        note=NOTE_COMMON + "Model: coq/Model/Select.v. Chains are generated inside the selector subset of DESIGN §5 C01; "
             "positional slices are normalised with Python's slice.indices.",
        technique="Coq proof (alignment by label under gather) + exact API-level correspondence on selection chains"),
    "C08": dict(
        text=("Theorems over the Q model of concordance / discordance / weight comparison / outranking / kernel / strong and "
              "weak relations / distillation: outrank iff (c>=p and d<=q, never diagonal); kernel = nobody outranks; "
              "0<=c<=sum w and c(a,b) + weight where b strictly better = sum w; d>=0 and d=0 iff nowhere worse, the numerator is "
              "the largest shortfall (bounds every criterion's, attained) and d lies in [0,1]; weight "
              "comparison total; strong subset of weak under the threshold order; the distillation terminates within the "
              "fuel for every pair of relations, yields one rank per alternative with ranks exactly 1..k (direct and "
              "inverse), and is independent of the order in which the alternatives are listed. The distillation is the "
              "model's definition; it is tied to the code by staged correspondence and an independent Python distillation. Tie to /repo: staged exact comparison (tables from the matrix; relations from reported "
              "tables; rankings from reported relations) with thresholds on the k/8 grid."),
        design="§5 C08",
        note=NOTE_COMMON + "Model: coq/Model/Electre.v. Known finding C08-wor-args-exchanged (matrix_wor) is reported as KNOWN-FINDING; "
             "coq/Findings.v proves the exchanged-argument relation differs from the specified one.",
        technique="Coq proof over Q model + staged exact correspondence on reported intermediates"),
    "C10": dict(
        text=("Theorems about the frame structure of the transformer base classes for EVERY concrete computation (the "
              "transformer's own computation is an arbitrary function): a part the kind does not declare is unchanged; "
              "criteria never change; alternatives only under filters; pipelines preserve every part no step declares; "
              "inverters leave all objectives maximise; filters keep a sorted subsequence of rows, each identical. The "
              "theorem is about the merge structure (thin by nature); which kind each real class belongs to, and that it "
              "really merges that way, is established by the correspondence: every introspected class x parameter grid, "
              "undeclared parts compared to the last bit."),
        design="§5 C10",
        note=NOTE_COMMON + "Model: coq/Model/Transform.v (declares/merge).",
        technique="Coq proof (frame of merge) + bitwise differential check of undeclared parts over all introspected classes"),
    "C11": dict(
        text=("Theorems over the Q model of the rational scalers for ALL vectors: SumScaler sums to 1 and each cell is x/sum; "
              "MaxAbs largest |.| is 1; MinMax is the affine map with min->lo, max->hi (constant criterion -> lo); Cenit "
              "ideal->1, anti-ideal->0 per objective; PushNegatives shifts exactly the vectors with a negative minimum, new "
              "minimum 0 (also for criteria stored in 8/16/32-bit integers: the repaired code widens to 64 bits, which is "
              "proved exact; the old in-type arithmetic is refuted on int8 [-127,-2,10], Model/IntStorage.v, compared cell "
              "for cell on integer matrices); AddValueToZero adds exactly to vectors containing a zero; a matrix-target scaler acts on each "
              "column separately (col j of output = f(col j)); VectorScaler output has unit norm and StandarScaler output mean 0 "
              "and variance 1 for ANY divisor s with s*s equal to the rational core (the real square root is one), also with only "
              "with_mean or only with_std. Partial: "
              "that the code's float sqrt is such a divisor up to rounding is checked through the cores closed at 60 digits. Tie to /repo: cell-by-cell comparison with the "
              "extracted model on non-square matrices, all targets and parameter grids, plus direct normal-form oracle."),
        design="§5 C11",
        note=NOTE_COMMON + "Model: coq/Model/Transform.v.",
        technique="Coq proof over Q model of scalers + cell-wise differential correspondence"),
    "C12": dict(
        text=("Theorems for ALL vectors/rows: a strictly increasing map preserves every pairwise preference; division by a "
              "positive constant, positive affine maps and shifts are strictly increasing; hence Sum/MaxAbs/MinMax/"
              "PushNegatives/AddValueToZero keep `better` for every pair (MinMax constant criterion: ties stay ties); "
              "negation and reciprocal (on positives) turn better-under-MIN into better-under-MAX; dominance (both strict "
              "settings) depends only on the per-criterion preference profile, so it is invariant. VectorScaler / "
              "StandarScaler are covered as instances of division by a positive constant (their constant is a real "
              "sqrt; the rational statement is for any positive divisor). At matrix level a column-wise order-preserving step "
              "keeps the whole preference profile of every pair of alternatives, and any finite chain of such steps keeps the "
              "dominance relation (induction over the chain). Tie to /repo: random step sequences and the "
              "same steps as a pipeline; sign matrices and dominance before/after, and against the model."),
        design="§5 C12",
        note=NOTE_COMMON + "Exact-arithmetic theorem; generated values are separated so that float rounding cannot collapse them.",
        technique="Coq proof (monotone maps preserve the preference profile; dominance is a function of it) + differential check"),
    "C13": dict(
        text=("Theorems over the rational cores: EqualWeighter = base/m; normalised weights sum to 1 and are non-negative; "
              "sample / population variance, covariance and average ranks are independent of the order of alternatives; "
              "covariance symmetric with the variance on the diagonal; Cauchy-Schwarz cov^2 <= var*var (so every CRITIC "
              "term 1 - r is >= 0); the reduced functions the driver executes equal the specified cores; over the reals, the "
              "Shannon entropy of a probability column is at most ln n (Gibbs), so every entropy diversity lies in [0,1]. "
              "Partial: the sqrt / ln closings of the actual scores are evaluated by the harness at 60 digits. Tie "
              "to /repo: weights vs closing of the model cores and vs an independent Decimal re-computation; permuted "
              "presentations compared by criterion label."),
        design="§5 C13",
        note=NOTE_COMMON + "Model: coq/Model/Weights.v. Known finding C13-critic-all-correlated-nan is reported as KNOWN-FINDING.",
        technique="Coq proof over rational cores (incl. Cauchy-Schwarz) + differential correspondence with 60-digit closings"),
})

CLAIMS.update({
    "C02": dict(
        text=("PARTIAL BY NATURE. Theorems about an ownership state machine (cells owned by the object / memo caches / fresh "
              "cells; handles; read, write-through-handle, run-method): if every accessor hands out a copy then for EVERY "
              "history the object reports what it reported before; running a method never changes it; one sharing accessor "
              "suffices to break it (refutation witness = the repaired dominators_of defect). A heap model (the object's parts "
              "point to cells, the caller keeps the addresses of the arrays he handed over) covers the first clause: a "
              "constructor that copies each array + copying accessors => after every history of reads, writes through "
              "returned objects AND through the caller's own arrays, and method runs, every part reports what was handed "
              "in; a constructor that adopts one array, or one sharing accessor, breaks it. That each REAL accessor copies "
              "is established only by the correspondence: every enumerated accessor x every mutation route, constructor "
              "inputs, and random read/write/run histories with bit-exact snapshots; the enumeration is checked against the "
              "Coq model's size and against the public members of the real classes."),
        design="§5 C02",
        note=NOTE_COMMON + "Model: coq/Model/Alias.v, coq/Model/Heap.v. An interpreter crash after a write through a returned Index's label buffer is the same known finding (decided by replaying the history without those writes in a forked child). Known finding C02-pandas-string-index-buffer is reported as KNOWN-FINDING. "
             "result.e_ / extra_ and private attributes are outside the property's list.",
        technique="Coq proof over an ownership abstraction + differential history testing with bitwise snapshots"),
    "C05": dict(
        text=("PARTIAL (pipelines beyond scaler chains + linear methods only by correspondence). Pipelines: every rational scaler "
              "commutes with a reordering of the alternatives and a chain of any number of them followed by WSM / RatioMOORA "
              "ranks every alternative the same whatever the listing order. Theorems - order of alternatives: every row-wise score and its "
              "WHOLE ranking follow the alternatives (rank_values commutes with reindexing), ideal / anti-ideal / reference "
              "point, the ReferencePointMOORA ranking, TOPSIS distances, similarity and ranking, MultiMOORA's dominance count, "
              "every ELECTRE table, the outranking / strong / weak / weight-comparison relations, the kernel, the ELECTRE2 "
              "distillations and final ranking; order of criteria: weighted and signed-weighted sums, TOPSIS distances (all "
              "metrics), the reference-point score, ELECTRE concordance / discordance / scale / weight comparison (specified "
              "and as called); weight scale c>0: WSM, RatioMOORA, ReferencePointMOORA, TOPSIS closeness (rational and "
              "euclidean), WPM, FMF (reals). Labels never enter a kernel (by typing). Tie to /repo: two presentations "
              "(rows, criteria, labels, weight multiplier 1e-12..1e12) compared by alternative name, exact regime exactly, "
              "float regime beyond a margin that scales with the multiplier."),
        design="§5 C05",
        note=NOTE_COMMON + "Model: coq/Model/Agg.v, Model/Electre.v; Theory/Invariance.v, RankPerm*.v, ElectreInv.v, CritPerm.v, "
             "MultiMoora.v; real-number closings depend on the standard library's real axioms and classic.",
        technique="Coq proof (permutation / scaling invariance of the rational kernels) + two-presentation differential check"),
    "C09": dict(
        text=("Theorems: weak duality and SOUNDNESS of the executable certificate checker for max c.x, Ax<=b, x>=0 (an accepted "
              "primal/dual pair proves feasibility and optimality) over Q; the LP built for a stage (minimise rows negated, own "
              "row removed) is exactly the documented program, so a certified stage meets every documented bound and is optimal "
              "in the criterion's own sense; stage rows sum to one (or are all zero); first-method cell formula; the second "
              "method's dominance table is the pointwise sum over stages and its scores sum to zero; the bound of each constraint is "
              "the supplied b (0 included) or the criterion's own extreme; values are credited by index. PARTIAL: optimality of what CBC returns is certified PER "
              "CASE - an untrusted exact simplex proposes (x*, y*), the extracted proved checker accepts it, and the "
              "implementation's stage (credited positionally) must be feasible and attain that certified optimum; the stage "
              "LP construction (senses, default and user b) is the model's and is compared through the same evaluation."),
        design="§5 C09",
        note=NOTE_COMMON + "Model: coq/Model/Simus.v. CBC is an oracle; harness/simplex.py is untrusted (proposes certificates only).",
        technique="Coq-verified LP certificate checker (weak duality) applied per stage + differential correspondence"),
    "C14": dict(
        text=("Theorems for ALL matrices / condition lists: the mask the implementation builds (columns looked up per written "
              "condition) equals the specification 'every condition holds on the criterion it names'; survivors characterised "
              "by label lookup; any permutation of the conditions gives the same result; any permutation of the criteria "
              "(with the rows) gives the same survivors; every operator means its order relation on the rationals, operators "
              "come in complementary pairs, single-valued sets are == / !=, two lists of conditions conjoin; a missing criterion raises iff not ignored (and is then the only "
              "condition skipped); FilterNonDominated keeps exactly the alternatives nobody (strictly) dominates. "
              "Findings.v refutes the unrepaired matrix-order pairing. Tie to /repo: all 9 filter classes + non-dominated, "
              "every key order, absent criteria, both settings, survivors by label."),
        design="§5 C14",
        note=NOTE_COMMON + "Model: coq/Model/Filters.v; function filters use a fixed predicate palette mirrored in Coq.",
        technique="Coq refinement proof (implementation-shaped mask = spec) + exhaustive key-order differential check"),
    "C15": dict(
        text=("PARTIAL. Theorems for EVERY source of filled values (the KNN / Iterative estimators enter as an arbitrary "
              "function): shape kept, every observed cell keeps exactly its value, every gap gets a value; SimpleImputer: "
              "observed cells unchanged, each gap gets the configured statistic of ITS OWN criterion, column-locality, mean "
              "between the extremes, the most frequent value is an observed value of maximal frequency, a constant strategy "
              "fills with the constant, a criterion without gaps is untouched, the filling value depends on the observed "
              "values only. The values KNN/Iterative choose are scikit-learn's; parameter forwarding is checked "
              "differentially (bitwise) against directly constructed scikit-learn estimators."),
        design="§5 C15",
        note=NOTE_COMMON + "Model: coq/Model/Impute.v (median / most-frequent with smallest-value tie-break executable).",
        technique="Coq proof with the estimator as an arbitrary oracle + differential check incl. parameter forwarding"),
    "C16": dict(
        text=("Theorems (generic in the matrix / result types): evaluate = composition in order; suffix slice at every split "
              "point; nested pipelines flatten (as a step and as the last step); one name per step; copy(**overrides) changes "
              "exactly the overridden parameters and keeps the parameter set; rebuild from get_parameters is the identity. "
              "PARTIAL: step-name uniqueness is proved under the explicit side condition that no listed name equals a "
              "generated 'x_k' (suffix injectivity itself is proved: the last '_' separates a non-empty decimal digit string); "
              "Findings.v shows the condition cannot be dropped (known finding). "
              "Tie to /repo: random and nested pipelines vs manual composition bit-for-bit at every split; unique_names "
              "exhaustively over a small alphabet; every introspected method class for copy / rebuild / overrides."),
        design="§5 C16",
        note=NOTE_COMMON + "Model: coq/Model/Pipeline.v. Known finding C16-unique-names-suffix-collision is reported as KNOWN-FINDING.",
        technique="Coq proof (fold composition, name uniqueness under side condition) + differential check on real objects"),
    "C17": dict(
        text=("Theorems over the model of diff / equals / aequals / != for decision matrices, results and comparators: arrays of "
              "different length compare as different (never an error) and a result of another length names 'values'; an object "
              "equals its copy; exact equality is symmetric and implies tolerant equality for any rtol, atol >= 0; != is not ==; "
              "unrelated types are different; diff names a member EXACTLY when that member differs beyond tolerance, for every "
              "member of matrices (dtypes included) and of results, hence exactly one changed member is exactly what diff names; "
              "no member is named twice; a result equals its copy, exact implies tolerant for results, a ranking never equals a "
              "kernel; a shape change names every member. Tie to "
              "/repo: pairs (identical, copy, one member below / at / above the exact dyadic tolerance boundary, lengths, "
              "types), all operators in both directions and the testing.assert_* helpers."),
        design="§5 C17",
        note=NOTE_COMMON + "Model: coq/Model/Diff.v (finite values; array-valued extras).",
        technique="Coq proof over a model of diff + exact-boundary differential correspondence"),
    "C18": dict(
        text=("Theorems for ALL rankings: the untied ranking is a permutation of 1..n, keeps every strict preference, breaks "
              "ties by order of appearance and equals the original when there are no ties; it is the inverse permutation of "
              "the stable argsort of the ranks (the double argsort the repaired code computes IS the specification); a comparator cell depends on the "
              "ranking only as a name->rank map (listing order irrelevant); tables are square over the rankings, cell (i,j) "
              "compares ranking i with ranking j, covariance and distance tables are symmetric; diagonal values: distance 0, covariance = variance, "
              "R2 = 1, cov(v,v) = var(v) (so self-correlation 1). Findings.v refutes the unrepaired argsort+1. Tie to /repo: "
              "all dense rankings up to length 5 (thorough 7) + random to 40; comparators from rankings listed in different "
              "orders, tables by label."),
        design="§5 C18",
        note=NOTE_COMMON + "Model: coq/Model/Untie.v.",
        technique="Coq proof (counting definition of untie) + exhaustive small-scope and random differential check"),
    "C19": dict(
        text=("Theorems: a mutation changes exactly one row and keeps the shape; the mutated row is row + noise; the executable "
              "checker run on every recorded mutation is sound (direction by objective, |change| <= bound, one strict change) "
              "and accepts everything the implementation's construction can produce from draws in [0, bound]; worsening never "
              "improves; the schedule has (n-1)*repeat runs, every non-best alternative exactly once per repetition; the "
              "rejection loop never terminates when all gaps are zero (the known finding) and otherwise returns a non-zero "
              "noise. Tie to /repo: a recording decision maker, all recorded matrices / noises / labels through the model's "
              "bounds table, checker and schedule; equal seeds bit-identical; per-experiment time budget."),
        design="§5 C19",
        note=NOTE_COMMON + "Model: coq/Model/RRT.v; the uniform draws are inputs. Known finding C19-zero-gaps-never-terminates is reported as KNOWN-FINDING.",
        technique="Coq proof (mutation checker soundness/completeness, schedule, termination condition) + recorded-experiment check"),
    "C20": dict(
        text=("PARTIAL BY NATURE. Theorems about the abstraction 'the state of a method object is its parameters': the output "
              "for a probe matrix is the same at every position of every call sequence (also after failing calls), equal "
              "parameters give equal behaviour, calls leave the object unchanged; hidden state per object, and state shared by "
              "the whole process, are characterised by probe tests (single steps suffice). That the real classes keep no other state "
              "is established only by the correspondence: every introspected class (plus pipelines, user methods, filters, "
              "randomised imputers) as one object over sequences of matrices of varying shape and criteria layout incl. "
              "failing calls; probe outputs bit-identical to a fresh object's, __dict__ snapshot unchanged, a twin in lock-step."),
        design="§5 C20",
        note=NOTE_COMMON + "Model: coq/Model/Stateless.v. RankInvariantChecker (holds a Generator) is outside the property.",
        technique="Coq frame theorem over 'state = parameters' + differential call-sequence testing with state snapshots"),
})

PENDING_REASON = "check not yet built in this session; planned as described in DESIGN.md §5 (no claim is made until it runs)"


def main():
    props = [json.loads(l) for l in open(os.path.join(ROOT, "properties.jsonl"))]
    checks, na = [], []
    for p in props:
        pid = p["id"]
        if pid in CLAIMS:
            c = CLAIMS[pid]
            checks.append({
                "property_id": pid,
                "quick_cmd": f"./check {pid} quick",
                "thorough_cmd": f"./check {pid} thorough",
                "evidence_file": f"/verif/evidence/{pid}.json",
                "replay_cmd_template": f"./check {pid} --replay {{path}}",
                "engine": "coq-proof+correspondence",
                "level_claimed": {"category": "proof", "text": c["text"], "design_ref": c["design"]},
                "level_note": c["note"],
                "technique": c["technique"],
            })
        else:
            na.append({"property_id": pid, "reason": PENDING_REASON})
    man = {
        "version": 1,
        "setup_cmd": "./setup.sh",
        "hooks": {
            "guard": "SKCRITERIA_VERIF",
            "enable": "no source hooks exist: every observation point is public API; the checks export SKCRITERIA_VERIF=1 but nothing in /repo reads it",
            "baseline_off_cmd": BASELINE,
            "source_commits": [],
            "add_only": True,
        },
        "engines": [{
            "name": "coq-proof+correspondence",
            "path": "/verif/check",
            "serves_properties": [c["property_id"] for c in checks],
            "kind_free_text": ("Coq 8.16 theorems about a hand-written executable Gallina model (coq/), tied to /repo on "
                               "every run by an API-level differential correspondence check: the model is extracted to OCaml "
                               "(ocaml/skcmodel) and run on the same generated inputs as the real library (harness/)"),
        }],
        "checks": checks,
        "notes": ("fix: commits in /repo repair fifteen genuine defects (see known_findings.json 'fixed'); "
                  "remaining genuine defects are listed as known findings."),
        "not_applicable": na,
    }
    with open(os.path.join(ROOT, "MANIFEST.json"), "w") as f:
        json.dump(man, f, indent=1)
    print(f"{len(checks)} checks, {len(na)} not claimed")


if __name__ == "__main__":
    main()
