#!/usr/bin/env python3
"""Record the sha1 of every anchored source file (properties.jsonl -> anchors.files) at the current /repo HEAD.
The check compares on every run and reports `anchors_changed_since_pin` in the evidence: informational only
(a changed anchor means the model was validated against other code than what it was written from; the
correspondence decides whether it still agrees)."""
import hashlib, json, os, subprocess
V = os.path.dirname(os.path.dirname(os.path.abspath(__file__)))
REPO = os.environ.get("SKC_REPO", "/repo")
out = {"_commit": subprocess.run(["git", "-C", REPO, "rev-parse", "HEAD"], capture_output=True, text=True).stdout.strip()}
for line in open(os.path.join(V, "properties.jsonl")):
    d = json.loads(line)
    rec = {}
    for rel in d["anchors"]["files"]:
        p = os.path.join(REPO, rel)
        if os.path.isfile(p):
            rec[rel] = hashlib.sha1(open(p, "rb").read()).hexdigest()
    out[d["id"]] = rec
json.dump(out, open(os.path.join(V, "harness", "anchors.json"), "w"), indent=1, sort_keys=True)
print({k: len(v) for k, v in out.items() if k != "_commit"})
