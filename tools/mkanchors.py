#!/usr/bin/env python3
"""Record the sha1 of every anchored source file (properties.jsonl -> anchors.files) at the current /repo HEAD.
The check compares on every run and reports `anchors_changed_since_pin` in the evidence: informational only
(a changed anchor means the model was validated against other code than what it was written from; the
correspondence decides whether it still agrees)."""
import hashlib, json, os, subprocess
V = os.path.dirname(os.path.dirname(os.path.abspath(__file__)))
REPO = os.environ.get("SKC_REPO", "/repo")
out = {"_commit": subprocess.run(["git", "-C", REPO, "rev-parse", "HEAD"], capture_output=True, text=True).stdout.strip()}
for line in open(os.path.join(V, "properties.jsonl")):
    d = json.loads(line)
    rec = {}
    for rel in d["anchors"]["files"]:
        p = os.path.join(REPO, rel)
        if os.path.isfile(p):
            rec[rel] = hashlib.sha1(open(p, "rb").read()).hexdigest()
    out[d["id"]] = rec
# the documented positional order of every method's constructor parameters at the pinned commit (the check calls
# constructors positionally in THIS order, so that a change of the order is noticed rather than followed)
code = r"""
import inspect, json, importlib, pkgutil, skcriteria
from skcriteria.core.methods import SKCMethodABC
sig = {}
for pkg in ("skcriteria.agg", "skcriteria.preprocessing", "skcriteria.cmp", "skcriteria.cmp.ranks_rev", "skcriteria"):
    mod0 = importlib.import_module(pkg)
    mods = [mod0] + [importlib.import_module(pkg + "." + m.name) for m in pkgutil.iter_modules(mod0.__path__) if not m.ispkg]
    for mod in mods:
        for n, c in inspect.getmembers(mod, inspect.isclass):
            if issubclass(c, SKCMethodABC) and c.__module__.startswith("skcriteria"):
                ps = [k for k, q in inspect.signature(c.__init__).parameters.items()
                      if k != "self" and q.kind in (q.POSITIONAL_ONLY, q.POSITIONAL_OR_KEYWORD)]
                sig[n] = ps
print(json.dumps(sig))
"""
r = subprocess.run(["/venv/bin/python", "-W", "ignore", "-c", code], capture_output=True, text=True,
                   env=dict(os.environ, PYTHONPATH=REPO))
out["_signatures"] = json.loads(r.stdout.strip().splitlines()[-1])
json.dump(out, open(os.path.join(V, "harness", "anchors.json"), "w"), indent=1, sort_keys=True)
print({k: len(v) for k, v in out.items() if not k.startswith("_")}, len(out["_signatures"]), "signatures")
