#!/bin/bash
# usage: tools/recheck_seeds.sh [ids...]   — re-run the quick check of each seeded change's own property against a
# scratch copy with the change applied, and refresh detected_by / checks_run_quick in seeded/<id>/meta.json.
# (patch applicability, unchanged suite and the demo were confirmed when the seed was registered: tools/verify_seed.sh)
cd "$(dirname "$0")/.."
[ -x ocaml/skcmodel ] || ./setup.sh > /dev/null 2>&1
ids=("$@"); [ ${#ids[@]} -eq 0 ] && ids=($(ls seeded))
for id in "${ids[@]}"; do
  prop=${id:0:3}
  extra=$(/venv/bin/python -c "import json;m=json.load(open('seeded/$id/meta.json'));print(' '.join(c for c in m.get('checks_run_quick',[]) if c!='$prop'))")
  det=""
  for c in $prop $extra; do
    out=$(tools/mutant.sh "$PWD/seeded/$id/patch.diff" quick $c 2>&1); r=$?
    how=$(echo "$out" | grep -m1 VIOLATION | grep -q no-failing-input-found && echo "(correspondence only)" || echo "")
    [ $r -ne 0 ] && det="$det $c"
    echo "$id $c exit=$r $how $(echo "$out" | grep -E '^\[' | cut -c1-150)"
  done
  /venv/bin/python - "$id" "$prop $extra" "$det" <<'PY'
import json, sys
sid, ran, det = sys.argv[1:4]
p = f"seeded/{sid}/meta.json"
m = json.load(open(p))
m["checks_run_quick"] = ran.split()
m["detected_by"] = det.split()
json.dump(m, open(p, "w"), indent=1)
PY
done
