#!/bin/bash
# usage: tools/mutant.sh <patch.diff | --reverse-commit SHA> <tier> <Cxx> [Cyy ...]
# Applies the change to a scratch copy of /repo (outside /repo and /verif), runs the named checks
# against it (SKC_REPO), prints their verdict lines, removes the scratch copy.
set -u
P="$1"; shift
SHA=""
if [ "$P" = "--reverse-commit" ]; then SHA="$1"; shift; fi
TIER="$1"; shift
D=$(mktemp -d /tmp/mut.XXXXXX)
git -C /repo archive HEAD skcriteria | tar -x -C "$D"
if [ "$P" = "--reverse-commit" ]; then git -C /repo show "$SHA" -- skcriteria | (cd "$D" && patch -R -p1 -s) || { echo "reverse failed"; rm -rf "$D"; exit 2; }
else (cd "$D" && patch -p1 -s < "$P") || { echo "patch failed"; rm -rf "$D"; exit 2; }; fi
cd "$(dirname "$0")/.."
rc=0
for c in "$@"; do
  out=$(SKC_REPO="$D" ./check "$c" "$TIER" 2>&1); r=$?
  echo "$out" | grep -E "VIOLATION|KNOWN-FINDING|^\[" | cut -c1-260
  [ $r -ne 0 ] && rc=1
done
rm -rf "$D"
exit $rc
