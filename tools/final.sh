#!/bin/bash
# usage: tools/final.sh   - the closing pass on the unchanged tree: every check thorough, then quick (so that the
# committed evidence describes a quick run from /verif against /repo), anchors, manifest, index, schema validation.
cd "$(dirname "$0")/.."
ALL="C01 C02 C03 C04 C05 C06 C07 C08 C09 C10 C11 C12 C13 C14 C15 C16 C17 C18 C19 C20"
[ -z "$(git -C /repo status --short)" ] || { echo "/repo is not clean"; exit 2; }
python3 tools/mkanchors.py | tail -1
rc=0
if [ "${1:-}" != "--quick-only" ]; then
  for p in $ALL; do
    out=$(timeout 3000 ./check $p thorough 2>&1); r=$?
    echo "thorough $p exit=$r $(echo "$out" | grep -E '^\[')"; [ $r -ne 0 ] && { rc=1; echo "$out" | grep VIOLATION; }
  done
fi
for p in $ALL; do
  out=$(VERIF_SEED=1 timeout 3000 ./check $p quick 2>&1); r=$?
  echo "quick $p exit=$r $(echo "$out" | grep -E '^\[')"; [ $r -ne 0 ] && { rc=1; echo "$out" | grep VIOLATION; }
done
python3 tools/mkmanifest.py | tail -1
python3 tools/seed_table.py | tail -1
python3-vt - <<'PY'
import json, glob, jsonschema
m = json.load(open('MANIFEST.json')); jsonschema.validate(m, json.load(open('/root/.vp/MANIFEST.schema.json')))
es = json.load(open('/root/.vp/EVIDENCE.schema.json'))
for f in sorted(glob.glob('evidence/C*.json')):
    jsonschema.validate(json.load(open(f)), es)
print("schemas ok:", len(glob.glob('evidence/C*.json')), "evidence files")
PY
exit $rc
