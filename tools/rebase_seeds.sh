#!/bin/bash
# usage: tools/rebase_seeds.sh <dir with patch.diff> ...   — re-express each seeded patch against /repo's current HEAD
# (so that `git -C /repo apply` accepts it after later fix: commits moved the context lines)
for d in "$@"; do
  D=$(mktemp -d /tmp/rebase.XXXXXX)
  git -C /repo archive HEAD | tar -x -C "$D"
  ( cd "$D" && git init -q . && git add -A > /dev/null && git -c user.email=a@b -c user.name=x commit -qm base \
    && patch -p1 -s --no-backup-if-mismatch < "$d/patch.diff" && git diff > "$D/new.diff" ) || { echo "FAILED $d"; rm -rf "$D"; continue; }
  if [ -s "$D/new.diff" ]; then cp "$D/new.diff" "$d/patch.diff"; else echo "EMPTY $d"; fi
  rm -rf "$D"
done
