#!/bin/bash
# usage: tools/sweep.sh <tier> <seed-from> <seed-to>   — false-alarm sweep on the unchanged tree
cd "$(dirname "$0")/.."
[ -x ocaml/skcmodel ] || ./setup.sh
TIER="$1"; A="$2"; B="$3"
for s in $(seq "$A" "$B"); do
  for p in C01 C02 C03 C04 C05 C06 C07 C08 C09 C10 C11 C12 C13 C14 C15 C16 C17 C18 C19 C20; do
    out=$(VERIF_SEED=$s timeout 3000 ./check $p "$TIER" 2>&1); r=$?
    echo "seed=$s $p exit=$r $(echo "$out" | grep -E '^\[' )"
    if [ $r -ne 0 ]; then echo "$out" | grep VIOLATION; mkdir -p sweep_fail; cp evidence/replay/$p-$s-*.json sweep_fail/ 2>/dev/null; fi
  done
done
