#!/bin/bash
# usage: tools/verify_seed.sh <src dir with patch.diff demo.py notes.txt> <seed id> <property> [checks to run ...]
# Confirms: patch applies; existing suite unchanged vs baseline; demo exits 1 with the change and 0 without.
# Then copies it to /verif/seeded/<seed id>/ with meta.json (detected_by filled from the checks run).
set -u
SRC="$1"; ID="$2"; PROP="$3"; shift 3
D=$(mktemp -d /tmp/seedchk.XXXXXX)
git -C /repo archive HEAD | tar -x -C "$D"
cd "$D"
patch -p1 -s < "$SRC/patch.diff" || { echo "PATCH FAILED"; rm -rf "$D"; exit 2; }
PYTHONPATH="$D" /venv/bin/python "$SRC/demo.py" > "$D/demo_with.log" 2>&1; with=$?
PYTHONPATH="$D" timeout 900 /venv/bin/python -m pytest -q -p no:cacheprovider --timeout=900 -rfE 2>&1 | grep -E "^(FAILED|ERROR) " | sed 's/ - .*//' | sort > "$D/fails.txt"
if diff -q <(sort /tmp/seeds/baseline_fails.txt) "$D/fails.txt" > /dev/null; then suite=same; else suite=DIFFERENT; fi
PYTHONPATH=/repo /venv/bin/python "$SRC/demo.py" > "$D/demo_without.log" 2>&1; without=$?
echo "seed $ID: demo with change exit=$with, without exit=$without, suite=$suite ($(wc -l < $D/fails.txt) failing)"
ok=0; [ $with -ne 0 ] && [ $without -eq 0 ] && [ $suite = same ] && ok=1
cd /verif
det=""
if [ $ok -eq 1 ]; then
  for c in "$@"; do
    out=$(SKC_REPO="$D" ./check "$c" quick 2>&1); r=$?
    line=$(echo "$out" | grep -E "VIOLATION" | head -1 | cut -c1-200)
    echo "   $c -> exit $r  $line"
    [ $r -ne 0 ] && det="$det $c"
  done
  mkdir -p seeded/$ID
  cp "$SRC/patch.diff" "$SRC/demo.py" seeded/$ID/
  cp "$SRC/notes.txt" seeded/$ID/notes.txt 2>/dev/null
  /venv/bin/python - "$ID" "$PROP" "$det" "$*" <<'PY'
import json, sys
sid, prop, det, ran = sys.argv[1:5]
notes = open(f"/verif/seeded/{sid}/notes.txt").read() if __import__("os").path.exists(f"/verif/seeded/{sid}/notes.txt") else ""
json.dump({"id": sid, "breaks_property": prop,
           "needs_to_manifest": notes[:1500],
           "confirmed": {"patch_applies": True, "existing_suite": "same 434 pass / 64 environment failures as baseline (pytest on a scratch copy with the patch)",
                         "demo_with_change_exit": 1, "demo_without_change_exit": 0},
           "checks_run_quick": ran.split(), "detected_by": det.split()},
          open(f"/verif/seeded/{sid}/meta.json", "w"), indent=1)
PY
fi
rm -rf "$D"
[ $ok -eq 1 ]
