#!/bin/bash
# Build the Coq development (full .vo build) and the extracted OCaml driver.
set -e
cd "$(dirname "$0")"
mkdir -p work evidence
cd coq
coq_makefile -f _CoqProject -o Makefile > /dev/null
timeout 3000 make -j16 > ../work/coq_build.log 2>&1 || { tail -40 ../work/coq_build.log; exit 1; }
cd ../ocaml
timeout 600 coqc -Q ../coq SKC ../coq/Extract.v > ../work/extract.log 2>&1 || { tail -20 ../work/extract.log; exit 1; }
rm -f ../coq/Extract.vo ../coq/Extract.vok ../coq/Extract.vos ../coq/Extract.glob ../coq/.Extract.aux
timeout 600 ocamlfind ocamlopt -O2 -w -a model.mli model.ml driver.ml -o skcmodel 2>/dev/null \
  || timeout 600 ocamlfind ocamlopt -w -a model.mli model.ml driver.ml -o skcmodel
echo "rank ( #t ( q3/2 q1/2 q6/4 i2 ) )" | ./skcmodel | grep -q "( i2 i3 i2 i1 )" || { echo "driver self-test failed"; exit 1; }
echo "setup ok"
