"""Run the real decision makers and report everything they expose, in plain
Python lists (floats untouched).  Shared by C03-C06, C08, C09."""
import warnings

import numpy as np

from . import impl as I
from .val import Err

warnings.filterwarnings("ignore")

TOPSIS_METRICS = ["cityblock", "sqeuclidean", "chebyshev", "euclidean", "minkowski"]
METRIC_CODE = {"cityblock": 0, "sqeuclidean": 1, "chebyshev": 2, "euclidean": 3, "minkowski": 3}

# score key and direction (True: higher score is better)
SCORE = {
    "wsm": ("score", True), "wpm": ("score", True), "topsis": ("similarity", True),
    "ratio": ("score", True), "refpoint": ("score", False), "fmf": ("score", True),
    "multimoora": ("score", True), "electre2": ("score", False),
    "simus": (None, True),
}


def make(method):
    """The decision maker of a case, obtained one of the public ways a configured method can be obtained
    (impl.variant: constructor, copy(), rebuilt from get_parameters(), positional arguments, fresh / numpy-typed
    parameter values, pickle round trip, default + copy(**kw)); all of them are the same method."""
    base = make_direct(method)
    if method.get("route") == "direct":
        return base
    return I.variant(type(base), base.get_parameters(), method)


def make_direct(method):
    from skcriteria.agg import electre, moora, similarity, simple, simus
    name = method["name"]
    if name == "wsm":
        return simple.WeightedSumModel()
    if name == "wpm":
        return simple.WeightedProductModel()
    if name == "topsis":
        return similarity.TOPSIS(metric=method.get("metric", "euclidean"))
    if name == "ratio":
        return moora.RatioMOORA()
    if name == "refpoint":
        return moora.ReferencePointMOORA()
    if name == "fmf":
        return moora.FullMultiplicativeForm()
    if name == "multimoora":
        return moora.MultiMOORA()
    if name == "electre1":
        return electre.ELECTRE1(p=method.get("p", 0.65), q=method.get("q", 0.35))
    if name == "electre2":
        kw = {k: method[k] for k in ("p0", "p1", "p2", "q0", "q1") if k in method}
        return electre.ELECTRE2(**kw)
    if name == "simus":
        return simus.SIMUS(rank_by=method.get("rank_by", 1))
    raise KeyError(name)


def tolist(x):
    if isinstance(x, np.ndarray):
        return x.tolist()
    if isinstance(x, (tuple, list)):
        return [tolist(y) for y in x]
    if isinstance(x, (np.floating, np.integer, np.bool_)):
        return x.item()
    return x


def evaluate(case):
    """-> dict(alternatives, values, extra{...}) or {'error': Err}."""
    method = case["method"]
    I.set_salt(case.get("matrix"))
    try:
        dm = I.mk(case)
        dmaker = make(method)
        import zlib as _z
        if _z.crc32(repr((case["matrix"], method.get("name"))).encode()) % 4 == 0:
            # the same method object has just answered the same numbers under OTHER names (relabelled, listed in
            # reverse): the answer for this matrix must name this matrix's alternatives
            try:
                other = I.mkdm(dm.matrix.to_numpy()[::-1], list(dm.iobjectives.to_numpy()), weights=dm.weights.to_numpy(),
                               alternatives=[f"other {i}" for i in range(len(dm.alternatives))],
                               criteria=list(dm.criteria))
                same = I.mkdm(dm.matrix.to_numpy(), list(dm.iobjectives.to_numpy()), weights=dm.weights.to_numpy(),
                              alternatives=[f"w{i}" for i in range(len(dm.alternatives))], criteria=list(dm.criteria))
                with I.quiet_fds():
                    for d_ in (other, same):
                        if method["name"] == "simus":
                            dmaker.evaluate(d_, b=case.get("b"))
                        else:
                            dmaker.evaluate(d_)
            except Exception:  # noqa: BLE001
                pass
        if method["name"] == "simus":
            b = case.get("b")
            import zlib
            if b is not None and zlib.crc32(repr((b, case["matrix"][0])).encode()) & 1:
                # the caller holds his bounds in an array of his own, which he has already used for another problem
                # (the same criteria on another scale) and will use again: it must come back as it was
                b_own = np.array(b, dtype=object)
                other = I.mkdm(np.array(case["matrix"], dtype=float) * 8.0 + 1.0, list(case["objectives"]),
                               weights=list(case["weights"]))
                with I.quiet_fds():
                    try:
                        dmaker.evaluate(other, b=b_own)
                    except Exception:  # noqa: BLE001
                        pass
                    res = dmaker.evaluate(dm, b=b_own)
                if b_own.tolist() != list(b):
                    return {"error": Err(97), "exc": f"SIMUS wrote into the caller's b: {b_own.tolist()} (given {b})"}
            else:
                with I.quiet_fds():
                    res = dmaker.evaluate(dm, b=b)
        else:
            res = dmaker.evaluate(dm)
    except Exception as e:  # noqa: BLE001
        return {"error": I.exc_code(e), "exc": repr(e)[:300]}
    import zlib
    if zlib.crc32(repr(case.get("matrix")).encode()) & 1 and hasattr(res, "untied_rank_"):
        # half of the results have their other views read first (ties, untied ranks, series, text)
        try:
            _ = (res.has_ties_, res.ties_, res.untied_rank_, res.to_series(untied=True), res.to_series(), repr(res),
                 res.shape, res == res)
        except Exception as e:  # noqa: BLE001
            return {"error": I.exc_code(e), "exc": "reading the views of the result: " + repr(e)[:300]}
    extra = {}
    for k in res.e_:
        v = res.e_[k]
        if k == "stages":
            extra[k] = [{kk: tolist(s[kk]) for kk in ("lp_status", "lp_objective", "lp_variables", "lp_values")}
                        for s in v]
        else:
            extra[k] = tolist(v)
    return {"alternatives": list(res.alternatives), "values": tolist(res.values),
            "method": res.method, "extra": extra,
            "input_alternatives": list(dm.alternatives)}


def method_case(rng, name, tier_big=False):
    """A decision problem inside the documented domain of the method."""
    from . import gen
    m = {"name": name}
    if name == "topsis":
        m["metric"] = rng.choice(TOPSIS_METRICS)
    kw = dict(nmax=14 if tier_big else 8, mmax=6, nmin=2, mmin=1)
    if name not in ("electre2", "simus", "multimoora"):
        kw["huge"] = 0.02      # a few problems with 65 .. 300 alternatives
    if name in ("wsm",):
        c = gen.dm_case(rng, omode="allmax", modes=("tiny012", "tiny123", "dyadic", "int", "float", "logfloat"), **kw)
        c["matrix"] = [[abs(x) for x in r] for r in c["matrix"]]
    elif name == "wpm":
        c = gen.dm_case(rng, omode="allmax", positive=True, **kw)
    elif name in ("fmf", "multimoora"):
        c = gen.dm_case(rng, positive=True, **kw)
    elif name in ("electre1", "electre2"):
        kw2 = dict(kw)
        if name == "electre2" and rng.random() < 0.6:
            kw2.update(nmin=6, nmax=max(kw["nmax"], 10))   # >=3 distillation rounds need several alternatives
        c = gen.dm_case(rng, wmode="sum1", modes=("tiny012", "tiny123", "dyadic", "int"), **kw2)
        grid = [k / 8.0 for k in range(9)]
        if name == "electre1":
            if rng.random() < 0.3:
                m.update(p=0.65, q=0.35)
            else:
                m.update(p=rng.choice(grid), q=rng.choice(grid))
        else:
            if rng.random() < 0.3:
                pass
            else:
                ps = sorted(rng.choices(grid, k=3), reverse=True)
                qs = sorted(rng.choices(grid, k=2), reverse=True)
                m.update(p0=ps[0], p1=ps[1], p2=ps[2], q0=qs[0], q1=qs[1])
    elif name == "simus":
        c = gen.dm_case(rng, positive=True, nmax=14 if tier_big else 6, mmax=4, nmin=2, mmin=2,
                        modes=("tiny123", "int", "dyadic"))
        # at least two maximise criteria
        objs = c["objectives"]
        idx = rng.sample(range(len(objs)), 2)
        for i in idx:
            objs[i] = 1
        m["rank_by"] = rng.choice([1, 2])
    else:
        c = gen.dm_case(rng, **kw)
    if name in ("wsm", "ratio", "wpm", "fmf") and len(c["matrix"]) >= 3 and len(c["weights"]) >= 3 \
            and len(c["matrix"]) < 60 and rng.random() < 0.07:
        # two alternatives whose scores are equal on paper but are added up in another order (equal weights, one row a
        # permutation of the other, all criteria of one sense): the reported scores may differ in the last bit, and
        # the ranking must follow the scores as reported; a third alternative is far ahead
        m_ = len(c["weights"])
        c["weights"] = [1.0] * m_
        c["objectives"] = [1] * m_
        i, j, k = rng.sample(range(len(c["matrix"])), 3)
        row = [rng.uniform(0.05, 1.0) for _ in range(m_)]
        perm = row[:]
        rng.shuffle(perm)
        c["matrix"][i], c["matrix"][j] = row, perm
        c["matrix"][k] = [3.0 * x + 1.0 for x in row]
        c["tags"] = list(c["tags"]) + ["permuted_row"]
        c["mode"] = "float"          # (not an exactly representable problem any more)
        c.pop("dtypes", None)
    if name in ("wpm", "fmf", "wsm", "ratio") and rng.random() < 0.08:
        # weights need not be small: hundreds, as when points out of 1000 are distributed
        k = rng.choice([64.0, 128.0])
        c["weights"] = [w * k for w in c["weights"]]
        c["tags"] = list(c["tags"]) + ["large_weights"]
    c["method"] = m
    return c


def ladder_case(rng, name, n=None):
    """A long chain: every alternative beats the next one on every criterion, so that the numbers of alternatives
    which beat / outrank a given one run through 0 .. n-1 (beyond 255 and 256), rows in random order."""
    c = method_case(rng, name)
    n = n or rng.choice([130, 257, 258, 300])
    m = len(c["objectives"])
    step = [rng.choice([1.0, 2.0, 0.5]) for _ in range(m)]
    rows = [[(1.0 + (n - i) * step[j]) if c["objectives"][j] == 1 else (1.0 + i * step[j]) for j in range(m)]
            for i in range(n)]
    rng.shuffle(rows)
    c["matrix"] = rows
    c["alternatives"] = [f"L{i}" for i in range(n)]
    c["mode"] = "ladder"
    c["tags"] = ["ladder"]
    c.pop("dtypes", None)
    return c


def short_numbers(xs, bits=40):
    """True when every float is a ratio of two integers of at most `bits` bits (cheap for the exact model)."""
    for x in xs:
        if x != x or abs(x) == float("inf"):
            return False
        a, b = float(x).as_integer_ratio()
        if abs(a).bit_length() > bits or b.bit_length() > bits:
            return False
    return True
