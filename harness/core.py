"""Shared machinery of the checks: proof step, model driver, verdict, evidence."""
import hashlib
import json
import os
import random
import re
import subprocess
import sys
import time

from . import val as V

VERIF = os.path.dirname(os.path.dirname(os.path.abspath(__file__)))
REPO = os.environ.get("SKC_REPO", "/repo")
COQ = os.path.join(VERIF, "coq")
DRIVER = os.path.join(VERIF, "ocaml", "skcmodel")
NCPU = min(16, os.cpu_count() or 1)

FORBIDDEN = re.compile(
    r"\b(Admitted|admit|Axiom|Axioms|Parameter|Parameters|Conjecture|Conjectures|"
    r"Unset\s+Guard|bypass_check|Admit\s+Obligations|type-in-type|"
    r"impredicative-set|native_compute)\b"
)


def strip_coq_comments(text):
    out, depth, i = [], 0, 0
    while i < len(text):
        if text.startswith("(*", i):
            depth += 1
            i += 2
        elif text.startswith("*)", i) and depth:
            depth -= 1
            i += 2
        else:
            if not depth:
                out.append(text[i])
            i += 1
    return "".join(out)


def lint_coq():
    """Fail-closed scan of the development for escape hatches."""
    bad = []
    for root, _dirs, files in os.walk(COQ):
        for f in files:
            if not f.endswith(".v"):
                continue
            p = os.path.join(root, f)
            src = strip_coq_comments(open(p).read())
            for m in FORBIDDEN.finditer(src):
                bad.append(f"{os.path.relpath(p, COQ)}: {m.group(0)}")
            # Variable/Hypothesis outside a Section
            depth = 0
            for line in src.splitlines():
                s = line.strip()
                if re.match(r"Section\b", s):
                    depth += 1
                elif re.match(r"End\b", s) and depth:
                    depth -= 1
                elif re.match(r"(Variable|Variables|Hypothesis|Hypotheses|Context)\b", s) and depth == 0:
                    bad.append(f"{os.path.relpath(p, COQ)}: {s[:40]} outside a Section")
    proj = open(os.path.join(COQ, "_CoqProject")).read()
    for flag in ("-type-in-type", "-impredicative-set", "-vos", "-vok"):
        if flag in proj:
            bad.append(f"_CoqProject: {flag}")
    return bad


class ProofResult:
    def __init__(self):
        self.ok = False
        self.obligations = 0
        self.discharged = 0
        self.theorems = []
        self.assumptions = {}
        self.axioms = []
        self.log = ""
        self.lint = []
        self.cmd = ""
        self.coqchk = None      # thorough tier: {"ok": bool, "axioms": [...], "wall_s": float}


def run_proofs(prop):
    """Re-check Props/<prop>.v (and whatever it depends on) with coqc."""
    res = ProofResult()
    pfile = os.path.join(COQ, "Props", f"{prop}.v")
    src = strip_coq_comments(open(pfile).read())
    res.theorems = re.findall(r"^\s*Theorem\s+(\w+)", src, flags=re.M)
    res.obligations = len(res.theorems)
    res.lint = lint_coq()
    res.cmd = (f"make -C coq -j{NCPU} Props/{prop}.vo  &&  coqc -Q coq SKC coq/Props/{prop}.v "
               "(Print Assumptions under every theorem)")
    t0 = time.time()
    mk = subprocess.run(
        ["timeout", "900", "make", "-C", COQ, f"-j{NCPU}", f"Props/{prop}.vo"],
        capture_output=True, text=True)
    res.log = mk.stdout[-4000:] + mk.stderr[-4000:]
    if mk.returncode != 0:
        res.ok = False
        return res
    # re-run coqc on the property file itself to capture Print Assumptions
    cc = subprocess.run(
        ["timeout", "600", "coqc", "-Q", COQ, "SKC", "-o", os.path.join(VERIF, "work", f"{prop}.vo"), pfile],
        capture_output=True, text=True)
    res.log += cc.stdout[-20000:] + cc.stderr[-4000:]
    if cc.returncode != 0:
        return res
    # parse Print Assumptions output: blocks start with "Axioms:" or "Closed under the global context"
    out = cc.stdout
    blocks = re.split(r"(?=^Axioms:|^Closed under the global context)", out, flags=re.M)
    blocks = [b for b in blocks if b.startswith("Axioms:") or b.startswith("Closed under")]
    axioms = set()
    for thm, blk in zip(res.theorems, blocks):
        if blk.startswith("Closed"):
            res.assumptions[thm] = []
        else:
            names = re.findall(r"^([A-Za-z_][\w.']*)\s*:", blk[len("Axioms:"):], flags=re.M)
            res.assumptions[thm] = names
            axioms.update(names)
    res.axioms = sorted(axioms)
    res.discharged = len(res.theorems) if len(blocks) >= len(res.theorems) else len(blocks)
    res.ok = (res.discharged == res.obligations and not res.lint and res.obligations > 0)
    res.wall = time.time() - t0
    return res


def run_coqchk(prop):
    """Independent re-check of the compiled property file and everything it depends on (thorough tier)."""
    t0 = time.time()
    cc = subprocess.run(["timeout", "1500", "coqchk", "-silent", "-o", "-Q", COQ, "SKC", f"SKC.Props.{prop}"],
                        capture_output=True, text=True)
    out = cc.stdout + cc.stderr
    axioms, bad = [], []
    m = re.search(r"\* Axioms:(.*?)\n\s*\n\s*\*", out, flags=re.S)
    if m:
        axioms = [x.strip() for x in m.group(1).split("\n") if x.strip() and x.strip() != "<none>"]
    for key in ("type-in-type", "unsafe (co)fixpoints", "positivity is assumed"):
        mm = re.search(re.escape(key) + r":(.*?)\n\s*\n", out + "\n\n", flags=re.S)
        if mm and mm.group(1).strip() not in ("<none>", ""):
            bad.append(key + ": " + mm.group(1).strip())
    ok = cc.returncode == 0 and "CONTEXT SUMMARY" in out and not bad
    return {"ok": ok, "axioms": axioms, "unsafe": bad, "wall_s": round(time.time() - t0, 1),
            "cmd": f"coqchk -silent -o -Q coq SKC SKC.Props.{prop}", "tail": "" if ok else out[-1500:]}


ALLOWED_AXIOMS = {
    "Coq.Logic.FunctionalExtensionality.functional_extensionality_dep",
    "Coq.Reals.ClassicalDedekindReals.sig_not_dec",
    "Coq.Reals.ClassicalDedekindReals.sig_forall_dec",
    "Coq.Logic.Classical_Prop.classic",
}


class Model:
    """Batch interface to the extracted model."""

    def __init__(self):
        self.calls = 0
        self.sample = []
        self._seen = 0
        self._rs = random.Random(12345)

    def batch(self, calls, shards=NCPU):
        """calls: list of (fn, python value) -> list of decoded python values."""
        if not calls:
            return []
        self.calls += len(calls)
        lines = [fn + " " + V.enc(arg) for fn, arg in calls]
        nsh = max(1, min(shards, len(lines) // 8 or 1))
        chunks = [lines[i::nsh] for i in range(nsh)]
        procs = []
        for ch in chunks:
            p = subprocess.Popen(["bash", "-c", f"ulimit -s unlimited 2>/dev/null; exec {DRIVER}"],
                                 stdin=subprocess.PIPE, stdout=subprocess.PIPE, text=True)
            procs.append(p)
        outs = []
        # write then read each (pipes are large enough only for small inputs → use communicate in threads)
        import threading
        results = [None] * nsh

        def work(k):
            o, _ = procs[k].communicate("\n".join(chunks[k]) + "\n")
            results[k] = o.splitlines()

        ths = [threading.Thread(target=work, args=(k,)) for k in range(nsh)]
        for t in ths:
            t.start()
        for t in ths:
            t.join()
        outs = [None] * len(lines)
        for k in range(nsh):
            idxs = list(range(k, len(lines), nsh))
            if len(results[k]) != len(idxs):
                raise RuntimeError(f"model driver returned {len(results[k])} lines for {len(idxs)} calls")
            for i, o in zip(idxs, results[k]):
                outs[i] = V.dec(o)
        # a reservoir of small calls for the generic vm_compute cross-check of the thorough tier
        for (fn, arg), ln, out in zip(calls, lines, outs):
            if len(ln) <= 3000:
                self._seen += 1
                if len(self.sample) < 400:
                    self.sample.append(((fn, arg), out))
                else:
                    j = self._rs.randrange(self._seen)
                    if j < 400:
                        self.sample[j] = ((fn, arg), out)
        return outs

    def one(self, fn, arg):
        return self.batch([(fn, arg)], shards=1)[0]

    def vm_compute(self, calls):
        """Cross-check: evaluate the same calls inside Coq with vm_compute.
        Returns the list of booleans 'kernel result == extracted result'."""
        raise NotImplementedError


def coq_term(x):
    """Python value -> Coq term of type val (for cases.v)."""
    from fractions import Fraction
    import numpy as np
    if isinstance(x, (bool, np.bool_)):
        return "VB true" if x else "VB false"
    if isinstance(x, (int, np.integer)):
        return f"VZ ({int(x)})%Z"
    if isinstance(x, (float, np.floating)):
        x = Fraction(float(x))
    if isinstance(x, Fraction):
        return f"VQ (Qmake ({x.numerator})%Z ({x.denominator})%positive)"
    if isinstance(x, V.Err):
        return f"VE ({x.code})%Z"
    if x is None:
        return "VL []"
    if isinstance(x, (list, tuple, np.ndarray)):
        return "VL [" + "; ".join(coq_term(y) for y in x) + "]"
    raise TypeError(type(x))


def vm_crosscheck(calls, expected, tag):
    """Evaluate dispatch on the given calls inside Coq (vm_compute) and compare
    with the values the extracted driver produced.  Returns number of mismatches
    (and -1 if coqc failed)."""
    work = os.path.join(VERIF, "work")
    os.makedirs(work, exist_ok=True)
    path = os.path.join(work, f"cases_{tag}.v")
    with open(path, "w") as f:
        f.write("From Coq Require Import ZArith QArith List String Bool.\n"
                "From SKC Require Import Model.Val Model.Dispatch Model.ValEq.\n"
                "Import ListNotations.\nLocal Open Scope string_scope.\n")
        f.write("Definition cases : list (string * val * val) := [\n")
        f.write(";\n".join(f'  ("{fn}", {coq_term(arg)}, {coq_term(exp)})'
                           for (fn, arg), exp in zip(calls, expected)))
        f.write("].\n")
        f.write("Definition bad := filter (fun c => negb (val_eqb (dispatch (fst (fst c)) (snd (fst c))) (snd c))) cases.\n")
        f.write("Eval vm_compute in (List.length cases, List.length bad).\n")
    r = subprocess.run(["bash", "-c", f"ulimit -s unlimited 2>/dev/null; timeout 600 coqc -Q {COQ} SKC {path}"],
                       capture_output=True, text=True)
    for ext in (".vo", ".vok", ".vos", ".glob"):
        try:
            os.remove(path[:-2] + ext)
        except OSError:
            pass
    try:
        os.remove(os.path.join(work, f".cases_{tag}.aux"))
    except OSError:
        pass
    if r.returncode != 0:
        return -1, r.stderr[-2000:]
    m = re.search(r"=\s*\((\d+)%?\w*,\s*(\d+)%?\w*\)", r.stdout)
    if not m:
        return -1, r.stdout[-2000:]
    os.remove(path)
    return int(m.group(2)), ""


class Ctx:
    def __init__(self, prop, tier, seed):
        self.prop = prop
        self.tier = tier
        self.seed = seed
        self.rng = random.Random(f"{prop}:{seed}")
        self.model = Model()
        self.t0 = time.time()
        self.evaluations = 0
        self.nontrivial = set()
        self.samples = []
        self.hist = {}
        self.disagreements = []   # (case, detail)
        self.oracle_failures = []  # (case, detail)
        self.known = {}           # finding id -> message
        self.violations = []      # (replay path, suffix)
        self.notes = []
        self.traces_validated = 0
        self.vm_checked = 0
        self.rule = ""
        self.exhaustive = None
        self.findings = json.load(open(os.path.join(VERIF, "known_findings.json")))["findings"]

    # ---- scale ---------------------------------------------------------
    def n(self, quick, thorough):
        if self.tier == "thorough" or self.changed:
            return thorough
        return quick

    @property
    def changed(self):
        return getattr(self, "_changed", False)

    # ---- bookkeeping ---------------------------------------------------
    def count(self, key, k=1):
        self.hist[key] = self.hist.get(key, 0) + k

    def case_seen(self, case, nontrivial, sample_every=0):
        self.evaluations += 1
        if isinstance(case, dict) and isinstance(case.get("matrix"), list) and "criteria" in case and "objectives" in case:
            try:   # how the decision matrix of this case was obtained (impl.mk) and whether it has integer criteria
                from . import impl as _I
                self.count("matrix_built_by:" + _I.mk_route(case))
                if case.get("dtypes") and any(t == "int64" for t in case["dtypes"] if isinstance(t, str)):
                    self.count("matrix_with_integer_criteria")
            except Exception:  # noqa: BLE001
                pass
        if nontrivial:
            h = hashlib.sha1(json.dumps(V.jsonable(case), sort_keys=True).encode()).hexdigest()
            self.nontrivial.add(h)
        if len(self.samples) < 3 and nontrivial:
            self.samples.append(V.jsonable(case))

    def disagree(self, case, detail):
        self.disagreements.append((case, detail))

    def oracle_fail(self, case, detail):
        self.oracle_failures.append((case, detail))

    # ---- known findings --------------------------------------------------
    def known_finding(self, fid, what):
        """Report a failing case that matches a committed known finding."""
        for f in self.findings:
            if f["id"] == fid and f["status"] == "known" and f["property"] == self.prop:
                self.known.setdefault(fid, what)
                return True
        return False

    def write_replay(self, kind, case, detail):
        d = os.path.join(VERIF, "evidence", "replay")
        os.makedirs(d, exist_ok=True)
        k = len(self.violations)
        path = os.path.join(d, f"{self.prop}-{self.seed}-{k}.json")
        with open(path, "w") as f:
            json.dump({"property": self.prop, "kind": kind, "seed": self.seed, "tier": self.tier,
                       "case": V.jsonable(case), "detail": V.jsonable(detail)}, f, indent=1)
        return path
