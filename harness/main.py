"""Entry point:  check <Cxx> quick|thorough   |   check <Cxx> --replay <file>."""
import hashlib
import importlib
import json
import os
import sys
import time
import traceback
import warnings

warnings.filterwarnings("ignore")

from . import core
from . import val as V

TRUSTED_COMMON = [
    "Coq 8.16.1 kernel (coqc); vm_compute only inside finite-enumeration proofs and the thorough-tier cross-check; no native_compute",
    "no Axiom/Parameter/Admitted in the development (lint on every run); axioms reported below come from the Coq standard library",
    "extraction: ExtrOcamlBasic directives only (bool, option, unit, list, prod, sumbool, sumor, andb/orb inlined); Z/positive/nat/Q are the extracted Coq datatypes; OCaml 4.13.1 + ocaml/driver.ml (parser/printer)",
    "correspondence harness (Python): generators, canonicalisation, comparison margins, oracles, known-finding matcher",
    "hand-written model: the tie to /repo is the differential correspondence executed by this run, not a proof",
]


def anchors_changed(prop):
    p = os.path.join(core.VERIF, "harness", "anchors.json")
    try:
        rec = json.load(open(p)).get(prop, {})
    except OSError:
        return False
    for rel, h in rec.items():
        try:
            cur = hashlib.sha1(open(os.path.join(core.REPO, rel), "rb").read()).hexdigest()
        except OSError:
            return True
        if cur != h:
            return True
    return False


def write_evidence(ctx, pr, wall, nviol):
    cov = {
        "obligations": pr.obligations,
        "discharged": pr.discharged,
        "checker_cmd": pr.cmd,
        "trusted_base": TRUSTED_COMMON + [
            "axioms under the property theorems (Print Assumptions): "
            + (", ".join(pr.axioms) if pr.axioms else "none — closed under the global context")
        ] + list(getattr(ctx, "trusted_extra", [])),
        "theorems": pr.theorems,
        "assumptions_per_theorem": pr.assumptions,
        "lint_findings": pr.lint,
        "coqchk": pr.coqchk if pr.coqchk is not None else "not run in the quick tier",
        "evaluations": ctx.evaluations,
        "distinct_nontrivial": len(ctx.nontrivial),
        "rule": ctx.rule,
        "samples": ctx.samples[:3] if ctx.samples else [{"note": "no sample recorded"}],
        "traces_validated_against_impl": ctx.traces_validated,
        "model_calls": ctx.model.calls,
        "vm_compute_crosschecked": ctx.vm_checked,
        "input_distribution": ctx.hist,
        "disagreements": len(ctx.disagreements),
        "oracle_failures": len(ctx.oracle_failures),
        "known_findings_seen": sorted(ctx.known),
        "anchors_changed_since_pin": ctx.changed,
        "notes": ctx.notes,
    }
    if ctx.exhaustive is not None:
        cov["exhaustive"] = bool(ctx.exhaustive)
    ev = {
        "property_id": ctx.prop,
        "tier": ctx.tier,
        "seed": ctx.seed,
        "level": "proof",
        "coverage": cov,
        "assumptions": list(getattr(ctx, "assumptions", [])),
        "wall_s": round(wall, 2),
        "violations": nviol,
    }
    os.makedirs(os.path.join(core.VERIF, "evidence"), exist_ok=True)
    with open(os.path.join(core.VERIF, "evidence", f"{ctx.prop}.json"), "w") as f:
        json.dump(ev, f, indent=1, sort_keys=True)


def main(argv):
    if len(argv) < 2:
        print("usage: check <Cxx> quick|thorough | check <Cxx> --replay <file>")
        return 2
    prop = argv[0].upper()
    mod = importlib.import_module(f"harness.props.{prop.lower()}")
    seed = int(os.environ.get("VERIF_SEED", "0") or 0)
    if argv[1] == "--replay":
        rep = json.load(open(argv[2]))
        ctx = core.Ctx(prop, "quick", rep.get("seed", 0))
        return mod.replay(ctx, rep)
    # library warnings (deprecations re-enabled by skcriteria itself) go to a log file
    os.makedirs(os.path.join(core.VERIF, "work"), exist_ok=True)
    errlog = os.open(os.path.join(core.VERIF, "work", f"{prop}.stderr"), os.O_WRONLY | os.O_CREAT | os.O_TRUNC)
    os.dup2(errlog, 2)
    tier = argv[1]
    if tier not in ("quick", "thorough"):
        tier = os.environ.get("VERIF_TIER", "quick")
    t0 = time.time()
    import glob
    for old in glob.glob(os.path.join(core.VERIF, "evidence", "replay", f"{prop}-*.json")):
        os.remove(old)
    ctx = core.Ctx(prop, tier, seed)
    ctx._changed = anchors_changed(prop)
    # 1. proof obligations
    pr = core.run_proofs(prop)
    chk_thread = None
    if tier == "thorough" and pr.ok:
        import threading
        # fork the worker pool BEFORE the checker thread opens its pipes: a worker forked while subprocess.Popen is
        # between creating a pipe and closing its own end would keep that end open, and the thread would wait for
        # an end-of-file that never comes
        from . import impl as _impl
        _impl.pool()

        def _chk():
            pr.coqchk = core.run_coqchk(prop)
        chk_thread = threading.Thread(target=_chk)
        chk_thread.start()
    # 2/3. corpus + correspondence (+ oracles)
    from . import impl as _impl_mod
    crashed = None
    try:
        mod.run(ctx)
    except _impl_mod.WorkerCrash as e:
        # a case on which the interpreter itself dies (memory corrupted through an object that the library handed
        # out, ...): reported with the case
        ctx.oracle_fail(e.item if isinstance(e.item, dict) else {"item": repr(e.item)[:2000]},
                        {"oracle": str(e), "status": e.status})
    except Exception:  # harness crash = broken correspondence, reported as such
        crashed = traceback.format_exc()
    if tier == "thorough" and not crashed and ctx.vm_checked == 0 and ctx.model.sample:
        # every property: a sample of the calls answered by the extracted model is re-evaluated inside Coq
        sm = ctx.model.sample[:150]
        try:
            bad, msg = core.vm_crosscheck([c for c, _ in sm], [o for _, o in sm], prop)
            ctx.vm_checked = len(sm)
            if bad != 0:
                ctx.disagree({"calls": [c[0] for c, _ in sm][:5]}, {"vm_compute_vs_extraction": bad, "msg": msg})
        except Exception:  # noqa: BLE001
            crashed = traceback.format_exc()
    if chk_thread is not None:
        chk_thread.join()
        extra = [a for a in pr.coqchk["axioms"] if a not in core.ALLOWED_AXIOMS]
        if not pr.coqchk["ok"] or extra:
            pr.ok = False
            pr.log += "\ncoqchk: " + json.dumps(pr.coqchk)[:2500] + (f"\naxioms outside the stated trusted base: {extra}" if extra else "")
    # 4. verdict
    lines = []
    for fid, what in sorted(ctx.known.items()):
        lines.append(f"KNOWN-FINDING: property={prop} {what}")
    seen = set()
    for case, detail in ctx.oracle_failures[:3]:
        path = ctx.write_replay("oracle_failure", case, detail)
        ctx.violations.append(path)
        lines.append(f"VIOLATION property={prop} replay={path}")
    if not ctx.oracle_failures:
        if ctx.disagreements:
            case, detail = ctx.disagreements[0]
            path = ctx.write_replay("correspondence", case, {
                "what": "model and implementation disagree; the property oracle found no failing input "
                        "on this case nor on the rest of the generated stream",
                "detail": detail, "n_disagreements": len(ctx.disagreements)})
            ctx.violations.append(path)
            lines.append(f"VIOLATION property={prop} replay={path} no-failing-input-found")
        if not pr.ok:
            path = ctx.write_replay("proof", None, {
                "what": "proof obligations no longer check",
                "theorems": pr.theorems, "discharged": pr.discharged, "lint": pr.lint,
                "log_tail": pr.log[-3000:]})
            ctx.violations.append(path)
            lines.append(f"VIOLATION property={prop} replay={path} no-failing-input-found")
        if crashed:
            path = ctx.write_replay("harness_crash", None, {"traceback": crashed})
            ctx.violations.append(path)
            lines.append(f"VIOLATION property={prop} replay={path} no-failing-input-found")
    wall = time.time() - t0
    for f in glob.glob(os.path.join(core.VERIF, "work", "stack_*.txt")):
        try:
            if os.path.getsize(f) == 0:
                os.remove(f)
        except OSError:
            pass
    write_evidence(ctx, pr, wall, len(ctx.violations))
    for ln in lines:
        print(ln)
    print(f"[{prop} {tier} seed={seed}] theorems {pr.discharged}/{pr.obligations} "
          f"evaluations={ctx.evaluations} nontrivial={len(ctx.nontrivial)} "
          f"disagreements={len(ctx.disagreements)} oracle_failures={len(ctx.oracle_failures)} "
          f"known={len(ctx.known)} wall={wall:.1f}s")
    return 1 if ctx.violations else 0


if __name__ == "__main__":
    sys.exit(main(sys.argv[1:]))
