"""Catalogue of the built-in transformers (skcriteria.preprocessing) with their
parameter grids, the model 'kind' they belong to and helpers to run them."""
import importlib
import zlib
import inspect
import pkgutil
import warnings

import numpy as np

from . import impl as I

warnings.filterwarnings("ignore")

# kind codes (coq/Model/Dispatch.v kind_of): 0 scaler/matrix 1 scaler/weights 2 scaler/both
# 3 cenit 4 inverter 5 weighter 6 filter 7 imputer
TARGET_KIND = {"matrix": 0, "weights": 1, "both": 2}
PARTS = ["alternatives", "criteria", "objectives", "weights", "matrix"]

SCALERS = ["SumScaler", "VectorScaler", "MaxAbsScaler", "MaxScaler", "MinMaxScaler", "StandarScaler",
           "PushNegatives", "AddValueToZero"]
SIMPLE = {"CenitDistanceMatrixScaler": 3, "CenitDistance": 3, "NegateMinimize": 4, "InvertMinimize": 4,
          "MinimizeToMaximize": 4, "EqualWeighter": 5, "StdWeighter": 5, "EntropyWeighter": 5, "CRITIC": 5,
          "Critic": 5}
FILTERS = ["Filter", "FilterGT", "FilterGE", "FilterLT", "FilterLE", "FilterEQ", "FilterNE", "FilterIn",
           "FilterNotIn", "FilterNonDominated"]
IMPUTERS = ["SimpleImputer", "KNNImputer", "IterativeImputer"]
ALL_CLASSES = SCALERS + list(SIMPLE) + FILTERS + IMPUTERS

RANGES = [(0.0, 1.0), (1.0, 2.0), (-1.0, 1.0), (-2.0, -1.0), (0.0, 10.0), (-10.0, -0.5),
          # (pairs that differ only by -1 / -2, whose hashes coincide in CPython, and by int / float spelling)
          (-2.0, 1.0), (-1, 1), (0, 1)]


def introspect():
    """All non-abstract transformer classes defined under skcriteria.preprocessing."""
    import skcriteria.preprocessing as P
    from skcriteria.preprocessing import SKCTransformerABC
    seen = set()
    for m in pkgutil.iter_modules(P.__path__):
        mod = importlib.import_module("skcriteria.preprocessing." + m.name)
        for n, c in inspect.getmembers(mod, inspect.isclass):
            if (issubclass(c, SKCTransformerABC) and not vars(c).get("_skcriteria_abstract_class", False)
                    and c.__module__ == mod.__name__):
                seen.add(n)
    return seen


def find_class(name):
    import skcriteria.preprocessing as P
    for m in pkgutil.iter_modules(P.__path__):
        mod = importlib.import_module("skcriteria.preprocessing." + m.name)
        if hasattr(mod, name) and getattr(getattr(mod, name), "__module__", "") == mod.__name__:
            return getattr(mod, name)
    raise KeyError(name)


def config(rng, name, criteria=None):
    """Random parameterisation of the named class -> {'cls', 'params', 'kind'}."""
    p = {}
    if name in SCALERS:
        p["target"] = rng.choice(["matrix", "weights", "both"])
        if name == "MinMaxScaler":
            p["clip"] = rng.random() < 0.5
            p["criteria_range"] = list(rng.choice(RANGES))
        if name == "StandarScaler":
            p["with_mean"] = rng.random() < 0.5
            p["with_std"] = rng.random() < 0.5
        if name == "AddValueToZero":
            p["value"] = rng.choice([1.0, 0.5, 0.125, 2.0])
        return {"cls": name, "params": p, "kind": TARGET_KIND[p["target"]]}
    if name in SIMPLE:
        if name == "EqualWeighter":
            p["base_value"] = rng.choice([1.0, 2.0, 0.5, 10.0])
        if name in ("CRITIC", "Critic"):
            p["correlation"] = rng.choice(["pearson", "spearman"])
            p["scale"] = rng.random() < 0.6
        return {"cls": name, "params": p, "kind": SIMPLE[name]}
    if name in FILTERS:
        if name == "FilterNonDominated":
            p["strict"] = rng.random() < 0.5
        return {"cls": name, "params": p, "kind": 6}
    if name in IMPUTERS:
        if name == "SimpleImputer":
            p["strategy"] = rng.choice(["mean", "median", "most_frequent", "constant"])
            if p["strategy"] == "constant" and rng.random() < 0.7:
                p["fill_value"] = rng.choice([0.0, -1.0, 7.5])      # (left out: the documented default constant, 0)
            elif rng.random() < 0.3:
                p["fill_value"] = rng.choice([0.0, -1.0, 7.5])     # only used by the "constant" strategy
        if name == "KNNImputer":
            p["n_neighbors"] = rng.choice([1, 2, 3, 5])
            p["weights"] = rng.choice(["uniform", "distance"])
        if name == "IterativeImputer":
            p["max_iter"] = rng.choice([1, 3, 10])
            p["initial_strategy"] = rng.choice(["mean", "median", "most_frequent"])
            p["random_state"] = rng.choice([0, 1, 42])
        return {"cls": name, "params": p, "kind": 7}
    raise KeyError(name)


def _gt2(v):
    return v > 2


def _le3(v):
    return v <= 3


def _ne1(v):
    return v != 1


def _pos(v):
    return v > 0


def _gt2_int(v):
    return np.asarray(v > 2).astype(int)


def _le3_int(v):
    return np.asarray(v <= 3) * 1


def _ne1_int(v):
    return np.asarray(v != 1).astype(np.uint8)


def _pos_int(v):
    return np.asarray(v > 0).astype(np.int64)


# function filters (Filter): a fixed palette mirrored by the oracles (named functions: they can be pickled); the
# "_int" spellings answer with 0/1 integers instead of booleans (`(v > 2) * 1`), which the library reads as truth values
PALETTE = {"gt2": _gt2, "le3": _le3, "ne1": _ne1, "pos": _pos,
           "gt2_int": _gt2_int, "le3_int": _le3_int, "ne1_int": _ne1_int, "pos_int": _pos_int}


def _near_best(v):
    """A condition on the criterion as a whole: within 2 of its best value (it cannot be evaluated on an empty
    criterion - the library then refuses, and must go on refusing)."""
    return v >= v.max() - 2


# functions that only C20 uses (they are not mirrored by the Coq palette)
EXTRA_FUNCS = {"near_best": _near_best}


def build(cfg, conditions=None):
    cls = find_class(cfg["cls"])
    p = dict(cfg["params"])
    if "criteria_range" in p:
        p["criteria_range"] = tuple(p["criteria_range"])
    if cfg["cls"] in FILTERS and cfg["cls"] != "FilterNonDominated":
        conds = conditions if conditions is not None else cfg.get("conditions", [])
        if cfg["cls"] == "Filter":
            d = {c: (PALETTE.get(v) or EXTRA_FUNCS[v]) for c, v in conds}
        elif cfg["cls"] in ("FilterIn", "FilterNotIn"):
            # the collection of admitted values, in any of the container types a caller may hold it in
            box = {"list": list, "tuple": tuple, "set": set, "frozenset": frozenset,
                   "ndarray": lambda v: np.asarray(list(v), dtype=float)}[cfg.get("container", "list")]
            d = {c: box(v) for c, v in conds}
        else:
            d = {c: v for c, v in conds}
        obj = I.variant(cls, {"ignore_missing_criteria": cfg.get("ignore_missing", False)}, [cfg["cls"], repr(conds)],
                        first_positional=d)
        # the caller goes on using HIS dictionary (and the lists in it): the filter that was built must not notice
        for k in list(d):
            if isinstance(d[k], list):
                d[k].append(-12345.5)
                d[k][0] = -777.25
            d[k] = _pos if cfg["cls"] == "Filter" else ([-1.0] if cfg["cls"] in ("FilterIn", "FilterNotIn") else -1e9)
        d["no such criterion"] = d[next(iter(d))] if d else 0.0
        return obj
    rng_list = None
    if isinstance(p.get("criteria_range"), tuple) and zlib.crc32(repr(cfg).encode()) & 1:
        rng_list = p["criteria_range"] = list(p["criteria_range"])      # a list the caller keeps (and edits below)
    obj = I.variant(cls, p, cfg)
    if rng_list is not None:
        rng_list[0], rng_list[1] = 50.0, 10.0
    return obj


def dump(dm):
    d = dm.to_dict()
    return {
        "alternatives": [str(a) for a in d["alternatives"]],
        "criteria": [str(c) for c in d["criteria"]],
        "objectives": [int(o) for o in d["objectives"]],
        "weights": np.asarray(d["weights"], dtype=float),
        "matrix": np.asarray(d["matrix"], dtype=float),
    }


def exact_cells(dm):
    """Every cell as an exact Python number (an int64 beyond 2**53 is not representable as a float)."""
    def one(x):
        x = x.item() if hasattr(x, "item") else x
        return "nan" if isinstance(x, float) and x != x else x
    return [[one(x) for x in row] for row in dm.matrix.to_numpy(dtype=object)]


def bits(a):
    return np.ascontiguousarray(np.asarray(a, dtype=float)).view(np.int64)


def run_transform(case):
    """case: dm fields + 'tf' config (+ 'nan' cells).  -> dumps before/after as plain lists."""
    I.set_salt(case.get("matrix"))
    try:
        t = build(case["tf"])
        if case.get("warm"):
            # the transformer object has been used before, on another matrix with the same criteria - a temporary
            # that is gone (and whose memory is free again) by the time the matrix of the case is built
            wm = np.array(case["warm"]["matrix"], dtype=float)
            for (i, j) in case["warm"].get("nan", []):
                wm[i, j] = np.nan
            try:
                t.transform(I.mkdm(wm, list(case["objectives"]), weights=list(case["weights"]), criteria=list(case["criteria"])))
            except Exception:  # noqa: BLE001
                pass
        if case.get("nan"):
            mtx = np.array(case["matrix"], dtype=float)
            for (i, j) in case.get("nan", []):
                mtx[i, j] = np.nan
            dm = I.mkdm(mtx, list(case["objectives"]), weights=list(case["weights"]),
                        alternatives=list(case["alternatives"]), criteria=list(case["criteria"]))
        else:
            dm = I.mk(case)        # direct or derived, float or integer-typed criteria
        before = dump(dm)
        exact_before = exact_cells(dm)
        out = t.transform(dm)
        after = dump(out)
        exact_after = exact_cells(out)
        again = dump(dm)
        exact_again = exact_cells(dm)
    except Exception as e:  # noqa: BLE001
        return {"error": I.exc_code(e), "exc": repr(e)[:300]}
    same_input = all(np.array_equal(bits(before[k]), bits(again[k])) if k in ("weights", "matrix")
                     else before[k] == again[k] for k in PARTS) and exact_before == exact_again
    return {
        "before": {k: (v.tolist() if isinstance(v, np.ndarray) else v) for k, v in before.items()},
        "after": {k: (v.tolist() if isinstance(v, np.ndarray) else v) for k, v in after.items()},
        "weights_bits_equal": bool(before["weights"].shape == after["weights"].shape and
                                   np.array_equal(bits(before["weights"]), bits(after["weights"]))),
        "matrix_bits_equal": bool(before["matrix"].shape == after["matrix"].shape and
                                  np.array_equal(bits(before["matrix"]), bits(after["matrix"])) and
                                  exact_before == exact_after),
        "input_untouched": bool(same_input),
        # the matrix that was built reports the numbers of the case (whatever the storage type of each criterion)
        "input_as_given": (bool(case.get("nan")) or bool(
            np.array_equal(before["matrix"], np.array(case["matrix"], dtype=float)))) and
        (not all(o in (1, -1) for o in case["objectives"]) or
         [int(o) for o in before["objectives"]] == [int(o) for o in case["objectives"]]),
    }
