"""C12 — preprocessing never reverses a preference between two alternatives."""
import numpy as np

from .. import gen
from .. import impl as I
from .. import transformers as T

RULE = ("random sequences of 1-4 order-preserving steps (SumScaler / VectorScaler / MaxAbsScaler while the data is "
        "positive; MinMaxScaler with lo<hi, StandarScaler, PushNegatives, AddValueToZero on any data; NegateMinimize on "
        "any data, InvertMinimize on positive data), applied one after another and also as one mkpipe pipeline, on "
        "matrices over the dyadic grid / small integers (distinct values differ by >= 2^-9 relative, so rounding cannot "
        "collapse them) with mixed objectives, ties and dominating pairs injected; the per-criterion sign of every "
        "oriented difference and dm.dominance.dominance(strict=False/True) after the steps are compared with those "
        "before and with the extracted model's dominance tables of the ORIGINAL matrix. non-trivial = the sequence "
        "changed the matrix and the matrix has >=3 alternatives with a tie or a dominating pair; distinct by hash")

ANY = ["MinMaxScaler", "StandarScaler", "PushNegatives", "AddValueToZero", "NegateMinimize"]
POS = ["SumScaler", "VectorScaler", "MaxAbsScaler", "InvertMinimize"]


def gen_case(rng):
    positive = rng.random() < 0.6
    c = gen.dm_case(rng, nmax=7, mmax=5, nmin=2, mmin=1, positive=positive,
                    modes=("dyadic", "int", "tiny123") if positive else ("dyadic", "int", "tiny012"), big=0.0,
                    int_dtypes=0.5)
    if rng.random() < 0.012:
        # hundreds of alternatives (more than any internal batch of 128 / 256 / 512 rows); preferences only, the
        # pairwise dominance tables of the accessor and of the model are not computed for these
        n = rng.choice([130, 257, 513, 600, 1025])
        m = len(c["weights"])
        c["matrix"] = gen.values(rng, n, m, "dyadic" if rng.random() < 0.5 else "int", positive=positive)
        if positive:
            c["matrix"] = [[abs(x) if x != 0 else 1.0 for x in r] for r in c["matrix"]]
        c["alternatives"] = [f"V{i}" for i in range(n)]
        c.pop("dtypes", None)
        c["vast"] = True
        c["tags"] = ["vast"]
    if not c.get("vast") and rng.random() < 0.12:
        # another unit of measurement (nano / pico): one criterion or all of them on a tiny scale; a power of two, so
        # the values stay exactly as far apart, relatively, as before
        m_ = len(c["weights"])
        cols = range(m_) if rng.random() < 0.4 else [rng.randrange(m_)]
        k = rng.choice([2.0 ** -30, 2.0 ** -40, 2.0 ** -34])
        for j in cols:
            for r in c["matrix"]:
                r[j] *= k
        c.pop("dtypes", None)
        c["tags"] = list(c["tags"]) + ["tiny_unit"]
    steps, pos = [], positive
    for _ in range(rng.randint(1, 4)):
        name = rng.choice(ANY + (POS if pos else []))
        cfg = T.config(rng, name)
        if "target" in cfg["params"]:
            cfg["params"]["target"] = rng.choice(["matrix", "both"]) if name != "StandarScaler" else "matrix"
        if name == "StandarScaler":
            cfg["params"]["with_std"] = True if rng.random() < 0.8 else cfg["params"]["with_std"]
        steps.append(cfg)
        if name in ("StandarScaler", "PushNegatives"):
            pos = pos and name == "PushNegatives"
        elif name == "MinMaxScaler":
            pos = cfg["params"]["criteria_range"][0] > 0
        elif name == "NegateMinimize":
            pos = pos and all(o == 1 for o in c["objectives"])
        elif name == "AddValueToZero":
            pos = pos
    c["steps"] = steps
    return c


def signs(objs, mtx):
    m = np.asarray(mtx, dtype=float)
    d = m[:, None, :] - m[None, :, :]
    return (np.sign(d) * np.asarray(objs)[None, None, :]).astype(np.int8)


def first_sign_change(b, a):
    w = np.argwhere(b != a)
    if len(w) == 0:
        return None
    x, y, j = (int(v) for v in w[0])
    return x, y, j, int(b[x, y, j]), int(a[x, y, j])


def run_impl(case):
    try:
        from skcriteria.pipeline import mkpipe
        I.set_salt(case.get("matrix"))
        dm = I.mk(case)
        vast = bool(case.get("vast"))

        def dom(d, strict):
            return [] if vast else d.dominance.dominance(strict=strict).to_numpy().tolist()
        sb = signs(case["objectives"], case["matrix"])
        before = {"dom0": dom(dm, False), "dom1": dom(dm, True)}
        cur = dm
        objs_hist = [[int(o) for o in cur.iobjectives.to_numpy()]]
        for cfg in case["steps"]:
            cur = T.build(cfg).transform(cur)
            objs_hist.append([int(o) for o in cur.iobjectives.to_numpy()])
        after = {"sign_change": first_sign_change(sb, signs(objs_hist[-1], cur.matrix.to_numpy())),
                 "dom0": dom(cur, False), "dom1": dom(cur, True),
                 "matrix": cur.matrix.to_numpy().tolist(), "objectives": objs_hist[-1]}
        # the same steps as one pipeline (a pipeline needs a decision maker at the end: use its transform())
        from skcriteria.agg.simple import WeightedSumModel
        pipe = mkpipe(*[T.build(cfg) for cfg in case["steps"]], WeightedSumModel())
        pm = pipe.transform(dm)
        after["pipe_same"] = bool(np.array_equal(T.bits(pm.matrix.to_numpy()), T.bits(cur.matrix.to_numpy()))
                                  and list(pm.iobjectives.to_numpy()) == objs_hist[-1])
        return {"before": before, "after": after}
    except Exception as e:  # noqa: BLE001
        return {"error": I.exc_code(e), "exc": repr(e)[:300]}


def oracle(case, o):
    b, a = o["before"], o["after"]
    if a["sign_change"]:
        x, y, j, was, now = a["sign_change"]
        return (f"criterion {j}: preference between alternatives {x},{y} was {was} "
                f"and is {now} after {[s['cls'] for s in case['steps']]}")
    if b["dom0"] != a["dom0"]:
        return "dominance relation changed"
    if b["dom1"] != a["dom1"]:
        return "strict dominance relation changed"
    if not a["pipe_same"]:
        return "the pipeline of the same steps gives a different matrix than applying them one by one"
    return None


def run(ctx):
    I.repo_check()
    ctx.rule = RULE
    cases = [gen_case(ctx.rng) for _ in range(ctx.n(450, 8000))]
    outs = I.pmap(run_impl, cases)
    small = [i for i, c in enumerate(cases) if not c.get("vast")]
    got = ctx.model.batch([("dominance", ([o == 1 for o in cases[i]["objectives"]], cases[i]["matrix"]))
                           for i in small])
    mods = [None] * len(cases)
    for i, g in zip(small, got):
        mods[i] = g
    for c, o, mo in zip(cases, outs, mods):
        for s in c["steps"]:
            ctx.count("step:" + s["cls"])
        ctx.count(f"len:{len(c['steps'])}")
        if "error" in o:
            ctx.case_seen(c, False)
            ctx.disagree(c, {"what": "step raised inside its domain", "exc": o["exc"]})
            continue
        n = len(c["matrix"])
        interesting = n >= 3 and (c["tags"] or any(any(r) for r in o["before"]["dom0"]))
        ctx.case_seen(c, bool(interesting) and o["after"]["matrix"] != c["matrix"])
        msg = oracle(c, o)
        if msg:
            ctx.oracle_fail(c, {"oracle": msg})
        if c.get("vast"):
            ctx.count("alternatives>=130")
            continue
        if o["after"]["dom0"] != mo[2] or o["after"]["dom1"] != mo[3]:
            ctx.disagree(c, {"what": "dominance after the steps differs from the model's dominance of the original",
                             "impl": [o["after"]["dom0"], o["after"]["dom1"]], "model": [mo[2], mo[3]]})
    ctx.traces_validated = len(cases)
    ctx.notes.append("float caveat: the theorem is exact-arithmetic; generated values differ by >= 2^-9 relative so a "
                     "correctly rounded monotone map cannot collapse two distinct values")


def replay(ctx, rep):
    case = rep["case"]
    o = run_impl(case)
    print("implementation:", o)
    if "error" in o:
        return 1
    msg = oracle(case, o)
    print("oracle        :", msg or "property holds on this case")
    return 1 if msg else 0
