"""C16 — pipelines are the composition of their steps; methods rebuild from their parameters."""
import itertools

import numpy as np

from .. import gen
from .. import impl as I
from .. import methods as M
from .. import transformers as T

RULE = ("(A) random pipelines of 1-4 transformers (scalers any target, inverters, weighters, PushNegatives, "
        "AddValueToZero; repeated step types; a nested pipeline as an intermediate step and as the last step) "
        "followed by a decision maker (TOPSIS, RatioMOORA, ReferencePointMOORA, WSM after an inverter, ELECTRE1, "
        "mkagg user method) on random positive matrices: pipe.evaluate / pipe.transform against the manual "
        "composition, and for EVERY split point k the suffix slice pipe[k:] applied to the manually transformed "
        "matrix, all compared bit-for-bit; mkpipe step names against the extracted unique_names, unique, each "
        "resolving to its own step. (B) unique_names: exhaustive over the alphabet {a, a_1, a_2, b} up to length 5 "
        "(thorough 6) plus random. (C) every non-abstract SKCMethodABC subclass found by introspection plus mkagg / "
        "mktransformer products: copy(), type(m)(**m.get_parameters()) and copy(**overrides) compared on "
        "parameters (against the model's copy_with) and on outputs. non-trivial = pipeline with >=2 transformers, "
        "name list with a repeated name, method with >=1 parameter; distinct by hash")

KF = "C16-unique-names-suffix-collision"
KF_TEXT = ("unique_names / mkpipe give two steps the same name when a name that occurs once equals the generated "
           "name of a repeated one (['a','a','a_1'] -> ['a_1','a_2','a_1'])")

TF = ["SumScaler", "VectorScaler", "MaxAbsScaler", "MinMaxScaler", "StandarScaler", "PushNegatives",
      "AddValueToZero", "NegateMinimize", "InvertMinimize", "EqualWeighter", "StdWeighter", "EntropyWeighter",
      "CRITIC", "CenitDistanceMatrixScaler",
      # deprecated but public alias classes: names that differ from another step's only in letter case, or not at all
      "Critic", "CRITIC", "MaxScaler"]
DMK = ["topsis", "ratio", "refpoint", "electre1", "user"]


def gen_pipe(rng):
    c = gen.dm_case(rng, nmax=6, mmax=4, nmin=3, mmin=2, positive=True, modes=("dyadic", "int", "float"),
                    structure=False, big=0.0)
    for j in range(len(c["weights"])):
        if len({r[j] for r in c["matrix"]}) == 1:
            c["matrix"][0][j] += 1.0
    steps = []
    positive = True
    for _ in range(rng.randint(1, 4)):
        pool = [n for n in TF if positive or n not in ("SumScaler", "VectorScaler", "MaxAbsScaler",
                                                       "InvertMinimize", "EntropyWeighter")]
        name = rng.choice(pool)
        cfg = T.config(rng, name)
        steps.append(cfg)
        tgt = cfg["params"].get("target")
        if name in ("StandarScaler",) and tgt != "weights":
            positive = False
        if name == "MinMaxScaler" and tgt != "weights":
            positive = False
        if name == "NegateMinimize" and -1 in c["objectives"]:
            positive = False
        if name == "CenitDistanceMatrixScaler":
            positive = False
    c["steps"] = steps
    c["dmaker"] = {"name": rng.choice(DMK)}
    c["nest"] = rng.choice([None, None, "middle", "last"]) if len(steps) >= 2 else None
    return c


def build_dmaker(d):
    if d["name"] == "user":
        from skcriteria.extend import mkagg

        @mkagg
        def UserAgg(matrix, weights, **kwargs):
            score = np.asarray(matrix, dtype=float) @ np.asarray(weights, dtype=float)
            from skcriteria.utils import rank
            return rank.rank_values(score, reverse=True), {"score": score}
        return UserAgg()
    return M.make(d)


def dump_result(r):
    ex = {}
    for k in r.e_:
        v = r.e_[k]
        if isinstance(v, np.ndarray):
            ex[k] = T.bits(v).tolist() if v.dtype.kind == "f" else v.tolist()
    return {"alternatives": [str(a) for a in r.alternatives], "values": np.asarray(r.values).tolist(), "extra": ex}


def dump_dm(dm):
    d = T.dump(dm)
    return {"alternatives": d["alternatives"], "criteria": d["criteria"], "objectives": d["objectives"],
            "weights": T.bits(d["weights"]).tolist(), "matrix": T.bits(d["matrix"]).tolist()}


def run_pipe(case):
    from skcriteria.pipeline import SKCPipeline, mkpipe
    I.set_salt(case.get("matrix"))
    try:
        dm = I.mk(case)
        tfs = [T.build(cfg) for cfg in case["steps"]]
        dmk = build_dmaker(case["dmaker"])
        if case["nest"] == "middle":
            inner = mkpipe(*tfs[1:], dmk)          # a pipeline used as a step contributes its transformers
            pipe = mkpipe(tfs[0], inner, build_dmaker(case["dmaker"]))
            flat = tfs                               # manual composition: all transformers, then the decision maker
        elif case["nest"] == "last":
            inner = mkpipe(*tfs[1:], dmk)
            pipe = mkpipe(tfs[0], inner)
            flat = tfs
        elif len(case["steps"]) % 2:
            # the constructor instead of mkpipe, with the caller's own list of (name, step) pairs - which the caller then
            # goes on using for something else
            from skcriteria.utils.unames import unique_names
            steps_list = list(unique_names(names=[type(x).__name__.lower() for x in tfs + [dmk]], elements=tfs + [dmk]))
            pipe = SKCPipeline(steps_list)
            del steps_list[:-1]
            steps_list.insert(0, ("shift", T.build({"cls": "PushNegatives", "params": {"target": "both"}})))
            flat = tfs
        else:
            pipe = mkpipe(*tfs, dmk)
            flat = tfs
        # manual composition
        cur = dm
        stages = [dump_dm(cur)]
        for t in flat:
            cur = t.transform(cur)
            stages.append(dump_dm(cur))
        manual = dump_result(build_dmaker(case["dmaker"]).evaluate(cur))
        out = {"evaluate": dump_result(pipe.evaluate(dm)), "manual": manual}
        if case["nest"] in ("last", "middle"):
            # transform() applies the pipeline's own steps but the last: with a pipeline as the LAST step that is the
            # first transformer only (the inner pipeline decides, it does not transform here); as a middle step the
            # inner pipeline contributes its transformers
            out["transform"] = dump_dm(pipe.transform(dm))
            out["manual_transform"] = stages[1] if case["nest"] == "last" else stages[-1]
        if case["nest"] is None:
            out["transform"] = dump_dm(pipe.transform(dm))
            out["manual_transform"] = stages[-1]
            # every split point
            splits = []
            cur = dm
            for k in range(len(tfs) + 1):
                if k > 0:
                    cur = tfs[k - 1].transform(cur)
                # the same suffix, written with a start counted from the front or from the back
                # (... or as a numpy integer, as when the split point comes out of an array computation)
                kk = np.int64(k) if (k + len(case["matrix"])) % 3 == 0 else k
                sl = pipe[kk:] if (k + len(tfs)) % 2 else pipe[k - len(pipe):]
                splits.append(dump_result(sl.evaluate(cur)))
            out["splits"] = splits
        names = [n for n, _ in pipe.steps]
        out["names"] = names
        out["class_names"] = [type(s).__name__.lower() for _, s in pipe.steps]
        out["resolves"] = all(pipe.named_steps[n] is s for n, s in pipe.steps) if len(set(names)) == len(names) else None
        return out
    except Exception as e:  # noqa: BLE001
        return {"error": repr(e)[:300]}


def enc_names(ns):
    return [[ord(ch) for ch in n] for n in ns]


def dec_names(ms):
    return ["".join(chr(c) for c in n) for n in ms]


def collision(names):
    """a once-occurring name equals a generated suffix name of a repeated name"""
    from collections import Counter
    cnt = Counter(names)
    gen_ = {f"{x}_{k}" for x, c in cnt.items() if c > 1 for k in range(1, c + 1)}
    return any(n in gen_ for n in names)


def run_unames(names):
    from skcriteria.utils.unames import unique_names
    try:
        els = list(range(len(names)))
        out = unique_names(names=list(names), elements=els)
        return {"names": [n for n, _ in out], "elements": [e for _, e in out]}
    except Exception as e:  # noqa: BLE001
        return {"error": repr(e)}


# ---- methods -------------------------------------------------------------------------------------------
def all_method_classes():
    import importlib
    import inspect
    import pkgutil
    import skcriteria
    from skcriteria.core.methods import SKCMethodABC
    seen = {}
    for pkg in ("skcriteria.agg", "skcriteria.preprocessing", "skcriteria.cmp", "skcriteria"):
        mod0 = importlib.import_module(pkg)
        mods = [mod0] + [importlib.import_module(pkg + "." + m.name) for m in pkgutil.iter_modules(mod0.__path__)
                         if not m.ispkg and m.name not in ("madm",)] if hasattr(mod0, "__path__") else [mod0]
        for mod in mods:
            for n, c in inspect.getmembers(mod, inspect.isclass):
                if issubclass(c, SKCMethodABC) and not vars(c).get("_skcriteria_abstract_class", False) \
                        and c.__module__.startswith("skcriteria"):
                    seen[c.__module__ + "." + n] = c
    return seen


OVERRIDES = {
    "target": ["matrix", "weights", "both"], "with_mean": [True, False], "with_std": [True, False],
    "clip": [True, False], "criteria_range": [(0.0, 1.0), (1.0, 3.0)], "value": [1.0, 0.5, 0.0], "base_value": [1.0, 0.0, 3.0],
    "correlation": ["pearson", "spearman"], "scale": [True, False], "metric": ["euclidean", "cityblock"],
    "p": [0.65, 0.0, 1.0], "q": [0.35, 0.0], "p0": [0.65, 0.75], "p1": [0.5], "p2": [0.35, 0.0], "q0": [0.65], "q1": [0.35, 0.0],
    "rank_by": [1, 2], "strict": [True, False], "ignore_missing_criteria": [True, False],
    "strategy": ["mean", "median"], "n_neighbors": [5, 2], "max_iter": [10, 3], "random_state": [None, 0],
}


def make_instance(rng, qual, cls):
    name = cls.__name__
    if name in T.ALL_CLASSES:
        cfg = T.config(rng, name)
        if name in T.FILTERS and name != "FilterNonDominated":
            # one to three conditions, written in any key order, with different values
            keys = ["C2", "C0", "C1"]
            rng.shuffle(keys)
            conds = []
            for cr in keys[: rng.randint(1, 3)]:
                if name == "Filter":
                    conds.append([cr, rng.choice(sorted(T.PALETTE))])
                elif name in ("FilterIn", "FilterNotIn"):
                    conds.append([cr, rng.sample([1.0, 2.0, 3.0, 4.0, 5.0], rng.randint(1, 3))])
                else:
                    conds.append([cr, rng.choice([1.0, 1.5, 2.5, 3.5])])
            cfg["conditions"] = conds
            cfg["ignore_missing"] = rng.random() < 0.5
        return T.build(cfg)
    for mname in M.SCORE:
        pass
    table = {"WeightedSumModel": "wsm", "WeightedProductModel": "wpm", "TOPSIS": "topsis", "RatioMOORA": "ratio",
             "ReferencePointMOORA": "refpoint", "FullMultiplicativeForm": "fmf", "MultiMOORA": "multimoora",
             "ELECTRE1": "electre1", "ELECTRE2": "electre2", "SIMUS": "simus"}
    if name in table:
        return M.make({"name": table[name], "metric": "cityblock", "p": 0.75, "rank_by": 2})
    if name == "SKCPipeline":
        from skcriteria.pipeline import mkpipe
        return mkpipe(T.build(T.config(rng, "SumScaler")), M.make({"name": "topsis"}))
    if name == "RankInvariantChecker":
        return cls(M.make({"name": "topsis"}), repeat=2, random_state=7)
    return None


def norm(v):
    if isinstance(v, float) and v != v:
        return "NaN"
    if isinstance(v, np.random.Generator):
        return ("generator", repr(v.bit_generator.state))
    if isinstance(v, np.ndarray):
        return ("arr", v.tolist())
    if isinstance(v, dict):
        return {k: norm(x) for k, x in v.items()}
    if isinstance(v, (list, tuple)):
        return [norm(x) for x in v]
    if callable(v) or hasattr(v, "get_parameters"):
        return repr(type(v)) if not callable(v) else getattr(v, "__name__", repr(v))
    return v


def run_method(args):
    qual, seed = args
    import random
    I.set_salt([qual, seed])
    rng = random.Random(seed)
    cls = all_method_classes()[qual]
    try:
        m = make_instance(rng, qual, cls)
        if m is None:
            return {"skip": qual}
        p0 = {k: norm(v) for k, v in m.get_parameters().items()}
        c1 = m.copy()
        c2 = type(m)(**m.get_parameters())
        out = {"params": p0, "copy_params": {k: norm(v) for k, v in c1.get_parameters().items()},
               "rebuild_params": {k: norm(v) for k, v in c2.get_parameters().items()},
               "same_type": type(c1) is type(m) and type(c2) is type(m)}
        ovs = [k for k in p0 if k in OVERRIDES and not (k == "random_state" and isinstance(p0[k], tuple))]
        if ovs:
            k = rng.choice(ovs)
            v = rng.choice(OVERRIDES[k])
            try:
                c3 = m.copy(**{k: v})
                out["override"] = [k, norm(v)]
                out["override_params"] = {kk: norm(vv) for kk, vv in c3.get_parameters().items()}
                # ... and the object it was taken from is what it was: same parameters, and a later plain copy() /
                # reconstruction has them too
                out["after_override"] = [{kk: norm(vv) for kk, vv in x.items()} for x in
                                         (m.get_parameters(), m.copy().get_parameters(),
                                          type(m)(**m.get_parameters()).get_parameters())]
            except Exception as e:  # noqa: BLE001
                out["override_error"] = repr(e)[:200]
        # identical outputs on one matrix
        dm = I.mkdm(np.array([[1.0, 2.0, 4.0], [2.0, 1.0, 3.0], [4.0, 3.0, 1.0], [3.0, 5.0, 2.0]]), [max, max, max],
                    weights=[0.5, 0.25, 0.25], criteria=["C0", "C1", "C2"])
        outs = []
        for obj in (m, c1, c2):
            try:
                if hasattr(obj, "transform") and not hasattr(obj, "evaluate"):
                    outs.append(("dm", dump_dm(obj.transform(dm))))
                elif hasattr(obj, "evaluate"):
                    with I.quiet_fds():
                        r = obj.evaluate(dm)
                    outs.append(("res", dump_result(r) if hasattr(r, "e_") else repr(r)))
                else:
                    outs.append(("none", None))
            except Exception as e:  # noqa: BLE001
                outs.append(("exc", type(e).__name__))
        out["outputs_equal"] = outs[0] == outs[1] == outs[2]
        return out
    except Exception as e:  # noqa: BLE001
        return {"error": repr(e)[:300], "qual": qual}


def run(ctx):
    I.repo_check()
    ctx.rule = RULE
    # ---- (A) pipelines ---------------------------------------------------------------------------------
    pcases = [gen_pipe(ctx.rng) for _ in range(ctx.n(150, 2500))]
    pouts = I.pmap(run_pipe, pcases)
    nmods = ctx.model.batch([("unique_names", enc_names(o["class_names"])) for o in pouts if "error" not in o])
    nm = iter(nmods)
    for c, o in zip(pcases, pouts):
        ctx.count("pipeline:" + (c["nest"] or "flat"))
        ctx.case_seen(c, len(c["steps"]) >= 2)
        if "error" in o:
            if "look like a ranking" in o["error"] or "NaN" in o["error"] or "infinity" in o["error"]:
                ctx.count("pipeline_outside_composed_domain")     # e.g. a step produced a constant / NaN matrix
            else:
                ctx.disagree(c, {"what": "pipeline raised inside its domain", "exc": o["error"]})
            continue
        if o["evaluate"] != o["manual"]:
            ctx.oracle_fail(c, {"oracle": "pipe.evaluate(dm) differs from applying the steps in order",
                                "pipe": o["evaluate"]["values"], "manual": o["manual"]["values"]})
        if "transform" in o and o["transform"] != o["manual_transform"]:
            ctx.oracle_fail(c, {"oracle": "pipe.transform(dm) differs from applying the transformers in order"})
        for k, s in enumerate(o.get("splits", [])):
            if s != o["manual"]:
                ctx.oracle_fail(c, {"oracle": f"suffix slice pipe[{k}:] on the output of the first {k} steps differs"})
                break
        want = dec_names(next(nm))
        if o["names"] != want:
            ctx.disagree(c, {"what": "mkpipe names", "impl": o["names"], "model": want})
        if len(set(o["names"])) != len(o["names"]):
            ctx.oracle_fail(c, {"oracle": f"step names {o['names']} are not unique"})
        elif o["resolves"] is False:
            ctx.oracle_fail(c, {"oracle": "a step name does not resolve to its own step"})
    # ---- (B) unique_names ----------------------------------------------------------------------------------
    alpha = ["a", "a_1", "a_2", "b"]
    L = 5 if not (ctx.tier == "thorough" or ctx.changed) else 6
    nlists = [["a", "a", "a_1"]] + [list(t) for k in range(1, L + 1) for t in itertools.product(alpha, repeat=k)]
    for _ in range(ctx.n(200, 3000)):
        pool = ctx.rng.sample(["x", "y", "x_1", "x_2", "x_3", "zz", "y_1", "X", "x_"], 4)
        nlists.append([ctx.rng.choice(pool) for _ in range(ctx.rng.randint(1, 8))])
    uouts = I.pmap(run_unames, nlists, chunksize=128)
    umods = ctx.model.batch([("unique_names", enc_names(ns)) for ns in nlists])
    for ns, o, mo in zip(nlists, uouts, umods):
        case = {"names": ns}
        ctx.case_seen(case, len(set(ns)) < len(ns))
        ctx.count("unique_names")
        if "error" in o:
            ctx.oracle_fail(case, {"oracle": "unique_names raised " + o["error"]})
            continue
        if o["names"] != dec_names(mo):
            ctx.disagree(case, {"impl": o["names"], "model": dec_names(mo)})
        if o["elements"] != list(range(len(ns))):
            ctx.oracle_fail(case, {"oracle": "elements not kept in order"})
        if len(set(o["names"])) != len(ns):
            if collision(ns):
                if not ctx.known_finding(KF, KF_TEXT):
                    ctx.oracle_fail(case, {"oracle": f"names {o['names']} are not unique"})
            else:
                ctx.oracle_fail(case, {"oracle": f"names {o['names']} are not unique (no suffix collision in the input)"})
    # ---- (C) methods ---------------------------------------------------------------------------------------------
    quals = sorted(all_method_classes())
    margs = [(q, ctx.rng.randrange(10 ** 6)) for q in quals for _ in range(ctx.n(3, 30))]
    mouts = I.pmap(run_method, margs)
    calls, owners = [], []
    for (q, s), o in zip(margs, mouts):
        case = {"class": q, "seed": s}
        if "skip" in o:
            ctx.count("method_skipped:" + q.split(".")[-1])
            continue
        ctx.count("method:" + q.split(".")[-1])
        if "error" in o:
            ctx.disagree(case, {"what": "method could not be instantiated / copied", "exc": o["error"]})
            continue
        ctx.case_seen(case, len(o["params"]) >= 1)
        if not o["same_type"] or o["copy_params"] != o["params"] or o["rebuild_params"] != o["params"]:
            ctx.oracle_fail(case, {"oracle": "copy() / reconstruction from get_parameters() changed the parameters",
                                   "params": o["params"], "copy": o["copy_params"], "rebuild": o["rebuild_params"]})
        if not o["outputs_equal"]:
            ctx.oracle_fail(case, {"oracle": "copy / rebuilt object gives a different output"})
        if any(x != o["params"] for x in o.get("after_override", [])):
            ctx.oracle_fail(case, {"oracle": "after m.copy(**override) the original object (or a later copy() / "
                                             "reconstruction of it) reports other parameters than before",
                                   "before": o["params"], "after": o["after_override"]})
        if "override_error" in o:
            ctx.oracle_fail(case, {"oracle": "copy(**override) raised " + o["override_error"]})
        if "override" in o:
            k, v = o["override"]
            want = dict(o["params"])
            want[k] = v
            if o["override_params"] != want:
                ctx.oracle_fail(case, {"oracle": f"copy({k}={v!r}) gave {o['override_params']}, expected {want}"})
            # model: interned parameters
            it = {}

            def code(x):
                return it.setdefault(repr(x), len(it) + 1)
            m_ = [(code(("k", kk)), code(("v", repr(vv)))) for kk, vv in sorted(o["params"].items())]
            ov = [(code(("k", k)), code(("v", repr(v))))]
            calls.append(("copy_with", (m_, ov)))
            owners.append((case, o, it))
    cmods = ctx.model.batch(calls)
    for (case, o, it), mo in zip(owners, cmods):
        inv = {v: k for k, v in it.items()}
        got = {k: repr(v) for k, v in o["override_params"].items()}
        want = {eval(inv[a])[1]: eval(inv[b])[1] for a, b in mo}  # noqa: S307 (harness-generated reprs)
        if got != want:
            ctx.disagree(case, {"what": "copy(**override) parameters", "impl": got, "model": want})
    ctx.traces_validated = len(pcases) + len(nlists) + len(margs)


def replay(ctx, rep):
    case = rep["case"]
    if "names" in case:
        o = run_unames(case["names"])
        print("implementation:", o, "\nmodel         :", dec_names(ctx.model.one("unique_names", enc_names(case["names"]))))
        return 0 if len(set(o.get("names", []))) == len(case["names"]) else 1
    if "class" in case:
        print(run_method((case["class"], case["seed"])))
        return 0
    o = run_pipe(case)
    print({k: (v if k in ("names", "error") else "...") for k, v in o.items()})
    return 0 if ("error" not in o and o["evaluate"] == o["manual"]) else 1
