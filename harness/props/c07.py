"""C07 — dominance analysis matches the definition of (strict) dominance."""
import itertools

import numpy as np

from .. import gen
from .. import impl as I

RULE = ("exhaustive enumeration of all matrices n<=3,m<=2 (thorough: n<=4,m<=2 and n<=3,m<=3) over {0,1,2} "
        "x all objective vectors, plus random matrices (tiny alphabets, dyadic, float; duplicates and dominated "
        "copies injected; shuffled labels) with the accessor methods called in a random order on ONE accessor "
        "object; every table compared exactly with the extracted model and with a definition-based oracle. "
        "non-trivial = at least two alternatives and at least one tie or one dominating pair; distinct by hash")

CALLS = ["bt", "eq", "dom0", "dom1", "dominated0", "dominated1", "dominators0", "dominators1",
         "loops0", "loops1", "compare"]


def run_impl(case):
    """Everything the accessor reports, canonicalised to index form."""
    try:
        dm = I.mk(case)
        alts = [a.item() if hasattr(a, "item") else a for a in np.asarray(dm.alternatives)]
        if case.get("alternatives") is not None and alts != list(case["alternatives"]):
            return ["EXC", f"alternatives are reported as {alts!r}"]
        idx = {a: i for i, a in enumerate(alts)}
        n, m = len(alts), len(dm.criteria)
        acc0 = dm.dominance
        out = {}
        order = case.get("order") or CALLS
        # every method is also reachable through the accessor's call form, dm.dominance("<kind>", **kw): same answers

        class _Spelled:
            def __getattr__(self, name):
                def f(*a, **kw):
                    if case.get("call_form", {}).get(name):
                        import inspect
                        names = [n for n in inspect.signature(getattr(acc0, name)).parameters]
                        kw = dict(kw, **dict(zip(names, a)))      # the call form takes keywords only
                        return acc0(name, **kw)
                    return getattr(acc0, name)(*a, **kw)
                return f
        acc = _Spelled()
        for name in order:
            if name == "bt":
                out[name] = acc.bt().to_numpy().tolist()
            elif name == "eq":
                out[name] = acc.eq().to_numpy().tolist()
            elif name in ("dom0", "dom1"):
                out[name] = acc.dominance(strict=name == "dom1").to_numpy().tolist()
            elif name in ("dominated0", "dominated1"):
                s = acc.dominated(strict=name == "dominated1")
                assert list(s.index) == alts
                out[name] = s.to_numpy().tolist()
            elif name in ("dominators0", "dominators1"):
                res = []
                for a in alts:
                    try:
                        r = acc.dominators_of(a, strict=name == "dominators1")
                        res.append([[idx[x] for x in r]])
                    except RecursionError:
                        res.append([])
                out[name] = res
            elif name in ("loops0", "loops1"):
                out[name] = bool(acc.has_loops(strict=name == "loops1"))
            elif name == "compare":
                tab = []
                for a0 in alts:
                    rowt = []
                    for a1 in alts:
                        if a0 == a1:
                            rowt.append([[], [], [], 0, 0, 0])
                            continue
                        df = acc.compare(a0, a1)
                        vals = df.to_numpy()
                        rowt.append([[bool(x) for x in vals[0, :m]], [bool(x) for x in vals[1, :m]],
                                     [bool(x) for x in vals[2, :m]],
                                     int(vals[0, m]), int(vals[1, m]), int(vals[2, m])])
                    tab.append(rowt)
                out[name] = tab
        return [out[k] for k in CALLS]
    except Exception as e:  # noqa: BLE001
        return ["EXC", repr(e)]


def oracle(case, out):
    """Direct reading of the property on the implementation's output."""
    mtx, objs = case["matrix"], case["objectives"]
    n, m = len(mtx), len(objs)
    if out and out[0] == "EXC":
        return f"accessor raised {out[1]}"
    bt, eq, d0, d1, dd0, dd1, ds0, ds1, l0, l1, cmp_ = out

    def better(j, x, y):
        return x > y if objs[j] == 1 else x < y

    for a in range(n):
        for b in range(n):
            nb = sum(better(j, mtx[a][j], mtx[b][j]) for j in range(m))
            nw = sum(better(j, mtx[b][j], mtx[a][j]) for j in range(m))
            ne = sum(mtx[a][j] == mtx[b][j] for j in range(m))
            if bt[a][b] != nb:
                return f"bt[{a}][{b}]={bt[a][b]} but definition gives {nb}"
            if eq[a][b] != ne:
                return f"eq[{a}][{b}]={eq[a][b]} but definition gives {ne}"
            if bt[a][b] + bt[b][a] + eq[a][b] != m:
                return f"bt+bt+eq != m at ({a},{b})"
            dom = a != b and nw == 0 and nb > 0
            sdom = a != b and nb == m and m > 0
            if bool(d0[a][b]) != dom:
                return f"dominance[{a}][{b}]={d0[a][b]} but definition gives {dom}"
            if bool(d1[a][b]) != sdom:
                return f"strict dominance[{a}][{b}]={d1[a][b]} but definition gives {sdom}"
            if a != b:
                w0, w1, we, p0, p1, pe = cmp_[a][b]
                e0 = [better(j, mtx[a][j], mtx[b][j]) for j in range(m)]
                e1 = [better(j, mtx[b][j], mtx[a][j]) for j in range(m)]
                ee = [mtx[a][j] == mtx[b][j] for j in range(m)]
                if (w0, w1, we, p0, p1, pe) != (e0, e1, ee, nb, nw, ne):
                    return f"compare({a},{b}) differs from the per-criterion definition"
    for strict, d, dd, ds, lp in ((False, d0, dd0, ds0, l0), (True, d1, dd1, ds1, l1)):
        for b in range(n):
            if bool(dd[b]) != any(d[a][b] for a in range(n)):
                return f"dominated(strict={strict})[{b}] wrong"
            if not ds[b]:
                return f"dominators_of({b}, strict={strict}) raised RecursionError"
            got = set(ds[b][0])
            # transitive closure of the reported relation
            clo = {a for a in range(n) if d[a][b]}
            changed = True
            while changed:
                changed = False
                for x in list(clo):
                    for a in range(n):
                        if d[a][x] and a not in clo:
                            clo.add(a)
                            changed = True
            if got != clo:
                return f"dominators_of({b}, strict={strict})={sorted(got)} but closure is {sorted(clo)}"
        if lp:
            return f"has_loops(strict={strict}) reported a loop"
        for a in range(n):
            if d[a][a]:
                return "dominance not irreflexive"
            for b in range(n):
                if d[a][b] and d[b][a]:
                    return "dominance not asymmetric"
                for c in range(n):
                    if d[a][b] and d[b][c] and not d[a][c]:
                        return "dominance not transitive"
    return None


def model_arg(case):
    return ([o == 1 for o in case["objectives"]], case["matrix"])


def nontrivial(case):
    mtx = case["matrix"]
    if len(mtx) < 2:
        return False
    m = len(mtx[0])
    for a, b in itertools.combinations(range(len(mtx)), 2):
        if any(mtx[a][j] == mtx[b][j] for j in range(m)):
            return True
    return False


CORPUS = [
    # fixed 3978c8e / 81f1f51: integer labels that coincide with positions, listed in another order
    {"matrix": [[1.0, 2.0], [3.0, 1.0], [2.0, 2.0], [3.0, 3.0]], "objectives": [1, 1], "weights": [1.0, 1.0],
     "alternatives": [2, 0, 3, 1], "criteria": [1, 0], "kind": "rand", "mode": "corpus", "labels": "int_positions", "tags": []},
    {"matrix": [[1.0, 2.0], [3.0, 1.0], [2.0, 2.0], [3.0, 3.0]], "objectives": [1, -1], "weights": [1.0, 1.0],
     "alternatives": [3, 10, 17, 24], "criteria": ["a", "b"], "kind": "rand", "mode": "corpus", "labels": "int_other", "tags": []},
]


def gen_cases(ctx):
    cases = [dict(c) for c in CORPUS]
    # exhaustive part
    nmax, mmax = (3, 2)
    for mtx, objs in gen.all_small_matrices(nmax, mmax):
        cases.append({"matrix": mtx, "objectives": objs, "weights": None, "kind": "exh"})
    if ctx.tier == "thorough":
        for mtx, objs in gen.all_small_matrices(3, 3):
            if len(mtx[0]) == 3:
                cases.append({"matrix": mtx, "objectives": objs, "weights": None, "kind": "exh"})
    if ctx.tier == "thorough" or ctx.changed:
        for mtx, objs in gen.all_small_matrices(4, 2):
            if len(mtx) == 4:
                cases.append({"matrix": mtx, "objectives": objs, "weights": None, "kind": "exh"})
    nrand = ctx.n(400, 6000)
    for _ in range(nrand):
        c = gen.dm_case(ctx.rng, nmax=9, mmax=5, big=0.0)
        order = list(CALLS) + ctx.rng.sample(CALLS, 3)
        ctx.rng.shuffle(order)
        c["order"] = order
        c["kind"] = "rand"
        c["call_form"] = {k: ctx.rng.random() < 0.4 for k in ("bt", "eq", "dominance", "dominated", "dominators_of",
                                                               "has_loops", "compare")}
        t = ctx.rng.random()
        if t < 0.2:
            # label kinds: integers (a shuffled 0..n-1, so that labels and positions disagree; or unrelated integers),
            # or strings that look like numbers
            n, m = len(c["matrix"]), len(c["weights"])
            kind = ctx.rng.choice(["int_positions", "int_other", "numeric_strings"])
            if kind == "int_positions":
                a, k = list(range(n)), list(range(m))
                ctx.rng.shuffle(a)
                ctx.rng.shuffle(k)
            elif kind == "int_other":
                a, k = [7 * i + 3 for i in range(n)], [100 - i for i in range(m)]
            else:
                a, k = [str(n - i) for i in range(n)], [str(2 * j) for j in range(m)]
            c["alternatives"], c["criteria"], c["labels"] = a, k, kind
        elif t < 0.3:
            gen.narrow_dtypes(ctx.rng, c)
        elif t < 0.36:
            # an all-integer matrix whose values no float can tell apart (identifiers, nanosecond timestamps):
            # exact Python integers in the case, int64 in the matrix
            base = ctx.rng.choice([2 ** 53, 1_700_000_000_000_000_000, -(2 ** 60)])
            c["matrix"] = [[base + ctx.rng.choice([0, 1, 2, 3]) for _ in r] for r in c["matrix"]]
            c["dtypes"] = ["int64"] * len(c["weights"])
            c["mode"] = "int_beyond_2^53"
        elif t < 0.42:
            gen.special_values(ctx.rng, c)
        cases.append(c)
    return cases


def compare_one(ctx, case, out, mod):
    if out and out[0] == "EXC":
        ctx.oracle_fail(case, {"oracle": f"accessor raised {out[1]}"})
        return
    msg = oracle(case, out)
    if msg:
        ctx.oracle_fail(case, {"oracle": msg, "impl": out})
    if out != mod:
        which = [CALLS[k] for k in range(len(CALLS)) if out[k] != mod[k]]
        ctx.disagree(case, {"tables": which, "impl": [out[CALLS.index(w)] for w in which],
                            "model": [mod[CALLS.index(w)] for w in which]})


def run(ctx):
    I.repo_check()
    ctx.rule = RULE
    cases = gen_cases(ctx)
    outs = I.pmap(run_impl, cases)
    mods = ctx.model.batch([("dominance", model_arg(c)) for c in cases])
    for c, o, mo in zip(cases, outs, mods):
        ctx.case_seen(c, nontrivial(c))
        ctx.count("kind:" + c["kind"])
        ctx.count(f"shape:{len(c['matrix'])}x{len(c['matrix'][0])}")
        if c["kind"] == "rand":
            ctx.count("mode:" + c["mode"])
            ctx.count("labels:" + c.get("labels", "strings"))
        compare_one(ctx, c, o, mo)
    ctx.traces_validated = len(cases)
    ctx.exhaustive = False
    ctx.notes.append("the exhaustive sub-space (n<=3,m<=2 over {0,1,2}, all objective vectors) is enumerated "
                     "completely on every run; the random part is not exhaustive")
    if ctx.tier == "thorough":
        from ..core import vm_crosscheck
        sample = list(range(0, len(cases), max(1, len(cases) // 300)))[:300]
        bad, msg = vm_crosscheck([("dominance", model_arg(cases[i])) for i in sample],
                                 [mods[i] for i in sample], "C07")
        ctx.vm_checked = len(sample)
        if bad != 0:
            ctx.disagree(cases[sample[0]], {"vm_compute_vs_extraction": bad, "msg": msg})


def replay(ctx, rep):
    case = rep["case"]
    out = run_impl(case)
    mod = ctx.model.one("dominance", model_arg(case))
    msg = oracle(case, out)
    print("implementation:", out)
    print("model         :", mod)
    print("oracle        :", msg or "property holds on this case")
    return 1 if (msg or out != mod) else 0
