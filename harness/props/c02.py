"""C02 — decision matrices and results are values: no aliasing, inputs never mutated."""
import copy as _copy
import inspect

import numpy as np
import pandas as pd

from .. import gen
from .. import impl as I
from .. import methods as M
from .. import transformers as T

RULE = ("(a) every accessor of the enumerated surface (DecisionMatrix properties, to_dict entries, to_dataframe, "
        "alternatives[a] / criteria[c], describe, the whitelisted stats, dominance bt/eq/dominance/compare/dominated/"
        "dominators_of, result values/alternatives/rank_/untied_rank_/to_series) x every mutation route that exists "
        "for the returned type (item / slice assignment, +=, .fill, .sort(), np.copyto, writes through np.asarray, "
        ".values / .to_numpy() / .iloc writes, index renaming, dict / list mutation); (b) the arrays and frames handed "
        "to the constructors (matrix, objectives, weights, labels as lists / float / int / object ndarrays) written "
        "after construction; (c) random histories (length <= 8) interleaving reads, writes into anything held, and "
        "runs of transformers / decision makers / pipelines / == / RankInvariantChecker; a snapshot (to_dict, dtypes, "
        "index names, all dominance tables for both strict settings, dominators_of of every alternative, describe, "
        "result series) taken before and after must be bit-identical.  The enumeration must have as many entries as "
        "the Coq model and no public accessor of the real classes may be missing from it. non-trivial = at least one "
        "write was accepted by the returned object; distinct by hash")


# ---- snapshot -------------------------------------------------------------------------------------------
def b64(a):
    a = np.ascontiguousarray(np.asarray(a, dtype=float))
    return a.view(np.int64).tolist()


def snap_dm(dm):
    d = dm.to_dict()
    s = {
        "alternatives": [repr(x) for x in d["alternatives"]], "criteria": [repr(x) for x in d["criteria"]],
        "objectives": [int(o) for o in d["objectives"]], "weights": b64(d["weights"]),
        "matrix": b64(d["matrix"]), "dtypes": [str(t) for t in d["dtypes"]],
        "names": [dm.weights.index.name, dm.objectives.index.name, dm.matrix.index.name, dm.matrix.columns.name,
                  dm.dtypes.index.name, dm.weights.name, dm.objectives.name],
        "minwhere": dm.minwhere.to_numpy().tolist(),
    }
    dom = dm.dominance
    for strict in (False, True):
        s[f"dom{int(strict)}"] = dom.dominance(strict=strict).to_numpy().tolist()
        s[f"dominated{int(strict)}"] = dom.dominated(strict=strict).to_numpy().tolist()
        s[f"dominators{int(strict)}"] = [[repr(x) for x in dom.dominators_of(a, strict=strict)] for a in dm.alternatives]
        s[f"loops{int(strict)}"] = bool(dom.has_loops(strict=strict))
    # the same queries spelled without the keyword / through __call__ (memoisation keys differ by spelling)
    s["dominators_default"] = [[repr(x) for x in dom.dominators_of(a)] for a in dm.alternatives]
    s["dom_default"] = dom.dominance().to_numpy().tolist()
    s["dom_call"] = dom("dominance", strict=False).to_numpy().tolist()
    s["dominated_default"] = dom.dominated().to_numpy().tolist()
    s["compare_first_last"] = dom.compare(dm.alternatives[0], dm.alternatives[-1]).to_numpy().tolist()
    s["compare_last_first"] = dom.compare(dm.alternatives[-1], dm.alternatives[0]).to_numpy().tolist()
    s["bt"] = dom.bt().to_numpy().tolist()
    s["eq"] = dom.eq().to_numpy().tolist()
    s["describe"] = b64(dm.describe().to_numpy())
    s["stats_mean"] = b64(dm.stats.mean().to_numpy())
    return s


def snap_res(r):
    return {"values": np.asarray(r.values).tolist(), "alternatives": [repr(a) for a in r.alternatives],
            "series": r.to_series().to_numpy().tolist(), "index": [repr(a) for a in r.to_series().index],
            "method": r.method, "names": [r.to_series().index.name, r.to_series().name],
            "untied_series": r.to_series(untied=True).to_numpy().tolist(),
            "untied_index": [repr(a) for a in r.to_series(untied=True).index],
            "untied_names": [r.to_series(untied=True).index.name, r.to_series(untied=True).name],
            "ties": sorted((int(k), int(v)) for k, v in r.ties_.items()), "has_ties": bool(r.has_ties_),
            "untied_rank": np.asarray(r.untied_rank_).tolist()}


# ---- the enumerated accessor surface ---------------------------------------------------------------------------
def _most_dominated(dm):
    d = dm.dominance.dominance().sum(axis=0)
    return d.idxmax()


DM_ACC = [
    ("alternatives", lambda dm: dm.alternatives), ("criteria", lambda dm: dm.criteria),
    ("weights", lambda dm: dm.weights), ("objectives", lambda dm: dm.objectives),
    ("iobjectives", lambda dm: dm.iobjectives), ("minwhere", lambda dm: dm.minwhere),
    ("maxwhere", lambda dm: dm.maxwhere), ("dtypes", lambda dm: dm.dtypes), ("matrix", lambda dm: dm.matrix),
    ("to_dict.matrix", lambda dm: dm.to_dict()["matrix"]), ("to_dict.objectives", lambda dm: dm.to_dict()["objectives"]),
    ("to_dict.weights", lambda dm: dm.to_dict()["weights"]), ("to_dict.dtypes", lambda dm: dm.to_dict()["dtypes"]),
    ("to_dict.alternatives", lambda dm: dm.to_dict()["alternatives"]),
    ("to_dict.criteria", lambda dm: dm.to_dict()["criteria"]),
    ("to_dataframe", lambda dm: dm.to_dataframe()), ("alternatives[a]", lambda dm: dm.alternatives[dm.alternatives[0]]),
    ("criteria[c]", lambda dm: dm.criteria[dm.criteria[0]]), ("describe", lambda dm: dm.describe()),
    ("stats.mean", lambda dm: dm.stats.mean()), ("stats.corr", lambda dm: dm.stats.corr()),
    ("stats()", lambda dm: dm.stats()), ("dominance.bt", lambda dm: dm.dominance.bt()),
    ("dominance.eq", lambda dm: dm.dominance.eq()), ("dominance.dominance", lambda dm: dm.dominance.dominance()),
    ("dominance.compare", lambda dm: dm.dominance.compare(dm.alternatives[0], dm.alternatives[-1])),
    ("dominance.dominated", lambda dm: dm.dominance.dominated()),
    ("dominance.dominance(strict=False)", lambda dm: dm.dominance.dominance(strict=False)),
    ("dominance.dominance(strict=True)", lambda dm: dm.dominance.dominance(strict=True)),
    ("dominance('dominance',strict=False)", lambda dm: dm.dominance("dominance", strict=False)),
    ("dominance.dominated(strict=False)", lambda dm: dm.dominance.dominated(strict=False)),
    ("dominance.dominated(strict=True)", lambda dm: dm.dominance.dominated(strict=True)),
    ("dominance.bt()", lambda dm: dm.dominance("bt")),
    ("dominance.compare(last,first)", lambda dm: dm.dominance.compare(dm.alternatives[-1], dm.alternatives[0])),
    ("dominance.dominators_of(strict=False)", lambda dm: dm.dominance.dominators_of(_most_dominated(dm), strict=False)),
    ("stats.describe", lambda dm: dm.stats("describe")), ("stats.max", lambda dm: dm.stats.max()),
    # the dict-like spellings of the two label arrays
    ("criteria.values()", lambda dm: list(dm.criteria.values())[0]),
    ("criteria.items()", lambda dm: list(dm.criteria.items())[-1][1]),
    ("alternatives.values()", lambda dm: list(dm.alternatives.values())[-1]),
    ("alternatives.items()", lambda dm: dict(dm.alternatives.items())[dm.alternatives[0]]),
    ("criteria.get", lambda dm: dm.criteria.get(dm.criteria[0])),
    ("dominance.dominators_of", lambda dm: dm.dominance.dominators_of(_most_dominated(dm))),
]
RES_ACC = [
    ("result.values", lambda r: r.values), ("result.alternatives", lambda r: r.alternatives),
    ("result.rank_", lambda r: r.rank_), ("result.untied_rank_", lambda r: r.untied_rank_),
    ("result.to_series", lambda r: r.to_series()), ("result.to_series(untied)", lambda r: r.to_series(untied=True)),
    ("result.ties_", lambda r: r.ties_),
]
SURFACE = [n for n, _ in DM_ACC + RES_ACC]

# public names of the real classes that are NOT data accessors (methods, plotting, selection, ...)
NOT_ACCESSORS = {
    "DecisionMatrix": {"aequals", "copy", "diff", "equals", "from_mcda_data", "iloc", "loc", "plot", "shape",
                       "dominance", "stats", "to_dict", "describe"},
    "RankResult": {"aequals", "diff", "equals", "values_equals", "method", "shape", "e_", "extra_", "has_ties_",
                   "to_series"},
}
COVERED = {
    "DecisionMatrix": {"alternatives", "criteria", "weights", "objectives", "iobjectives", "minwhere", "maxwhere",
                       "dtypes", "matrix", "to_dataframe"},
    "RankResult": {"values", "alternatives", "rank_", "untied_rank_", "ties_"},
}


def surface_gaps():
    from skcriteria.agg import RankResult
    from skcriteria.core.data import DecisionMatrix
    gaps = []
    for cls in (DecisionMatrix, RankResult):
        pub = {n for n, _ in inspect.getmembers(cls) if not n.startswith("_")}
        unknown = pub - NOT_ACCESSORS[cls.__name__] - COVERED[cls.__name__]
        if unknown:
            gaps.append((cls.__name__, sorted(unknown)))
    return gaps


# ---- mutation routes ---------------------------------------------------------------------------------------------
def routes_for(obj):
    rs = []
    if isinstance(obj, np.ndarray):
        rs += ["arr_item", "arr_fill", "arr_sort", "arr_iadd", "arr_copyto", "arr_asarray"]
    if isinstance(obj, (pd.Series, pd.DataFrame)):
        rs += ["pd_values", "pd_to_numpy", "pd_iloc", "pd_iadd", "pd_index_name", "pd_index_values", "pd_sort_inplace",
               "pd_array"]
    if isinstance(obj, pd.Index):
        rs += ["idx_asarray"]
    if isinstance(obj, dict):
        rs += ["dict_set"]
    if isinstance(obj, list):
        rs += ["list_set"]
    return rs


def poison(a):
    """A value of the right kind for the array."""
    if a.dtype.kind == "f":
        return 123456.5
    if a.dtype.kind in "iu":
        return 77
    if a.dtype.kind == "b":
        return not bool(a.flat[0]) if a.size else True
    if a.dtype.kind == "O":
        if a.size and isinstance(a.flat[0], str):
            return "POISON"
        other = [x for x in a.flat if x is not a.flat[0] and x != a.flat[0]] if a.size else []
        return other[0] if other else (a.flat[-1] if a.size else None)
    return "ZZ"


def mutate(obj, route):
    """Try to write into obj; True if the write was accepted."""
    try:
        if route == "arr_item":
            obj[0 if obj.ndim == 1 else (0, 0)] = poison(obj)
        elif route == "arr_fill":
            obj.fill(poison(obj))
        elif route == "arr_sort":
            before = obj.copy()
            obj.sort()
            obj[...] = obj[::-1].copy() if obj.ndim == 1 else obj
            if np.array_equal(before, obj, equal_nan=True) if before.dtype.kind != "O" else list(before) == list(obj):
                return False
        elif route == "arr_iadd":
            obj += 1
        elif route == "arr_copyto":
            np.copyto(obj, np.full(obj.shape, poison(obj), dtype=obj.dtype))
        elif route == "arr_asarray":
            base = np.asarray(obj)
            base[0 if base.ndim == 1 else (0, 0)] = poison(base)
        elif route == "idx_asarray":
            v = np.asarray(obj)         # no setflags: a read-only view is a refused write
            v[0] = v[-1] if len(v) > 1 and v[-1] != v[0] else poison(v)
            v.sort()
        elif route == "pd_values":
            v = obj.values
            v[0 if v.ndim == 1 else (0, 0)] = poison(v)
        elif route == "pd_to_numpy":
            v = obj.to_numpy()      # no setflags: a read-only view is a refused write
            v[0 if v.ndim == 1 else (0, 0)] = poison(v)
        elif route == "pd_array":
            # below pandas' copy-on-write: the ExtensionArray / ndarray backing the object
            cols = [obj] if isinstance(obj, pd.Series) else [obj[c] for c in obj.columns]
            ok = False
            for s_ in cols:
                for v in (s_.array, np.asarray(s_.array)):
                    try:
                        v[0] = poison(np.asarray(v))
                        ok = True
                    except (ValueError, TypeError):
                        pass
            if not ok:
                return False
        elif route == "pd_iloc":
            if isinstance(obj, pd.Series):
                obj.iloc[0] = poison(obj.to_numpy())
            else:
                obj.iloc[0, 0] = poison(obj.to_numpy())
        elif route == "pd_iadd":
            obj += 1
        elif route == "pd_index_name":
            obj.index.name = "POISON"
            if isinstance(obj, pd.DataFrame):
                obj.columns.name = "POISON"
        elif route == "pd_index_values":
            ok = False
            for v in (obj.index.to_numpy(), np.asarray(obj.index), obj.index.values):
                try:
                    v[0] = v[-1]        # no setflags: a read-only view is a refused write
                    ok = True
                except (ValueError, TypeError):
                    pass
            if not ok:
                return False
        elif route == "pd_sort_inplace":
            if isinstance(obj, pd.Series):
                obj.sort_values(ascending=False, inplace=True)
            else:
                obj.sort_index(ascending=False, inplace=True)
        elif route == "dict_set":
            for k in list(obj):
                obj[k] = (1 if obj[k] != 1 else 2) if isinstance(obj[k], int) else None
        elif route == "list_set":
            obj[0] = None
        return True
    except Exception:  # noqa: BLE001  (a refused write is fine)
        return False


METHODS = ["transform", "evaluate", "pipeline", "eq", "rrt", "user_inplace", "user_inplace"]


def _user_inplace_objects():
    """User-defined methods (skcriteria.extend) that work IN PLACE on what they are handed: they may scribble over
    their arguments, not over the decision matrix the caller passed."""
    from skcriteria.extend import mkagg, mktransformer

    @mktransformer
    def InPlaceT(matrix, weights, objectives, **kwargs):
        for a in (matrix, weights):
            try:
                a *= 2.0
                a[...] = a[::-1].copy()
            except (ValueError, TypeError):     # a read-only argument is a refused write
                pass
        return {"matrix": matrix, "weights": weights}

    @mkagg
    def InPlaceA(matrix, weights, objectives, **kwargs):
        from skcriteria.utils import rank
        for a in (matrix, weights):
            try:
                a += 1.0
            except (ValueError, TypeError):
                pass
        return rank.rank_values(np.asarray(matrix, dtype=float) @ np.asarray(weights, dtype=float), reverse=True), {}
    return InPlaceT(), InPlaceA()


def run_method(dm, name, rng_seed):
    from skcriteria.pipeline import mkpipe
    try:
        if name == "transform":
            T.build(T.config(__import__("random").Random(rng_seed), "MinMaxScaler")).transform(dm)
            T.build({"cls": "NegateMinimize", "params": {}}).transform(dm)
            T.build({"cls": "CRITIC", "params": {"correlation": "pearson", "scale": True}}).transform(dm)
        elif name == "evaluate":
            M.make({"name": "topsis"}).evaluate(dm)
            M.make({"name": "electre1"}).evaluate(dm)
        elif name == "pipeline":
            mkpipe(T.build({"cls": "VectorScaler", "params": {"target": "both"}}), M.make({"name": "ratio"})).evaluate(dm)
        elif name == "user_inplace":
            t, a = _user_inplace_objects()
            try:
                t.transform(dm)
            except Exception:  # noqa: BLE001
                pass
            try:
                a.evaluate(dm)
            except Exception:  # noqa: BLE001
                pass
            try:
                mkpipe(t, a).evaluate(dm)
            except Exception:  # noqa: BLE001
                pass
        elif name == "eq":
            _ = (dm == dm.copy(), dm != dm.copy(), dm.diff(dm.copy()))
        elif name == "rrt":
            from skcriteria.cmp.ranks_rev.rank_inv_check import RankInvariantChecker
            import signal

            def _alarm(*_a):
                raise TimeoutError("rank-reversal test did not finish (known non-termination on zero bounds)")
            old = signal.signal(signal.SIGALRM, _alarm)
            signal.setitimer(signal.ITIMER_REAL, 15)
            try:
                RankInvariantChecker(M.make({"name": "topsis"}), random_state=rng_seed, repeat=1).evaluate(dm)
            finally:
                signal.setitimer(signal.ITIMER_REAL, 0)
                signal.signal(signal.SIGALRM, old)
    except Exception:  # noqa: BLE001
        pass


def gen_dm(rng):
    c = gen.dm_case(rng, nmax=5, mmax=3, nmin=3, mmin=2, positive=True, modes=("dyadic", "float"), structure=True, label_kinds=False,
                    big=0.0)
    for i in range(len(c["matrix"])):
        for k in range(i):
            if c["matrix"][i] == c["matrix"][k]:
                c["matrix"][i][0] += 0.25 * (i + 1)
    # always a dominated alternative (so that dominators_of has something to hand out)
    best = [max(r[j] for r in c["matrix"]) if o == 1 else min(r[j] for r in c["matrix"])
            for j, o in enumerate(c["objectives"])]
    c["matrix"][0] = [b + (1.0 if o == 1 else -0.0625) for b, o in zip(best, c["objectives"])]
    return c


KF = "C02-pandas-string-index-buffer"
KF_TEXT = ("mutating the Index of a pandas object returned by the matrix - renaming it, or writing through its label "
           "buffer (dm.alternatives[a].index.to_numpy()[0] = 'x'; under pandas 3 a string Index hands out its internal "
           "buffer writeable) - changes the matrix's own criteria / alternatives: the returned objects share the "
           "matrix's Index objects (a later lookup may then raise, or crash the interpreter on a freed label)")


def _crashed(item, status):
    return {"crashed": status}


def run_history(case):
    import random
    rng = random.Random(case["hseed"])
    try:
        dm = I.mk(case)
        res = M.make({"name": "topsis"}).evaluate(dm)
        s0, r0 = snap_dm(dm), snap_res(res)
        held, accepted, log = [], 0, []
        for op in case["ops"]:
            if op[0] == "read":
                name = op[1]
                if name.startswith("result."):
                    held.append((name, dict(RES_ACC)[name](res)))
                else:
                    held.append((name, dict(DM_ACC)[name](dm)))
            elif op[0] == "write" and held:
                name, obj = held[op[1] % len(held)]
                rs = routes_for(obj)
                if rs:
                    route = rs[op[2] % len(rs)]
                    if route in ("pd_index_values", "pd_index_name") and case.get("no_index_buffer_writes") \
                            and not name.startswith("result."):
                        continue     # the known finding is about objects returned by the MATRIX only
                    ok = mutate(obj, route)
                    accepted += ok
                    log.append([name, route, bool(ok)])
            elif op[0] == "run":
                run_method(dm, op[1], case["hseed"])
        s1, r1 = snap_dm(dm), snap_res(res)
        diffs = [k for k in s0 if s0[k] != s1[k]] + ["result." + k for k in r0 if r0[k] != r1[k]]
        return {"diffs": diffs, "accepted": accepted, "log": log}
    except Exception as e:  # noqa: BLE001
        return {"error": repr(e)[:300]}


# the arrays handed to the constructor that run_ctor writes into afterwards (Model/Heap.v: n_ctor_inputs)
CTOR_INPUTS = ["matrix", "weights", "objectives", "alternatives", "criteria"]


def run_ctor(case):
    """Write into everything handed to the constructor after construction."""
    try:
        kind = case["label_kind"]
        alts, crits = list(case["alternatives"]), list(case["criteria"])
        if kind == "object":
            alts, crits = np.array(alts, dtype=object), np.array(crits, dtype=object)
        elif kind == "int":
            alts, crits = np.arange(len(alts)) * 10 + 1000, np.arange(len(crits)) + 100   # never equal to a position
        elif kind == "str":
            alts, crits = np.array(alts), np.array(crits)
        mtx = np.array(case["matrix"], dtype=float)
        w = np.array(case["weights"], dtype=float)
        objs = np.array(case["objectives"]) if case["obj_kind"] == "int" else \
            np.array([max if o == 1 else min for o in case["objectives"]], dtype=object)
        if case.get("frozen"):
            # arrays that the caller protects while he shares them ... and thaws again afterwards (his right: they
            # own their memory)
            for a in (mtx, w, objs, alts, crits):
                if isinstance(a, np.ndarray):
                    a.setflags(write=False)
        if case["via"] == "mkdm":
            dm = I.mkdm(mtx, objs, weights=w, alternatives=alts, criteria=crits)
        else:
            from skcriteria.core.data import DecisionMatrix
            # (half of the frames are zero-copy windows on the caller's numpy table)
            df = pd.DataFrame(mtx, index=alts, columns=crits, copy=not case.get("window", False))
            dm = DecisionMatrix(df, objs, w)
        s0 = snap_dm(dm)
        acc = 0
        for a in (mtx, w, objs, alts, crits):
            if isinstance(a, np.ndarray):
                if case.get("frozen"):
                    a.setflags(write=True)
                acc += mutate(a, "arr_item")
                acc += mutate(a, "arr_fill")
            else:
                acc += mutate(a, "list_set")
        if case["via"] != "mkdm":
            acc += mutate(df, "pd_array") + mutate(df, "pd_iloc") + mutate(df, "pd_values") + mutate(df, "pd_index_name")
        s1 = snap_dm(dm)
        return {"diffs": [k for k in s0 if s0[k] != s1[k]], "accepted": acc, "log": []}
    except Exception as e:  # noqa: BLE001
        return {"error": repr(e)[:300]}


def run(ctx):
    I.repo_check()
    ctx.rule = RULE
    # the enumeration must equal the Coq model's and cover the real classes
    n_model, modes = ctx.model.one("accessor_surface", 0)
    if n_model != len(SURFACE) or not all(modes):
        ctx.disagree({"surface": SURFACE}, {"what": "accessor enumeration differs from the Coq model",
                                            "harness": len(SURFACE), "model": n_model})
    n_in, in_modes = ctx.model.one("ctor_surface", 0)
    if n_in != len(CTOR_INPUTS) or not all(in_modes):
        ctx.disagree({"ctor_inputs": CTOR_INPUTS}, {"what": "constructor inputs differ from the Coq model (Model/Heap.v)",
                                                    "harness": len(CTOR_INPUTS), "model": n_in})
    for cls, names in surface_gaps():
        ctx.disagree({"class": cls}, {"what": "public members missing from the accessor enumeration", "names": names})
    cases = []
    # (a) every accessor x every route once
    for name in SURFACE:
        for r in range(8):
            c = gen_dm(ctx.rng)
            c["ops"] = [["read", name], ["write", 0, r], ["run", "eq"]]
            c["hseed"] = ctx.rng.randrange(10 ** 6)
            c["kind"] = "sweep"
            cases.append(c)
    # (c) random histories
    for _ in range(ctx.n(150, 3000)):
        c = gen_dm(ctx.rng)
        ops = []
        for _k in range(ctx.rng.randint(2, 8)):
            t = ctx.rng.random()
            if t < 0.45 or not ops:
                ops.append(["read", ctx.rng.choice(SURFACE)])
            elif t < 0.85:
                ops.append(["write", ctx.rng.randrange(8), ctx.rng.randrange(8)])
            else:
                ops.append(["run", ctx.rng.choice(METHODS)])
        c["ops"] = ops
        c["hseed"] = ctx.rng.randrange(10 ** 6)
        c["kind"] = "history"
        cases.append(c)
    outs = I.pmap(run_history, cases, on_crash=_crashed)
    # (b) constructor inputs
    ccases = []
    for _ in range(ctx.n(60, 600)):
        c = gen_dm(ctx.rng)
        c["label_kind"] = ctx.rng.choice(["list", "object", "int", "str"])
        c["obj_kind"] = ctx.rng.choice(["int", "object"])
        c["via"] = ctx.rng.choice(["mkdm", "mkdm", "ctor"])
        c["frozen"] = ctx.rng.random() < 0.3
        c["window"] = ctx.rng.random() < 0.5
        c["kind"] = "ctor"
        ccases.append(c)
    couts = I.pmap(run_ctor, ccases, on_crash=_crashed)
    for c, o in list(zip(cases, outs)) + list(zip(ccases, couts)):
        ctx.count("kind:" + c["kind"])
        if "crashed" in o:
            # the interpreter itself died during this history.  Writing through the label buffer of a returned
            # pandas Index (the known finding) reaches the matrix's own Index, whose hash table then points at
            # freed strings: the same history without those writes decides whether that is what happened
            ctx.case_seen(c, False)
            if "ops" in c and not c.get("no_index_buffer_writes"):
                how, o2 = I.isolated_call(run_history, dict(c, no_index_buffer_writes=True))
                if how == "ok" and "error" not in o2 and not o2["diffs"] and ctx.known_finding(KF, KF_TEXT):
                    ctx.count("known:index_buffer_write_then_interpreter_crash")
                    continue
            ctx.oracle_fail(c, {"oracle": f"the interpreter died ({o['crashed']}) during this history"})
            continue
        if "error" in o:
            ctx.case_seen(c, False)
            if "ops" in c and not c.get("no_index_buffer_writes"):
                # a write through a returned pandas Index (the known finding) can leave the matrix with
                # duplicate labels, after which a later accessor raises: the same history without those writes
                # decides whether that is what happened
                how, o2 = I.isolated_call(run_history, dict(c, no_index_buffer_writes=True))
                if how == "ok" and "error" not in o2 and not o2["diffs"] and ctx.known_finding(KF, KF_TEXT):
                    ctx.count("known:index_buffer_write_then_raise")
                    continue
            ctx.disagree(c, {"what": "history raised", "exc": o["error"]})
            continue
        ctx.case_seen(c, o["accepted"] > 0)
        for name, route, ok in o["log"]:
            if ok:
                ctx.count("accepted:" + route)
        if o["diffs"]:
            only_kf = False
            if any(route in ("pd_index_values", "pd_index_name") and ok and not _n.startswith("result.")
                   for _n, route, ok in o["log"]):
                c2 = dict(c)
                c2["no_index_buffer_writes"] = True
                how, o2 = I.isolated_call(run_history, c2)
                only_kf = how == "ok" and "error" not in o2 and not o2["diffs"]
            if only_kf and ctx.known_finding(KF, KF_TEXT):
                ctx.count("known:index_buffer_write")
                continue
            ctx.oracle_fail(c, {"oracle": f"after the history the object reports different {o['diffs']}",
                                "writes": o["log"]})
    ctx.traces_validated = len(cases) + len(ccases)
    ctx.notes.append("partial by nature: the theorem is about the ownership abstraction; that each real accessor copies "
                     "is established by this differential check. result.e_ / extra_ and private attributes are outside "
                     "the property's list")


def replay(ctx, rep):
    case = rep["case"]
    if "ops" in case:
        how, o = I.isolated_call(run_history, case)
    elif "label_kind" in case:
        how, o = I.isolated_call(run_ctor, case)
    else:
        print("enumeration case; re-run the check")
        return 0
    if how == "crashed":
        print("the interpreter died while running this history:", o)
        return 1
    print(o)
    return 1 if o.get("diffs") or "error" in o else 0
