"""C05 — rankings do not depend on how the decision problem is written down."""
from fractions import Fraction

import math
import numpy as np

from .. import gen
from .. import impl as I
from .. import methods as M
from .. import transformers as T
from . import c04

RULE = ("each closed-form method (WSM, WPM, TOPSIS x metrics, RatioMOORA, ReferencePointMOORA, FMF, MultiMOORA, ELECTRE1, "
        "ELECTRE2) alone or behind a random pipeline of 1-3 steps (scalers any target, objective inverters, weighters), "
        "on a matrix and on a second PRESENTATION of it: alternatives permuted, criteria (with objectives and weights) "
        "permuted, every label replaced injectively and - for the weight-homogeneous methods - every weight multiplied by "
        "a positive constant (2^k and non-dyadic); the two results are compared BY ALTERNATIVE NAME: in the exact regime "
        "(dyadic data, power-of-two multipliers, rational kernels) ranks / kernel must be identical, otherwise every pair "
        "of alternatives whose scores differ by more than the margin must be ordered the same way and the scores agree "
        "within the margin; the extracted model is run on both presentations as well (rational kernels) and must be "
        "equivariant and agree with the implementation. MultiMOORA cases with an exact tie inside a component ranking "
        "are skipped for the order claim. non-trivial = both permutations are not the identity; distinct by hash")

HOMOGENEOUS = {"wsm", "wpm", "topsis", "ratio", "refpoint", "fmf", "multimoora"}
NAMES = ["wsm", "wpm", "topsis", "ratio", "refpoint", "fmf", "multimoora", "electre1", "electre2"]
STEPS = ["SumScaler", "VectorScaler", "MaxAbsScaler", "MinMaxScaler", "StandarScaler", "NegateMinimize",
         "InvertMinimize", "EqualWeighter", "StdWeighter", "EntropyWeighter", "CRITIC"]


def gen_case(rng, name):
    c = M.method_case(rng, name)
    if name == "multimoora" and rng.random() < 0.6:
        # small integers and small integer weights: exact ties inside a component ranking are common
        n, m = rng.randint(3, 6), rng.randint(2, 4)
        c["matrix"] = [[float(rng.randint(1, 5)) for _ in range(m)] for _ in range(n)]
        c["weights"] = [float(rng.choice([1, 2])) for _ in range(m)]
        c["objectives"] = [rng.choice([1, -1]) for _ in range(m)]
        c["alternatives"] = gen.labels(rng, n, gen.LABEL_POOL_A, "A", kinds=False)
        c["criteria"] = gen.labels(rng, m, gen.LABEL_POOL_C, "C", kinds=False)
        c["mode"] = "int"
    if rng.random() < 0.25 and c.get("mode") != "float":
        # integer-typed criteria next to float ones (values stay in the method's domain)
        gen.integerise(rng, c, positive=all(x > 0 for r in c["matrix"] for x in r))
    n, m = len(c["matrix"]), len(c["weights"])
    # each presentation is also BUILT its own way (mkdm, the constructor with pandas Series, alias spellings of the
    # objectives, a selection out of a larger matrix, a copy, a dict round trip)
    c["route1"], c["route2"] = rng.choice(I.ROUTES), rng.choice(I.ROUTES)
    pr, pc = list(range(n)), list(range(m))
    rng.shuffle(pr)
    rng.shuffle(pc)
    c["perm_r"], c["perm_c"] = pr, pc
    c["relabel"] = rng.choice([True, True, True, False, False, "int", "int"])
    c["mult"] = rng.choice([1.0, 2.0, 0.25, 8.0, 3.0, 0.7, 100.0, 1024.0, 0.001, 1e-9, 1e-12, 2.0 ** -40, 1e6, 1e12]) \
        if name in HOMOGENEOUS else 1.0
    steps = []
    if rng.random() < 0.4 and name not in ("wsm", "wpm"):
        positive = all(x > 0 for r in c["matrix"] for x in r)
        for _ in range(rng.randint(1, 2)):
            pool = [s for s in STEPS if positive or s not in ("SumScaler", "VectorScaler", "MaxAbsScaler",
                                                              "InvertMinimize", "EntropyWeighter")]
            if name in ("fmf", "multimoora"):
                pool = [s for s in pool if s in ("SumScaler", "VectorScaler", "MaxAbsScaler", "InvertMinimize",
                                                 "EqualWeighter", "StdWeighter", "EntropyWeighter", "CRITIC")]
            if not pool:
                break
            cfg = T.config(rng, rng.choice(pool))
            centred = any(q["cls"] == "StandarScaler" and q["params"].get("target") in ("weights", "both")
                          and q["params"].get("with_mean", True) for q in steps)
            if centred and cfg["cls"] in ("SumScaler", "VectorScaler", "MaxAbsScaler") \
                    and cfg["params"].get("target") in ("weights", "both"):
                continue     # mean-centred weights sum to zero up to rounding: dividing by that sum is 0/0, not a problem statement
            if cfg["cls"] == "CRITIC" and len({tuple(r) for r in c["matrix"]}) < 3:
                continue     # two distinct alternatives: every pair of criteria is perfectly correlated, CRITIC is 0/0
                             # there (the recorded finding of C13) - not a problem statement either
            if cfg["cls"] == "MinMaxScaler":
                # weights scaled onto a range that ends at 0 give a criterion the weight 0 (or 2e-16, depending on the
                # presentation): with what is left constant, TOPSIS and friends are 0/0 - not a problem statement
                on_w = cfg["params"].get("target") in ("weights", "both")
                cfg["params"]["criteria_range"] = [1.0, 2.0] if (name in ("fmf", "multimoora") or on_w) \
                    else cfg["params"]["criteria_range"]
            steps.append(cfg)
            if cfg["cls"] in ("MinMaxScaler", "StandarScaler", "NegateMinimize") and cfg["params"].get("target") != "weights":
                positive = False
    if any(s["cls"] in ("EqualWeighter", "StdWeighter", "EntropyWeighter", "CRITIC") for s in steps) or \
            any(s["params"].get("target") in ("weights", "both") for s in steps):
        pass   # weights are recomputed / rescaled: the multiplier may be absorbed, still a valid presentation
    c["steps"] = steps
    return c


def second_presentation(c):
    pr, pc = c["perm_r"], c["perm_c"]
    d = dict(c)
    d["matrix"] = [[c["matrix"][i][j] for j in pc] for i in pr]
    d["objectives"] = [c["objectives"][j] for j in pc]
    d["weights"] = [c["weights"][j] * c["mult"] for j in pc]
    # injective relabelings: to other strings, or (relabel == "int") to integers listed in an order that is neither
    # their sorted order nor their position
    if c["relabel"] == "int":
        na, nc = len(c["alternatives"]), len(c["criteria"])
        # the integer codes 0..k-1, rotated: labels and positions disagree and the listing is not sorted
        amap = {str(a): (k + 1) % max(na, 1) for k, a in enumerate(c["alternatives"])}
        cmap = {str(x): (k + 1) % max(nc, 1) for k, x in enumerate(c["criteria"])}
        ra, rc = (lambda a: amap[str(a)]), (lambda a: cmap[str(a)])
    elif c["relabel"]:
        ra, rc = (lambda a: "alt_" + str(a)[::-1] + "_x"), (lambda a: "crit_" + str(a)[::-1])
    else:
        ra, rc = (lambda a: a), (lambda a: a)
    d["alternatives"] = [ra(c["alternatives"][i]) for i in pr]
    d["criteria"] = [rc(c["criteria"][j]) for j in pc]
    if c.get("dtypes"):
        d["dtypes"] = [c["dtypes"][j] for j in pc]
    d["route"] = c.get("route2")
    return d, {str(ra(a)): str(a) for a in c["alternatives"]}


def evaluate(case):
    from skcriteria.pipeline import mkpipe
    I.set_salt(case.get("matrix"))
    try:
        dm = I.mk(case)
        dmk = M.make(case["method"])
        obj = mkpipe(*[T.build(s) for s in case["steps"]], dmk) if case["steps"] else dmk
        res = obj.evaluate(dm)
        fw = [float(x) for x in (obj.transform(dm) if case["steps"] else dm).weights]
    except Exception as e:  # noqa: BLE001
        return {"error": I.exc_code(e), "exc": repr(e)[:200]}
    extra = {k: M.tolist(res.e_[k]) for k in res.e_ if k != "stages"}
    return {"alternatives": [str(a) for a in res.alternatives], "values": M.tolist(res.values), "extra": extra,
            "final_weights": fw}


def both(case):
    d2, back = second_presentation(case)
    return evaluate(dict(case, route=case.get("route1"))), evaluate(d2), back


def exact_regime(c):
    """Dyadic data and weights, power-of-two multiplier, rational kernel: the float computation is exact (or one
    correctly rounded division of exactly equal operands), so the two presentations must agree exactly."""
    if c["steps"] or not c04.is_exact(c):
        return False
    f = Fraction(c["mult"])
    if f.denominator & (f.denominator - 1) or f.numerator & (f.numerator - 1):
        return False
    name = c["method"]["name"]
    if name in ("wsm", "ratio", "refpoint"):
        return True
    return name == "topsis" and c["method"]["metric"] in ("cityblock", "chebyshev", "sqeuclidean")


def compare(ctx, c, o1, o2, back):
    name = c["method"]["name"]
    if ("error" in o1) != ("error" in o2):
        ctx.oracle_fail(c, {"oracle": f"one presentation is refused ({o1.get('exc') or o2.get('exc')}) and the other is not"})
        return
    if "error" in o1:
        ctx.count("refused:" + name)
        return
    v1 = dict(zip(o1["alternatives"], o1["values"]))
    v2 = {back[a]: v for a, v in zip(o2["alternatives"], o2["values"])}
    if set(v1) != set(v2):
        ctx.oracle_fail(c, {"oracle": "the two presentations name different alternatives"})
        return
    if name == "electre1" or name == "electre2":
        # threshold comparisons on sums of dyadic weights are exact; after a float-producing step a
        # concordance / discordance value may sit on a threshold up to rounding: that case is skipped
        if c["steps"]:
            mt = c["method"]
            ths_c = [mt.get(k, d) for k, d in (("p", 0.65), ("p0", 0.65), ("p1", 0.5), ("p2", 0.35))]
            ths_d = [mt.get(k, d) for k, d in (("q", 0.35), ("q0", 0.65), ("q1", 0.35))]
            for o in (o1, o2):
                for key, ths in (("matrix_concordance", ths_c), ("matrix_discordance", ths_d)):
                    for row in o["extra"][key]:
                        for x in row:
                            if x == x and any(abs(x - t) < 1e-9 for t in ths):
                                ctx.count("electre_threshold_within_rounding_skipped")
                                return
            # ELECTRE2 hands the weights to weights_outrank in the objectives' position (known finding
            # C08-wor-args-exchanged), where they are compared with == 1: a computed weight within rounding
            # of 1.0 (MinMaxScaler on weights) makes that comparison a rounding-level tie - skipped
            if name == "electre2" and any(0 < abs(w - 1.0) < 1e-9 for o in (o1, o2) for w in o["final_weights"]):
                ctx.count("electre2_weight_within_rounding_of_1_skipped")
                return
        if v1 != v2:
            ctx.oracle_fail(c, {"oracle": f"{name}: results differ by alternative name", "first": v1, "second": v2})
        return
    key, desc = M.SCORE[name]
    s1 = dict(zip(o1["alternatives"], o1["extra"][key]))
    s2 = {back[a]: s for a, s in zip(o2["alternatives"], o2["extra"][key])}
    scale_ok = name in ("topsis", "multimoora") or c["mult"] == 1.0 or bool(c["steps"])
    alts = list(v1)
    if name == "multimoora":
        rm = o1["extra"]["rank_matrix"]
        cols = list(zip(*rm))
        # a component tie between different rows is broken by rounding when the component is computed
        # inexactly (the logarithmic fmf score always; ratio / reference point outside the exact regime):
        # only those cases are skipped - an exact tie in an exactly computed component must be handled
        # the same way in both presentations
        # (... and a multiplier that is not a power of two rounds the second presentation's weights)
        m_, e_ = math.frexp(c["mult"])
        exact_lin = (not c["steps"]) and c04.is_exact(c) and m_ == 0.5
        comp_scores = [(o1["extra"]["ratio_score"], exact_lin), (o1["extra"]["refpoint_score"], exact_lin),
                       (o1["extra"]["fmf_score"], False)]
        rows = c["matrix"]
        for sc, exact_comp in comp_scores:
            for i in range(len(sc)):
                for j in range(i):
                    near = abs(sc[i] - sc[j]) <= 1e-9 * max(1.0, abs(sc[i]))
                    if rows[i] != rows[j] and near and not (exact_comp and sc[i] == sc[j]):
                        ctx.count("multimoora_rounding_level_component_tie_skipped")
                        return
    exact = exact_regime(c)
    if exact:
        if v1 != v2:
            ctx.oracle_fail(c, {"oracle": f"{name}: ranks differ by alternative name in the exact regime",
                                "first": v1, "second": v2})
        return
    # margin regime: scores comparable when the score itself is presentation independent.  The absolute floor of
    # the margin (cancellation noise of O(1) terms) scales with the multiplier where the score is homogeneous of
    # degree one in the weights and no step recomputes them; elsewhere it only ever grows
    if name in ("wsm", "wpm", "ratio", "refpoint") and not c["steps"]:
        floor2 = c["mult"]
    else:
        floor2 = max(1.0, c["mult"]) if name in ("wsm", "wpm", "ratio", "refpoint") else 1.0
    for a in alts:
        for b in alts:
            if a >= b:
                continue
            d1, d2 = s1[a] - s1[b], s2[a] - s2[b]
            m1 = 1e-9 * max(1.0, abs(s1[a]), abs(s1[b]))
            m2 = 1e-9 * max(floor2, abs(s2[a]), abs(s2[b]))
            if abs(d1) > m1 and abs(d2) > m2:
                if (d1 > 0) != (d2 > 0):
                    ctx.oracle_fail(c, {"oracle": f"{name}: alternatives {a},{b} are ordered differently by the two "
                                                  f"presentations (score gaps {d1!r} vs {d2!r})"})
                    return
                if (v1[a] < v1[b]) != (v2[a] < v2[b]):
                    ctx.oracle_fail(c, {"oracle": f"{name}: ranks of {a},{b} are ordered differently "
                                                  f"({v1[a]},{v1[b]} vs {v2[a]},{v2[b]})"})
                    return
    if scale_ok and not c["steps"] and name in ("topsis",):
        for a in alts:
            if abs(s1[a] - s2[a]) > 1e-9:
                ctx.oracle_fail(c, {"oracle": f"topsis similarity of {a} differs between presentations: {s1[a]} vs {s2[a]}"})
                return


def model_equivariance(ctx, cases):
    """Rational kernels: the model on both presentations, compared by position through the permutation."""
    calls, own = [], []
    for k, c in enumerate(cases):
        name = c["method"]["name"]
        f = Fraction(c["mult"])
        pow2 = not (f.denominator & (f.denominator - 1) or f.numerator & (f.numerator - 1))
        if c["steps"] or name not in ("wsm", "ratio", "refpoint") or not pow2:
            continue     # a non power-of-two multiplier is rounded when the second presentation is written down
        d2, _ = second_presentation(c)
        for d in (c, d2):
            calls.append((name, ([o == 1 for o in d["objectives"]], d["weights"], d["matrix"])))
        own.append(k)
    mods = ctx.model.batch(calls)
    for t, k in enumerate(own):
        c = cases[k]
        a, b = mods[2 * t], mods[2 * t + 1]
        if isinstance(a, list) and isinstance(b, list):
            sa, sb = a[1], b[1]
            want = [sa[i] * Fraction(c["mult"]) for i in c["perm_r"]]
            if sb != want:
                ctx.disagree(c, {"what": "model scores are not equivariant", "first": sa, "second": sb})
            ra, rb = a[0], b[0]
            if rb != [ra[i] for i in c["perm_r"]]:
                ctx.disagree(c, {"what": "model ranks are not equivariant", "first": ra, "second": rb})
        elif type(a) is not type(b):
            ctx.disagree(c, {"what": "model refuses one presentation only"})


def run(ctx):
    I.repo_check()
    ctx.rule = RULE
    per = ctx.n(70, 1500)
    cases = [gen_case(ctx.rng, name) for name in NAMES for _ in range(per)]
    outs = I.pmap(both, cases)
    for c, (o1, o2, back) in zip(cases, outs):
        name = c["method"]["name"]
        ctx.count("method:" + name + (":pipeline" if c["steps"] else ""))
        n, m = len(c["matrix"]), len(c["weights"])
        ctx.case_seen(c, c["perm_r"] != list(range(n)) and (m == 1 or c["perm_c"] != list(range(m))))
        compare(ctx, c, o1, o2, back)
    model_equivariance(ctx, cases)
    ctx.traces_validated = len(cases)


def replay(ctx, rep):
    case = rep["case"]
    o1, o2, back = both(case)
    print("first presentation :", o1)
    print("second presentation:", o2)
    compare(ctx, case, o1, o2, back)
    print("oracle             :", ctx.oracle_failures or "property holds on this case")
    return 1 if ctx.oracle_failures else 0
