"""C09 — SIMUS stages are optimal LP solutions credited to the right alternatives."""
from fractions import Fraction

import numpy as np

from .. import gen
from .. import impl as I
from .. import methods as M
from .. import simplex as SX

RULE = ("positive decision matrices with 2-40 alternatives (half of them with more than ten), 2-4 criteria of which at "
        "least two are maximised, all objective mixes, both rank_by settings, optional user-supplied b with "
        "unspecified entries; for every stage an exact Fraction simplex (untrusted) proposes a primal/dual pair and "
        "the EXTRACTED, PROVED certificate checker accepts it, which certifies the true optimum z*; the "
        "implementation's stage must report Optimal, lp_objective = z* (1e-7 relative) and its values, credited "
        "positionally to the alternatives, must satisfy every constraint (1e-7) and attain z* (alternative optimal "
        "vertices are accepted, a permuted credit is not); stage rows, both score vectors, domination / "
        "subordination, the dominance table and the ranking are compared with the extracted model evaluated on the "
        "implementation's own reported rows; scipy HiGHS is used as an independent optimum in the search phase. "
        "non-trivial = more than ten alternatives or a minimise criterion or a user-supplied b; distinct by hash")

TOL = 1e-7


def gen_case(rng, big):
    n = rng.randint(11, 40 if big else 25) if rng.random() < 0.5 else rng.randint(2, 10)
    if rng.random() < 0.12:
        n = rng.randint(33, 70)         # several dozen alternatives
    m = rng.randint(2, 4)
    mode = rng.choice(["int", "dyadic", "tiny"])
    if mode == "int":
        mtx = [[float(rng.randint(1, 60)) for _ in range(m)] for _ in range(n)]
    elif mode == "dyadic":
        mtx = [[rng.randint(8, 400) / 8.0 for _ in range(m)] for _ in range(n)]
    else:
        mtx = [[float(rng.randint(1, 5)) for _ in range(m)] for _ in range(n)]
    objs = [rng.choice([1, 1, -1]) for _ in range(m)]
    for j in rng.sample(range(m), 2):
        objs[j] = 1
    twins = m >= 3 and rng.random() < 0.15
    if twins:
        # the same indicator entered twice (same values, same sense)
        j, k = rng.sample(range(m), 2)
        for r in mtx:
            r[k] = r[j]
        objs[k] = objs[j]
        if sum(o == 1 for o in objs) < 2:
            objs = [1] * m
    b = None
    if rng.random() < (0.35 if not twins else 0.8):
        b = []
        for j in range(m):
            col = [r[j] for r in mtx]
            t = rng.random()
            if t < 0.4:
                b.append(None)
            elif t < 0.5:
                b.append(0.0)                 # a legal bound: nothing may be used / no lower bound at all
            elif objs[j] == 1:
                # looser than, equal to, or TIGHTER than the default (the column maximum)
                b.append(max(col) * rng.choice([1.0, 1.5, 2.0, 0.75, 0.5, 0.25]))
            else:
                b.append(min(col) * rng.choice([1.0, 0.5, 1.25, 2.0, 4.0]))
        if all(v is None for v in b) or all(v is not None for v in b):
            b[rng.randrange(m)] = None if all(v is not None for v in b) else 0.0
    return {"matrix": mtx, "objectives": objs, "weights": [1.0] * m, "b": b,
            "alternatives": [f"A{i}" for i in range(n)] if rng.random() < 0.7 else gen.labels(rng, n, [], "Q"),
            "criteria": gen.labels(rng, m, gen.LABEL_POOL_C, "C"),
            "method": {"name": "simus", "rank_by": rng.choice([1, 2])}, "mode": mode, "tags": ["twin_criteria"] if twins else [],
            # whole numbers are often stored as integers (the library's own SIMUS example is)
            **({"dtypes": ["int64"] * m} if mode in ("int", "tiny") and rng.random() < 0.5 else {})}


def stage_arg(case, z):
    tm = [list(col) for col in zip(*case["matrix"])]
    user = [([] if v is None else [v]) for v in (case["b"] or [None] * len(tm))]
    return ([o == 1 for o in case["objectives"]], tm, user, z)


def highs_optimum(case, z):
    from scipy.optimize import linprog
    tm = np.array(case["matrix"], dtype=float).T
    objs = case["objectives"]
    m = len(objs)
    b = case["b"] or [None] * m
    bv = [(v if v is not None else (tm[k].max() if objs[k] == 1 else tm[k].min())) for k, v in enumerate(b)]
    A, ub = [], []
    for k in range(m):
        if k == z:
            continue
        if objs[k] == 1:
            A.append(tm[k]); ub.append(bv[k])
        else:
            A.append(-tm[k]); ub.append(-bv[k])
    cvec = -tm[z] if objs[z] == 1 else tm[z]
    r = linprog(cvec, A_ub=np.array(A), b_ub=np.array(ub), bounds=(0, None), method="highs")
    return (float(r.fun) * (-1 if objs[z] == 1 else 1)) if r.status == 0 else None


def run_function_api(case):
    """The module-level function skcriteria.agg.simus.simus with plain Python containers (the class converts b to an
    array first; a caller of the function need not)."""
    from skcriteria.agg import simus as S
    try:
        mtx = np.array(case["matrix"], dtype=float)
        objs = np.array(case["objectives"])
        box = {"list": list, "tuple": tuple, "array": lambda v: np.array(v, dtype=object)}[case["b_box"]]
        b = None if case["b"] is None else box(case["b"])
        with I.quiet_fds():
            out = S.simus(mtx, objs, b=b, rank_by=case["method"]["rank_by"])
        return {"rank": [int(x) for x in out[0]], "m1": [float(x) for x in out[3]], "m2": [float(x) for x in out[4]]}
    except Exception as e:  # noqa: BLE001
        return {"error": repr(e)[:200]}


def run(ctx):
    I.repo_check()
    ctx.rule = RULE
    cases, want = [], ctx.n(60, 700)
    while len(cases) < want:
        c = gen_case(ctx.rng, ctx.tier == "thorough")
        # a user bound may make a stage infeasible: such a problem has no SIMUS solution and is outside the property
        if c["b"] is not None and any(highs_optimum(c, z) is None for z in range(len(c["objectives"]))):
            ctx.count("generated_problem_with_an_infeasible_stage_skipped")
            continue
        ctx.count("b:" + ("default" if c["b"] is None else
                          "user(" + ",".join(sorted({"none" if v is None else "zero" if v == 0 else "value" for v in c["b"]})) + ")"))
        cases.append(c)
    outs = I.pmap(M.evaluate, cases, chunksize=1)
    for c in cases:
        c["b_box"] = ctx.rng.choice(["list", "tuple", "array"])
    fouts = I.pmap(run_function_api, cases, chunksize=1)
    for c, o, fo in zip(cases, outs, fouts):
        if "error" in o:
            continue
        if "error" in fo:
            ctx.oracle_fail(c, {"oracle": f"simus() with b as a {c['b_box']} raised {fo['error']} where the class succeeds"})
        elif fo["rank"] != [int(x) for x in o["values"]] or \
                any(abs(x - y) > 1e-9 for x, y in zip(fo["m1"], o["extra"]["method_1_score"])):
            ctx.oracle_fail(c, {"oracle": f"simus() with b as a {c['b_box']} gives ranking {fo['rank']} / scores {fo['m1']} but the "
                                          f"class gives {list(o['values'])} / {o['extra']['method_1_score']}"})
    # ---- stage LPs from the model, exact certificates from the untrusted simplex --------------------
    lp_calls, own = [], []
    for k, c in enumerate(cases):
        for z in range(len(c["objectives"])):
            lp_calls.append(("stage_lp", stage_arg(c, z)))
            own.append((k, z))
    lps = ctx.model.batch(lp_calls)
    certs, cert_calls = {}, []
    for (k, z), (lp, _bv) in zip(own, lps):
        cvec, A, b = lp
        st, x, y = SX.solve(cvec, A, b)
        certs[(k, z)] = (st, x, y)
        if st == "optimal":
            cert_calls.append(("check_cert", (stage_arg(cases[k], z), x, y)))
    cres = iter(ctx.model.batch(cert_calls))
    zstar = {}
    for (k, z) in own:
        st, x, y = certs[(k, z)]
        if st == "optimal":
            ok, val = next(cres)
            if ok:
                zstar[(k, z)] = val
            else:
                ctx.count("certificate_rejected")
        else:
            ctx.count("simplex:" + st)
    # ---- the implementation's stages ----------------------------------------------------------------------
    ev_calls, ev_own = [], []
    for k, (c, o) in enumerate(zip(cases, outs)):
        n, m = len(c["matrix"]), len(c["objectives"])
        ctx.count("n>10" if n > 10 else "n<=10")
        ctx.case_seen(c, n > 10 or -1 in c["objectives"] or c["b"] is not None)
        if "error" in o:
            ctx.disagree(c, {"what": "SIMUS raised on a feasible bounded problem", "exc": o.get("exc")})
            continue
        e = o["extra"]
        for z in range(m):
            st = e["stages"][z]
            if list(st["lp_variables"]) != [f"x{i}" for i in range(n)]:
                ctx.oracle_fail(c, {"oracle": f"stage {z}: variables are listed as {st['lp_variables'][:13]}..., "
                                              "so the i-th value is not that of the i-th alternative's variable"})
                break
            ev_calls.append(("stage_eval", (stage_arg(c, z), [float(v) for v in st["lp_values"]])))
            ev_own.append((k, z))
    evs = ctx.model.batch(ev_calls)
    bad_cases = set()
    for (k, z), (Ax, b, val) in zip(ev_own, evs):
        c, o = cases[k], outs[k]
        if k in bad_cases:
            continue
        st = o["extra"]["stages"][z]
        vals = [float(v) for v in st["lp_values"]]
        scale = max(1.0, max(abs(float(v)) for v in b) if b else 1.0)
        msg = None
        if st["lp_status"] != "Optimal":
            msg = f"stage {z}: status {st['lp_status']}"
        elif any(v < -TOL for v in vals):
            msg = f"stage {z}: negative value"
        elif any(float(a) > float(bb) + TOL * scale for a, bb in zip(Ax, b)):
            j = next(i for i, (a, bb) in enumerate(zip(Ax, b)) if float(a) > float(bb) + TOL * scale)
            msg = (f"stage {z}: the values credited to the alternatives violate constraint {j} "
                   f"({float(Ax[j])} > {float(b[j])} in <=-form)")
        elif (k, z) in zstar:
            zs = float(zstar[(k, z)])
            if abs(float(val) - zs) > TOL * max(1.0, abs(zs)):
                msg = f"stage {z}: credited values give objective {float(val)} but the certified optimum is {zs}"
            elif abs(float(st["lp_objective"]) - zs) > TOL * max(1.0, abs(zs)):
                msg = f"stage {z}: lp_objective {st['lp_objective']} but the certified optimum is {zs}"
        if msg:
            ref = highs_optimum(c, z)
            ctx.oracle_fail(c, {"oracle": msg, "scipy_highs_optimum": ref, "stage": z})
            bad_cases.add(k)
    # ---- rows, scores, ranking from the implementation's own stage rows --------------------------------
    calls2, own2 = [], []
    for k, (c, o) in enumerate(zip(cases, outs)):
        if "error" in o:
            continue
        e = o["extra"]
        n = len(c["matrix"])
        calls2.append(("normalise_rows", [[float(v) for v in s["lp_values"]] for s in e["stages"]]))
        own2.append((k, "rows"))
        calls2.append(("simus_scores", (n, e["stages_results"])))
        own2.append((k, "scores"))
        if int(e["rank_by"]) != int(c["method"]["rank_by"]):
            ctx.oracle_fail(c, {"oracle": f"the method was configured with rank_by={c['method']['rank_by']} but the result "
                                          f"was ranked by method {e['rank_by']}"})
            continue
        sc = e["method_1_score"] if c["method"]["rank_by"] == 1 else e["method_2_score"]
        calls2.append(("rank", (True, sc)))
        own2.append((k, "rank"))
    for (k, kind), mo in zip(own2, ctx.model.batch(calls2)):
        c, o = cases[k], outs[k]
        e = o["extra"]

        def near(a, b):
            return abs(Fraction(a) - Fraction(b)) <= Fraction(1, 10 ** 11) * (1 + abs(Fraction(b)))
        if kind == "rows":
            if not all(near(a, b) for ra, rb in zip(e["stages_results"], mo) for a, b in zip(ra, rb)):
                ctx.disagree(c, {"what": "stages_results is not the normalised solution", "impl": e["stages_results"]})
        elif kind == "scores":
            m1, m2, p, s, d = mo
            for name, got, want in (("method_1_score", e["method_1_score"], m1), ("method_2_score", e["method_2_score"], m2),
                                    ("tita_j_p", e["tita_j_p"], p), ("tita_j_d", e["tita_j_d"], s)):
                if not all(near(a, b) for a, b in zip(got, want)):
                    ctx.disagree(c, {"what": name, "impl": got, "model": [float(x) for x in want]})
                    break
            else:
                if not all(near(a, b) for ra, rb in zip(e["dominance"], d) for a, b in zip(ra, rb)):
                    ctx.disagree(c, {"what": "dominance table"})
        else:
            if list(o["values"]) != list(mo):
                ctx.disagree(c, {"what": "rank_", "impl": o["values"], "model": mo})
    ctx.hist["stages_certified"] = len(zstar)
    ctx.hist["stages_total"] = len(own)
    ctx.traces_validated = len(cases)
    ctx.trusted_extra = ["CBC (PuLP) is an oracle: its answer is certified per stage through the verified checker, "
                         "not proved in general", "harness/simplex.py only proposes certificates (untrusted)"]


def replay(ctx, rep):
    case = rep["case"]
    o = M.evaluate(case)
    if "error" in o:
        print("implementation raised:", o)
        return 1
    bad = 0
    for z in range(len(case["objectives"])):
        lp, _ = ctx.model.one("stage_lp", stage_arg(case, z))
        st, x, y = SX.solve(*lp)
        ok, zs = ctx.model.one("check_cert", (stage_arg(case, z), x, y)) if st == "optimal" else (False, None)
        s = o["extra"]["stages"][z]
        Ax, b, val = ctx.model.one("stage_eval", (stage_arg(case, z), [float(v) for v in s["lp_values"]]))
        print(f"stage {z}: certified optimum {None if zs is None else float(zs)} (certificate accepted={ok}); "
              f"implementation objective {s['lp_objective']}, credited values give {float(val)}; variables "
              f"{list(s['lp_variables'])[:12]}")
        if ok and abs(float(val) - float(zs)) > TOL * max(1.0, abs(float(zs))):
            bad = 1
        if any(float(a) > float(bb) + TOL * max(1.0, abs(float(bb))) for a, bb in zip(Ax, b)):
            bad = 1
    return bad
