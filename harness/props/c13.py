"""C13 — weighting methods are normalised, definition-conformant and order-independent."""
from fractions import Fraction

import numpy as np

from .. import closing as CL
from .. import gen
from .. import impl as I
from .. import transformers as T

RULE = ("EqualWeighter (base_value grid), StdWeighter, EntropyWeighter (positive data), CRITIC (pearson / spearman x "
        "scale on/off) on matrices with >=3 alternatives and no constant criterion, all objective mixes, tied values "
        "in about half of the cases (average-rank ties matter for Spearman), values from tight relative spreads to "
        "several decades; each weight is compared (a) with the closing (sqrt / ln at 60 digits) of the extracted "
        "model's rational cores (sample variance, population variance, covariance table of the (scaled, ranked) "
        "criteria, probabilities) and (b) with an independent Decimal re-computation of the published formula; the "
        "weights must be >= 0 and sum to 1; a permuted presentation (alternatives and criteria shuffled, other "
        "incoming weights) must give every named criterion the same weight; matrix and objectives bit-identical. "
        "non-trivial = >=2 criteria and the weights are not all equal; distinct by hash")

KF = "C13-critic-all-correlated-nan"
KF_TEXT = ("CRITIC returns NaN weights when every criterion is perfectly correlated with every other one - in "
           "particular for a single criterion - (all (1 - correlation) terms are 0, so the normalisation is 0/0) "
           "instead of non-negative weights summing to 1")
NAMES = ["EqualWeighter", "StdWeighter", "EntropyWeighter", "CRITIC"]


def gen_case(rng, name):
    cfg = T.config(rng, name)
    positive = name == "EntropyWeighter" or rng.random() < 0.5
    mode = rng.choice(["tiny123", "int", "dyadic", "float", "logfloat", "tight", "unit"])
    n, m = gen.shape(rng, 9, 5, 3, 1, big=0.0)
    if mode == "unit":
        # a matrix that is already on the unit interval in every criterion (membership degrees; the output of a
        # min-max scaler): smallest value 0, largest value 1
        mtx = [[rng.randint(0, 16) / 16.0 for _ in range(m)] for _ in range(n)]
        for j in range(m):
            a, b = rng.sample(range(n), 2)
            mtx[a][j], mtx[b][j] = 0.0, 1.0
        if positive:
            mode = "int"
            mtx = gen.values(rng, n, m, mode, positive=True)
    elif mode == "tight":
        base = [rng.choice([10.0, 230.0, 1000.0]) for _ in range(m)]
        mtx = [[base[j] * (1 + rng.randint(-40, 40) / 10000.0) for j in range(m)] for _ in range(n)]
    else:
        mtx = gen.values(rng, n, m, mode, positive=positive)
    for j in range(m):
        if len({r[j] for r in mtx}) == 1:
            mtx[0][j] = mtx[0][j] + 1.0
    objs = gen.objectives(rng, m)
    perm_r = list(range(n))
    rng.shuffle(perm_r)
    perm_c = list(range(m))
    rng.shuffle(perm_c)
    warm = None
    if rng.random() < 0.5:
        # the weighter has been used before, on another problem with the same criteria
        wn = rng.randint(3, 8)
        warm = {"matrix": [[float(rng.randint(1, 60)) + rng.random() for _ in range(m)] for _ in range(wn)]}
    extra = {}
    if mode in ("tiny123", "int") and all(float(x).is_integer() for r in mtx for x in r) and rng.random() < 0.5:
        extra["dtypes"] = ["int64"] * m         # whole numbers stored as integers
    return {**extra, "warm": warm, "matrix": mtx, "objectives": objs, "weights": gen.weights(rng, m),
            "weights2": gen.weights(rng, m), "perm_r": perm_r, "perm_c": perm_c,
            "alternatives": gen.labels(rng, n, gen.LABEL_POOL_A, "A", kinds=False),
            "criteria": gen.labels(rng, m, gen.LABEL_POOL_C, "C", kinds=False), "tf": cfg, "mode": mode}


def run_impl(case):
    o1 = T.run_transform(case)
    pr, pc = case["perm_r"], case["perm_c"]
    c2 = dict(case)
    c2["matrix"] = [[case["matrix"][i][j] for j in pc] for i in pr]
    c2["objectives"] = [case["objectives"][j] for j in pc]
    c2["weights"] = [case["weights2"][j] for j in pc]
    c2["alternatives"] = [case["alternatives"][i] for i in pr]
    c2["criteria"] = [case["criteria"][j] for j in pc]
    o2 = T.run_transform(c2)
    # the public function behind CRITIC, given plain Python containers (a caller need not hold numpy arrays)
    if case["tf"]["cls"] in ("CRITIC", "Critic") and "error" not in o1:
        try:
            from skcriteria.preprocessing.weighters import critic_weights
            box = [list, tuple, lambda v: np.array(v), lambda v: __import__("pandas").Series(v)][len(case["matrix"]) % 4]
            pp = case["tf"]["params"]
            fw = critic_weights(box([box(r) for r in case["matrix"]]) if box in (list, tuple) else np.array(case["matrix"], dtype=float),
                                box([int(o) for o in case["objectives"]]), correlation=pp.get("correlation", "pearson"),
                                scale=pp.get("scale", True))
            o1["function_weights"] = [float(x) for x in fw]
        except Exception as e:  # noqa: BLE001
            o1["function_error"] = repr(e)[:200]
    return o1, o2


def D(x):
    return CL.D(x)


def published(case):
    """Independent Decimal re-computation of the published formulas."""
    name, p = case["tf"]["cls"], case["tf"]["params"]
    mtx = [[D(x) for x in r] for r in case["matrix"]]
    n, m = len(mtx), len(mtx[0])
    cols = [[r[j] for r in mtx] for j in range(m)]
    if name == "EqualWeighter":
        return [D(p["base_value"]) / m] * m

    def mean(v):
        return sum(v) / len(v)

    def std(v, ddof):
        mu = mean(v)
        return (sum((x - mu) ** 2 for x in v) / (len(v) - ddof)).sqrt()
    if name == "StdWeighter":
        s = [std(c, 1) for c in cols]
        return [x / sum(s) for x in s]
    if name == "EntropyWeighter":
        div = []
        for c in cols:
            tot = sum(c)
            h = -sum((x / tot) * (x / tot).ln() for x in c) / D(n).ln()
            div.append(1 - h)
        return [x / sum(div) for x in div]
    # CRITIC
    objs = case["objectives"]
    if p["scale"]:
        sc = []
        for j, c in enumerate(cols):
            best, worst = (max(c), min(c)) if objs[j] == 1 else (min(c), max(c))
            sc.append([(x - worst) / (best - worst) for x in c])
        cols = sc
    sd = [std(c, 0) for c in cols]
    rk = cols
    if p["correlation"] == "spearman":
        rk = [[D(sum(1 for y in c if y < x)) + (D(sum(1 for y in c if y == x)) + 1) / 2 for x in c] for c in cols]

    def corr(a, b):
        ma, mb = mean(a), mean(b)
        cv = sum((x - ma) * (y - mb) for x, y in zip(a, b))
        va, vb = sum((x - ma) ** 2 for x in a), sum((y - mb) ** 2 for y in b)
        if a == b or (cv > 0 and cv * cv == va * vb):
            return D(1)        # exactly proportional columns (a criterion with itself in particular)
        return cv / (va * vb).sqrt()
    u = [sd[j] * sum(1 - corr(rk[j], rk[k]) for k in range(m)) for j in range(m)]
    if sum(u) == 0:
        return None
    return [x / sum(u) for x in u]


def from_cores(case, mo):
    name, p = case["tf"]["cls"], case["tf"]["params"]
    svar, pvarM, pvarR, covR, probs = mo
    m = len(svar)
    n = len(case["matrix"])
    if name == "EqualWeighter":
        return None
    if name == "StdWeighter":
        s = [CL.sqrt(v) for v in svar]
        return [x / sum(s) for x in s]
    if name == "EntropyWeighter":
        div = [1 + sum(D(q) * CL.ln(q) for q in pj) / CL.ln(n) for pj in probs]
        return [x / sum(div) for x in div]
    sd = [CL.sqrt(v) for v in pvarM]
    u = [sd[j] * sum(1 - D(covR[j][k]) / (CL.sqrt(pvarR[j]) * CL.sqrt(pvarR[k])) for k in range(m)) for j in range(m)]
    if sum(u) == 0:
        return None
    return [x / sum(u) for x in u]


def conditioning(case):
    """Relative margin: the weights are quotients of standard deviations of possibly tight columns."""
    worst = 1.0
    for j in range(len(case["weights"])):
        col = [r[j] for r in case["matrix"]]
        spread = max(col) - min(col)
        mag = max(abs(x) for x in col)
        worst = min(worst, spread / mag if mag else 1.0)
    return 1e-11 / max(worst, 1e-6) ** 2


CORPUS = [
    {"matrix": [[1.0], [2.0], [4.0]], "objectives": [1], "weights": [1.0], "weights2": [2.0], "perm_r": [2, 0, 1],
     "perm_c": [0], "alternatives": ["a", "b", "c"], "criteria": ["x"], "mode": "int",
     "tf": {"cls": "CRITIC", "params": {"correlation": "pearson", "scale": True}, "kind": 5}},
]


def run(ctx):
    I.repo_check()
    ctx.rule = RULE
    per = ctx.n(110, 2000)
    cases = [dict(c) for c in CORPUS] + [gen_case(ctx.rng, name) for name in NAMES for _ in range(per)]
    outs = I.pmap(run_impl, cases)
    calls = []
    for c in cases:
        p = c["tf"]["params"]
        calls.append(("weight_cores", ([o == 1 for o in c["objectives"]], c["matrix"],
                                       bool(p.get("scale", False)), p.get("correlation") == "spearman")))
    mods = ctx.model.batch(calls)
    eqw = ctx.model.batch([("equal_weights", (c["tf"]["params"]["base_value"], len(c["weights"])))
                           for c in cases if c["tf"]["cls"] == "EqualWeighter"], shards=1)
    eqi = iter(eqw)
    for c, (o1, o2), mo in zip(cases, outs, mods):
        name, p = c["tf"]["cls"], c["tf"]["params"]
        ctx.count("weighter:" + name + (":" + p["correlation"] + (":scaled" if p["scale"] else "") if name == "CRITIC" else ""))
        ctx.count("mode:" + c["mode"])
        if "error" in o1 or "error" in o2:
            ctx.case_seen(c, False)
            ctx.disagree(c, {"what": "weighter raised on an in-domain matrix", "exc": o1.get("exc") or o2.get("exc")})
            continue
        w = o1["after"]["weights"]
        m = len(w)
        if "function_error" in o1:
            ctx.oracle_fail(c, {"oracle": "critic_weights() raised " + o1["function_error"] + " where CRITIC succeeds"})
        elif "function_weights" in o1 and any((a == a or b == b) and abs(a - b) > 1e-9 for a, b in zip(o1["function_weights"], w)):
            ctx.oracle_fail(c, {"oracle": f"critic_weights() given plain containers returns {o1['function_weights']} but "
                                          f"CRITIC gives {w} on the same data"})
        want = published(c)
        if want is None:
            # CRITIC with every criterion perfectly correlated with every other (in particular a single
            # criterion): every (1 - r) term is 0 and the published formula is 0/0
            ctx.count("critic_formula_0_over_0")
            ctx.case_seen(c, False)
            if all(x != x for x in w):
                if not ctx.known_finding(KF, KF_TEXT):
                    ctx.oracle_fail(c, {"oracle": "CRITIC returns NaN weights"})
            continue
        ctx.case_seen(c, m >= 2 and len(set(w)) > 1)
        tol = conditioning(c)
        # normalisation, frame
        if name != "EqualWeighter":
            if any(x != x or x < -1e-15 for x in w) or abs(sum(w) - 1) > 1e-9:
                ctx.oracle_fail(c, {"oracle": f"weights {w} are not non-negative summing to 1"})
                continue
        if not o1["matrix_bits_equal"] or o1["before"]["objectives"] != o1["after"]["objectives"]:
            ctx.oracle_fail(c, {"oracle": "matrix or objectives changed by a weighter"})
        # published formula (independent) and model cores
        for j in range(m):
            if abs(D(w[j]) - want[j]) > D(tol) * (1 + abs(want[j])):
                ctx.oracle_fail(c, {"oracle": f"weight of criterion {c['criteria'][j]} is {w[j]!r} but the "
                                              f"published formula gives {want[j]}"})
                break
        if name == "EqualWeighter":
            mw = next(eqi)
            if [Fraction(x) for x in w] != mw and any(abs(Fraction(a) - b) > abs(b) * Fraction(1, 2 ** 51) for a, b in zip(w, mw)):
                ctx.disagree(c, {"what": "equal weights", "impl": w, "model": mw})
        else:
            fw = from_cores(c, mo)
            for j in range(m):
                if abs(D(w[j]) - fw[j]) > D(tol) * (1 + abs(fw[j])):
                    ctx.disagree(c, {"what": f"weight {j} vs closing of the model cores", "impl": w[j], "model": str(fw[j])})
                    break
        # permuted presentation + other incoming weights: same weight per named criterion
        w2 = dict(zip(o2["after"]["criteria"], o2["after"]["weights"]))
        for j, cr in enumerate(c["criteria"]):
            if abs(w2[cr] - w[j]) > tol * (1 + abs(w[j])):
                ctx.oracle_fail(c, {"oracle": f"criterion {cr}: weight {w[j]!r} but {w2[cr]!r} when alternatives/"
                                              "criteria are listed in another order with other incoming weights"})
                break
    ctx.traces_validated = len(cases)


def replay(ctx, rep):
    case = rep["case"]
    o1, o2 = run_impl(case)
    print("implementation:", o1.get("after", o1), "\npermuted      :", o2.get("after", o2))
    if "error" in o1:
        return 1
    want = published(case)
    if want is None:
        nan = all(x != x for x in o1["after"]["weights"])
        print("published     : 0/0 (every criterion perfectly correlated with every other)")
        print("oracle        :", "VIOLATED - NaN weights (" + KF + ")" if nan else "formula undefined; nothing to compare")
        return 1 if nan else 0
    print("published     :", [str(x)[:22] for x in want])
    bad = any(abs(D(a) - b) > D(conditioning(case)) * (1 + abs(b)) for a, b in zip(o1["after"]["weights"], want))
    w2 = dict(zip(o2["after"]["criteria"], o2["after"]["weights"]))
    bad = bad or any(abs(w2[cr] - o1["after"]["weights"][j]) > conditioning(case) * 2
                     for j, cr in enumerate(case["criteria"]))
    print("oracle        :", "VIOLATED" if bad else "property holds on this case")
    return 1 if bad else 0
