"""C20 — methods are stateless and deterministic across calls."""
import copy as _copy
import pickle

import numpy as np

from .. import gen
from .. import impl as I
from .. import methods as M
from .. import transformers as T
from . import c16

RULE = ("every transformer / decision-maker class found by introspection (plus pipelines, mkagg / mktransformer "
        "products and filters / imputers in random parameterisations, randomised imputer configurations with an "
        "integer seed included) as ONE object fed a random sequence of 4-9 decision matrices of varying shape, label "
        "order and criteria layout, including out-of-domain matrices that make the call raise; a probe matrix is "
        "evaluated at 3 positions of the sequence and must give bit-identical output (or the same exception class) "
        "as a freshly built object with the same parameters; the object's __dict__ (deep snapshot) must be unchanged "
        "after every call; a second object with equal parameters is run in lock-step and must agree call by call. "
        "non-trivial = sequence with >=2 different shapes or a failing call before the last probe; distinct by hash")


def describe_out(x):
    """Bit-exact, comparable description of an output (DecisionMatrix, result, or exception)."""
    if isinstance(x, Exception):
        return ("EXC", type(x).__name__)
    if hasattr(x, "to_dict") and hasattr(x, "iobjectives"):
        d = T.dump(x)
        return ("DM", d["alternatives"], d["criteria"], d["objectives"], T.bits(d["weights"]).tolist(),
                T.bits(d["matrix"]).tolist())
    if hasattr(x, "e_"):
        ex = {}
        for k in x.e_:
            v = x.e_[k]
            if isinstance(v, np.ndarray) and v.dtype.kind in "fiub":
                ex[k] = T.bits(v).tolist() if v.dtype.kind == "f" else v.tolist()
        return ("RES", [str(a) for a in x.alternatives], np.asarray(x.values).tolist(), ex)
    return ("OTHER", repr(x))


def state_of(obj):
    try:
        return pickle.dumps({k: v for k, v in sorted(vars(obj).items())}, protocol=4)
    except Exception:  # noqa: BLE001
        return repr(sorted((k, repr(v)) for k, v in vars(obj).items()))


def call(obj, dm, item=None):
    try:
        with I.quiet_fds():
            if hasattr(obj, "evaluate"):
                if isinstance(item, dict) and item.get("b_kw") is not None and type(obj).__name__ == "SIMUS":
                    return obj.evaluate(dm, b=list(item["b_kw"]))     # the per-call keyword SIMUS accepts
                return obj.evaluate(dm)
            return obj.transform(dm)
    except Exception as e:  # noqa: BLE001
        return e


def build_obj(spec, rng_seed, twin=False):
    """twin=True: an object with EQUAL parameters written differently where that is possible (a conditions
    dictionary with the same items in the reverse key order)."""
    import random
    rng = random.Random(rng_seed)
    kind = spec["kind"]
    if twin and kind == "tf" and len(spec["cfg"].get("conditions") or []) >= 2:
        return T.build(spec["cfg"], conditions=list(reversed(spec["cfg"]["conditions"])))
    if kind == "class":
        cls = c16.all_method_classes()[spec["qual"]]
        return c16.make_instance(rng, spec["qual"], cls)
    if kind == "tf":
        cfg = spec["cfg"]
        return T.build(cfg)
    if kind == "pipe":
        from skcriteria.pipeline import mkpipe
        return mkpipe(*[T.build(c) for c in spec["steps"]], M.make(spec["dmaker"]))
    if kind == "user":
        from skcriteria.extend import mkagg, mktransformer
        if spec["which"] == "agg":
            @mkagg(p=2, offset=0.25)
            def UserAgg(matrix, weights, hparams, **kwargs):
                from skcriteria.utils import rank
                s = ((np.asarray(matrix, dtype=float) + hparams.offset) ** hparams.p) @ np.asarray(weights, dtype=float)
                return rank.rank_values(s, reverse=True), {"score": s}
            UserAgg(p=5)            # somebody else configured one of these differently: no business of ours
            UserAgg().copy(p=7)
            return UserAgg()

        @mktransformer(k=3.0)
        def UserT(matrix, hparams, **kwargs):
            return {"matrix": np.asarray(matrix, dtype=float) * hparams.k}
        UserT(k=10.0)
        return UserT()
    raise KeyError(kind)


def gen_matrix(rng, crit_pool):
    style = rng.choice(["positive", "positive", "mixed", "zeros", "nan", "allmin", "reordered", "narrow", "inf"])
    m = rng.randint(1, 4)
    n = rng.randint(2, 6)
    crits = crit_pool[:m]
    if style == "reordered":
        crits = list(crits)
        rng.shuffle(crits)
    if style == "narrow" and m > 1:
        crits = crits[1:]
        m -= 1
    mtx = [[rng.randint(1, 40) / 4.0 for _ in range(m)] for _ in range(n)]
    objs = [rng.choice([1, 1, -1]) for _ in range(m)]
    if style == "mixed":
        mtx[0][0] = -abs(mtx[0][0])
    if style == "zeros":
        # a zero cost / delay: mostly in a criterion that is to be minimised (1/0 under InvertMinimize)
        j0 = rng.randrange(m)
        if rng.random() < 0.6:
            objs[j0] = -1
        mtx[rng.randrange(n)][j0] = 0.0
    if style == "allmin":
        objs = [-1] * m
    nan = []
    if style == "nan":
        nan = [[rng.randrange(n), rng.randrange(m)]]
    if style == "inf":
        # an infinite cell (stored like a missing one; JSON has no infinity): most methods refuse such a matrix, and
        # must refuse it every time
        nan = [[rng.randrange(n), rng.randrange(m), "inf"]]
    out = {"matrix": mtx, "objectives": objs, "weights": [rng.randint(1, 16) / 8.0 for _ in range(m)],
           "alternatives": [f"A{i}" for i in range(n)], "criteria": list(crits), "nan": nan, "style": style}
    if rng.random() < 0.3:
        # a per-call keyword argument (SIMUS's b): right length (looser bounds), or a wrong length that makes the call raise
        k = m if rng.random() < 0.5 else rng.choice([m + 1, max(1, m - 1), 1, 4])
        out["b_kw"] = [None if rng.random() < 0.4 else rng.choice([50.0, 80.0, 0.0]) for _ in range(k)]
    return out


def mk(case):
    mtx = np.array(case["matrix"], dtype=float)
    for cell in case["nan"]:
        mtx[cell[0], cell[1]] = np.inf if len(cell) > 2 else np.nan
    return I.mkdm(mtx, list(case["objectives"]), weights=list(case["weights"]),
                  alternatives=list(case["alternatives"]), criteria=list(case["criteria"]))


def gen_spec(rng, quals):
    t = rng.random()
    if rng.random() < 0.04:
        # a threshold filter that may let nothing through, followed by a function filter whose function looks at the
        # criterion as a whole (and cannot be evaluated on an empty one), then a decision maker
        f1 = T.config(rng, "FilterGT")
        f1["conditions"] = [["C0", rng.choice([4.0, 6.0, 9.5])]]
        f1["ignore_missing"] = True
        f2 = T.config(rng, "Filter")
        f2["conditions"] = [["C0", "near_best"]]
        f2["ignore_missing"] = True
        return {"kind": "pipe", "steps": [f1, f2], "dmaker": {"name": rng.choice(["ratio", "refpoint"])}}
    if t < 0.06:
        # the one method with a per-call keyword argument
        sim = [q for q in quals if q.endswith(".SIMUS")]
        if sim:
            return {"kind": "class", "qual": sim[0]}
    if t < 0.10:
        # the objective inverters (their output depends on nothing but the matrix, zeros included)
        return {"kind": "tf", "cfg": T.config(rng, rng.choice(["InvertMinimize", "NegateMinimize"]))}
    if t < 0.45:
        return {"kind": "class", "qual": rng.choice(quals)}
    if t < 0.75:
        name = rng.choice(T.ALL_CLASSES)
        cfg = T.config(rng, name)
        if name in T.FILTERS and name != "FilterNonDominated":
            conds = [["C0", "gt2" if name == "Filter" else ([2.5, 5.0] if name in ("FilterIn", "FilterNotIn") else 2.5)]]
            if rng.random() < 0.5:
                conds.append(["C1", "pos" if name == "Filter" else ([1.0] if name in ("FilterIn", "FilterNotIn") else 1.0)])
            cfg["conditions"] = conds
            cfg["ignore_missing"] = rng.random() < 0.5
        if name == "IterativeImputer" and rng.random() < 0.6:
            cfg["params"].update(rng.choice([{"sample_posterior": True}, {"imputation_order": "random"},
                                             {"n_nearest_criteria": 1}]))
            cfg["params"]["random_state"] = rng.choice([0, 3, 11])
        return {"kind": "tf", "cfg": cfg}
    if t < 0.9:
        steps = [T.config(rng, rng.choice(["SumScaler", "MinMaxScaler", "StandarScaler", "NegateMinimize", "FilterGT",
                                           "CRITIC", "VectorScaler"])) for _ in range(rng.randint(1, 3))]
        for cfg in steps:
            if cfg["cls"] == "FilterGT":
                cfg["conditions"] = [["C0", 1.5]]
                cfg["ignore_missing"] = True
        return {"kind": "pipe", "steps": steps, "dmaker": {"name": rng.choice(["topsis", "ratio", "refpoint"])}}
    return {"kind": "user", "which": rng.choice(["agg", "tf"])}


def canary():
    """A fixed battery of calls made by FRESH objects on FIXED matrices (a finite one, one with an infinite cell, one
    with a missing cell), plus the process-wide settings of the numeric libraries.  Its outcome can only change when
    something outside every object has changed: hidden state shared by the whole process."""
    import pandas as pd
    import sklearn
    from skcriteria.agg.similarity import TOPSIS
    from skcriteria.preprocessing import impute, scalers
    good = np.array([[1.0, 2.0, 4.0], [2.5, 1.0, 3.0], [4.0, 3.5, 1.0], [3.0, 5.0, 2.0]])
    inf = good.copy()
    inf[1, 1] = np.inf
    nan = good.copy()
    nan[2, 0] = np.nan
    outs = []
    for mtx in (good, inf, nan):
        dm = I.mkdm(mtx, [max, min, max], weights=[0.5, 0.25, 0.25])
        # (matrix targets only: the battery itself stays clear of the other code paths, which the sequences and
        # fresh_probe() exercise between two runs of it)
        for mkobj in (lambda: scalers.MinMaxScaler("matrix"), lambda: scalers.StandarScaler("matrix"),
                      lambda: scalers.SumScaler("matrix"), lambda: impute.KNNImputer(), lambda: TOPSIS()):
            outs.append(describe_out(call(mkobj(), dm)))
    cfg = sklearn.get_config()
    outs.append(("settings", sorted((k, repr(v)) for k, v in np.geterr().items()),
                 sorted((k, repr(v)) for k, v in cfg.items()),
                 repr(pd.get_option("mode.chained_assignment")), repr(np.get_printoptions().get("precision")),
                 # the warnings filters (a call that turns warnings into errors, or silences them, for everybody)
                 [(f[0], getattr(f[2], "__name__", str(f[2])), str(f[1]), str(f[3]), f[4]) for f in __import__("warnings").filters]))
    return outs


def fresh_probe():
    """Run in a NEW interpreter (python -c): the battery, then one call of every catalogued class in each of its
    targets and of every decision maker on an ordinary matrix, then the battery again.  Prints a JSON verdict."""
    import json
    import random
    import sys
    rng = random.Random(0)
    c0 = canary()
    dm = I.mkdm(np.array([[1.0, 2.0, 4.0], [2.5, 1.0, 3.0], [4.0, 3.5, 1.0], [3.0, 5.0, 2.0]]), [max, min, max],
                weights=[0.5, 0.25, 0.25], criteria=["C0", "C1", "C2"])
    done = []
    for name in T.ALL_CLASSES:
        for tgt in ("matrix", "weights", "both"):
            cfg = T.config(rng, name)
            if "target" in cfg["params"]:
                cfg["params"]["target"] = tgt
            elif tgt != "matrix":
                continue
            if name in T.FILTERS and name != "FilterNonDominated":
                cfg["conditions"] = [["C0", "gt2" if name == "Filter" else ([2.5, 4.0] if name in ("FilterIn", "FilterNotIn") else 2.5)]]
            try:
                call(T.build(cfg), dm)
                done.append(name + ":" + tgt)
            except Exception:  # noqa: BLE001
                pass
    for nm in ("wsm", "wpm", "topsis", "ratio", "refpoint", "fmf", "multimoora", "electre1", "electre2", "simus"):
        d2 = dm if nm not in ("wsm", "wpm") else I.mkdm(dm.matrix.to_numpy(), [max, max, max], weights=[0.5, 0.25, 0.25])
        call(M.make_direct({"name": nm}), d2)
        done.append(nm)
    c1 = canary()
    diff = [i for i, (a, b) in enumerate(zip(c0, c1)) if a != b]
    sys.stdout.write("FRESH-PROBE " + json.dumps({"same": c0 == c1, "exercised": len(done), "items": diff,
                                                  "before": [str(c0[i])[:200] for i in diff[:3]],
                                                  "after": [str(c1[i])[:200] for i in diff[:3]]}) + "\n")


def run_fresh_probe():
    import json
    import os
    import subprocess
    import sys
    env = dict(os.environ)
    try:
        p = subprocess.run([sys.executable, "-W", "ignore", "-c", "from harness.props import c20; c20.fresh_probe()"],
                           capture_output=True, text=True, env=env, timeout=900,
                           cwd=os.path.dirname(os.path.dirname(os.path.dirname(os.path.abspath(__file__)))))
    except subprocess.TimeoutExpired:
        return {"same": True, "timed_out": True}      # a loaded machine: no verdict from the probe (counted)
    for ln in p.stdout.splitlines():
        if ln.startswith("FRESH-PROBE "):
            return json.loads(ln[len("FRESH-PROBE "):])
    return {"same": None, "error": (p.stderr or p.stdout)[-600:]}


def norm_eq(a, b):
    try:
        return bool(a == b) if not isinstance(a, (list, tuple, dict)) else a == b
    except Exception:  # noqa: BLE001
        return None


def run_seq(case):
    I.set_salt([case["spec"], case["oseed"]])
    try:
        obj = build_obj(case["spec"], case["oseed"])
        twin = build_obj(case["spec"], case["oseed"], twin=True)
        if obj is None:
            return {"skip": True}
        can0 = canary()
        probe = mk(case["probe"])
        ref = describe_out(call(build_obj(case["spec"], case["oseed"]), probe))
        s0 = state_of(obj)
        problems = []
        if case["spec"]["kind"] == "user":
            want = {"p": 2, "offset": 0.25} if case["spec"]["which"] == "agg" else {"k": 3.0}
            got_attr = {k: getattr(obj, k, None) for k in want}
            if dict(obj.get_parameters()) != want or got_attr != want:
                problems.append(f"a fresh user-made method with default hyper-parameters reports {obj.get_parameters()} "
                                f"(declared defaults {want})")
        for k, item in enumerate(case["seq"]):
            dm = probe if item == "PROBE" else mk(item)
            if k == case.get("derive_at") and hasattr(obj, "get_parameters"):
                # in between, somebody derives a VARIANT of the object (copy with one parameter overridden) and throws it
                # away: the object, its plain copy and its rebuild from get_parameters() must not notice
                try:
                    ps = obj.get_parameters()
                    ov = [(n, v) for n in ps for v in c16.OVERRIDES.get(n, []) if norm_eq(ps[n], v) is False]
                    if ov:
                        n, v = ov[case["oseed"] % len(ov)]
                        obj.copy(**{n: v})
                except Exception:  # noqa: BLE001
                    pass
            if item == "PROBE" and hasattr(obj, "copy") and case.get("derive_at") is not None:
                for how, o2 in (("copy()", lambda: obj.copy()), ("rebuilt from get_parameters()", lambda: type(obj)(**obj.get_parameters()))):
                    try:
                        got = describe_out(call(o2(), probe))
                    except Exception as e:  # noqa: BLE001
                        got = ("EXC-BUILD", type(e).__name__)
                    if got != ref:
                        problems.append(f"call {k}: the object's {how} behaves differently from the object")
            out = describe_out(call(obj, dm, item))
            out2 = describe_out(call(twin, dm, item))
            if out != out2:
                problems.append(f"call {k}: two objects with equal parameters disagree")
            if item == "PROBE" and out != ref:
                problems.append(f"call {k}: probe output differs from a fresh object's "
                                f"({out[0]} vs {ref[0]}{' ' + str(out[1]) if out[0] == 'EXC' else ''})")
            if state_of(obj) != s0:
                problems.append(f"call {k}: the object's __dict__ changed")
                s0 = state_of(obj)
        can1 = canary()
        if can1 != can0:
            k = [i for i, (a, b) in enumerate(zip(can0, can1)) if a != b][0]
            problems.append(f"state shared by the whole process changed during this sequence: fresh objects on fixed "
                            f"matrices answer differently afterwards (battery item {k}: {str(can0[k])[:80]} -> "
                            f"{str(can1[k])[:80]})")
        return {"problems": problems, "ref_kind": ref[0]}
    except Exception as e:  # noqa: BLE001
        return {"error": repr(e)[:300]}


def run(ctx):
    I.repo_check()
    ctx.rule = RULE
    quals = sorted(q for q in c16.all_method_classes()
                   if not q.endswith("RankInvariantChecker") and not q.endswith("SKCPipeline"))
    cases = []
    for _ in range(ctx.n(400, 5000)):
        spec = gen_spec(ctx.rng, quals)
        pool = ["C0", "C1", "C2", "C3"]
        probe = gen_matrix(ctx.rng, pool)
        while probe["style"] in ("nan",) and ctx.rng.random() < 0.5:
            probe = gen_matrix(ctx.rng, pool)
        seq = [gen_matrix(ctx.rng, pool) for _ in range(ctx.rng.randint(3, 6))]
        for pos in sorted(ctx.rng.sample(range(len(seq) + 1), 2), reverse=True):
            seq.insert(pos, "PROBE")
        if ctx.rng.random() < 0.3 and probe["style"] not in ("nan", "inf"):
            # right before the last probe: a matrix that prints like the probe but is another one (one cell differs in
            # the eleventh digit - which breaks a tie if that value occurs twice in its criterion)
            import copy as _copy
            near = _copy.deepcopy(probe)
            n_, m_ = len(near["matrix"]), len(near["matrix"][0])
            j_ = ctx.rng.randrange(m_)
            col = [r[j_] for r in near["matrix"]]
            tied = [i for i in range(n_) if col.count(col[i]) > 1]
            i_ = ctx.rng.choice(tied) if tied else ctx.rng.randrange(n_)
            near["matrix"][i_][j_] = near["matrix"][i_][j_] * (1 + 2.0 ** -36)
            near["style"] = "near_probe"
            seq.append(near)
        seq.append("PROBE")
        cases.append({"spec": spec, "probe": probe, "seq": seq, "oseed": ctx.rng.randrange(10 ** 6),
                      "derive_at": ctx.rng.randrange(len(seq)) if ctx.rng.random() < 0.5 else None})
    fp = run_fresh_probe()
    ctx.count("fresh_interpreter_probe:classes_exercised", fp.get("exercised", 0))
    if fp.get("timed_out"):
        ctx.count("fresh_interpreter_probe:timed_out")
    if fp.get("same") is None:
        ctx.disagree({"fresh_probe": True}, {"what": "the fresh-interpreter probe could not be run", "detail": fp})
    elif not fp["same"]:
        ctx.oracle_fail({"fresh_probe": True},
                        {"oracle": "state shared by the whole process: in a new interpreter, fresh objects on fixed "
                                   "matrices answer differently after one call of every catalogued class than before",
                         "detail": fp})
    outs = I.pmap(run_seq, cases, chunksize=4)
    for c, o in zip(cases, outs):
        name = c["spec"].get("qual", "").split(".")[-1] or c["spec"].get("cfg", {}).get("cls") or c["spec"]["kind"]
        ctx.count("object:" + name)
        if o.get("skip"):
            ctx.case_seen(c, False)
            continue
        if "error" in o:
            ctx.case_seen(c, False)
            ctx.disagree(c, {"what": "sequence could not be run", "exc": o["error"]})
            continue
        shapes = {(len(x["matrix"]), len(x["criteria"]), tuple(x["criteria"])) for x in c["seq"] if x != "PROBE"}
        ctx.case_seen(c, len(shapes) >= 2)
        ctx.count("probe_outcome:" + o["ref_kind"])
        if o["problems"]:
            ctx.oracle_fail(c, {"oracle": o["problems"][0], "all": o["problems"][:5]})
    ctx.traces_validated = len(cases)
    ctx.notes.append("partial by nature: the theorem is a frame statement about 'state = parameters'; that the real "
                     "classes keep no other state is what this differential check establishes. RankInvariantChecker "
                     "holds a Generator and is deliberately stateful across evaluate() calls; it is not a transformer / "
                     "decision maker / pipeline and is outside the property")


def replay(ctx, rep):
    if rep["case"].get("fresh_probe"):
        fp = run_fresh_probe()
        print("fresh-interpreter probe:", fp)
        return 0 if fp.get("same") else 1
    o = run_seq(rep["case"])
    print(o)
    return 1 if o.get("problems") or "error" in o else 0
