"""C17 — equality and diff are total, consistent, and name exactly what differs."""
import copy as _copy
from fractions import Fraction

import numpy as np

from .. import gen
from .. import impl as I

RULE = ("pairs of decision matrices, rank/kernel results and rank comparators: identically constructed, copy(), one "
        "member changed below / exactly at / above the tolerance (dyadic values and tolerances, so atol + rtol*|b| is "
        "hit exactly), different lengths or shapes, array-valued extras of different length, unrelated types (None, "
        "int, str, ndarray); for each pair ==, !=, equals, aequals(rtol, atol), diff(...).members_diff in BOTH "
        "directions and the three skcriteria.testing.assert_* helpers; outcome = value or exception class, compared "
        "with the extracted model's diff / equals / neb / aequals and with the direct reading of the property. "
        "non-trivial = the two objects differ in exactly one member or in shape/length/type; distinct by hash")

TOLS = [(0.0, 0.0), (2.0 ** -10, 2.0 ** -20), (0.125, 0.25), (1e-05, 1e-08), (0.0, 0.5)]
DM_MEMBERS = ["shape", "criteria", "alternatives", "objectives", "weights", "matrix", "dtypes"]
MEMBER_NAMES = DM_MEMBERS + ["method", "values", "extra_", "ranks"]


# ---- descriptions -> real objects ---------------------------------------------------------------
def build(desc):
    t = desc["t"]
    if t == "dm":
        return I.mkdm(np.array(desc["matrix"], dtype=float), list(desc["objectives"]), weights=list(desc["weights"]),
                      alternatives=list(desc["alternatives"]), criteria=list(desc["criteria"]),
                      dtypes=[np.int64 if x == 0 else np.float64 for x in desc["dtypes"]])
    if t == "res":
        from skcriteria.agg import KernelResult, RankResult
        extra = {k: np.array(v, dtype=float) for k, v in desc["extra"].items()}
        if desc["kernel"]:
            return KernelResult(desc["method"], desc["alternatives"], [bool(v) for v in desc["values"]], extra)
        return RankResult(desc["method"], desc["alternatives"], [int(v) for v in desc["values"]], extra)
    if t == "cmp":
        from skcriteria.cmp import RanksComparator
        return RanksComparator([(nm, build(r)) for nm, r in desc["ranks"]])
    return {"none": None, "int": 7, "str": "A0", "arr": np.array([1.0, 2.0]), "list": [1, 2]}[desc["v"]]


class It:
    def __init__(self):
        self.t = {}

    def __call__(self, s):
        return self.t.setdefault(s, len(self.t) + 1)


def lk(prefix, x):
    """Label key for the model: a label is its value AND its kind (1 is not '1')."""
    return prefix + (x if isinstance(x, str) else "#" + type(x).__name__ + ":" + repr(x))


def enc(desc, it):
    t = desc["t"]
    if t == "dm":
        return [1, [it(lk("a:", a)) for a in desc["alternatives"]], [it(lk("c:", c)) for c in desc["criteria"]],
                [o == 1 for o in desc["objectives"]], desc["weights"], desc["matrix"], desc["dtypes"]]
    if t == "res":
        return [2, enc_res(desc, it)]
    if t == "cmp":
        return [4, [(it("n:" + nm), enc_res(r, it)) for nm, r in desc["ranks"]]]
    return [9, {"none": 0, "int": 1, "str": 2, "arr": 3, "list": 4}[desc["v"]]]


def enc_res(desc, it):
    return [bool(desc["kernel"]), it("m:" + desc["method"]), [it(lk("a:", a)) for a in desc["alternatives"]],
            [float(v) for v in desc["values"]], [(it("k:" + k), v) for k, v in sorted(desc["extra"].items())]]


# ---- generators --------------------------------------------------------------------------------------
def gen_dm(rng):
    c = gen.dm_case(rng, nmax=5, mmax=4, nmin=1, mmin=1, modes=("dyadic", "int"), structure=False, big=0.0, label_kinds=False)
    m = len(c["weights"])
    # an integer-valued criterion may be typed int64 or float64
    dts = [(rng.choice([0, 1]) if all(float(r[j]).is_integer() for r in c["matrix"]) else 1) for j in range(m)]
    return {"t": "dm", "matrix": c["matrix"], "objectives": c["objectives"],
            "weights": gen.weights(rng, m, "dyadic"), "alternatives": c["alternatives"], "criteria": c["criteria"],
            "dtypes": dts}


def gen_res(rng, kernel=None):
    n = rng.randint(1, 6)
    kernel = rng.random() < 0.3 if kernel is None else kernel
    k = rng.randint(1, n)
    vals = [rng.random() < 0.5 for _ in range(n)] if kernel else \
        rng.sample(list(range(1, k + 1)) + [rng.randint(1, k) for _ in range(n - k)], n)
    extra = {}
    for key in rng.sample(["score", "aux", "z"], rng.randint(0, 2)):
        extra[key] = [rng.randint(-16, 40) / 8.0 for _ in range(rng.choice([n, n, 2, 3]))]
    alts = gen.labels(rng, n, gen.LABEL_POOL_A, "A", kinds=False)
    if rng.random() < 0.25:
        alts = rng.sample(range(1, 3 * n + 1), n)        # integer labels
    return {"t": "res", "kernel": kernel, "method": rng.choice(["WSM", "TOPSIS", "m"]),
            "alternatives": alts, "values": [int(v) for v in vals],
            "extra": extra}


def perturb(rng, desc, rtol, atol):
    """-> (new description, relation label).  One member changed, or shape/length changed."""
    d = _copy.deepcopy(desc)
    t = d["t"]
    dyadic = Fraction(rtol).denominator <= 2 ** 30 and Fraction(atol).denominator <= 2 ** 30
    how = rng.choice(["below", "at", "above"] if dyadic else ["below", "above"])

    def bump(b):
        lim = Fraction(atol) + Fraction(rtol) * abs(Fraction(b))
        delta = {"below": lim / 2, "at": lim, "above": lim * 2 + Fraction(1, 8)}[how]
        return float(Fraction(b) + delta)
    if t == "dm":
        n, m = len(d["alternatives"]), len(d["criteria"])
        what = rng.choice(["weights", "matrix", "objectives", "alternatives", "criteria", "shape_rows", "shape_cols",
                           "dtypes", "dtypes"])
        if what == "dtypes" and rng.random() < 0.3 and all(float(x).is_integer() for r in d["matrix"] for x in r):
            # whole numbers held as integers against the same data measured with decimals, held as floats
            # (two members differ: the values and the storage types)
            desc["dtypes"][:] = [0] * m
            d["dtypes"] = [1] * m
            for _ in range(rng.randint(1, 3)):
                i, j = rng.randrange(n), rng.randrange(m)
                d["matrix"][i][j] = d["matrix"][i][j] + rng.choice([0.5, 0.75, 0.25])
            return d, "two:matrix+dtypes"
        if what == "dtypes":
            # the same values held in the other dtype (only possible for an integer-valued criterion)
            ok = [j for j in range(m) if all(float(r[j]).is_integer() for r in d["matrix"])]
            if ok:
                j = rng.choice(ok)
                d["dtypes"][j] = 1 - d["dtypes"][j]
                return d, "one:dtypes"
            what = "weights"
        if what == "matrix":
            fl = [j for j in range(m) if d["dtypes"][j] == 1]     # a fractional change needs a float-typed criterion
            if fl:
                i, j = rng.randrange(n), rng.choice(fl)
                d["matrix"][i][j] = bump(d["matrix"][i][j])
                return d, f"one:matrix:{how}"
            what = "weights"
        if what == "weights":
            j = rng.randrange(m)
            d["weights"][j] = bump(d["weights"][j])
            return d, f"one:weights:{how}"
        if what == "objectives":
            j = rng.randrange(m)
            d["objectives"][j] = -d["objectives"][j]
            return d, "one:objectives"
        if what == "alternatives":
            if n >= 2 and rng.random() < 0.5:   # same labels, another order (labels only)
                i, j = rng.sample(range(n), 2)
                d["alternatives"][i], d["alternatives"][j] = d["alternatives"][j], d["alternatives"][i]
            else:
                d["alternatives"][rng.randrange(n)] = "ZZnew"
            return d, "one:alternatives"
        if what == "criteria":
            if m >= 2 and rng.random() < 0.5:
                i, j = rng.sample(range(m), 2)
                d["criteria"][i], d["criteria"][j] = d["criteria"][j], d["criteria"][i]
            else:
                d["criteria"][rng.randrange(m)] = "ZZnew"
            return d, "one:criteria"
        if what == "shape_rows":
            d["matrix"].append(list(d["matrix"][0]))
            d["alternatives"].append("ZZrow")
            return d, "shape"
        for r in d["matrix"]:
            r.append(1.0)
        d["criteria"].append("ZZcol")
        d["objectives"].append(1)
        d["weights"].append(1.0)
        d["dtypes"].append(1)
        return d, "shape"
    if t == "res":
        n = len(d["alternatives"])
        what = rng.choice(["method", "alternatives", "values", "extra", "extra_len", "extra_key", "length"])
        if what == "method":
            d["method"] = d["method"] + "x"
            return d, "one:method"
        if what == "alternatives":
            ints = [i for i, a in enumerate(d["alternatives"]) if isinstance(a, int)]
            if ints and rng.random() < 0.5:
                # the same labels as text: 1 becomes "1" (one of them, or all)
                for i in (ints if rng.random() < 0.5 else [rng.choice(ints)]):
                    d["alternatives"][i] = str(d["alternatives"][i])
            elif n >= 2 and rng.random() < 0.5:
                i, j = rng.sample(range(n), 2)
                d["alternatives"][i], d["alternatives"][j] = d["alternatives"][j], d["alternatives"][i]
            else:
                d["alternatives"][rng.randrange(n)] = "ZZnew"
            return d, "one:alternatives"
        if what == "values":
            if d["kernel"]:
                i = rng.randrange(n)
                d["values"][i] = 0 if d["values"][i] else 1
            else:
                vals = [v + 1 for v in d["values"]] + []
                vals[rng.randrange(n)] = 1
                d["values"] = vals if sorted(set(vals)) == list(range(1, len(set(vals)) + 1)) else \
                    [1 if i == 0 else 2 for i in range(n)] if d["values"] != [1 if i == 0 else 2 for i in range(n)] else [1] * n
            return d, "one:values" if d["values"] != desc["values"] else "identical"
        if what == "extra" and d["extra"]:
            k = rng.choice(sorted(d["extra"]))
            i = rng.randrange(len(d["extra"][k]))
            d["extra"][k][i] = bump(d["extra"][k][i])
            return d, f"one:extra_:{how}"
        if what == "extra_len" and d["extra"]:
            k = rng.choice(sorted(d["extra"]))
            d["extra"][k] = d["extra"][k] + [1.0]
            return d, "one:extra_"
        if what == "extra_key":
            d["extra"]["newkey"] = [1.0]
            return d, "one:extra_"
        d["alternatives"] = d["alternatives"] + ["ZZrow"]
        d["values"] = d["values"] + [d["values"][0]]
        return d, "length"
    return d, "identical"


def gen_pair(rng):
    rtol, atol = rng.choice(TOLS)
    kind = rng.choice(["dm", "dm", "res", "res", "cmp", "other"])
    if kind == "dm":
        a = gen_dm(rng)
    elif kind == "res":
        a = gen_res(rng)
    elif kind == "cmp":
        k = rng.randint(2, 3)
        base = gen_res(rng, kernel=False)
        ranks = []
        for t in range(k):
            r = _copy.deepcopy(base)
            r["values"] = gen_res(rng, kernel=False)["values"][:len(base["alternatives"])]
            while len(r["values"]) < len(base["alternatives"]):
                r["values"].append(1)
            u = sorted(set(r["values"]))
            r["values"] = [u.index(v) + 1 for v in r["values"]]
            ranks.append([f"r{t}", r])
        a = {"t": "cmp", "ranks": ranks}
    else:
        a = rng.choice([gen_dm(rng), gen_res(rng)])
    rel = rng.choice(["identical", "copy", "perturb", "perturb", "perturb", "other"]) if kind != "other" else "other"
    if rel in ("identical", "copy"):
        b = _copy.deepcopy(a)
    elif rel == "other":
        b = rng.choice([{"t": "other", "v": v} for v in ("none", "int", "str", "arr", "list")] +
                       [gen_dm(rng), gen_res(rng)])
        rel = "type" if b["t"] != a["t"] or (b["t"] == "res" and b["kernel"] != a["kernel"]) else "unrelated"
    elif kind == "cmp":
        b = _copy.deepcopy(a)
        what = rng.choice(["drop", "name", "rank"])
        suffix = ""
        if what == "drop" and len(b["ranks"]) > 2:
            b["ranks"].pop()
        elif what == "name":
            b["ranks"][0][0] = "other"
        else:
            b["ranks"][0][1], r2 = perturb(rng, b["ranks"][0][1], rtol, atol)
            suffix = ":" + r2.split(":")[-1] if r2.split(":")[-1] in ("below", "at") else ""
            if len(b["ranks"][0][1]["alternatives"]) != len(b["ranks"][1][1]["alternatives"]) or \
                    set(b["ranks"][0][1]["alternatives"]) != set(b["ranks"][1][1]["alternatives"]):
                b = _copy.deepcopy(a)
                b["ranks"][0][0] = "other"
        rel = ("one:ranks" + (suffix if b["ranks"][0][0] != "other" else "")) if b != a else "identical"
    else:
        b, rel = perturb(rng, a, rtol, atol)
    return {"a": a, "b": b, "rel": rel, "rtol": rtol, "atol": atol, "check_dtypes": rng.random() < 0.5,
            "copy": rel == "copy"}


# ---- implementation ------------------------------------------------------------------------------------
def outcome(f):
    try:
        return f()
    except Exception as e:  # noqa: BLE001
        return "RAISED:" + type(e).__name__


def ops(x, y, case):
    rt, at, cd = case["rtol"], case["atol"], case["check_dtypes"]

    def dd():
        d = x.diff(y, rtol=rt, atol=at, check_dtypes=cd)
        return [bool(d.different_types), sorted(MEMBER_NAMES.index(m) for m in d.members_diff)]
    return {"eq": outcome(lambda: bool(x == y)), "ne": outcome(lambda: bool(x != y)),
            "equals": outcome(lambda: bool(x.equals(y))),
            "aequals": outcome(lambda: bool(x.aequals(y, rtol=rt, atol=at))),
            "diff": outcome(dd)}


def run_impl(case):
    from skcriteria import testing
    try:
        a = build(case["a"])
        b = a.copy() if case["copy"] and hasattr(a, "copy") else build(case["b"])
    except Exception as e:  # noqa: BLE001
        return {"build_error": repr(e)[:200]}
    out = {"ab": ops(a, b, case)}
    if hasattr(b, "diff"):
        out["ba"] = ops(b, a, case)
    fn = {"dm": testing.assert_dmatrix_equals, "res": testing.assert_result_equals,
          "cmp": testing.assert_rcmp_equals}[case["a"]["t"]]
    out["assert"] = outcome(lambda: fn(a, b, rtol=case["rtol"], atol=case["atol"]) or "ok")
    return out


def model_call(case, swap=False):
    it = It()
    x, y = enc(case["a"], it), enc(case["b"], it)
    if swap:
        x, y = y, x
    return ("diff", (case["rtol"], case["atol"], case["check_dtypes"], x, y))


def check(ctx, case, o, mab, mba):
    if "build_error" in o:
        ctx.count("unbuildable")
        return
    rel = case["rel"]
    for side, mo in (("ab", mab), ("ba", mba)):
        if side not in o:
            continue
        r = o[side]
        raised = [k for k, v in r.items() if isinstance(v, str) and v.startswith("RAISED")]
        if raised:
            ctx.oracle_fail(case, {"oracle": f"{raised} raised: {[r[k] for k in raised]} ({side}, relation {rel})"})
            return
        if r["ne"] != (not r["eq"]) or r["eq"] != r["equals"]:
            ctx.oracle_fail(case, {"oracle": f"==, != and equals are inconsistent: {r}"})
            return
        if r["equals"] and not r["aequals"]:
            ctx.oracle_fail(case, {"oracle": "exact equality does not imply tolerant equality"})
            return
        mdiff = [mo[0], sorted(mo[1])]
        got = {"diff": r["diff"], "equals": r["equals"], "ne": r["ne"], "aequals": r["aequals"]}
        want = {"diff": mdiff, "equals": mo[2], "ne": mo[3], "aequals": mo[4]}
        # aequals / equals in the library ignore dtypes=check flag differences: equals uses check_dtypes=True
        if got != want:
            ctx.disagree(case, {"side": side, "impl": got, "model": want})
            break
    ab = o["ab"]
    if "ba" in o and ab["equals"] != o["ba"]["equals"]:
        ctx.oracle_fail(case, {"oracle": "exact equality is not symmetric"})
    if rel in ("identical", "copy") and not ab["equals"]:
        ctx.oracle_fail(case, {"oracle": f"object does not equal its {rel} twin"})
    if rel.startswith("one:"):
        member = rel.split(":")[1]
        above = not rel.endswith(":below") and not rel.endswith(":at")
        names = [MEMBER_NAMES[k] for k in ab["diff"][1]]
        if member == "dtypes":
            # ==, != and equals always look at the dtypes; diff names them when asked to (check_dtypes)
            want_names = ["dtypes"] if case["check_dtypes"] else []
            if ab["equals"] or ab["eq"] or names != want_names:
                ctx.oracle_fail(case, {"oracle": f"only the dtype of a criterion differs: equals={ab['equals']}, "
                                                 f"=={ab['eq']}, diff(check_dtypes={case['check_dtypes']}) names {names}"})
        elif above:
            if ab["equals"] or names != [member]:
                ctx.oracle_fail(case, {"oracle": f"exactly {member} was changed beyond tolerance but diff names {names} "
                                                 f"(equals={ab['equals']})"})
        elif names and rel.endswith(":below"):
            ctx.oracle_fail(case, {"oracle": f"{member} changed within tolerance but diff names {names}"})
    want_assert = "ok" if not (ab["diff"][0] or ab["diff"][1]) else "RAISED:AssertionError"
    # assert_* use check_dtypes default (False) and the given tolerances
    if case["check_dtypes"] is False and o["assert"] != want_assert:
        ctx.oracle_fail(case, {"oracle": f"testing.assert_* gave {o['assert']} but diff says {ab['diff']}"})


def run_real(case):
    """Objects the library itself produces (and may hold non-finite values: the NaN diagonals of the ELECTRE tables, a
    matrix with a missing cell): an object must equal its copy, a deep copy and an identically constructed object."""
    import copy as _c
    from .. import methods as M
    try:
        def obj():
            mtx = np.array(case["matrix"], dtype=float)
            for (i, j) in case.get("nan", []):
                mtx[i, j] = np.nan
            dm = I.mkdm(mtx, list(case["objectives"]), weights=list(case["weights"]),
                        alternatives=list(case["alternatives"]), criteria=list(case["criteria"]))
            if case["what"] == "dm":
                return dm
            with I.quiet_fds():
                return M.make_direct(case["method"]).evaluate(dm)
        a, b = obj(), obj()
        twins = {"identically constructed": b, "deep copy": _c.deepcopy(a)}
        if hasattr(a, "copy"):
            twins["copy()"] = a.copy()
        out = {}
        for k, t in twins.items():
            out[k] = {"eq": outcome(lambda: bool(a == t)), "ne": outcome(lambda: bool(a != t)),
                      "equals": outcome(lambda: bool(a.equals(t))), "sym": outcome(lambda: bool(t == a)),
                      "aequals": outcome(lambda: bool(a.aequals(t)))}
        return out
    except Exception as e:  # noqa: BLE001
        return {"build_error": repr(e)[:200]}


# ---- extras of every kind a method may store (scalars, strings, nested mappings, sequences) -----------------------
EXTRA_KINDS = ["int", "bool", "float", "npfloat", "npint", "str", "npstr", "dict", "odict", "list", "tuple", "arr",
               "marr", "none"]


def extra_value(kind, k):
    import collections
    base = {"int": 1 + k, "bool": bool(k % 2 == 0), "float": 0.5 + k, "npfloat": np.float64(0.5 + k),
            "npint": np.int64(1 + k), "str": "abc" + str(k), "npstr": np.str_("abc" + str(k)),
            "dict": {"u": 1.0 + k, "v": [1, 2]}, "odict": collections.OrderedDict([("u", 1.0 + k), ("v", [1, 2])]),
            "list": [1.0, 2.0 + k], "tuple": (1.0, 2.0 + k), "arr": np.array([1.0, 2.0 + k]),
            "marr": np.ma.masked_array([1.0, 2.0 + k]), "none": None}
    return base[kind]


# pairs of kinds that hold "the same" value in two types, one a subclass / numpy twin of the other
TWINS = [("int", "bool"), ("float", "npfloat"), ("str", "npstr"), ("dict", "odict"), ("arr", "marr"), ("list", "tuple"),
         ("int", "npint")]


def twin_value(kind, other, k):
    """The value of `kind` number k, written in the type `other`."""
    import collections
    v = extra_value(kind, k)
    conv = {"bool": bool, "int": int, "float": float, "npfloat": np.float64, "npint": np.int64, "str": str,
            "npstr": np.str_, "dict": dict, "odict": collections.OrderedDict, "list": list, "tuple": tuple,
            "arr": np.asarray, "marr": np.ma.masked_array}
    return conv[other](v)


def gen_extras_pair(rng):
    n = rng.randint(2, 4)
    keys = rng.sample(["alpha", "beta", "gamma", "delta", "eps"], rng.randint(1, 4))
    kinds = {k: rng.choice(EXTRA_KINDS) for k in keys}
    rel = rng.choice(["same", "type", "type", "value", "key", "swap"])
    which = rng.choice(keys)
    if rel == "swap":
        if len(keys) < 2:
            rel = "same"
        else:
            # the values of two entries exchanged, and the entries written in the other order (so that a comparison
            # by position instead of by key sees nothing)
            k1, k2 = rng.sample(keys, 2)
            kd = rng.choice(["float", "int", "str", "arr", "list"])
            kinds[k1] = kinds[k2] = kd
            return {"n": n, "kinds": kinds, "rel": "swap", "which": k1, "other_key": k2, "kernel": rng.random() < 0.3,
                    "reorder": True}
    if rel == "type":
        pr = rng.choice(TWINS)
        a, b = pr if rng.random() < 0.5 else pr[::-1]
        kinds[which] = a
        if a in ("int", "bool"):
            pass
        return {"n": n, "kinds": kinds, "rel": rel, "which": which, "other": b, "kernel": rng.random() < 0.3}
    return {"n": n, "kinds": kinds, "rel": rel, "which": which, "kernel": rng.random() < 0.3,
            "reorder": rng.random() < 0.5}      # the second result's extras are written in the reverse key order


def run_extras_pair(case):
    from skcriteria.agg import KernelResult, RankResult
    try:
        n = case["n"]
        alts = [f"A{i}" for i in range(n)]

        def res(extra):
            if case["kernel"]:
                return KernelResult("m", alts, [i % 2 == 0 for i in range(n)], extra)
            return RankResult("m", alts, list(range(1, n + 1)), extra)
        ea = {k: extra_value(kd, i) for i, (k, kd) in enumerate(sorted(case["kinds"].items()))}
        eb = {k: extra_value(kd, i) for i, (k, kd) in enumerate(sorted(case["kinds"].items()))}
        w = case["which"]
        i = sorted(case["kinds"]).index(w)
        if case["rel"] == "type":
            kd = case["kinds"][w]
            if kd in ("int", "bool") and case["other"] in ("int", "bool"):
                ea[w], eb[w] = (1, True) if kd == "int" else (True, 1)
            else:
                eb[w] = twin_value(kd, case["other"], i)
        elif case["rel"] == "value":
            eb[w] = extra_value(case["kinds"][w], i + 7)
        elif case["rel"] == "key":
            del eb[w]
        elif case["rel"] == "swap":
            k2 = case["other_key"]
            eb[w], eb[k2] = eb[k2], eb[w]
        if case.get("reorder"):
            eb = {k: eb[k] for k in reversed(list(eb))}
        a, b = res(ea), res(eb)

        def dd(x, y):
            d = x.diff(y)
            return [bool(d.different_types), sorted(d.members_diff)]
        return {d: {"eq": outcome(lambda: bool(x == y)), "ne": outcome(lambda: bool(x != y)),
                    "equals": outcome(lambda: bool(x.equals(y))), "aequals": outcome(lambda: bool(x.aequals(y))),
                    "diff": outcome(lambda: dd(x, y))}
                for d, (x, y) in (("ab", (a, b)), ("ba", (b, a)))}
    except Exception as e:  # noqa: BLE001
        return {"build_error": repr(e)[:200]}


def check_extras_pair(ctx, c, o):
    if "build_error" in o:
        ctx.disagree(c, {"what": "results with these extras could not be built", "exc": o["build_error"]})
        return
    for d in ("ab", "ba"):
        bad = [k for k, x in o[d].items() if isinstance(x, str) and x.startswith("RAISED")]
        if bad:
            ctx.oracle_fail(c, {"oracle": f"comparison raised: {o[d]}"})
            return
    if o["ab"] != o["ba"]:
        ctx.oracle_fail(c, {"oracle": "comparison is not symmetric", "a_vs_b": o["ab"], "b_vs_a": o["ba"]})
        return
    r = o["ab"]
    if r["eq"] == r["ne"] or r["eq"] != r["equals"] or (r["eq"] and not r["aequals"]):
        ctx.oracle_fail(c, {"oracle": f"==, !=, equals, aequals are inconsistent: {r}"})
        return
    if c["rel"] == "same" and not (r["eq"] and r["diff"] == [False, []]):
        ctx.oracle_fail(c, {"oracle": f"identically constructed results differ: {r}"})
    if c["rel"] in ("value", "key", "swap") and c["kinds"][c["which"]] != "none" and \
            (r["eq"] or r["aequals"] or r["diff"] != [False, ["extra_"]]):
        ctx.oracle_fail(c, {"oracle": f"one extra entry changed but the comparison says {r}"})
    if r["eq"] != (r["diff"] == [False, []]):
        ctx.oracle_fail(c, {"oracle": f"== and diff disagree: {r}"})


def gen_real(rng):
    c = gen.dm_case(rng, nmax=6, mmax=4, nmin=2, mmin=2, modes=("dyadic", "int"), positive=True, big=0.0)
    what = rng.choice(["dm", "res", "res", "res"])
    c["what"] = what
    if what == "dm":
        n, m = len(c["matrix"]), len(c["weights"])
        c["nan"] = [[rng.randrange(n), rng.randrange(m)]] if rng.random() < 0.6 else []
    else:
        c["method"] = {"name": rng.choice(["electre1", "electre2", "topsis", "wsm", "multimoora", "refpoint"])}
        c["objectives"] = [1] * len(c["weights"]) if c["method"]["name"] == "wsm" else c["objectives"]
    return c


def run(ctx):
    I.repo_check()
    ctx.rule = RULE
    rcases = [gen_real(ctx.rng) for _ in range(ctx.n(120, 1500))]
    for c, o in zip(rcases, I.pmap(run_real, rcases)):
        ctx.count("real:" + (c["what"] if c["what"] == "dm" else c["method"]["name"]) + (":nan" if c.get("nan") else ""))
        ctx.case_seen(c, True)
        if "build_error" in o:
            ctx.count("real:method_refused_the_matrix")      # e.g. TOPSIS on identical alternatives (0/0): nothing to compare
            continue
        for k, r in o.items():
            bad = [x for x in r.values() if isinstance(x, str) and x.startswith("RAISED")]
            if bad:
                ctx.oracle_fail(c, {"oracle": f"comparison with its {k} raised {bad}"})
                break
            if not (r["eq"] and r["equals"] and r["sym"] and r["aequals"]) or r["ne"]:
                ctx.oracle_fail(c, {"oracle": f"the object does not equal its {k}: {r}"})
                break
    ecases = [gen_extras_pair(ctx.rng) for _ in range(ctx.n(300, 3000))]
    for c, o in zip(ecases, I.pmap(run_extras_pair, ecases)):
        ctx.count("extras:" + c["rel"])
        ctx.case_seen(c, c["rel"] != "same")
        check_extras_pair(ctx, c, o)
    cases = [gen_pair(ctx.rng) for _ in range(ctx.n(1500, 30000))]
    outs = I.pmap(run_impl, cases)
    mab = ctx.model.batch([model_call(c) for c in cases])
    mba = ctx.model.batch([model_call(c, swap=True) for c in cases])
    for c, o, m1, m2 in zip(cases, outs, mab, mba):
        ctx.count("kind:" + c["a"]["t"])
        ctx.count("rel:" + c["rel"].split(":")[0] + (":" + c["rel"].split(":")[1] if ":" in c["rel"] else ""))
        ctx.case_seen(c, c["rel"] not in ("identical", "copy"))
        check(ctx, c, o, m1, m2)
    ctx.traces_validated = len(cases)
    if ctx.tier == "thorough":
        from ..core import vm_crosscheck
        calls = [model_call(c) for c in cases[:300]]
        bad, msg = vm_crosscheck(calls, mab[:300], "C17")
        ctx.vm_checked = len(calls)
        if bad != 0:
            ctx.disagree(cases[0], {"vm_compute_vs_extraction": bad, "msg": msg})


def replay(ctx, rep):
    case = rep["case"]
    if "kinds" in case:
        o = run_extras_pair(case)
        print("implementation:", o)
        n0 = len(ctx.oracle_failures) + len(ctx.disagreements)
        check_extras_pair(ctx, case, o)
        bad = len(ctx.oracle_failures) + len(ctx.disagreements) > n0
        print("oracle        :", ctx.oracle_failures[-1][1]["oracle"] if ctx.oracle_failures else "property holds on this case")
        return 1 if bad else 0
    o = run_impl(case)
    print("implementation:", o)
    print("model a,b     :", ctx.model.one(*model_call(case)))
    check(ctx, case, o, ctx.model.one(*model_call(case)), ctx.model.one(*model_call(case, swap=True)))
    print("oracle        :", ctx.oracle_failures or "property holds on this case")
    print("disagreements :", ctx.disagreements)
    return 1 if (ctx.oracle_failures or ctx.disagreements) else 0
