"""C06 — a dominated alternative is never ranked above the one that dominates it."""
from .. import impl as I
from .. import methods as M
from . import c04

RULE = ("WSM, WPM, RatioMOORA, ReferencePointMOORA, FMF and TOPSIS (euclidean, sqeuclidean, cityblock, chebyshev) "
        "on in-domain matrices with an injected dominated copy of a row (worsened on a random non-empty subset of "
        "criteria) and/or a duplicated row, positive pairwise-distinct weights, all objective mixes; for every "
        "dominating pair found by an independent pairwise test (cross-checked against the extracted model's "
        "`dominates` and against dm.dominance.dominance()) the reported score of the dominator is at least as good "
        "up to the margin and its rank is never worse once the scores differ by more than the margin; duplicated "
        "rows must share a rank and a bit-identical score; scores are additionally compared with the model as in "
        "C04. non-trivial = contains a dominating pair or a duplicate; distinct by hash")

NAMES = ["wsm", "wpm", "ratio", "refpoint", "fmf", "topsis"]
METRICS = ["euclidean", "sqeuclidean", "cityblock", "chebyshev"]


def dominates(objs, a, b):
    ge = all((x >= y) if o == 1 else (x <= y) for o, x, y in zip(objs, a, b))
    gt = any((x > y) if o == 1 else (x < y) for o, x, y in zip(objs, a, b))
    return ge and gt


def impl_dominance(case):
    try:
        dm = I.mk(case)
        return dm.dominance.dominance(strict=False).to_numpy().tolist()
    except Exception as e:  # noqa: BLE001
        return repr(e)


def oracle(case, out):
    if "error" in out:
        return None
    name = case["method"]["name"]
    key, desc = M.SCORE[name]
    score, ranks = out["extra"][key], out["values"]
    mtx, objs = case["matrix"], case["objectives"]
    n = len(mtx)
    for a in range(n):
        for b in range(n):
            if a == b:
                continue
            sa, sb = score[a], score[b]
            if mtx[a] == mtx[b]:
                if ranks[a] != ranks[b]:
                    return f"identical alternatives {a},{b} have ranks {ranks[a]},{ranks[b]}"
                if sa != sb and not (sa != sa and sb != sb):
                    return f"identical alternatives {a},{b} have different scores {sa!r},{sb!r}"
            if dominates(objs, mtx[a], mtx[b]):
                mg = 1e-9 * max(1.0, abs(sa), abs(sb))
                good = sa - sb if desc else sb - sa     # >0: a better
                if good < -mg:
                    return f"{a} dominates {b} but score {sa!r} is worse than {sb!r}"
                if abs(good) > mg and not ranks[a] <= ranks[b]:
                    return f"{a} dominates {b}, scores differ, but ranks are {ranks[a]},{ranks[b]}"
    return None


def gen_case(rng, name):
    for _ in range(50):
        c = M.method_case(rng, name)
        if name == "topsis":
            c["method"]["metric"] = rng.choice(METRICS)
        if name in ("wsm", "ratio") and rng.random() < 0.1:
            # many criteria (8 .. 24), a handful of alternatives, the last one an exact copy of the first and the second
            # a dominated copy of it: wide matrices go through other code paths of the linear algebra underneath
            m_, n_ = rng.randint(8, 24), rng.randint(5, 10)
            objs = [1] * m_ if name == "wsm" else [rng.choice([1, 1, -1]) for _ in range(m_)]
            mtx = [[rng.uniform(0.5, 9.5) for _ in range(m_)] for _ in range(n_)]
            mtx[1] = [x - 0.25 if o == 1 else x + 0.25 for x, o in zip(mtx[0], objs)]
            mtx[-1] = list(mtx[0])
            ws = rng.sample(range(1, 4 * m_), m_)
            c.update(matrix=mtx, objectives=objs, weights=[w / 8.0 for w in ws],
                     alternatives=[f"A{i}" for i in range(n_)], criteria=[f"K{j}" for j in range(m_)],
                     mode="float", tags=["dup", "dominated_copy", "wide"])
            c.pop("dtypes", None)
            return c
        if c["tags"] and len(set(c["weights"])) == len(c["weights"]):
            return c
    return c


def run(ctx):
    I.repo_check()
    ctx.rule = RULE
    per = ctx.n(80, 1500)
    cases = []
    for name in NAMES:
        for _ in range(per):
            cases.append(gen_case(ctx.rng, name))
    outs = I.pmap(M.evaluate, cases)
    doms = I.pmap(impl_dominance, cases)
    calls, spans = [], []
    for c in cases:
        mc = c04.model_calls(c)
        spans.append((len(calls), len(calls) + len(mc)))
        calls.extend(mc)
    mods = ctx.model.batch(calls)
    # the model's dominance report includes dominators_of, whose recursion (like the implementation's) is exponential
    # in the number of alternatives: the cases with 65..300 alternatives use the pairwise test and the accessor only
    small = [i for i, c in enumerate(cases) if len(c["matrix"]) < 60]
    got = ctx.model.batch([("dominance", ([o == 1 for o in cases[i]["objectives"]], cases[i]["matrix"]))
                           for i in small])
    dmods = [None] * len(cases)
    for i, g in zip(small, got):
        dmods[i] = g
    for c, o, d, dmo, (a, b) in zip(cases, outs, doms, dmods, spans):
        name = c["method"]["name"]
        ctx.count("method:" + name + (":" + c["method"]["metric"] if name == "topsis" else ""))
        for t in c["tags"]:
            ctx.count("tag:" + t)
        n = len(c["matrix"])
        pairs = sum(dominates(c["objectives"], c["matrix"][i], c["matrix"][j])
                    for i in range(n) for j in range(n) if i != j)
        dups = sum(c["matrix"][i] == c["matrix"][j] for i in range(n) for j in range(i + 1, n))
        ctx.case_seen(c, pairs + dups > 0 and "error" not in o)
        # the dominance relation: independent test == model == accessor
        want = [[i != j and dominates(c["objectives"], c["matrix"][i], c["matrix"][j]) for j in range(n)]
                for i in range(n)]
        if n >= 60:
            ctx.count("alternatives>=65")
        if (dmo is not None and dmo[2] != want) or d != want:
            ctx.disagree(c, {"what": "dominance relation", "model": dmo and dmo[2], "accessor": d, "direct": want})
        msg = oracle(c, o)
        if msg:
            ctx.oracle_fail(c, {"oracle": msg, "ranks": o.get("values"), "extra": o.get("extra")})
        c04.compare(ctx, c, o, mods[a:b])
    ctx.known.pop("C04-fmf-allmin-offset", None)
    ctx.traces_validated = len(cases)


def replay(ctx, rep):
    case = rep["case"]
    out = M.evaluate(case)
    print("implementation:", out)
    msg = oracle(case, out)
    print("oracle        :", msg or "property holds on this case")
    return 1 if msg else 0
