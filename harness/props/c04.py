"""C04 — reported scores equal the published formulas; out-of-domain input is refused."""
from fractions import Fraction

import numpy as np

from .. import closing as CL
from .. import gen
from .. import impl as I
from .. import methods as M
from ..val import Err

RULE = ("WSM, WPM, TOPSIS (cityblock, sqeuclidean, chebyshev, euclidean, minkowski p=2), RatioMOORA, "
        "ReferencePointMOORA, FullMultiplicativeForm, MultiMOORA on generated matrices in two regimes: exact "
        "(tiny alphabets / small integers / dyadic grid with dyadic or integer weights, where the float "
        "computation of the rational kernels is exact) compared with == against the extracted model, and float "
        "(uniform / log-uniform doubles) compared within a condition-aware margin; irrational closings (sqrt, ln, "
        "log10) evaluated with decimal at 60 digits on the model's rational core; order of alternatives asserted "
        "for every pair whose exact scores differ by more than twice the margin; MultiMOORA staged on the reported "
        "component scores and rank matrix; a separate malformed stream (minimise objective, zero / negative cells) "
        "for the refusal clause. non-trivial = in-domain with >=2 alternatives and >=2 distinct scores, or a "
        "refusal case; distinct by hash")

EXACT_MODES = ("tiny012", "tiny123", "int", "dyadic")
U = Fraction(1, 2 ** 53)
NAMES = ["wsm", "wpm", "topsis", "ratio", "refpoint", "fmf", "multimoora"]


def is_exact(case):
    if case["mode"] not in EXACT_MODES:
        return False
    return all(Fraction(w).denominator in (1, 2, 4, 8, 16, 32, 64) for w in case["weights"])


def marg(terms, k=64):
    """Absolute margin for a float sum/product chain over these exact terms."""
    n = max(1, len(terms))
    return k * n * U * sum(abs(Fraction(t)) for t in terms) + Fraction(1, 10 ** 300)


def objs_b(case):
    return [o == 1 for o in case["objectives"]]


def model_calls(case):
    name = case["method"]["name"]
    a = (objs_b(case), case["weights"], case["matrix"])
    if name == "wsm":
        return [("wsm", a)]
    if name == "wpm":
        return [("wpm_domain", (a[0], a[2]))]
    if name == "ratio":
        return [("ratio", a)]
    if name == "refpoint":
        return [("refpoint", a)]
    if name == "topsis":
        return [("topsis", (M.METRIC_CODE[case["method"]["metric"]],) + a)]
    if name == "fmf":
        return [("fmf", a)]
    if name == "multimoora":
        return [("fmf", a), ("ratio", a), ("refpoint", a)]
    raise KeyError(name)


def fmf_exact(mo):
    """(decimal scores, margins) from the model's (domain, offset, signed terms)."""
    _dom, offset, rows = mo
    scores, margins = [], []
    for terms in rows:
        s = CL.D(offset)
        mags = [Fraction(offset)]
        for is_max, t in terms:
            lt = CL.ln(t)
            s = s + lt if is_max else s - lt
            mags.append(Fraction(str(abs(lt))) + abs(Fraction(1)))
        scores.append(s)
        margins.append(marg(mags, 256))
    return scores, margins


def published_fmf(mo):
    """The published formula without the implementation's offset."""
    _dom, _offset, rows = mo
    out = []
    for terms in rows:
        s = CL.D(0)
        for is_max, t in terms:
            s = s + CL.ln(t) if is_max else s - CL.ln(t)
        out.append(s)
    return out


def check_scores(ctx, case, what, impl, exact, margins, exact_regime):
    """impl floats vs exact values (Fraction or Decimal)."""
    if len(impl) != len(exact):
        ctx.disagree(case, {"what": what, "len_impl": len(impl), "len_model": len(exact)})
        return False
    for i, (a, b, mg) in enumerate(zip(impl, exact, margins)):
        if a != a or abs(a) == float("inf"):
            ctx.disagree(case, {"what": what, "i": i, "impl": repr(a), "model": str(b)})
            return False
        if exact_regime and isinstance(b, Fraction):
            ok = Fraction(a) == b or abs(Fraction(a) - b) <= abs(b) * U * 2
        else:
            ok = abs(CL.D(a) - CL.D(b)) <= CL.D(mg)
        if not ok:
            ctx.disagree(case, {"what": what, "i": i, "impl": a, "model": str(b), "margin": str(mg)})
            return False
    return True


def check_order(ctx, case, what, ranks, exact, margins, desc):
    n = len(ranks)
    for i in range(n):
        for j in range(n):
            gap = CL.D(exact[i]) - CL.D(exact[j])
            if gap > 2 * (CL.D(margins[i]) + CL.D(margins[j])):
                # i has the strictly larger exact score
                good = ranks[i] < ranks[j] if desc else ranks[i] > ranks[j]
                if not good:
                    ctx.oracle_fail(case, {"oracle": f"{what}: exact score of {i} exceeds that of {j} by {gap} "
                                                     f"but ranks are {ranks[i]},{ranks[j]}"})
                    return


def direct_formula(case):
    """Model-free re-computation of the published formula from the case (Fractions; Decimal for sqrt)."""
    name = case["method"]["name"]
    w = [Fraction(x) for x in case["weights"]]
    mtx = [[Fraction(x) for x in r] for r in case["matrix"]]
    objs = case["objectives"]
    m = len(w)
    if name == "wsm":
        return [sum(a * b for a, b in zip(r, w)) for r in mtx]
    if name == "ratio":
        return [sum((a * b if o == 1 else -a * b) for a, b, o in zip(r, w, objs)) for r in mtx]
    if name == "refpoint":
        ref = [max(r[j] for r in mtx) if objs[j] == 1 else min(r[j] for r in mtx) for j in range(m)]
        return [max(abs(w[j] * (r[j] - ref[j])) for j in range(m)) for r in mtx]
    if name == "topsis":
        wx = [[a * b for a, b in zip(r, w)] for r in mtx]
        ideal = [max(r[j] for r in wx) if objs[j] == 1 else min(r[j] for r in wx) for j in range(m)]
        anti = [min(r[j] for r in wx) if objs[j] == 1 else max(r[j] for r in wx) for j in range(m)]
        metric = case["method"]["metric"]

        def dist(a, b):
            d = [abs(x - y) for x, y in zip(a, b)]
            if metric == "cityblock":
                return CL.D(sum(d))
            if metric == "chebyshev":
                return CL.D(max(d))
            if metric == "sqeuclidean":
                return CL.D(sum(x * x for x in d))
            return CL.sqrt(sum(x * x for x in d))
        out = []
        for r in wx:
            db, dw = dist(r, ideal), dist(r, anti)
            out.append(None if db + dw == 0 else dw / (db + dw))
        return out
    return None


def direct_oracle(ctx, case, out, margins, key, what):
    want = direct_formula(case)
    if want is None or any(x is None for x in want):
        return
    got = out["extra"][key]
    for i, (a, b, mg) in enumerate(zip(got, want, margins)):
        if a != a or abs(CL.D(a) - CL.D(b)) > CL.D(mg) + abs(CL.D(b)) * CL.D(U) * 4:
            ctx.oracle_fail(case, {"oracle": f"{what}[{i}] = {a!r} but the published formula gives {b}"})
            return


def compare(ctx, case, out, mos):
    name = case["method"]["name"]
    ex = is_exact(case)
    mtx, w = case["matrix"], case["weights"]
    n, m = len(mtx), len(w)
    refused = "error" in out
    # ---- refusal clause --------------------------------------------------------
    if name == "wsm":
        model_ref = isinstance(mos[0], Err)
    elif name == "wpm":
        model_ref = not mos[0]
    elif name in ("fmf", "multimoora"):
        model_ref = not mos[0][0]
    elif name == "topsis":
        model_ref = mos[0][4] == Err(1) if M.METRIC_CODE[case["method"]["metric"]] != 3 else \
            any(a + b == 0 for a, b in zip(mos[0][2], mos[0][3]))
    else:
        model_ref = False
    if refused != model_ref:
        ctx.disagree(case, {"what": "refusal", "impl": out.get("exc", "accepted"), "model_refuses": model_ref})
        # direct oracle for the refusal clause
        bad_min = -1 in case["objectives"]
        cells = [x for r in mtx for x in r]
        should = {"wsm": bad_min or any(x < 0 for x in cells),
                  "wpm": bad_min or any(x <= 0 for x in cells),
                  "fmf": any(x <= 0 for x in cells), "multimoora": any(x <= 0 for x in cells)}.get(name)
        if should is not None and should != refused:
            ctx.oracle_fail(case, {"oracle": f"{name}: out-of-domain={should} but refused={refused}"})
        return
    if refused:
        if out["error"] != Err(1):
            ctx.oracle_fail(case, {"oracle": f"refused with {out.get('exc')} instead of ValueError"})
        return
    e, ranks = out["extra"], out["values"]
    # ---- scores ------------------------------------------------------------------
    if name in ("wsm", "ratio"):
        mr, ms = mos[0]
        sw = [(wj if o == 1 else -wj) for wj, o in zip(w, case["objectives"])] if name == "ratio" else w
        margins = [marg([Fraction(a) * Fraction(b) for a, b in zip(r, sw)]) for r in mtx]
        direct_oracle(ctx, case, out, margins, "score", name + ".score")
        if check_scores(ctx, case, name + ".score", e["score"], ms, margins, ex):
            check_order(ctx, case, name, ranks, ms, margins, True)
            if ex and list(ranks) != list(mr):
                ctx.disagree(case, {"what": name + ".rank", "impl": ranks, "model": mr})
    elif name == "refpoint":
        mr, ms, mrp = mos[0]
        if list(map(Fraction, e["reference_point"])) != mrp:
            ctx.disagree(case, {"what": "reference_point", "impl": e["reference_point"], "model": mrp})
        margins = [abs(s) * U * 8 + Fraction(1, 10 ** 300) for s in ms]
        direct_oracle(ctx, case, out, margins, "score", "refpoint.score")
        if check_scores(ctx, case, "refpoint.score", e["score"], ms, margins, ex):
            check_order(ctx, case, name, ranks, [-s for s in ms], margins, True)
            if ex and list(ranks) != list(mr):
                ctx.disagree(case, {"what": "refpoint.rank", "impl": ranks, "model": mr})
    elif name == "wpm":
        exact, margins = [], []
        for r in mtx:
            terms = [CL.D(wj) * CL.log10(x) for wj, x in zip(w, r)]
            exact.append(sum(terms, CL.D(0)))
            margins.append(marg([Fraction(str(abs(t))) + Fraction(wj) * U * 4 for t, wj in zip(terms, w)], 256))
        if check_scores(ctx, case, "wpm.score", e["score"], exact, margins, False):
            check_order(ctx, case, name, ranks, exact, margins, True)
    elif name == "fmf":
        exact, margins = fmf_exact(mos[0])
        if check_scores(ctx, case, "fmf.score", e["score"], exact, margins, False):
            check_order(ctx, case, name, ranks, exact, margins, True)
        pub = published_fmf(mos[0])
        dev = [CL.D(a) - p for a, p in zip(e["score"], pub)]
        if ctx.prop == "C04" and any(abs(d) > CL.D(mg) for d, mg in zip(dev, margins)):
            if 1 not in case["objectives"] and all(abs(d - 1) <= CL.D(mg) for d, mg in zip(dev, margins)):
                if not ctx.known_finding("C04-fmf-allmin-offset",
                                         "FullMultiplicativeForm with no maximise criterion reports "
                                         "1 - sum(log(w*x)) instead of -sum(log(w*x)) (moora.py: Aj = 1.0); order unaffected"):
                    ctx.oracle_fail(case, {"oracle": "fmf score = published formula + 1 (no maximise criterion)"})
            else:
                ctx.oracle_fail(case, {"oracle": "fmf score differs from the published formula",
                                       "impl": e["score"], "formula": [str(p) for p in pub]})
    elif name == "topsis":
        ideal, anti, db, dw, rat = mos[0]
        wx = [[Fraction(a) * Fraction(b) for a, b in zip(r, w)] for r in mtx]
        tolv = [max(abs(x[j]) for x in wx) * U * 2 for j in range(m)]
        for what, iv, mv in (("ideal", e["ideal"], ideal), ("anti_ideal", e["anti_ideal"], anti)):
            if any(abs(Fraction(a) - b) > t for a, b, t in zip(iv, mv, tolv)):
                ctx.disagree(case, {"what": "topsis." + what, "impl": iv, "model": mv})
                return
        code = M.METRIC_CODE[case["method"]["metric"]]
        if code == 3:
            sim = [CL.sqrt(b) / (CL.sqrt(a) + CL.sqrt(b)) for a, b in zip(db, dw)]
        else:
            sim = [CL.D(s) for s in rat[1]]
        # conditioning guard: every weighted column range is 0 or not tiny w.r.t. the column magnitude
        wellcond = True
        for j in range(m):
            colv = [x[j] for x in wx]
            rg, mx = max(colv) - min(colv), max(abs(v) for v in colv)
            if rg != 0 and rg < mx / 1000:
                wellcond = False
        if ex or wellcond:
            tol = Fraction(1, 10 ** 9) if not ex else Fraction(1, 10 ** 13)
            margins = [tol] * n
            direct_oracle(ctx, case, out, margins, "similarity", "topsis.similarity")
            if check_scores(ctx, case, "topsis.similarity", e["similarity"], sim, margins, False):
                check_order(ctx, case, name, ranks, sim, margins, True)
        else:
            ctx.count("topsis_skipped_illconditioned")
    elif name == "multimoora":
        # staged: component ranks from the reported component scores; rank matrix; win count; final rank
        staged = ctx.model.batch([("rank", (True, e["ratio_score"])), ("rank", (False, e["refpoint_score"])),
                                  ("rank", (True, e["fmf_score"]))], shards=1)
        rm = [list(t) for t in zip(*staged)]
        if [list(r) for r in e["rank_matrix"]] != rm:
            ctx.disagree(case, {"what": "multimoora.rank_matrix", "impl": e["rank_matrix"], "model": rm})
            return
        # independent oracle for the documented pairwise-dominance count
        want = [0] * n
        for a in range(n):
            for b in range(a + 1, n):
                ra, rb = rm[a], rm[b]
                if all(x != y for x, y in zip(ra, rb)):
                    wa = sum(x < y for x, y in zip(ra, rb))
                    wb = sum(y < x for x, y in zip(ra, rb))
                    want[a if wa > wb else b] += 1
        if [int(s) for s in e["score"]] != want:
            ctx.oracle_fail(case, {"oracle": "MultiMOORA score is not the documented pairwise count",
                                   "impl": e["score"], "want": want})
        sc = ctx.model.one("mm_score", e["rank_matrix"])
        if [Fraction(s) for s in e["score"]] != [Fraction(s) for s in sc]:
            ctx.disagree(case, {"what": "multimoora.score", "impl": e["score"], "model": sc})
            return
        fr = ctx.model.one("rank", (True, e["score"]))
        if list(ranks) != list(fr):
            ctx.disagree(case, {"what": "multimoora.rank", "impl": ranks, "model": fr})
        # component scores against the formulas
        _r, rs = mos[1]
        sw = [(wj if o == 1 else -wj) for wj, o in zip(w, case["objectives"])]
        margins = [marg([Fraction(a) * Fraction(b) for a, b in zip(r, sw)]) for r in mtx]
        check_scores(ctx, case, "multimoora.ratio_score", e["ratio_score"], rs, margins, ex)
        _r, ps, _rp = mos[2]
        check_scores(ctx, case, "multimoora.refpoint_score", e["refpoint_score"], ps,
                     [abs(s) * U * 8 + Fraction(1, 10 ** 300) for s in ps], ex)
        fx, fm = fmf_exact(mos[0])
        check_scores(ctx, case, "multimoora.fmf_score", e["fmf_score"], fx, fm, False)


def malformed(rng, name):
    c = M.method_case(rng, name)
    kind = rng.choice(["min", "zero", "neg"]) if name in ("wsm", "wpm") else rng.choice(["zero", "neg"])
    n, m = len(c["matrix"]), len(c["weights"])
    if kind == "min":
        k = rng.randint(1, m)
        for j in rng.sample(range(m), k):
            c["objectives"][j] = -1
    elif kind == "zero":
        c["matrix"][rng.randrange(n)][rng.randrange(m)] = 0.0
    else:
        # any magnitude: a "negative" is negative however small (and -0.0 is not negative)
        c["matrix"][rng.randrange(n)][rng.randrange(m)] = -rng.choice([1.0, 0.5, 2.0, 1e-3, 1e-7, 1e-9, 1e-12, 1e-100,
                                                                      5e-324, 1e9])
    c["malformed"] = kind
    return c


CORPUS = [
    # FMF with no maximise criterion (known finding: +1 offset)
    {"matrix": [[1.0, 2.0], [2.0, 1.0], [4.0, 4.0]], "objectives": [-1, -1], "weights": [1.0, 2.0],
     "alternatives": ["a", "b", "c"], "criteria": ["x", "y"], "mode": "int", "tags": [],
     "method": {"name": "fmf"}},
]


def run_function_api(case):
    """The module-level function skcriteria.agg.similarity.topsis - the only way to pass the Minkowski order p."""
    from skcriteria.agg import similarity
    try:
        mtx = np.array(case["matrix"], dtype=float)
        objs = np.array(case["objectives"])
        w = np.array(case["weights"], dtype=float)
        out = {}
        for p in case["ps"]:
            r, ideal, anti, sim = similarity.topsis(mtx, objs, w, metric="minkowski", p=p)
            out[str(p)] = {"rank": [int(x) for x in r], "ideal": ideal.tolist(), "anti": anti.tolist(), "sim": sim.tolist()}
        return out
    except Exception as e:  # noqa: BLE001
        return {"error": repr(e)[:200]}


def check_function_api(ctx, case, o):
    """Exact formula with the Minkowski distance of order p, evaluated at 60 digits."""
    from decimal import Decimal as D, getcontext
    getcontext().prec = 60
    if "error" in o:
        ctx.disagree(case, {"what": "similarity.topsis raised", "exc": o["error"]})
        return
    mtx = [[D(repr(x)) * D(repr(wj)) for x, wj in zip(r, case["weights"])] for r in case["matrix"]]
    m = len(case["weights"])
    best = [max(r[j] for r in mtx) if case["objectives"][j] == 1 else min(r[j] for r in mtx) for j in range(m)]
    worst = [min(r[j] for r in mtx) if case["objectives"][j] == 1 else max(r[j] for r in mtx) for j in range(m)]
    for p in case["ps"]:
        def dist(a, b):
            s = sum((abs(x - y) ** D(repr(p)) if x != y else D(0)) for x, y in zip(a, b))
            return s ** (D(1) / D(repr(p))) if s else D(0)
        got = o[str(p)]
        for i, r in enumerate(mtx):
            db, dw = dist(r, best), dist(r, worst)
            if db + dw == 0:
                continue
            want = dw / (db + dw)
            if abs(D(repr(got["sim"][i])) - want) > D("1e-9"):
                ctx.oracle_fail(case, {"oracle": f"similarity.topsis(metric='minkowski', p={p}): alternative {i} has "
                                                 f"similarity {got['sim'][i]!r} but the formula gives {str(want)[:20]}"})
                return


def run(ctx):
    I.repo_check()
    ctx.rule = RULE
    fcases = []
    for _ in range(ctx.n(40, 400)):
        c = M.method_case(ctx.rng, "topsis")
        c["ps"] = ctx.rng.sample([1, 2, 3, 4, 1.5], 2)
        fcases.append(c)
    for c, o in zip(fcases, I.pmap(run_function_api, fcases)):
        ctx.count("function_api:topsis_minkowski_p")
        ctx.case_seen(c, True)
        check_function_api(ctx, c, o)
    per = ctx.n(100, 2000)
    cases = list(CORPUS)
    for name in NAMES:
        for _ in range(per):
            cases.append(M.method_case(ctx.rng, name, tier_big=ctx.tier == "thorough"))
        if name in ("wsm", "wpm", "fmf", "multimoora"):
            for _ in range(max(40, per // 4)):
                cases.append(malformed(ctx.rng, name))
    outs = I.pmap(M.evaluate, cases)
    calls, spans = [], []
    for c in cases:
        mc = model_calls(c)
        spans.append((len(calls), len(calls) + len(mc)))
        calls.extend(mc)
    mods = ctx.model.batch(calls)
    for c, o, (a, b) in zip(cases, outs, spans):
        name = c["method"]["name"]
        ctx.count("method:" + name + (":" + c["method"]["metric"] if name == "topsis" else ""))
        ctx.count("regime:" + ("exact" if is_exact(c) else "float"))
        if "malformed" in c:
            ctx.count("malformed:" + c["malformed"])
        if "error" in o:
            ctx.count("refused:" + name)
        nt = ("malformed" in c) or ("error" not in o and len(c["matrix"]) >= 2 and len(set(o["values"])) >= 2)
        ctx.case_seen(c, nt)
        compare(ctx, c, o, mods[a:b])
    ctx.traces_validated = len(cases)
    if ctx.tier == "thorough":
        from ..core import vm_crosscheck
        small = [i for i, c in enumerate(calls) if c[0] in ("wsm", "ratio", "refpoint")][:200]
        bad, msg = vm_crosscheck([calls[i] for i in small], [mods[i] for i in small], "C04")
        ctx.vm_checked = len(small)
        if bad != 0:
            ctx.disagree(cases[0], {"vm_compute_vs_extraction": bad, "msg": msg})


def replay(ctx, rep):
    case = rep["case"]
    out = M.evaluate(case)
    mos = ctx.model.batch(model_calls(case), shards=1)
    print("implementation:", out)
    print("model         :", mos)
    compare(ctx, case, out, mos)
    print("disagreements :", ctx.disagreements)
    print("oracle        :", ctx.oracle_failures or "property holds on this case")
    print("known findings:", ctx.known)
    return 1 if (ctx.disagreements or ctx.oracle_failures) else 0
