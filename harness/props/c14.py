"""C14 — filters keep exactly the alternatives that satisfy every condition."""
import itertools

import numpy as np

from .. import gen
from .. import impl as I
from .. import transformers as T
from ..val import Err

RULE = ("all nine criteria-filter classes (GT, GE, LT, LE, EQ, NE, In, NotIn, function filters over a fixed palette of "
        "predicates mirrored in Coq) and FilterNonDominated (both strict) on random matrices over tiny alphabets / small "
        "integers (threshold-equal cells in every case), conditions over present AND absent criteria written in EVERY key "
        "order (all permutations of up to 4 conditions), both ignore_missing_criteria settings, criteria labels whose "
        "sorted order differs from the matrix order; surviving alternative labels (in order) are compared with the "
        "extracted model's mask and with a per-alternative, by-label oracle. non-trivial = >=2 conditions not written "
        "in matrix order, or an absent criterion, and some but not all alternatives survive; distinct by hash")

ARITH = {"FilterGT": 0, "FilterGE": 1, "FilterLT": 2, "FilterLE": 3, "FilterEQ": 4, "FilterNE": 5}
SETS = {"FilterIn": 6, "FilterNotIn": 7}
PAL = {"gt2": 0, "le3": 1, "ne1": 2, "pos": 3, "gt2_int": 0, "le3_int": 1, "ne1_int": 2, "pos_int": 3}
ABSENT = ["ZARAZA", "missing", "C99"]


def holds(name, cond, x):
    if name == "FilterGT":
        return x > cond
    if name == "FilterGE":
        return x >= cond
    if name == "FilterLT":
        return x < cond
    if name == "FilterLE":
        return x <= cond
    if name == "FilterEQ":
        return x == cond
    if name == "FilterNE":
        return x != cond
    if name == "FilterIn":
        return x in cond
    if name == "FilterNotIn":
        return x not in cond
    return bool(T.PALETTE[cond](x))


def gen_base(rng, name):
    c = gen.dm_case(rng, nmax=14, mmax=5, nmin=2, mmin=2, modes=("tiny012", "tiny123", "int"), big=0.25, bigmin=9,
                    int_dtypes=0.4, label_kinds=False, huge=0.02)
    if rng.random() < 0.06:
        gen.special_values(rng, c)      # signed zeros, subnormals, last-bit neighbours, 2**53, the largest floats
    m = len(c["criteria"])
    k = rng.randint(1, min(4, m))
    crits = rng.sample(c["criteria"], k)
    nabs = rng.choice([0, 0, 1, 1, 2])
    # absent names: unrelated ones, and near misses of the present labels (a longer name that starts with a label, a
    # label cut short, another case, surrounding blanks)
    longest = max(c["criteria"], key=len)
    near = [longest + "_adj", longest + "2", c["criteria"][0] + "X", longest[:-1] if len(longest) > 1 else longest + "0",
            longest.swapcase() if longest.swapcase() != longest else longest + " ", " " + c["criteria"][-1]]
    near = [x for x in dict.fromkeys(near) if x not in c["criteria"]]
    pool = ABSENT + near if rng.random() < 0.5 else ABSENT
    names = crits + rng.sample(pool, min(nabs, len(pool)))
    if rng.random() < 0.12:
        # criteria labelled by integers (years): a condition key is a string, so "2020" names NO criterion of this
        # matrix - it is an absent criterion like any other
        years = rng.sample(range(2015, 2030), m)
        names = [str(years[c["criteria"].index(cr)]) for cr in crits] + rng.sample(ABSENT, nabs)
        c["criteria"] = years
        c["tags"] = list(c.get("tags", [])) + ["integer_criteria_labels"]
    conds = []
    for cr in names:
        if cr in c["criteria"]:
            j = c["criteria"].index(cr)
            colv = sorted({r[j] for r in c["matrix"]})
        else:
            colv = [0.0, 1.0, 2.0]
        if name == "Filter":
            conds.append([cr, rng.choice(list(PAL))])
        elif name in SETS:
            vals = rng.sample(colv, max(1, len(colv) // 2))
            if rng.random() < 0.35:
                # a long set (membership algorithms switch with the size of the set), mostly of absent values
                vals = vals[: rng.randint(0, len(vals))] + [100.0 + 1.5 * t for t in range(rng.randint(12, 40))]
                rng.shuffle(vals)
            conds.append([cr, vals])
        else:
            # a value of the column (so that equality is hit), or a threshold strictly between two values
            conds.append([cr, rng.choice(colv) + rng.choice([0.0, 0.0, 0.0, 0.5, -0.5, 0.25, -0.75])])
    c["tf"] = {"cls": name, "params": {}, "kind": 6, "ignore_missing": rng.random() < 0.5}
    if name in SETS:
        c["tf"]["container"] = rng.choice(["list", "list", "tuple", "set", "frozenset", "ndarray"])
    return c, conds


def run_impl(case):
    try:
        dm = I.mk(case)
        t = T.build(case["tf"], conditions=[tuple(x) for x in case["tf"]["conditions"]]) \
            if case["tf"]["cls"] != "FilterNonDominated" else T.build(case["tf"])
        out = t.transform(dm)
        return {"alternatives": [str(a) for a in out.alternatives],
                "matrix": np.asarray(out.matrix.to_numpy(), dtype=float).tolist(),
                "criteria": [str(x) for x in out.criteria]}
    except Exception as e:  # noqa: BLE001
        return {"error": I.exc_code(e), "exc": repr(e)[:200]}


def oracle(case):
    """Per-alternative evaluation of the conditions by criterion label -> expected survivors or Err."""
    name = case["tf"]["cls"]
    crits = case["criteria"]
    if name == "FilterNonDominated":
        strict = case["tf"]["params"]["strict"]
        objs, mtx = case["objectives"], case["matrix"]
        n = len(mtx)

        def dom(a, b):
            ge = all((x >= y) if o == 1 else (x <= y) for o, x, y in zip(objs, mtx[a], mtx[b]))
            gt = any((x > y) if o == 1 else (x < y) for o, x, y in zip(objs, mtx[a], mtx[b]))
            allgt = all((x > y) if o == 1 else (x < y) for o, x, y in zip(objs, mtx[a], mtx[b]))
            return (allgt and len(objs) > 0) if strict else (ge and gt)
        return [case["alternatives"][b] for b in range(n) if not any(a != b and dom(a, b) for a in range(n))]
    conds = case["tf"]["conditions"]
    if not case["tf"]["ignore_missing"] and any(cr not in crits for cr, _ in conds):
        return Err(1)
    keep = []
    for alt, row in zip(case["alternatives"], case["matrix"]):
        ok = True
        for cr, cond in conds:
            if cr in crits:
                ok = ok and holds(name, cond, row[crits.index(cr)])
        if ok:
            keep.append(alt)
    return keep


def model_call(case):
    name = case["tf"]["cls"]
    if name == "FilterNonDominated":
        return ("nondominated", (case["tf"]["params"]["strict"], [o == 1 for o in case["objectives"]], case["matrix"]))
    it = {}

    def code(s):
        return it.setdefault(s, len(it) + 1)
    crits = [code(c) for c in case["criteria"]]
    conds = []
    for cr, cond in case["tf"]["conditions"]:
        if name in ARITH:
            conds.append((code(cr), [ARITH[name], cond]))
        elif name in SETS:
            conds.append((code(cr), [SETS[name], list(cond)]))
        else:
            conds.append((code(cr), [8, PAL[cond]]))
    return ("filter", (crits, conds, case["tf"]["ignore_missing"], case["matrix"]))


def run(ctx):
    I.repo_check()
    ctx.rule = RULE
    cases = []
    per = ctx.n(18, 250)
    for name in list(ARITH) + list(SETS) + ["Filter"]:
        for _ in range(per):
            base, conds = gen_base(ctx.rng, name)
            orders = list(itertools.permutations(conds))
            if len(orders) > 6 and ctx.tier != "thorough":
                orders = ctx.rng.sample(orders, 6)
            for od in orders:
                c = dict(base)
                c["tf"] = dict(base["tf"])
                c["tf"]["conditions"] = [list(x) for x in od]
                cases.append(c)
    for _ in range(ctx.n(80, 1500)):
        c = gen.dm_case(ctx.rng, nmax=8, mmax=4, nmin=2, mmin=1, modes=("tiny012", "tiny123", "int"), big=0.0, label_kinds=False)
        c["tf"] = {"cls": "FilterNonDominated", "params": {"strict": ctx.rng.random() < 0.5}, "kind": 6}
        cases.append(c)
    outs = I.pmap(run_impl, cases)
    mods = ctx.model.batch([model_call(c) for c in cases])
    for c, o, mo in zip(cases, outs, mods):
        name = c["tf"]["cls"]
        ctx.count("class:" + name)
        want = oracle(c)
        got = o["error"] if "error" in o else o["alternatives"]
        if name != "FilterNonDominated":
            conds = c["tf"]["conditions"]
            present = [cr for cr, _ in conds if cr in c["criteria"]]
            in_order = present == [cr for cr in c["criteria"] if cr in present]
            absent = any(cr not in c["criteria"] for cr, _ in conds)
            if absent:
                ctx.count("with_absent_criterion")
            if not in_order:
                ctx.count("conditions_not_in_matrix_order")
            nt = ((len(present) >= 2 and not in_order) or absent) and isinstance(want, list) and \
                0 < len(want) < len(c["alternatives"])
        else:
            nt = isinstance(want, list) and 0 < len(want) < len(c["alternatives"])
        ctx.case_seen(c, nt)
        if got != want:
            ctx.oracle_fail(c, {"oracle": f"survivors {got} but the conditions, evaluated by criterion label, keep {want}",
                                "exc": o.get("exc")})
        # model
        if isinstance(mo, Err):
            mgot = mo
        else:
            mgot = [a for a, keep in zip(c["alternatives"], mo) if keep]
        if got != mgot:
            ctx.disagree(c, {"impl": got, "model": mgot})
        if "error" not in o:
            # survivors keep their rows and the criteria
            src = dict(zip(c["alternatives"], c["matrix"]))
            if o["criteria"] != [str(x) for x in c["criteria"]] or any(src[a] != r for a, r in zip(o["alternatives"], o["matrix"])):
                ctx.oracle_fail(c, {"oracle": "a surviving row or the criteria changed"})
    ctx.traces_validated = len(cases)
    if ctx.tier == "thorough":
        from ..core import vm_crosscheck
        calls = [model_call(c) for c in cases[:200]]
        bad, msg = vm_crosscheck(calls, mods[:200], "C14")
        ctx.vm_checked = len(calls)
        if bad != 0:
            ctx.disagree(cases[0], {"vm_compute_vs_extraction": bad, "msg": msg})


def replay(ctx, rep):
    case = rep["case"]
    o = run_impl(case)
    want = oracle(case)
    got = o["error"] if "error" in o else o["alternatives"]
    print("implementation:", got, o.get("exc", ""))
    print("by-label oracle:", want)
    mo = ctx.model.one(*model_call(case))
    print("model mask     :", mo)
    return 0 if got == want else 1
