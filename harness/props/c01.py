"""C01 — each criterion keeps its own objective, weight, dtype and data under any selection."""
import itertools

import numpy as np

from .. import gen
from .. import impl as I
from ..val import Err

RULE = ("random well-formed decision matrices (mixed int64/float64 criteria, pairwise distinct weights, mixed "
        "objectives, labels whose sorted order differs from positional order) x chains of 1-5 operations drawn "
        "from dm[label], dm[[labels any order]], dm[i:j:k], dm[mask], loc/iloc with row selectors (all, label list, "
        "single label, inclusive label slice both directions, position list, single (negative) position, "
        "positional slice with any step, boolean mask) and column selectors, copy(), mkdm(**to_dict()); plus "
        "(thorough) every ordered sub-selection of 4 criteria x 3 row selectors; the final matrix is compared "
        "exactly with the extracted model's run_ops and with a by-label oracle against the SOURCE matrix; "
        "objective aliases enumerated from the implementation and the documented list, both ways. "
        "non-trivial = some step reorders or drops >=1 criterion or alternative; distinct by hash")

# ---- aliases ---------------------------------------------------------------------
ALIAS_DOC = [  # (alias factory, code, named sense)  -- sense is what the NAME says
    (lambda: 1, 1, True), (lambda: "▲", 2, True), (lambda: max, 3, True), (lambda: np.max, 4, True),
    (lambda: np.nanmax, 5, True), (lambda: np.amax, 6, True), (lambda: "max", 7, True),
    (lambda: "maximize", 8, True), (lambda: "+", 9, True), (lambda: ">", 10, True),
    (lambda: -1, 101, False), (lambda: "▼", 102, False), (lambda: min, 103, False),
    (lambda: np.min, 104, False), (lambda: np.nanmin, 105, False), (lambda: np.amin, 106, False),
    (lambda: "min", 107, False), (lambda: "minimize", 108, False), (lambda: "-", 109, False),
    (lambda: "<", 110, False),
]


def check_aliases(ctx):
    from skcriteria.core.objectives import Objective
    table = [(f(), code, sense) for f, code, sense in ALIAS_DOC]
    # strings in other letter cases intern to the same code
    extra = []
    for a, code, sense in table:
        if isinstance(a, str) and a.isalpha():
            extra += [(a.upper(), code, sense), (a.title(), code, sense), (a[0] + a[1:].upper(), code, sense)]
    mods = ctx.model.batch([("alias", code) for _a, code, _s in table + extra], shards=1)
    for (a, code, sense), mo in zip(table + extra, mods):
        case = {"alias": repr(a), "code": code}
        ctx.case_seen(case, True)
        ctx.count("alias")
        try:
            got = Objective.from_alias(a) is Objective.MAX
            dmv = I.mkdm([[1.0]], [a]).objectives.iloc[0] is Objective.MAX
        except Exception as e:  # noqa: BLE001
            ctx.oracle_fail(case, {"oracle": f"documented alias {a!r} is rejected: {e!r}"})
            continue
        if got != sense or dmv != sense:
            ctx.oracle_fail(case, {"oracle": f"alias {a!r} names {'MAX' if sense else 'MIN'} but resolves to "
                                             f"{'MAX' if got else 'MIN'} (via mkdm: {'MAX' if dmv else 'MIN'})"})
        if mo != [sense]:
            ctx.disagree(case, {"model": mo, "named": sense})
    # every alias the implementation accepts must be in the documented table
    known_max = [a for a, _c, s in table if s]
    known_min = [a for a, _c, s in table if not s]

    def member(x, l):
        return any(x is y or (not callable(x) and not callable(y) and x == y) for y in l)
    for a in Objective._MAX_ALIASES.value:
        if not member(a, known_max):
            ctx.disagree({"alias": repr(a)}, {"what": "implementation accepts an undocumented MAX alias"})
    for a in Objective._MIN_ALIASES.value:
        if not member(a, known_min):
            ctx.disagree({"alias": repr(a)}, {"what": "implementation accepts an undocumented MIN alias"})


# ---- matrices and operations --------------------------------------------------------
def gen_dm(rng, nmin=1, mmin=1):
    n, m = gen.shape(rng, 7, 6, nmin, mmin, big=0.0)
    dts = [rng.choice([0, 1]) for _ in range(m)]   # 0 int64, 1 float64, 2 float32, 3 int32
    if rng.random() < 0.2:
        # numbers of one kind in different widths next to each other (float32 beside float64, int32 beside int64)
        dts = [rng.choice([0, 3]) if t == 0 else rng.choice([1, 2]) for t in dts]
    mtx = [[(float(rng.randint(-9, 40)) if dts[j] in (0, 3) else rng.randint(-40, 160) / 8.0) for j in range(m)]
           for _ in range(n)]
    w = gen.weights(rng, m, rng.choice(["dyadic", "int", "sum1", "sum1"]))
    if rng.random() < 0.2:
        # boundary weights: 0 is a legal weight and must survive every derivation like any other
        for j in (range(m) if rng.random() < 0.3 else rng.sample(range(m), rng.randint(1, m))):
            w[j] = 0.0
    alts_ = gen.labels(rng, n, gen.LABEL_POOL_A, "A", kinds=False)
    crits_ = gen.labels(rng, m, gen.LABEL_POOL_C, "C", kinds=False)
    if rng.random() < 0.2:
        # an alternative and a criterion may carry the same name (the two axes have separate namespaces)
        for _ in range(rng.randint(1, min(n, m))):
            i, j = rng.randrange(n), rng.randrange(m)
            if crits_[j] not in alts_:
                alts_[i] = crits_[j]
    return {
        "matrix": mtx, "dtypes": dts, "objectives": gen.objectives(rng, m),
        "weights": w, "alternatives": alts_, "criteria": crits_,
    }


def gen_sel(rng, labels, positional, allow_dup):
    n = len(labels)
    k = rng.choice(["all", "list", "list", "one", "slice", "slice", "mask"])
    if n == 0:
        return {"k": "all"}
    if k == "all":
        return {"k": "all"}
    if k == "list":
        cnt = rng.randint(1, n)
        idx = rng.sample(range(n), cnt)
        if allow_dup and rng.random() < 0.3:
            idx.append(rng.choice(idx))
        return {"k": "pos", "v": idx} if positional else {"k": "labels", "v": [labels[i] for i in idx]}
    if k == "one":
        i = rng.randrange(n)
        if positional:
            return {"k": "posint", "v": i - n if rng.random() < 0.4 else i}
        return {"k": "label", "v": labels[i]}
    if k == "slice":
        if positional:
            step = rng.choice([None, 1, -1, 2, -2, 3])
            start = rng.choice([None, rng.randint(-n - 1, n + 1)])
            stop = rng.choice([None, rng.randint(-n - 1, n + 1)])
            return {"k": "pslice", "start": start, "stop": stop, "step": step}
        i, j = rng.randrange(n), rng.randrange(n)
        step = rng.choice([None, 1, -1])
        return {"k": "lslice", "a": labels[i], "b": labels[j], "step": step}
    bs = [rng.random() < 0.6 for _ in range(n)]
    sel = {"k": "mask", "v": bs}
    if not positional and rng.random() < 0.5:
        series_mask(rng, sel, labels)
    return sel


def series_mask(rng, sel, labels):
    """The same mask as a LABELLED boolean Series whose entries are listed in another order: it selects by label."""
    order = list(labels)
    rng.shuffle(order)
    sel["labels"], sel["series_order"] = list(labels), order
    return sel


def apply_sel_shape(sel, labels):
    """Labels after the selection (for generating the next step); None if it would raise."""
    n = len(labels)
    k = sel["k"]
    if k == "all":
        return list(labels)
    if k == "labels":
        return list(sel["v"])
    if k == "label":
        return [sel["v"]]
    if k == "pos":
        return [labels[i] for i in sel["v"]]
    if k == "posint":
        return [labels[sel["v"]]]
    if k == "pslice":
        return [labels[i] for i in range(*slice(sel["start"], sel["stop"], sel["step"]).indices(n))]
    if k == "lslice":
        i, j = labels.index(sel["a"]), labels.index(sel["b"])
        if sel["step"] == -1:
            return [labels[p] for p in range(i, j - 1, -1)] if i >= j else []
        return labels[i:j + 1] if j >= i else []
    if k == "mask":
        return [l for l, b in zip(labels, sel["v"]) if b]
    raise KeyError(k)


def gen_chain(rng, case, nops=None):
    alts, crits = list(case["alternatives"]), list(case["criteria"])
    ops = []
    nops = nops or rng.randint(1, 5)
    for t in range(nops):
        last = t == nops - 1
        if not alts or not crits:
            break
        api = rng.choice(["getitem", "getitem", "loc", "loc", "iloc", "iloc", "copy", "roundtrip"])
        if api in ("copy", "roundtrip"):
            ops.append({"api": api})
            continue
        if api == "getitem":
            if rng.random() < 0.7:
                s = gen_sel(rng, crits, False, last)
                while s["k"] in ("all", "lslice", "mask"):
                    s = gen_sel(rng, crits, False, last)
                op = {"api": api, "cols": s, "rows": None}
            else:
                s = gen_sel(rng, alts, True, False)
                while s["k"] not in ("pslice", "mask"):
                    s = gen_sel(rng, alts, True, False)
                if s["k"] == "mask" and rng.random() < 0.5:
                    series_mask(rng, s, alts)
                op = {"api": api, "rows": s, "cols": None}
        else:
            positional = api == "iloc"
            rs = gen_sel(rng, alts, positional, last)
            cs = gen_sel(rng, crits, positional, last) if rng.random() < 0.75 else None
            # a scalar column with non-scalar rows raises in this code base (not a derived matrix)
            while cs is not None and cs["k"] in ("label", "posint"):
                cs = gen_sel(rng, crits, positional, last)
            op = {"api": api, "rows": rs, "cols": cs}
        ops.append(op)
        if op.get("rows"):
            alts = apply_sel_shape(op["rows"], alts)
        if op.get("cols"):
            crits = apply_sel_shape(op["cols"], crits)
    return ops


def py_index(sel):
    k = sel["k"]
    if k == "all":
        return slice(None)
    if k == "mask" and "series_order" in sel:
        import pandas as pd
        pos = {l: i for i, l in enumerate(sel["labels"])}
        return pd.Series([bool(sel["v"][pos[l]]) for l in sel["series_order"]], index=list(sel["series_order"]))
    if k in ("labels", "pos", "mask"):
        # the same selection in another kind of container (re-iterable or one-shot)
        import zlib
        v = list(sel["v"])
        h = zlib.crc32(repr((k, v)).encode()) % 12
        if k == "mask":
            return np.array(v, dtype=bool) if h % 3 == 0 and v else v
        if h == 0 and v:
            return np.array(v, dtype=object if k == "labels" else int)
        if h == 1 and v:
            import pandas as pd
            return pd.Index(v)
        if k != "labels":
            return v            # (positional indexers must be numeric arrays / lists: pandas refuses views and iterators)
        if h == 2:
            return iter(v)
        if h == 3:
            return (x for x in v)
        if h == 4:
            return reversed(v[::-1])
        if h == 5:
            return dict.fromkeys(v).keys() if len(set(v)) == len(v) else v
        if h == 6:
            return map(lambda x: x, v)
        return v
    if k in ("label", "posint"):
        return sel["v"]
    if k == "pslice":
        import zlib
        if zlib.crc32(repr(sorted(sel.items(), key=str)).encode()) % 3 == 0:
            # the bounds as numpy integers (what arithmetic on array shapes / rng.integers hands out): still positions
            f = lambda v: None if v is None else np.int64(v)       # noqa: E731
            return slice(f(sel["start"]), f(sel["stop"]), f(sel["step"]))
        return slice(sel["start"], sel["stop"], sel["step"])
    if k == "lslice":
        return slice(sel["a"], sel["b"], sel["step"])
    raise KeyError(k)


DTYPES = [np.int64, np.float64, np.float32, np.int32]


def dcode(t):
    t = np.dtype(t)
    for k, d in enumerate(DTYPES):
        if t == np.dtype(d):
            return k
    return 99


def build(case):
    if any(t >= 2 for t in case["dtypes"]):
        # narrow dtypes: a DataFrame whose columns carry them, handed to the constructor
        import pandas as pd
        from skcriteria.core.data import DecisionMatrix
        df = pd.DataFrame(np.array(case["matrix"], dtype=float), index=list(case["alternatives"]), columns=list(case["criteria"]))
        df = df.astype({c: DTYPES[t] for c, t in zip(case["criteria"], case["dtypes"])})
        return DecisionMatrix(df, [int(o) for o in case["objectives"]], [float(x) for x in case["weights"]])
    dm = I.mkdm(np.array(case["matrix"], dtype=float), list(case["objectives"]), weights=list(case["weights"]),
                alternatives=list(case["alternatives"]), criteria=list(case["criteria"]),
                dtypes=[DTYPES[t] for t in case["dtypes"]])
    return dm


def dump(dm):
    d = dm.to_dict()
    return {
        "alternatives": [str(a) for a in d["alternatives"]],
        "criteria": [str(c) for c in d["criteria"]],
        "matrix": [[float(x) for x in r] for r in np.asarray(d["matrix"], dtype=float)],
        "objectives": [int(o) for o in d["objectives"]],
        "weights": [float(w) for w in d["weights"]],
        "dtypes": [dcode(t) for t in d["dtypes"]],
        "frame_dtypes": [dcode(t) for t in dm.dtypes.to_numpy()],
    }


def run_impl(case):
    """-> {'final': dump | Err, 'shapes': [(n,m) before each op]}"""
    shapes = []
    try:
        dm = build(case)
    except Exception as e:  # noqa: BLE001
        return {"final": "BUILD:" + repr(e), "shapes": shapes}
    try:
        for op in case["ops"]:
            shapes.append([len(dm.alternatives), len(dm.criteria)])
            api = op["api"]
            if api == "copy":
                dm = dm.copy()
            elif api == "roundtrip":
                dm = I.mkdm(**dm.to_dict())
            elif api == "getitem":
                dm = dm[py_index(op["cols"] if op["cols"] is not None else op["rows"])]
            else:
                acc = dm.loc if api == "loc" else dm.iloc
                if op["cols"] is None:
                    dm = acc[py_index(op["rows"])]
                else:
                    dm = acc[py_index(op["rows"]), py_index(op["cols"])]
        return {"final": dump(dm), "shapes": shapes}
    except Exception as e:  # noqa: BLE001
        return {"final": I.exc_code(e), "exc": repr(e)[:200], "shapes": shapes}


class Interner:
    def __init__(self):
        self.t = {}

    def __call__(self, s):
        return self.t.setdefault(s, len(self.t) + 1)


def model_sel(sel, n, it):
    if sel is None or sel["k"] == "all":
        return [0]
    k = sel["k"]
    if k == "labels":
        return [1, [it(x) for x in sel["v"]]]
    if k == "label":
        return [1, [it(sel["v"])]]
    if k == "lslice":
        return [2, it(sel["a"]), it(sel["b"]), sel["step"] == -1]
    if k == "pos":
        return [3, [p if p >= 0 else p + n for p in sel["v"]]]
    if k == "posint":
        p = sel["v"]
        return [3, [p if p >= 0 else p + n]]
    if k == "pslice":
        a, b, st = slice(sel["start"], sel["stop"], sel["step"]).indices(n)
        return [4, a, b, st]
    if k == "mask":
        return [5, list(sel["v"])]
    raise KeyError(k)


def model_arg(case, shapes):
    it = Interner()
    d = ([it("a:" + a) for a in case["alternatives"]], [it("c:" + c) for c in case["criteria"]],
         case["matrix"], [o == 1 for o in case["objectives"]], case["weights"], case["dtypes"])
    ops = []
    for op, (n, m) in zip(case["ops"], shapes):
        api = op["api"]
        if api == "copy":
            ops.append([1])
        elif api == "roundtrip":
            ops.append([2])
        else:
            ita = lambda s: it("a:" + s)  # noqa: E731
            itc = lambda s: it("c:" + s)  # noqa: E731
            ops.append([0, model_sel(op.get("rows"), n, ita), model_sel(op.get("cols"), m, itc)])
    return (d, ops), it


def oracle(case, fin):
    """By-label comparison of the derived matrix with the source matrix."""
    if not isinstance(fin, dict):
        return None
    src_c = {c: j for j, c in enumerate(case["criteria"])}
    src_a = {a: i for i, a in enumerate(case["alternatives"])}
    for j, c in enumerate(fin["criteria"]):
        if c not in src_c:
            return f"criterion {c!r} does not exist in the source"
        sj = src_c[c]
        if fin["objectives"][j] != case["objectives"][sj]:
            return f"criterion {c!r}: objective {fin['objectives'][j]} but its own is {case['objectives'][sj]}"
        if fin["weights"][j] != case["weights"][sj]:
            return f"criterion {c!r}: weight {fin['weights'][j]} but its own is {case['weights'][sj]}"
        if fin["dtypes"][j] != case["dtypes"][sj] or fin["frame_dtypes"][j] != case["dtypes"][sj]:
            return f"criterion {c!r}: dtype changed"
        for i, a in enumerate(fin["alternatives"]):
            if a not in src_a:
                return f"alternative {a!r} does not exist in the source"
            if fin["matrix"][i][j] != case["matrix"][src_a[a]][sj]:
                return f"cell ({a!r},{c!r}) = {fin['matrix'][i][j]} but source has {case['matrix'][src_a[a]][sj]}"
    # the derived matrix lists exactly what the chain of selections asked for, in the order it asked for it
    try:
        alts, crits = list(case["alternatives"]), list(case["criteria"])
        for op in case["ops"]:
            if op.get("rows"):
                alts = apply_sel_shape(op["rows"], alts)
            if op.get("cols"):
                crits = apply_sel_shape(op["cols"], crits)
        if fin["alternatives"] != alts:
            return f"alternatives {fin['alternatives']} but the selections ask for {alts}"
        if fin["criteria"] != crits:
            return f"criteria {fin['criteria']} but the selections ask for {crits}"
    except (ValueError, IndexError, KeyError, TypeError):
        pass
    # requested order for a single-step explicit label list
    if len(case["ops"]) == 1:
        op = case["ops"][0]
        if op.get("cols") and op["cols"]["k"] == "labels" and fin["criteria"] != op["cols"]["v"]:
            return f"criteria {fin['criteria']} not in requested order {op['cols']['v']}"
        if op.get("rows") and op["rows"]["k"] == "labels" and fin["alternatives"] != op["rows"]["v"]:
            return f"alternatives {fin['alternatives']} not in requested order {op['rows']['v']}"
    return None


def nontrivial(case, fin):
    return isinstance(fin, dict) and (fin["criteria"] != case["criteria"] or
                                      fin["alternatives"] != case["alternatives"])


def decode_model(mo, it):
    if isinstance(mo, Err):
        return mo
    inv = {v: k[2:] for k, v in it.t.items()}
    a, c, m, o, w, t = mo
    return {"alternatives": [inv[x] for x in a], "criteria": [inv[x] for x in c],
            "matrix": [[float(x) for x in r] for r in m], "objectives": [1 if b else -1 for b in o],
            "weights": [float(x) for x in w], "dtypes": list(t)}


CORPUS = [
    {"matrix": [[1.0, 2.0, 3.0], [4.0, 5.0, 6.0]], "dtypes": [0, 0, 1], "objectives": [1, -1, 1],
     "weights": [0.125, 0.25, 0.625], "alternatives": ["A0", "A1"], "criteria": ["C0", "C1", "C2"],
     "ops": [{"api": "getitem", "cols": {"k": "labels", "v": ["C2", "C0"]}, "rows": None}]},
    {"matrix": [[1.0, 2.0, 3.0], [4.0, 5.0, 6.0]], "dtypes": [0, 0, 1], "objectives": [1, -1, 1],
     "weights": [0.125, 0.25, 0.625], "alternatives": ["A0", "A1"], "criteria": ["C0", "C1", "C2"],
     "ops": [{"api": "iloc", "rows": {"k": "all"}, "cols": {"k": "pslice", "start": None, "stop": None, "step": -1}}]},
    {"matrix": [[1.0, 2.0, 3.0], [4.0, 5.0, 6.0]], "dtypes": [1, 0, 1], "objectives": [-1, -1, 1],
     "weights": [0.125, 0.25, 0.625], "alternatives": ["A0", "A1"], "criteria": ["C0", "C1", "C2"],
     "ops": [{"api": "loc", "rows": {"k": "labels", "v": ["A1", "A0"]},
              "cols": {"k": "lslice", "a": "C2", "b": "C0", "step": -1}}, {"api": "roundtrip"}]},
]


def run(ctx):
    I.repo_check()
    ctx.rule = RULE
    check_aliases(ctx)
    cases = [dict(c) for c in CORPUS]
    for _ in range(ctx.n(500, 7000)):
        c = gen_dm(ctx.rng)
        c["ops"] = gen_chain(ctx.rng, c)
        cases.append(c)
    if ctx.tier == "thorough" or ctx.changed:
        base = gen_dm(ctx.rng, nmin=3, mmin=4)
        while len(base["criteria"]) != 4 or len(base["alternatives"]) < 3:
            base = gen_dm(ctx.rng, nmin=3, mmin=4)
        crits = base["criteria"]
        for k in range(1, 5):
            for sub in itertools.permutations(crits, k):
                for rows in ({"k": "all"}, {"k": "labels", "v": list(reversed(base["alternatives"]))},
                             {"k": "label", "v": base["alternatives"][1]}):
                    c = dict(base)
                    c["ops"] = [{"api": "loc", "rows": rows, "cols": {"k": "labels", "v": list(sub)}}]
                    cases.append(c)
                c = dict(base)
                c["ops"] = [{"api": "getitem", "cols": {"k": "labels", "v": list(sub)}, "rows": None}]
                cases.append(c)
    outs = I.pmap(run_impl, cases)
    calls, its, idx = [], [], []
    for k, (c, o) in enumerate(zip(cases, outs)):
        if isinstance(o["final"], str):
            ctx.disagree(c, {"what": "source matrix could not be built", "exc": o["final"]})
            continue
        shapes = o["shapes"] + [[0, 0]] * (len(c["ops"]) - len(o["shapes"]))
        arg, it = model_arg(c, shapes)
        calls.append(("select", arg))
        its.append(it)
        idx.append(k)
    mods = ctx.model.batch(calls)
    for k, it, mo in zip(idx, its, mods):
        c, o = cases[k], outs[k]
        fin = o["final"]
        for op in c["ops"]:
            ctx.count("op:" + op["api"])
            for ax in ("rows", "cols"):
                if op.get(ax):
                    ctx.count(f"sel:{ax}:{op[ax]['k']}")
        ctx.case_seen(c, nontrivial(c, fin))
        msg = oracle(c, fin)
        if msg:
            ctx.oracle_fail(c, {"oracle": msg, "final": fin})
        dm_ = decode_model(mo, it)
        if isinstance(fin, Err) or isinstance(dm_, Err):
            ctx.count("error_outcome")
            if fin != dm_:
                ctx.disagree(c, {"impl": fin if isinstance(fin, Err) else "matrix", "exc": o.get("exc"),
                                 "model": dm_ if isinstance(dm_, Err) else "matrix"})
            continue
        cmpf = {k2: fin[k2] for k2 in dm_}
        if cmpf != dm_:
            ctx.disagree(c, {"impl": cmpf, "model": dm_})
    ctx.traces_validated = len(idx)
    if ctx.tier == "thorough":
        from ..core import vm_crosscheck
        sample = list(range(0, len(calls), max(1, len(calls) // 200)))[:200]
        bad, msg = vm_crosscheck([calls[i] for i in sample], [mods[i] for i in sample], "C01")
        ctx.vm_checked = len(sample)
        if bad != 0:
            ctx.disagree(cases[idx[sample[0]]], {"vm_compute_vs_extraction": bad, "msg": msg})


def replay(ctx, rep):
    case = rep["case"]
    if "alias" in case:
        print("alias case; re-run the check")
        return 0
    o = run_impl(case)
    arg, it = model_arg(case, o["shapes"] + [[0, 0]] * (len(case["ops"]) - len(o["shapes"])))
    mo = decode_model(ctx.model.one("select", arg), it)
    print("implementation:", o["final"], o.get("exc", ""))
    print("model         :", mo)
    msg = oracle(case, o["final"])
    print("oracle        :", msg or "property holds on this case")
    same = (o["final"] == mo) if isinstance(o["final"], Err) or isinstance(mo, Err) else \
        ({k: o["final"][k] for k in mo} == mo)
    return 1 if (msg or not same) else 0
