"""C19 — the rank-reversal test worsens exactly one sub-optimal alternative, in bounds."""
import subprocess
import sys
from fractions import Fraction

import os

import numpy as np

from .. import gen
from .. import impl as I

RULE = ("RankInvariantChecker around a RECORDING decision maker (wrapping WSM / TOPSIS / RatioMOORA, optionally dropping "
        "one alternative in every call or only in a later call) on float matrices with 3-7 alternatives (values "
        "shared between consecutive alternatives on single criteria, i.e. zero gaps on some criteria), repeat 1-3, "
        "last_diff_strategy median / mean / a custom callable, several seeds, allow_missing_alternatives on and off; "
        "every matrix the decision maker was asked to evaluate is compared with the original: first call untouched, "
        "then exactly one row changed per call - a non-best alternative, each once per repetition - every criterion "
        "moved only in its worsening direction by at most the gap to the next-ranked alternative (last-ranked: the "
        "aggregate of the other gaps), at least one strictly; recorded noise = change applied, bit for bit; labels, "
        "iteration and schedule against the extracted model (bounds table, noise_ok, schedule); equal seeds give "
        "bit-identical experiments. non-trivial = repeat >= 2 or a zero gap on some criterion or a dropped "
        "alternative; distinct by hash")

KF = "C19-zero-gaps-never-terminates"
KF_TEXT = ("RankInvariantChecker.evaluate never returns when the bound of some non-best alternative is 0 on every "
           "criterion (e.g. two consecutively ranked alternatives identical on every criterion): every draw is 0 and "
           "`while np.all(noise == 0)` loops forever")


class Recorder:
    """A user-level decision maker: records every matrix it is asked to evaluate."""

    def __init__(self, inner, drop=None, drop_from=0, drop_until=None, reorder=False, own_note=False):
        self.inner, self.drop, self.drop_from, self.drop_until = inner, drop, drop_from, drop_until
        self.reorder, self.own_note = reorder, own_note
        self.seen = []

    def _out(self, res):
        """The result as it is, or (reorder) listing the alternatives best-first: a ranking may list its
        alternatives in any order."""
        from skcriteria.agg import RankResult
        # (own_note: the decision maker keeps notes of its own in the extras, one of them under the name the
        # rank-reversal test uses for its record)
        note = {"rrt1": "the decision maker's own note", "note": 1} if self.own_note else {}
        if not self.reorder:
            if not self.own_note:
                return res
            return RankResult(res.method, res.alternatives, res.values, dict(dict(res.extra_.items()), **note))
        vals = np.asarray(res.values)
        perm = np.argsort(vals, kind="stable")
        return RankResult(res.method, np.asarray(res.alternatives)[perm], vals[perm], note)

    def evaluate(self, dm):
        self.seen.append({"alternatives": [str(a) for a in dm.alternatives],
                          "matrix": dm.matrix.to_numpy(copy=True)})
        call = len(self.seen) - 1
        if self.drop_until is not None and call >= self.drop_until:
            return self._out(self.inner.evaluate(dm))
        if isinstance(self.drop, list):
            if call >= self.drop_from:
                dm = dm.loc[[a for a in dm.alternatives if a not in self.drop]]
        elif self.drop is not None and call >= self.drop_from and self.drop in dm.alternatives:
            dm = dm.loc[[a for a in dm.alternatives if a != self.drop]]
        return self._out(self.inner.evaluate(dm))


def gen_case(rng):
    n, m = rng.randint(3, 7), rng.randint(1, 4)
    mtx = [[rng.randint(1, 40) / 4.0 for _ in range(m)] for _ in range(n)]
    # share some values between alternatives (zero gaps on single criteria)
    for _ in range(rng.randint(0, n)):
        i, k, j = rng.randrange(n), rng.randrange(n), rng.randrange(m)
        mtx[i][j] = mtx[k][j]
    # ... but never two identical alternatives (that is the known finding, exercised separately)
    for i in range(n):
        for k in range(i):
            if mtx[i] == mtx[k]:
                mtx[i][0] += 0.125 * (i + 1)
    # "first": only the reference evaluation (of the original matrix) loses the alternative; refused unless allowed
    drop = rng.choice([None, None, None, "every", "later", "first"])
    return {"matrix": mtx, "objectives": gen.objectives(rng, m), "weights": gen.weights(rng, m, "dyadic"),
            "alternatives": gen.labels(rng, n, gen.LABEL_POOL_A, "A", kinds=False),
            "criteria": gen.labels(rng, m, gen.LABEL_POOL_C, "C", kinds=False),
            "dmaker": rng.choice(["topsis", "ratio", "refpoint"]),
            "repeat": rng.randint(1, 3), "strategy": rng.choice(["median", "mean", "max", "min"]),
            "seed": rng.choice([0, rng.randint(0, 10 ** 6), rng.randint(0, 10 ** 6), rng.randint(0, 10 ** 6), 2 ** 32 - 1]), "drop": drop, "allow_missing": rng.random() < 0.7 and drop != "first",
            # which alternative the decision maker loses (not always the last one), and whether its results list the
            # alternatives in the matrix's order or best-first
            "drop_pos": rng.randrange(n) if rng.random() < 0.5 else -1, "reorder": rng.random() < 0.3,
            "own_note": rng.random() < 0.25}


def experiment(case, via_copy=False):
    from skcriteria.cmp.ranks_rev.rank_inv_check import RankInvariantChecker
    from .. import methods as M
    dm = I.mk(case)
    drop_alt = None
    if case["drop"]:
        drop_alt = case["alternatives"][case.get("drop_pos", -1)]
    if case["drop"] == "two":
        drop_alt = list(case["alternatives"][-2:])
    rec = Recorder(M.make({"name": case["dmaker"]}), drop=drop_alt,
                   drop_from=0 if case["drop"] in ("every", "first") else 2,
                   drop_until=1 if case["drop"] == "first" else None, reorder=bool(case.get("reorder")),
                   own_note=bool(case.get("own_note")))
    strat = {"median": "median", "mean": "mean", "max": np.max, "min": np.min}[case["strategy"]]
    chk = RankInvariantChecker(rec, repeat=case["repeat"], last_diff_strategy=strat, random_state=case["seed"],
                               allow_missing_alternatives=case["allow_missing"])
    if via_copy:
        # a copy taken before anything ran, evaluated AFTER the original has run: same seed, same experiment
        cp = chk.copy()
        chk.evaluate(dm)
        chk, rec = cp, cp.dmaker
    rc = chk.evaluate(dm)
    ranks = []
    for name, r in rc.ranks:
        info = r.e_.rrt1
        ranks.append({"name": name, "method": r.method, "alternatives": [str(a) for a in r.alternatives],
                      "values": [int(v) for v in r.values],
                      "mutated": None if info.mutated is None else str(info.mutated),
                      "iteration": None if info.iteration is None else int(info.iteration),
                      "noise": None if info.noise is None else
                      {str(k): float(v) for k, v in info.noise.items()},
                      "missing": [str(a) for a in info.missing_alternatives]})
    df = rc.to_dataframe()
    frame_ok = all(int(df.loc[a, r["name"]]) == v for r in ranks for a, v in zip(r["alternatives"], r["values"]))
    return {"seen": [{"alternatives": s["alternatives"], "matrix": s["matrix"].tolist()} for s in rec.seen],
            "ranks": ranks, "frame_ok": bool(frame_ok)}


def int_label_experiment(case):
    """The same test on a matrix whose alternatives are labelled by integers: every resulting ranking is named after, and
    records, the alternative that was mutated - the integer label itself, not a float or a string of it."""
    from skcriteria.cmp.ranks_rev.rank_inv_check import RankInvariantChecker
    from .. import methods as M
    try:
        n = len(case["matrix"])
        labels = [10 * (i + 1) for i in range(n)]
        if case["seed"] % 2:
            labels = labels[1::2] + labels[0::2]
        dm = I.mkdm(np.array(case["matrix"], dtype=float), list(case["objectives"]), weights=list(case["weights"]),
                    alternatives=labels, criteria=list(case["criteria"]))
        chk = RankInvariantChecker(M.make_direct({"name": case["dmaker"]}), repeat=case["repeat"], random_state=case["seed"])
        rc = chk.evaluate(dm)
        problems = []
        for name, r in rc.ranks:
            info = r.e_.rrt1
            if name == "Original":
                continue
            mut = info.mutated
            if not isinstance(mut, (int, np.integer)) or mut not in labels:
                problems.append(f"ranking {name!r} records the mutated alternative as {mut!r} ({type(mut).__name__})")
                continue
            want = f"M.{mut}"
            if not (name == want if case["repeat"] == 1 else name.startswith(want + "_")):
                problems.append(f"ranking for alternative {mut!r} is named {name!r}, expected {want!r} (plus the "
                                f"repetition number when repeat > 1)")
            if [a for a in r.alternatives] != labels:
                problems.append(f"ranking {name!r} lists the alternatives {list(r.alternatives)!r}")
        return {"problems": problems[:3]}
    except Exception as e:  # noqa: BLE001
        return {"error": repr(e)[:300]}


def hashseed_digests(case):
    """The same seeded experiment in fresh interpreters started with different PYTHONHASHSEED values (string hashing
    differs between them): equal seeds give equal experiments, whatever the session."""
    import hashlib
    import json
    import subprocess
    import sys
    code = ("import json,sys,hashlib\nfrom harness.props import c19\nc=json.loads(sys.stdin.read())\n"
            "o=c19.experiment(c)\nprint('DIGEST', hashlib.sha1(json.dumps([o['seen'][k]['matrix'] for k in range(len(o['seen']))]"
            "+[o['ranks']], default=lambda x: x.tolist(), sort_keys=True).encode()).hexdigest())")
    out = []
    for hs in ("1", "2", "3"):
        try:
            r = subprocess.run([sys.executable, "-W", "ignore", "-c", code], input=json.dumps(case), capture_output=True,
                               text=True, env=dict(os.environ, PYTHONHASHSEED=hs), timeout=120)
        except subprocess.TimeoutExpired:
            # a loaded machine, or the known non-termination: no verdict from this session
            out.append("ERR:timeout")
            continue
        d = [ln.split()[1] for ln in r.stdout.splitlines() if ln.startswith("DIGEST")]
        out.append(d[0] if d else "ERR:" + r.stderr[-200:])
    return out


def run_impl(case):
    try:
        a = experiment(case)
        b = experiment(case)        # equal seeds => equal experiments
        a["repeatable"] = (a["seen"] == b["seen"] and a["ranks"] == b["ranks"])
        if a["repeatable"] and len(case["matrix"]) % 2 == 0:
            c = experiment(case, via_copy=True)
            a["repeatable"] = (a["seen"] == c["seen"] and a["ranks"] == c["ranks"])
            a["via_copy"] = True
        return a
    except Exception as e:  # noqa: BLE001
        return {"error": type(e).__name__, "exc": repr(e)[:300]}


def bits(x):
    return np.float64(x).view(np.int64)


def analyse(case, o):
    """Direct reading of the property.  Returns (message or None, data for the model)."""
    alts, crits = case["alternatives"], case["criteria"]
    n, m = len(alts), len(crits)
    orig = {a: case["matrix"][i] for i, a in enumerate(alts)}
    seen, ranks = o["seen"], o["ranks"]
    if not o["repeatable"]:
        return "two runs with the same seed differ", None
    if not o["frame_ok"]:
        return "to_dataframe() does not show each alternative's rank under its own name", None
    first = seen[0]
    if first["alternatives"] != alts or any(bits(x) != bits(y) for r, s in zip(first["matrix"], case["matrix"])
                                            for x, y in zip(r, s)):
        return "the first evaluation is not on the untouched matrix", None
    oranks = ranks[0]
    if oranks["mutated"] is not None or oranks["name"] != "Original":
        return "the first ranking is not the original", None
    # order of the reference ranking as the implementation used it = order of mutation in repetition 0
    muts = [(r["iteration"], r["mutated"]) for r in ranks[1:]]
    nonbest = [a for it, a in muts if it == 0]
    rank_of = dict(zip(oranks["alternatives"], oranks["values"]))
    best = [a for a in alts if a not in nonbest]
    if len(best) != 1 or len(set(nonbest)) != n - 1:
        return f"alternatives mutated in repetition 0: {nonbest} (expected every alternative but the best, once)", None
    if rank_of[best[0]] != min(rank_of.values()):
        return f"{best[0]} was never mutated but is not best-ranked", None
    if any(rank_of[nonbest[k]] > rank_of[nonbest[k + 1]] for k in range(n - 2)):
        return "alternatives are not mutated in the order of the reference ranking", None
    if len(seen) != 1 + (n - 1) * case["repeat"] or len(ranks) != len(seen):
        return f"{len(seen)} evaluations, expected {1 + (n - 1) * case['repeat']}", None
    if muts != [(it, a) for it in range(case["repeat"]) for a in nonbest]:
        return "schedule is not: every non-best alternative once per repetition, repetitions in order", None
    # bounds
    rows = [orig[a] for a in nonbest]
    gaps = [[abs(Fraction(x) - Fraction(y)) for x, y in zip(rows[k], rows[k + 1])] for k in range(n - 2)]
    colg = [[g[j] for g in gaps] for j in range(m)]
    if case["strategy"] == "median":
        last = [sorted(c)[len(c) // 2] if len(c) % 2 else (sorted(c)[len(c) // 2 - 1] + sorted(c)[len(c) // 2]) / 2
                for c in colg]
    elif case["strategy"] == "mean":
        last = [sum(c) / len(c) for c in colg]
    elif case["strategy"] == "min":
        last = [min(c) for c in colg]
    else:
        last = [max(c) for c in colg]
    bounds = gaps + [last]
    noises = []
    for k, (s, r) in enumerate(zip(seen[1:], ranks[1:])):
        mutated = r["mutated"]
        pos = nonbest.index(mutated)
        if s["alternatives"] != alts:
            return f"evaluation {k + 1}: alternatives changed", None
        if not r["name"].startswith(f"M.{mutated}") or f"+RRT1+{mutated}_{r['iteration']}" not in r["method"]:
            return f"ranking {r['name']!r}/{r['method']!r} is not labelled with the mutated alternative {mutated}", None
        noise = [r["noise"][c] for c in crits]
        for a, row in zip(alts, s["matrix"]):
            if a != mutated:
                if any(bits(x) != bits(y) for x, y in zip(row, orig[a])):
                    return f"evaluation {k + 1}: alternative {a} changed although {mutated} is the one mutated", None
            else:
                strict = False
                for j in range(m):
                    if bits(np.float64(orig[a][j]) + np.float64(noise[j])) != bits(row[j]):
                        return (f"evaluation {k + 1}: recorded noise {noise[j]!r} on {crits[j]} is not the change "
                                f"applied ({orig[a][j]!r} -> {row[j]!r})"), None
                    d = Fraction(row[j]) - Fraction(orig[a][j])
                    if (case["objectives"][j] == 1 and d > 0) or (case["objectives"][j] == -1 and d < 0):
                        return f"evaluation {k + 1}: {mutated} IMPROVED on {crits[j]} by {float(d)}", None
                    if abs(d) > bounds[pos][j] * (1 + Fraction(1, 2 ** 50)):
                        return (f"evaluation {k + 1}: {mutated} moved {float(abs(d))} on {crits[j]}, more than the "
                                f"bound {float(bounds[pos][j])}"), None
                    strict = strict or d != 0
                if not strict:
                    return f"evaluation {k + 1}: no criterion of {mutated} strictly worsened", None
        noises.append((pos, noise))
    return None, {"nonbest": nonbest, "rows": rows, "noises": noises, "bounds": bounds, "last": last, "muts": muts}


def zero_bound_predicted(case):
    """Some non-best alternative's bound vector is all zeros: the signature of the known non-termination.  The
    reference ranking is taken as the checker sees it (its tie order; alternatives the decision maker left out listed
    last), the bounds are computed here from their definition - not by the implementation, so that a change which
    wrongly produces a zero bound is not mistaken for the known finding."""
    from skcriteria.cmp.ranks_rev.rank_inv_check import RankInvariantChecker
    from .. import methods as M
    try:
        dm = I.mk(case)
        drop_alt = case["alternatives"][case.get("drop_pos", -1)] if case["drop"] else None
        rec = Recorder(M.make({"name": case["dmaker"]}), drop=drop_alt, drop_from=0 if case["drop"] == "every" else 2,
                       reorder=bool(case.get("reorder")), own_note=bool(case.get("own_note")))
        strat = {"median": "median", "mean": "mean", "max": np.max, "min": np.min}[case["strategy"]]
        chk = RankInvariantChecker(rec, repeat=case["repeat"], last_diff_strategy=strat, random_state=case["seed"],
                                   allow_missing_alternatives=case["allow_missing"])
        orank = chk._add_mutation_info_to_rank(rank=rec.evaluate(dm), mutated=None, noise=None, iteration=None,
                                               full_alternatives=dm.alternatives,
                                               allow_missing_alternatives=case["allow_missing"])
        order = [str(a) for a in orank.to_series().sort_values().index.to_numpy(copy=True)]
        rows = [case["matrix"][case["alternatives"].index(a)] for a in order[1:]]
        gaps = [[abs(x - y) for x, y in zip(rows[k], rows[k + 1])] for k in range(len(rows) - 1)]
        m = len(case["weights"])
        f = {"median": np.median, "mean": np.mean, "max": np.max, "min": np.min}[case["strategy"]]
        last = [float(f([g[j] for g in gaps])) for j in range(m)] if gaps else [0.0] * m
        return any(all(x == 0 for x in b) for b in gaps + [last])
    except Exception:  # noqa: BLE001
        return False


HANG = r'''
import numpy as np, warnings
warnings.filterwarnings("ignore")
import skcriteria as skc
from skcriteria.agg.similarity import TOPSIS
from skcriteria.cmp.ranks_rev.rank_inv_check import RankInvariantChecker
dm = skc.mkdm(np.array([[9., 9.], [2., 3.], [2., 3.], [1., 1.]]), [max, max])
RankInvariantChecker(TOPSIS(), random_state=1).evaluate(dm)
print("returned")
'''


def check_known_hang(ctx):
    import os
    env = dict(os.environ)
    try:
        r = subprocess.run([sys.executable, "-c", HANG], capture_output=True, text=True, timeout=8, env=env)
        if "returned" in r.stdout:
            ctx.count("zero_gap_case_returned")   # repaired: nothing to report
        else:
            ctx.oracle_fail({"script": HANG}, {"oracle": "zero-gap case neither returned nor hung: " + r.stderr[-300:]})
    except subprocess.TimeoutExpired:
        if not ctx.known_finding(KF, KF_TEXT):
            ctx.oracle_fail({"script": HANG}, {"oracle": "RankInvariantChecker did not terminate within 8 s on a matrix "
                                                         "with two identical consecutively ranked alternatives"})


def run(ctx):
    I.repo_check()
    ctx.rule = RULE
    check_known_hang(ctx)
    cases = []
    while len(cases) < ctx.n(70, 1300):
        c = gen_case(ctx.rng)
        if zero_bound_predicted(c):
            ctx.count("generated_zero_bound_case_skipped")   # that input family is the known finding (fixed script above)
            continue
        cases.append(c)
    outs = I.pmap_timeout(run_impl, cases, 25)
    calls, owners = [], []
    for c, o in zip(cases, outs):
        if "timeout" in o:
            ctx.count("did_not_terminate")
            ctx.case_seen(c, True)
            if zero_bound_predicted(c):
                if not ctx.known_finding(KF, KF_TEXT):
                    ctx.oracle_fail(c, {"oracle": "RankInvariantChecker did not terminate (some alternative's bound is 0 "
                                                  "on every criterion)"})
                continue
            # a slow machine is not a hang: once more, alone, with a long budget (for the first few such cases)
            retried = ctx.hist.get("retried_alone", 0)
            if retried < 3:
                ctx.count("retried_alone")
                o = I.pmap_timeout(run_impl, [c], 240)[0]
            if "timeout" in o:
                ctx.oracle_fail(c, {"oracle": "RankInvariantChecker did not terminate within 25 s (nor, alone, within "
                                              "240 s) although every alternative has a positive bound on some criterion"})
                continue
            ctx.count("slow_but_terminated")
        ctx.count("strategy:" + c["strategy"])
        ctx.count("drop:" + str(c["drop"]))
        nt = c["repeat"] >= 2 or c["drop"] is not None
        if "error" in o:
            ctx.case_seen(c, nt)
            if c["drop"] and not c["allow_missing"] and o["error"] == "ValueError":
                ctx.count("missing_alternative_refused")
            else:
                ctx.disagree(c, {"what": "experiment raised", "exc": o["exc"]})
            continue
        if c["drop"] and not c["allow_missing"]:
            ctx.oracle_fail(c, {"oracle": "a decision maker dropped an alternative but allow_missing_alternatives=False "
                                          "did not raise"})
            continue
        msg, data = analyse(c, o)
        zero_gap = data is not None and any(g == 0 for b in data["bounds"] for g in b)
        ctx.case_seen(c, nt or zero_gap)
        if msg:
            ctx.oracle_fail(c, {"oracle": msg})
            continue
        it = {a: k + 1 for k, a in enumerate(c["alternatives"])}
        code = {"median": 0, "mean": 1, "max": 2, "min": 2}[c["strategy"]]
        calls.append(("rrt", ([x == 1 for x in c["objectives"]], data["rows"], code, data["last"],
                              [(pos, noise) for pos, noise in data["noises"]])))
        owners.append((c, data, "rrt"))
        calls.append(("schedule", ([it[a] for a in data["nonbest"]], c["repeat"])))
        owners.append((c, (data, it), "schedule"))
    mods = ctx.model.batch(calls)
    for (c, data, kind), mo in zip(owners, mods):
        if kind == "rrt":
            mb, oks = mo
            if mb != data["bounds"]:
                ctx.disagree(c, {"what": "bounds table", "oracle": data["bounds"], "model": mb})
            if not all(oks):
                ctx.disagree(c, {"what": "model checker rejects a recorded mutation", "flags": oks})
        else:
            d, it = data
            want = [[i, it[a]] for i, a in d["muts"]]
            if [list(x) for x in mo] != want:
                ctx.disagree(c, {"what": "schedule", "impl": want, "model": mo})
    ctx.traces_validated = len(cases)
    # integer-labelled alternatives
    icases = [c for c in cases if not c["drop"] and not c.get("reorder") and not c.get("own_note")][:ctx.n(12, 120)]
    for c, o in zip(icases, I.pmap_timeout(int_label_experiment, icases, 60)):
        ctx.count("integer_labelled_experiments")
        if o.get("timeout"):
            continue
        if "error" in o:
            ctx.disagree(c, {"what": "the test raised on integer-labelled alternatives", "exc": o["error"]})
        elif o["problems"]:
            ctx.oracle_fail(dict(c, integer_labels=True), {"oracle": o["problems"][0], "all": o["problems"]})
    # sessions with different string hashing (a decision maker that leaves two alternatives out of every ranking)
    hcases = []
    for _ in range(ctx.n(4, 24)):
        c = gen_case(ctx.rng)
        if len(c["matrix"]) < 5:
            continue
        c.update(drop="two", allow_missing=True, strategy="max")
        hcases.append(c)
    for c, ds in zip(hcases, I.pmap_timeout(hashseed_digests, hcases, 300)):
        ctx.count("sessions_with_different_PYTHONHASHSEED")
        ctx.case_seen(c, True)
        if isinstance(ds, dict):
            continue        # timed out: the known non-termination may hit here too
        if any(d.startswith("ERR") for d in ds):
            ctx.count("hashseed_session_failed")
        elif len(set(ds)) != 1:
            ctx.oracle_fail(c, {"oracle": "the same seeded experiment differs between interpreter sessions started with "
                                          f"different PYTHONHASHSEED values (digests {ds})"})


def replay(ctx, rep):
    case = rep["case"]
    if "script" in case:
        print("re-run the check: the zero-gap termination case is exercised on every run")
        return 0
    if case.get("integer_labels"):
        o = I.pmap_timeout(int_label_experiment, [case], 60)[0]
        print("integer-labelled experiment:", o)
        return 1 if (o.get("problems") or "error" in o or o.get("timeout")) else 0
    o = I.pmap_timeout(run_impl, [case], 60)[0]
    if o.get("timeout"):
        print("the experiment did not come back within 60 s (non-termination); zero bound predicted:",
              zero_bound_predicted(case))
        return 1
    if "error" in o:
        print("implementation raised:", o)
        return 1
    msg, _ = analyse(case, o)
    print("evaluations   :", len(o["seen"]))
    print("oracle        :", msg or "property holds on this case")
    return 1 if msg else 0
