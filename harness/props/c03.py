"""C03 — rankings are well formed and ordered exactly by the score they report."""
import numpy as np

from .. import gen
from .. import impl as I
from .. import methods as M
from ..val import Err

RULE = ("each ranking/kernel method (WSM, WPM, TOPSIS x 5 metrics, RatioMOORA, ReferencePointMOORA, FMF, MultiMOORA, "
        "ELECTRE1, ELECTRE2 with thresholds on the k/8 grid, SIMUS both rank_by) on generated in-domain matrices "
        "(tiny alphabets => ties, duplicated rows, dominated copies, shuffled labels, non-square shapes); the score "
        "the result itself reports is fed, as exact rationals, to the extracted model's rank_values / kernel and "
        "must reproduce rank_/kernel_ exactly; plus RankResult/KernelResult constructors and mkagg methods against "
        "the model's validate_rank on valid and invalid integer vectors. non-trivial = at least 2 alternatives and "
        "(tie in the reported score or >=3 distinct ranks / non-empty outranking relation); distinct by hash")

RANKERS = ["wsm", "wpm", "topsis", "ratio", "refpoint", "fmf", "multimoora", "electre2", "simus"]
KERNELS = ["electre1"]


def score_of(case, out):
    name = case["method"]["name"]
    key, desc = M.SCORE[name]
    if name == "simus":
        key = "method_1_score" if out["extra"]["rank_by"] == 1 else "method_2_score"
    return out["extra"][key], desc


def oracle_rank(case, out):
    """Direct pairwise reading of the property on the implementation's result."""
    if out["alternatives"] != list(case["alternatives"]):
        return f"result names {out['alternatives']} != input names {case['alternatives']}"
    n = len(case["alternatives"])
    vals = out["values"]
    if len(vals) != n:
        return "one value per alternative expected"
    name = case["method"]["name"]
    if name in KERNELS:
        if not all(isinstance(v, bool) for v in vals):
            return "kernel values are not booleans"
        o = out["extra"]["outrank"]
        for j in range(n):
            free = not any(o[i][j] for i in range(n))
            if bool(vals[j]) != free:
                return f"alternative {j}: kernel_={vals[j]} but outranked-by-nobody={free}"
        return None
    score, desc = score_of(case, out)
    if any(not isinstance(v, int) for v in vals):
        return "ranks are not integers"
    ks = sorted(set(vals))
    if ks != list(range(1, len(ks) + 1)):
        return f"ranks {sorted(set(vals))} are not 1..k without gaps"
    for i in range(n):
        for j in range(n):
            better = score[i] > score[j] if desc else score[i] < score[j]
            if better and not vals[i] < vals[j]:
                return f"score[{i}]={score[i]!r} better than score[{j}]={score[j]!r} but ranks {vals[i]},{vals[j]}"
            if score[i] == score[j] and vals[i] != vals[j]:
                return f"equal scores at {i},{j} but ranks {vals[i]},{vals[j]}"
    return None


def nontrivial(case, out):
    if "error" in out or len(case["alternatives"]) < 2:
        return False
    if case["method"]["name"] in KERNELS:
        return any(any(r) for r in out["extra"]["outrank"])
    score, _ = score_of(case, out)
    return len(set(score)) < len(score) or len(set(out["values"])) >= 3


# ---- constructors / mkagg ------------------------------------------------------
def ctor_case(rng):
    n = rng.randint(1, 7)
    kind = rng.choice(["valid", "valid", "gap", "zero", "neg", "start2", "random"])
    if kind == "valid":
        k = rng.randint(1, n)
        vals = list(range(1, k + 1)) + [rng.randint(1, k) for _ in range(n - k)]
        rng.shuffle(vals)
    elif kind == "gap":
        vals = [rng.choice([1, 2, 4, 5]) for _ in range(n)] + [4]
    elif kind == "zero":
        vals = [rng.randint(0, 3) for _ in range(n)] + [0]
    elif kind == "neg":
        vals = [rng.randint(-2, 3) for _ in range(n)]
    elif kind == "start2":
        vals = [rng.randint(2, 4) for _ in range(n)]
    else:
        vals = [rng.randint(0, 5) for _ in range(n)]
    return {"values": vals, "kind": kind, "via": rng.choice(["RankResult", "mkagg"])}


def run_ctor(case):
    from skcriteria.agg import RankResult
    from skcriteria.extend import mkagg
    vals = case["values"]
    alts = [f"a{i}" for i in range(len(vals))]
    try:
        if case["via"] == "RankResult":
            r = RankResult("m", alts, vals, {})
        else:
            @mkagg
            def UserAgg(**kwargs):
                return list(vals), {"k": 1}
            dm = I.mkdm(np.ones((len(vals), 2)), [max, max], alternatives=alts)
            r = UserAgg().evaluate(dm)
        return {"ok": True, "values": [int(v) for v in r.values], "alternatives": list(r.alternatives)}
    except ValueError:
        return {"ok": False}
    except Exception as e:  # noqa: BLE001
        return {"ok": None, "exc": repr(e)}


def run(ctx):
    I.repo_check()
    ctx.rule = RULE
    per = ctx.n(45, 700)
    cases = []
    for name in RANKERS + KERNELS:
        k = per if name != "simus" else ctx.n(10, 60)
        for _ in range(k):
            cases.append(M.method_case(ctx.rng, name, tier_big=(ctx.tier == "thorough")))
        if name not in ("simus", "electre2"):
            for _ in range(ctx.n(2, 6)):
                cases.append(M.ladder_case(ctx.rng, name))
    outs = I.pmap(M.evaluate, cases)
    calls, idxs = [], []
    for k, (c, o) in enumerate(zip(cases, outs)):
        name = c["method"]["name"]
        ctx.count("method:" + name)
        if "error" in o:
            ctx.count("refused:" + name)
            ctx.case_seen(c, False)
            continue
        ctx.case_seen(c, nontrivial(c, o))
        msg = oracle_rank(c, o)
        if msg:
            ctx.oracle_fail(c, {"oracle": msg, "values": o["values"]})
        if name in KERNELS:
            calls.append(("kernel", o["extra"]["outrank"]))
        else:
            score, desc = score_of(c, o)
            if any(s != s or abs(s) == float("inf") for s in score):
                ctx.count("nonfinite_score")
                continue
            if len(score) >= 60 and not M.short_numbers(score):
                # hundreds of long rationals: the pairwise oracle above decides these, the model is not asked
                ctx.count("huge_case_decided_by_pairwise_oracle_only")
                continue
            calls.append(("rank", (desc, score)))
        idxs.append(k)
    mods = ctx.model.batch(calls)
    for k, mo in zip(idxs, mods):
        c, o = cases[k], outs[k]
        if list(o["values"]) != list(mo):
            ctx.disagree(c, {"impl_values": o["values"], "model_values": mo,
                             "reported_score": score_of(c, o)[0] if c["method"]["name"] not in KERNELS else None})
    ctx.traces_validated = len(idxs)
    # constructors
    cc = [ctor_case(ctx.rng) for _ in range(ctx.n(300, 4000))]
    co = [run_ctor(c) for c in cc]
    cm = ctx.model.batch([("validate_rank", c["values"]) for c in cc])
    for c, o, mo in zip(cc, co, cm):
        ctx.case_seen(c, len(set(c["values"])) > 1)
        ctx.count("ctor:" + c["kind"])
        ks = sorted(set(c["values"]))
        want = ks == list(range(1, len(ks) + 1))
        if o["ok"] is None or o["ok"] != want:
            ctx.oracle_fail(c, {"oracle": f"constructor accepted={o['ok']} but values are a ranking={want}"})
        if o["ok"] != mo:
            ctx.disagree(c, {"impl_accepts": o["ok"], "model_accepts": mo})
        if o["ok"] and o["values"] != c["values"]:
            ctx.oracle_fail(c, {"oracle": "result does not report the values it was given"})
    if ctx.tier == "thorough":
        from ..core import vm_crosscheck
        sample = list(range(0, len(calls), max(1, len(calls) // 300)))[:300]
        bad, msg = vm_crosscheck([calls[i] for i in sample], [mods[i] for i in sample], "C03")
        ctx.vm_checked = len(sample)
        if bad != 0:
            ctx.disagree(cases[idxs[sample[0]]], {"vm_compute_vs_extraction": bad, "msg": msg})


def replay(ctx, rep):
    case = rep["case"]
    if "method" not in case:
        o = run_ctor(case)
        mo = ctx.model.one("validate_rank", case["values"])
        print("implementation:", o, "\nmodel accepts :", mo)
        return 0 if o["ok"] == mo else 1
    out = M.evaluate(case)
    print("implementation:", out)
    if "error" in out:
        return 0
    msg = oracle_rank(case, out)
    if case["method"]["name"] in KERNELS:
        mo = ctx.model.one("kernel", out["extra"]["outrank"])
    else:
        score, desc = score_of(case, out)
        mo = ctx.model.one("rank", (desc, score))
    print("model         :", mo)
    print("oracle        :", msg or "property holds on this case")
    return 1 if (msg or list(out["values"]) != list(mo)) else 0
