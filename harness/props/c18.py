"""C18 — untied ranks refine the ranking; comparators align by alternative name."""
import itertools
from fractions import Fraction

import numpy as np

from .. import closing as CL
from .. import gen
from .. import impl as I

RULE = ("ALL dense rankings (every weak order) of length <= 5 (thorough: <= 7, 52 629 rankings) plus random dense "
        "rankings up to length 40, through RankResult.untied_rank_ and to_series(untied=True), compared with the "
        "extracted model's untied_rank and with the direct reading of the property (permutation of 1..n, strict "
        "preferences kept, ties by order of appearance, identity without ties); RanksComparators built from 2-5 "
        "rankings that each list the SAME alternatives in their OWN random order, untied on/off: every frame cell "
        "is looked up by alternative label, covariance and Hamming-distance tables compared exactly with the model, "
        "correlation through the 60-digit closing, tables square over the ranking names with the self-comparison "
        "value on the diagonal. non-trivial = ranking with a tie, or comparator whose rankings list the alternatives "
        "in different orders; distinct by hash")


def weak_orders(n):
    """All dense rankings of length n (values 1..k, every value used)."""
    for k in range(1, n + 1):
        for seq in itertools.product(range(1, k + 1), repeat=n):
            if len(set(seq)) == k:
                yield list(seq)


def random_dense(rng, n):
    k = rng.randint(1, n)
    vals = list(range(1, k + 1)) + [rng.randint(1, k) for _ in range(n - k)]
    rng.shuffle(vals)
    return vals


def run_untie(r):
    from skcriteria.agg import RankResult
    alts = [f"a{i}" for i in range(len(r))]
    try:
        res = RankResult("m", alts, r, {})
        u = [int(x) for x in res.untied_rank_]
        s = res.to_series(untied=[True, np.True_, 1][len(r) % 3])      # any truthy spelling of the flag
        return {"untied": u, "series": [int(x) for x in s.to_numpy()], "index": list(s.index)}
    except Exception as e:  # noqa: BLE001
        return {"error": repr(e)}


def oracle_untie(r, o):
    if "error" in o:
        return "raised " + o["error"]
    u = o["untied"]
    n = len(r)
    if o["series"] != u or o["index"] != [f"a{i}" for i in range(n)]:
        return "to_series(untied=True) differs from untied_rank_"
    if sorted(u) != list(range(1, n + 1)):
        return f"untied {u} is not a permutation of 1..{n}"
    for i in range(n):
        for j in range(n):
            if r[i] < r[j] and not u[i] < u[j]:
                return f"strict preference {i} over {j} lost: ranks {r[i]},{r[j]} untied {u[i]},{u[j]}"
            if r[i] == r[j] and i < j and not u[i] < u[j]:
                return f"tie between {i} and {j} not broken by order of appearance: untied {u[i]},{u[j]}"
    if len(set(r)) == n and u != r:
        return "ranking without ties was changed"
    return None


# ---- comparators --------------------------------------------------------------------------------
def gen_cmp(rng):
    n = rng.randint(2, 7)
    k = rng.randint(2, 5)
    alts = gen.labels(rng, n, gen.LABEL_POOL_A, "A", kinds=False)
    ranks = []
    for t in range(k):
        order = list(alts)
        if t > 0 or rng.random() < 0.5:
            rng.shuffle(order)
        ranks.append({"name": f"m{t}" if rng.random() < 0.7 else rng.choice(["x", "zz", "Q"]) + str(t),
                      "alternatives": order, "values": random_dense(rng, n)})
    # "asked_before": the same comparator object has already answered the same questions with the other `untied`
    return {"ranks": ranks, "untied": rng.random() < 0.5, "asked_before": rng.random() < 0.5}


def run_cmp(case):
    from skcriteria.agg import RankResult
    from skcriteria.cmp import RanksComparator
    try:
        pairs = [(r["name"], RankResult(r["name"], r["alternatives"], r["values"], {})) for r in case["ranks"]]
        # the collection of (name, ranking) pairs in any container a caller may hold it in, one-shot ones included
        import zlib
        from skcriteria.cmp import mkrank_cmp
        h = zlib.crc32(repr([r["name"] for r in case["ranks"]] + case["ranks"][0]["values"]).encode()) % 8
        if h == 0:
            rc = RanksComparator(tuple(pairs))
        elif h == 1:
            rc = RanksComparator(zip([n for n, _ in pairs], [r for _, r in pairs]))
        elif h == 2:
            rc = RanksComparator(p for p in pairs)
        elif h == 3:
            rc = RanksComparator(dict(pairs).items())
        elif h == 4:
            rc = RanksComparator(map(lambda p: p, pairs))
        elif h == 5 and len({n for n, _ in pairs}) == len(pairs):
            rc = mkrank_cmp(*[r for _, r in pairs])
            if [n for n, _ in rc.ranks] != [n for n, _ in pairs]:
                rc = RanksComparator(pairs)
        else:
            rc = RanksComparator(pairs)
        # the flag in any truthy / falsy spelling a caller may hold it in (a numpy bool from a reduction, 0 / 1)
        u = {True: [True, np.True_, 1], False: [False, np.False_, 0]}[bool(case["untied"])][len(case["ranks"][0]["alternatives"]) % 3]
        if case.get("asked_before"):
            for q in (rc.to_dataframe, rc.corr, rc.cov, rc.r2_score, rc.distance):
                try:
                    q(untied=not bool(u))
                except Exception:  # noqa: BLE001
                    pass
        df = rc.to_dataframe(untied=u)
        out = {"frame": {str(c): {str(a): float(df.loc[a, c]) for a in df.index} for c in df.columns}}
        for key, tb in (("corr", rc.corr(untied=u)), ("cov", rc.cov(untied=u)), ("r2", rc.r2_score(untied=u)),
                        ("distance", rc.distance(untied=u))):
            out[key] = {"rows": [str(x) for x in tb.index], "cols": [str(x) for x in tb.columns],
                        "values": np.asarray(tb.to_numpy(), dtype=float).tolist()}
        return out
    except Exception as e:  # noqa: BLE001
        return {"error": repr(e)[:300]}


def untie_py(r):
    return [1 + sum(1 for y in r if y < x) + sum(1 for y in r[:i] if y == x) for i, x in enumerate(r)]


def check_cmp(ctx, case, o, mo):
    names = [r["name"] for r in case["ranks"]]
    if "error" in o:
        ctx.oracle_fail(case, {"oracle": "comparator raised " + o["error"]})
        return
    alts = case["ranks"][0]["alternatives"]
    # frame cells by label (oracle)
    cols = {}
    for r in case["ranks"]:
        vals = r["values"]
        if case["untied"] and len(set(vals)) != len(vals):
            vals = untie_py(vals)
        cols[r["name"]] = dict(zip(r["alternatives"], vals))
        for a in r["alternatives"]:
            got = o["frame"].get(r["name"], {}).get(a)
            if got != cols[r["name"]][a]:
                ctx.oracle_fail(case, {"oracle": f"frame[{a!r}, {r['name']!r}] = {got} but that alternative's "
                                                 f"rank in that ranking is {cols[r['name']][a]}"})
                return
    # tables: square over names, diagonal
    for key, diag in (("corr", 1.0), ("cov", None), ("r2", 1.0), ("distance", 0.0)):
        tb = o[key]
        if tb["rows"] != names or tb["cols"] != names:
            ctx.oracle_fail(case, {"oracle": f"{key} table is not square over the ranking names: {tb['rows']} x {tb['cols']}"})
            return
        for t, nm in enumerate(names):
            v = tb["values"][t][t]
            col = [cols[nm][a] for a in alts]
            const = len(set(col)) == 1
            if key == "corr" and const:
                continue
            if key == "cov":
                mu = Fraction(sum(col), len(col))
                want = float(sum((Fraction(x) - mu) ** 2 for x in col) / (len(col) - 1)) if len(col) > 1 else None
                if want is not None and abs(v - want) > 1e-9:
                    ctx.oracle_fail(case, {"oracle": f"cov diagonal for {nm} is {v}, the variance is {want}"})
                    return
            elif abs(v - diag) > 1e-9:
                ctx.oracle_fail(case, {"oracle": f"{key} diagonal for {nm} is {v}, expected {diag}"})
                return
    # model: aligned columns, sample covariance, hamming, correlation via closing
    mcols, mscov, mham, mcov, mpvar = mo
    want_cols = [[Fraction(cols[nm][a]) for a in alts] for nm in names]
    if mcols != want_cols:
        ctx.disagree(case, {"what": "model frame columns differ from the by-label columns", "model": mcols})
        return
    k = len(names)
    for i in range(k):
        for j in range(k):
            if abs(Fraction(o["cov"]["values"][i][j]) - mscov[i][j]) > Fraction(1, 10 ** 9):
                ctx.disagree(case, {"what": f"cov[{i}][{j}]", "impl": o["cov"]["values"][i][j], "model": mscov[i][j]})
                return
            if abs(Fraction(o["distance"]["values"][i][j]) - mham[i][j]) > Fraction(1, 10 ** 12):
                ctx.disagree(case, {"what": f"distance[{i}][{j}]", "impl": o["distance"]["values"][i][j],
                                    "model": mham[i][j]})
                return
            if mpvar[i] != 0 and mpvar[j] != 0:
                r = CL.D(mcov[i][j]) / (CL.sqrt(mpvar[i]) * CL.sqrt(mpvar[j]))
                if abs(CL.D(o["corr"]["values"][i][j]) - r) > CL.D("1e-9"):
                    ctx.disagree(case, {"what": f"corr[{i}][{j}]", "impl": o["corr"]["values"][i][j], "model": str(r)})
                    return


def run(ctx):
    I.repo_check()
    ctx.rule = RULE
    nmax = 5 if not (ctx.tier == "thorough" or ctx.changed) else 7
    rankings = [r for n in range(1, nmax + 1) for r in weak_orders(n)]
    nexh = len(rankings)
    for _ in range(ctx.n(150, 2500)):
        rankings.append(random_dense(ctx.rng, ctx.rng.randint(6, 40)))
    outs = I.pmap(run_untie, rankings, chunksize=256)
    mods = ctx.model.batch([("untie", r) for r in rankings])
    for k, (r, o, mo) in enumerate(zip(rankings, outs, mods)):
        case = {"ranking": r}
        ctx.case_seen(case, len(set(r)) < len(r))
        ctx.count("ranking:exhaustive" if k < nexh else "ranking:random")
        msg = oracle_untie(r, o)
        if msg:
            ctx.oracle_fail(case, {"oracle": msg, "untied": o.get("untied")})
        if o.get("untied") != mo:
            ctx.disagree(case, {"impl": o.get("untied"), "model": mo})
    ccases = [gen_cmp(ctx.rng) for _ in range(ctx.n(150, 3000))]
    couts = I.pmap(run_cmp, ccases)
    calls = []
    for c in ccases:
        it = {}
        alts = c["ranks"][0]["alternatives"]
        names = [it.setdefault(a, len(it) + 1) for a in alts]
        rks = []
        for r in c["ranks"]:
            vals = r["values"]
            if c["untied"] and len(set(vals)) != len(vals):
                vals = None
            rks.append((r, vals))
        calls.append((names, it, rks))
    # untied values come from the model's own untie (per ranking, in that ranking's listing order)
    ucalls = [("untie", r["values"]) for (_n, _i, rks) in calls for (r, vals) in rks if vals is None]
    umods = iter(ctx.model.batch(ucalls))
    mcalls = []
    for names, it, rks in calls:
        lst = []
        for r, vals in rks:
            v = vals if vals is not None else next(umods)
            lst.append([(it[a], x) for a, x in zip(r["alternatives"], v)])
        mcalls.append(("cmp", (names, lst)))
    cmods = ctx.model.batch(mcalls)
    for c, o, mo in zip(ccases, couts, cmods):
        reordered = any(r["alternatives"] != c["ranks"][0]["alternatives"] for r in c["ranks"])
        ctx.case_seen(c, reordered)
        ctx.count("comparator:" + ("untied" if c["untied"] else "tied"))
        check_cmp(ctx, c, o, mo)
    ctx.traces_validated = len(rankings) + len(ccases)
    ctx.exhaustive = False
    ctx.notes.append(f"all {nexh} dense rankings of length <= {nmax} were enumerated; the random part is not exhaustive")


def replay(ctx, rep):
    case = rep["case"]
    if "ranking" in case:
        o = run_untie(case["ranking"])
        mo = ctx.model.one("untie", case["ranking"])
        msg = oracle_untie(case["ranking"], o)
        print("implementation:", o, "\nmodel         :", mo, "\noracle        :", msg or "holds")
        return 1 if (msg or o.get("untied") != mo) else 0
    o = run_cmp(case)
    print("implementation:", o)
    return 0
