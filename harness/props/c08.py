"""C08 — ELECTRE outranking relations, kernel and distillation follow their definition."""
from fractions import Fraction

from .. import impl as I
from .. import methods as M
from ..val import Err

RULE = ("ELECTRE1 / ELECTRE2 on non-constant matrices over tiny alphabets, small integers and the dyadic grid, "
        "dyadic weights summing exactly to one, all objective mixes, thresholds on the k/8 grid (so concordance = p "
        "and discordance = q are hit exactly) plus the defaults; staged comparison with the extracted model: "
        "concordance / discordance from the matrix; outrank, kernel, strong and weak relations from the REPORTED "
        "matrices; direct, inverse and final rankings from the REPORTED relations; matrix_wor against both the "
        "specified weight-comparison relation and the relation the implementation's exchanged-argument call "
        "computes; a Fraction-based oracle re-derives concordance, discordance, outrank and kernel independently. "
        "non-trivial = >=3 alternatives and a non-empty, non-complete outranking relation; distinct by hash")

KF = "C08-wor-args-exchanged"
KF_TEXT = ("ELECTRE2 e_.matrix_wor is not the weight-comparison relation: electre2() calls "
           "weights_outrank(matrix, objectives, weights) against the signature (matrix, weights, objectives)")


def offdiag_eq(a, b):
    n = len(a)
    return all(a[i][j] == b[i][j] for i in range(n) for j in range(n) if i != j)


def zero_diag(t):
    return [[0.0 if i == j else t[i][j] for j in range(len(t))] for i in range(len(t))]


def oracle(case, out):
    """Independent Fraction re-computation of the definitions."""
    mtx = [[Fraction(x) for x in r] for r in case["matrix"]]
    w = [Fraction(x) for x in case["weights"]]
    objs = case["objectives"]
    n, m = len(mtx), len(w)
    e = out["extra"]
    rng = max(max(r[j] for r in mtx) - min(r[j] for r in mtx) for j in range(m))
    for a in range(n):
        for b in range(n):
            if a == b:
                continue
            c = sum(w[j] for j in range(m)
                    if (mtx[a][j] >= mtx[b][j] if objs[j] == 1 else mtx[a][j] <= mtx[b][j]))
            d = max([(mtx[b][j] - mtx[a][j]) if objs[j] == 1 else (mtx[a][j] - mtx[b][j]) for j in range(m)] + [0])
            d = d / rng
            if Fraction(e["matrix_concordance"][a][b]) != c:
                return f"concordance[{a}][{b}]={e['matrix_concordance'][a][b]} but definition gives {c}"
            if abs(Fraction(e["matrix_discordance"][a][b]) - d) > d * Fraction(1, 2 ** 51):
                return f"discordance[{a}][{b}]={e['matrix_discordance'][a][b]} but definition gives {d}"
    name = case["method"]["name"]
    if name == "electre1":
        p, q = case["method"].get("p", 0.65), case["method"].get("q", 0.35)
        for a in range(n):
            for b in range(n):
                want = a != b and e["matrix_concordance"][a][b] >= p and e["matrix_discordance"][a][b] <= q
                if bool(e["outrank"][a][b]) != want:
                    return f"outrank[{a}][{b}]={e['outrank'][a][b]} but c>=p and d<=q is {want}"
        for b in range(n):
            free = not any(e["outrank"][a][b] for a in range(n))
            if bool(out["values"][b]) != free:
                return f"kernel[{b}]={out['values'][b]} but nothing-outranks-it is {free}"
    if name == "electre2":
        p0, p1, p2, q0, q1 = thresholds(case)
        C, D, W = e["matrix_concordance"], e["matrix_discordance"], e["matrix_wor"]
        for a in range(n):
            for b in range(n):
                ws = a != b and bool(W[a][b]) and ((C[a][b] >= p0 and D[a][b] <= q0) or (C[a][b] >= p1 and D[a][b] <= q1))
                ww = a != b and bool(W[a][b]) and C[a][b] >= p2 and D[a][b] <= q0
                if bool(e["outrank_s"][a][b]) != ws:
                    return (f"outrank_s[{a}][{b}]={e['outrank_s'][a][b]} but the documented combination of the reported "
                            f"c={C[a][b]!r}, d={D[a][b]!r}, weight comparison={bool(W[a][b])} gives {ws}")
                if bool(e["outrank_w"][a][b]) != ww:
                    return (f"outrank_w[{a}][{b}]={e['outrank_w'][a][b]} but the documented combination of the reported "
                            f"c={C[a][b]!r}, d={D[a][b]!r}, weight comparison={bool(W[a][b])} gives {ww}")
        S = [[bool(x) for x in r] for r in e["outrank_s"]]
        Wk = [[bool(x) for x in r] for r in e["outrank_w"]]
        direct = distill(S, Wk, n)
        tr = lambda t: [[t[j][i] for j in range(n)] for i in range(n)]   # noqa: E731
        inv0 = distill(tr(S), tr(Wk), n)
        inverse = [max(inv0) + 1 - r for r in inv0]
        if list(e["ranking_direct"]) != direct:
            return f"ranking_direct={list(e['ranking_direct'])} but distilling the reported relations gives {direct}"
        if list(e["ranking_inverted"]) != inverse:
            return f"ranking_inverted={list(e['ranking_inverted'])} but distilling the reported relations gives {inverse}"
        avg = [Fraction(a + b, 2) for a, b in zip(direct, inverse)]
        final = [1 + len({y for y in avg if y < x}) for x in avg]
        if [Fraction(x) for x in e["score"]] != avg or list(out["values"]) != final:
            return f"score/final ranking {e['score']}/{list(out['values'])} but the two distillations give {avg}/{final}"
    return None


def distill(s, w, n):
    """The iterative distillation, straight from its description: among the alternatives still in play, those that
    no remaining alternative strongly outranks but some remaining alternative weakly outranks form the next class;
    when no such alternative exists everybody left shares the last class."""
    idx, ranking, pos = list(range(n)), [0] * n, 1
    while idx:
        chosen = [i for i in idx if not any(s[j][i] for j in idx) and any(w[j][i] for j in idx)]
        if not chosen:
            for i in idx:
                ranking[i] = pos
            break
        for i in chosen:
            ranking[i] = pos
        idx = [i for i in idx if i not in chosen]
        pos += 1
    return ranking


def wor_direct(case):
    mtx, w, objs = case["matrix"], [Fraction(x) for x in case["weights"]], case["objectives"]
    n, m = len(mtx), len(w)

    def sb(a, b):  # weight where a strictly better than b
        return sum(w[j] for j in range(m) if (mtx[a][j] > mtx[b][j] if objs[j] == 1 else mtx[a][j] < mtx[b][j]))
    return [[a != b and sb(a, b) >= sb(b, a) for b in range(n)] for a in range(n)]


def thresholds(case):
    mt = case["method"]
    return [mt.get("p0", 0.65), mt.get("p1", 0.5), mt.get("p2", 0.35), mt.get("q0", 0.65), mt.get("q1", 0.35)]


def nonconstant(case):
    m = len(case["weights"])
    return any(len({r[j] for r in case["matrix"]}) > 1 for j in range(m))


CORPUS = [
    {"matrix": [[1.0, 2.0], [2.0, 1.0], [1.0, 1.0]], "objectives": [1, 1], "weights": [0.75, 0.25],
     "alternatives": ["a", "b", "c"], "criteria": ["x", "y"], "mode": "int", "tags": [],
     "method": {"name": "electre2"}},
    {"matrix": [[1.0, 2.0], [2.0, 1.0], [1.0, 1.0]], "objectives": [1, -1], "weights": [0.75, 0.25],
     "alternatives": ["a", "b", "c"], "criteria": ["x", "y"], "mode": "int", "tags": [],
     "method": {"name": "electre1", "p": 0.75, "q": 1.0}},
]


def run(ctx):
    I.repo_check()
    ctx.rule = RULE
    cases = [dict(c) for c in CORPUS]
    per = ctx.n(220, 5000)
    for name in ("electre1", "electre2"):
        k = 0
        while k < per:
            c = M.method_case(ctx.rng, name, tier_big=ctx.tier == "thorough")
            if nonconstant(c):
                cases.append(c)
                k += 1
    outs = I.pmap(M.evaluate, cases)
    tabs = ctx.model.batch([("electre_tables", ([o == 1 for o in c["objectives"]], c["weights"], c["matrix"]))
                            for c in cases])
    calls, owner = [], []
    wor_matches_called_not_spec = 0
    for k, (c, o, tb) in enumerate(zip(cases, outs, tabs)):
        name = c["method"]["name"]
        ctx.count("method:" + name)
        if "error" in o:
            ctx.disagree(c, {"what": "method raised on an in-domain matrix", "exc": o.get("exc")})
            continue
        e = o["extra"]
        n = len(c["matrix"])
        rel = e["outrank"] if name == "electre1" else e["outrank_w"]
        cnt = sum(bool(x) for r in rel for x in r)
        ctx.case_seen(c, n >= 3 and 0 < cnt < n * (n - 1))
        msg = oracle(c, o)
        if msg:
            ctx.oracle_fail(c, {"oracle": msg})
        mconc, mdisc, wspec, wcalled = tb
        # stage 1: concordance / discordance from the matrix
        if not offdiag_eq([[Fraction(x) if x == x else None for x in r] for r in e["matrix_concordance"]], mconc):
            ctx.disagree(c, {"what": "matrix_concordance", "impl": e["matrix_concordance"], "model": mconc})
        n_ = len(mdisc)
        for i in range(n_):
            for j in range(n_):
                if i != j and abs(Fraction(e["matrix_discordance"][i][j]) - mdisc[i][j]) > mdisc[i][j] * Fraction(1, 2 ** 51):
                    ctx.disagree(c, {"what": f"matrix_discordance[{i}][{j}]", "impl": e["matrix_discordance"][i][j],
                                     "model": mdisc[i][j]})
        conc0, disc0 = zero_diag(e["matrix_concordance"]), zero_diag(e["matrix_discordance"])
        if name == "electre1":
            p, q = c["method"].get("p", 0.65), c["method"].get("q", 0.35)
            calls.append(("outrank", (p, q, conc0, disc0)))
            owner.append((k, "outrank"))
            calls.append(("kernel", e["outrank"]))
            owner.append((k, "kernel"))
        else:
            # weight comparison relation: specified vs as-called
            wd = wor_direct(c)
            if wspec != wd:
                ctx.disagree(c, {"what": "model wor_spec differs from the direct definition", "model": wspec, "direct": wd})
            mw = [[bool(x) for x in r] for r in e["matrix_wor"]]
            if mw == wspec:
                pass
            elif mw == wcalled:
                wor_matches_called_not_spec += 1
                if not ctx.known_finding(KF, KF_TEXT):
                    ctx.oracle_fail(c, {"oracle": "matrix_wor is not the weight-comparison relation",
                                        "impl": mw, "definition": wspec})
            else:
                ctx.oracle_fail(c, {"oracle": "matrix_wor is neither the weight-comparison relation nor the "
                                              "known exchanged-argument relation", "impl": mw, "definition": wspec})
            calls.append(("electre2_rel", (thresholds(c), conc0, disc0, mw)))
            owner.append((k, "rel"))
            calls.append(("electre2_rank", (e["outrank_s"], e["outrank_w"])))
            owner.append((k, "rank"))
    mods = ctx.model.batch(calls)
    for (k, what), mo in zip(owner, mods):
        c, o = cases[k], outs[k]
        e = o["extra"]
        if what == "outrank":
            if [[bool(x) for x in r] for r in e["outrank"]] != mo:
                ctx.disagree(c, {"what": "outrank", "impl": e["outrank"], "model": mo})
        elif what == "kernel":
            if [bool(x) for x in o["values"]] != mo:
                ctx.disagree(c, {"what": "kernel", "impl": o["values"], "model": mo})
        elif what == "rel":
            got = [[[bool(x) for x in r] for r in e[key]] for key in ("outrank_s", "outrank_w")]
            if got != mo:
                ctx.disagree(c, {"what": "outrank_s/outrank_w", "impl": got, "model": mo})
        else:
            if isinstance(mo, Err):
                ctx.disagree(c, {"what": "model distillation ran out of fuel"})
                continue
            d, i, sc, r = mo
            got = (list(e["ranking_direct"]), list(e["ranking_inverted"]), [Fraction(x) for x in e["score"]],
                   list(o["values"]))
            if got != (d, i, sc, r):
                ctx.disagree(c, {"what": "distillation", "impl": [e["ranking_direct"], e["ranking_inverted"],
                                                                    e["score"], o["values"]],
                                 "model": [d, i, sc, r]})
    ctx.hist["wor_equals_exchanged_call_not_spec"] = wor_matches_called_not_spec
    ctx.traces_validated = len(cases)
    if ctx.tier == "thorough":
        from ..core import vm_crosscheck
        sample = list(range(0, len(calls), max(1, len(calls) // 200)))[:200]
        bad, msg = vm_crosscheck([calls[i] for i in sample], [mods[i] for i in sample], "C08")
        ctx.vm_checked = len(sample)
        if bad != 0:
            ctx.disagree(cases[0], {"vm_compute_vs_extraction": bad, "msg": msg})


def replay(ctx, rep):
    case = rep["case"]
    out = M.evaluate(case)
    print("implementation:", out)
    if "error" in out:
        return 1
    msg = oracle(case, out)
    tb = ctx.model.one("electre_tables", ([o == 1 for o in case["objectives"]], case["weights"], case["matrix"]))
    print("model tables  :", tb)
    print("oracle        :", msg or "property holds on this case (matrix_wor is judged by the check itself)")
    return 1 if msg else 0
