"""C15 — imputation fills the gaps and touches nothing else."""
from fractions import Fraction

import numpy as np

from .. import gen
from .. import impl as I
from .. import transformers as T

RULE = ("SimpleImputer (mean / median / most_frequent / constant with fill_value), KNNImputer (n_neighbors, weights), "
        "IterativeImputer (max_iter, initial_strategy, random_state) on matrices over small integers / the dyadic grid "
        "(tied frequencies for most_frequent, even and odd numbers of observed values for the median) with random "
        "missing patterns leaving >= 1 observed value per criterion, including wholly missing alternatives; observed "
        "cells must be bit-identical, no cell missing afterwards, shape / labels / objectives / weights unchanged; "
        "SimpleImputer's fills are compared with the extracted model (median, most_frequent, constant exactly; mean "
        "within 4 ulp) and with a direct column-statistic oracle; for every imputer each parameter is varied on data "
        "where it changes scikit-learn's answer and the wrapper's output must equal the directly constructed "
        "scikit-learn estimator bit for bit. non-trivial = >= 2 missing cells in >= 2 criteria; distinct by hash")

STRAT = {"mean": 0, "median": 1, "most_frequent": 2, "constant": 3}


def gen_case(rng, name):
    cfg = T.config(rng, name)
    n, m = gen.shape(rng, 9, 5, 3, 1, big=0.0, huge=0.03 if name != "IterativeImputer" else 0.0)
    mode = rng.choice(["tinyint", "int", "dyadic"])
    if mode == "tinyint":
        mtx = [[float(rng.choice([1, 2, 3, 7])) for _ in range(m)] for _ in range(n)]
    elif mode == "int":
        mtx = [[float(rng.randint(-5, 20)) for _ in range(m)] for _ in range(n)]
    else:
        mtx = [[rng.randint(-16, 80) / 8.0 for _ in range(m)] for _ in range(n)]
    nan = set()
    if rng.random() < 0.25 and n >= 4:        # a wholly missing alternative
        i = rng.randrange(n)
        nan |= {(i, j) for j in range(m)}
    cells = [(i, j) for i in range(n) for j in range(m)]
    rng.shuffle(cells)
    for (i, j) in cells[: rng.randint(1, max(1, n * m // 3))]:
        nan.add((i, j))
    # keep >= 1 (KNN / Iterative: >= 2) observed values per criterion
    for j in range(m):
        col = [i for i in range(n) if (i, j) not in nan]
        while len(col) < 2:
            i = rng.choice([i for i in range(n) if (i, j) in nan])
            nan.discard((i, j))
            col.append(i)
    if name != "SimpleImputer":
        # every alternative needs an observed value for a distance to exist
        for i in range(n):
            if all((i, j) in nan for j in range(m)):
                nan.discard((i, rng.randrange(m)))
    c = {"matrix": mtx, "nan": sorted([list(x) for x in nan]), "objectives": gen.objectives(rng, m),
         "weights": gen.weights(rng, m), "alternatives": gen.labels(rng, n, gen.LABEL_POOL_A, "A"),
         "criteria": gen.labels(rng, m, gen.LABEL_POOL_C, "C"), "tf": cfg, "mode": mode}
    if rng.random() < 0.5:
        # the same imputer object has already been used on another matrix with the same criteria (other values, other gaps)
        wn = rng.randint(3, 7)
        wmtx = [[float(rng.randint(30, 90)) for _ in range(m)] for _ in range(wn)]
        wnan = [[rng.randrange(1, wn), j] for j in range(m) if rng.random() < 0.6]
        c["warm"] = {"matrix": wmtx, "nan": wnan}
    return c


def run_impl(case):
    import sklearn.impute as ski
    o = T.run_transform(case)
    if "error" in o:
        return o
    # parameter forwarding: the directly constructed scikit-learn estimator on the same matrix
    mtx = np.array(case["matrix"], dtype=float)
    for (i, j) in case["nan"]:
        mtx[i, j] = np.nan
    p = case["tf"]["params"]
    name = case["tf"]["cls"]
    try:
        if name == "SimpleImputer":
            est = ski.SimpleImputer(strategy=p["strategy"], fill_value=p.get("fill_value"))
        elif name == "KNNImputer":
            est = ski.KNNImputer(n_neighbors=p["n_neighbors"], weights=p["weights"])
        else:
            est = ski.IterativeImputer(max_iter=p["max_iter"], initial_strategy=p["initial_strategy"],
                                       random_state=p["random_state"], skip_complete=False)
        ref = est.fit_transform(mtx)
        o["forward_equal"] = bool(ref.shape == np.array(o["after"]["matrix"]).shape and
                                  np.array_equal(T.bits(ref), T.bits(np.array(o["after"]["matrix"]))))
    except Exception as e:  # noqa: BLE001
        o["forward_equal"] = "ref raised " + repr(e)[:100]
    return o


def col_stat(strategy, vals, fill):
    if strategy == "mean":
        return Fraction(sum(Fraction(v) for v in vals), len(vals))
    if strategy == "median":
        s = sorted(Fraction(v) for v in vals)
        k = len(s)
        return s[k // 2] if k % 2 else (s[k // 2 - 1] + s[k // 2]) / 2
    if strategy == "most_frequent":
        best = max(vals.count(v) for v in vals)
        return Fraction(min(v for v in vals if vals.count(v) == best))
    return Fraction(fill)


def oracle(case, o):
    b, a = o["before"], o["after"]
    nan = {tuple(x) for x in case["nan"]}
    am = a["matrix"]
    n, m = len(case["matrix"]), len(case["weights"])
    if len(am) != n or any(len(r) != m for r in am):
        return "shape changed"
    for k in ("alternatives", "criteria", "objectives"):
        if a[k] != b[k]:
            return f"{k} changed"
    if not o["weights_bits_equal"]:
        return "weights changed"
    for i in range(n):
        for j in range(m):
            v = am[i][j]
            if (i, j) in nan:
                if v != v:
                    return f"cell ({i},{j}) is still missing"
            elif np.float64(v).view(np.int64) != np.float64(case["matrix"][i][j]).view(np.int64):
                return f"observed cell ({i},{j}) changed from {case['matrix'][i][j]!r} to {v!r}"
    if case["tf"]["cls"] == "SimpleImputer":
        p = case["tf"]["params"]
        for j in range(m):
            vals = [case["matrix"][i][j] for i in range(n) if (i, j) not in nan]
            want = col_stat(p["strategy"], vals, p.get("fill_value", 0.0))
            for i in range(n):
                if (i, j) in nan and am[i][j] == am[i][j] and abs(Fraction(am[i][j]) - want) > abs(want) * Fraction(1, 2 ** 50):
                    return (f"gap ({i},{j}) filled with {am[i][j]!r} but the {p['strategy']} of the observed values "
                            f"of that criterion is {want}")
    if o["forward_equal"] is not True:
        return f"output differs from the directly constructed scikit-learn estimator ({o['forward_equal']})"
    return None


def run(ctx):
    I.repo_check()
    ctx.rule = RULE
    per = ctx.n(70, 900)
    cases = [gen_case(ctx.rng, name) for name in T.IMPUTERS for _ in range(per)]
    outs = I.pmap(run_impl, cases)
    calls, idx = [], []
    for k, (c, o) in enumerate(zip(cases, outs)):
        if c["tf"]["cls"] == "SimpleImputer" and "error" not in o:
            p = c["tf"]["params"]
            nan = {tuple(x) for x in c["nan"]}
            n, m = len(c["matrix"]), len(c["weights"])
            cols = [[[] if (i, j) in nan else [c["matrix"][i][j]] for i in range(n)] for j in range(m)]
            calls.append(("simple_impute", (STRAT[p["strategy"]], p.get("fill_value", 0.0) or 0.0, cols)))
            idx.append(k)
    mods = dict(zip(idx, ctx.model.batch(calls)))
    for k, (c, o) in enumerate(zip(cases, outs)):
        name = c["tf"]["cls"]
        ctx.count("imputer:" + name + (":" + c["tf"]["params"]["strategy"] if name == "SimpleImputer" else ""))
        if "error" in o:
            ctx.case_seen(c, False)
            ctx.disagree(c, {"what": "imputer raised", "exc": o["exc"]})
            continue
        cols_hit = {j for _i, j in c["nan"]}
        ctx.case_seen(c, len(c["nan"]) >= 2 and len(cols_hit) >= 2)
        msg = oracle(c, o)
        if msg:
            ctx.oracle_fail(c, {"oracle": msg})
        if k in mods:
            mcols, _fills = mods[k]
            n, m = len(c["matrix"]), len(c["weights"])
            for j in range(m):
                for i in range(n):
                    if o["after"]["matrix"][i][j] != o["after"]["matrix"][i][j]:
                        ctx.disagree(c, {"what": f"cell ({i},{j}) is NaN", "model": mcols[j][i]})
                        break
                    a, b = Fraction(o["after"]["matrix"][i][j]), mcols[j][i]
                    if abs(a - b) > abs(b) * Fraction(1, 2 ** 50):
                        ctx.disagree(c, {"what": f"cell ({i},{j})", "impl": o["after"]["matrix"][i][j], "model": b})
                        break
                else:
                    continue
                break
    ctx.traces_validated = len(cases)
    ctx.notes.append("partial: the values KNN / Iterative imputers choose are scikit-learn's; they enter the model as "
                     "an arbitrary function, and parameter forwarding is checked differentially against scikit-learn")


def replay(ctx, rep):
    case = rep["case"]
    o = run_impl(case)
    print("implementation:", o)
    if "error" in o:
        return 1
    msg = oracle(case, o)
    print("oracle        :", msg or "property holds on this case")
    return 1 if msg else 0
