"""C11 — scalers compute their documented normal form along the right axis."""
from fractions import Fraction

import numpy as np

from .. import closing as CL
from .. import gen
from .. import impl as I
from .. import transformers as T

RULE = ("SumScaler, VectorScaler, MaxAbsScaler, MinMaxScaler (criteria_range grid, clip on/off), StandarScaler "
        "(with_mean x with_std), CenitDistanceMatrixScaler, PushNegatives, AddValueToZero (value grid) with target "
        "matrix / weights / both on NON-SQUARE non-degenerate matrices (dyadic / integer / float values; columns that "
        "need no adjustment present in about half of the cases for PushNegatives / AddValueToZero); every output cell "
        "is compared with the extracted model (rational scalers: on_matrix / on_weights; irrational ones: rational "
        "core sum-of-squares / mean / variance closed with sqrt at 60 digits) and the documented normal form is "
        "checked directly on the output (sum 1, unit norm, max|.|=1, endpoints, mean 0 / std 1, ideal 1 / anti-ideal "
        "0, new minimum 0, untouched columns). non-trivial = non-square matrix whose output differs from the input; "
        "distinct by hash")

# MaxScaler is the deprecated (still public) alias of MaxAbsScaler: same documented normal form
NAMES = ["SumScaler", "VectorScaler", "MaxAbsScaler", "MaxScaler", "MinMaxScaler", "StandarScaler", "PushNegatives",
         "AddValueToZero", "CenitDistanceMatrixScaler"]
CODE = {"SumScaler": 0, "MaxAbsScaler": 1, "MaxScaler": 1, "MinMaxScaler": 2, "PushNegatives": 3, "AddValueToZero": 4}
TGT = {"matrix": 0, "weights": 1, "both": 2}


def gen_case(rng, name):
    cfg = T.config(rng, name)
    n, m = gen.shape(rng, 8, 5, 2, 1, force_nonsquare=1.0, big=0.0, huge=0.05)
    mode = rng.choice(["dyadic", "int", "float"] if n < 60 else ["dyadic", "int"])
    if n >= 60 and name in ("VectorScaler", "StandarScaler"):
        n, mode = 65, "int"       # (their exact sums of squares grow quickly in the model's unreduced rationals)
    positive = name in ("SumScaler", "VectorScaler", "MaxAbsScaler", "MaxScaler") and rng.random() < 0.7
    mtx = gen.values(rng, n, m, mode, positive=positive)
    w = gen.weights(rng, m, rng.choice(["dyadic", "int", "float"] if n < 60 else ["dyadic", "int"]))
    if name == "MinMaxScaler" and m >= 2 and n < 60 and rng.random() < 0.15:
        # data that already lives in the target range as a WHOLE (shares in [0, 1], marks from 1 to 10): the smallest
        # value of the matrix is the lower end and the largest one the upper end, but no single criterion spans it
        lo, hi = cfg["params"]["criteria_range"]
        if lo < hi:
            mtx = [[lo + (hi - lo) * rng.randint(3, 12) / 16.0 for _ in range(m)] for _ in range(n)]
            j1, j2 = rng.sample(range(m), 2)
            mtx[rng.randrange(n)][j1] = float(lo)
            mtx[rng.randrange(n)][j2] = float(hi)
            mode = "dyadic"
    if name == "PushNegatives":
        for j in range(m):
            if rng.random() < 0.5:
                for i in range(n):
                    mtx[i][j] = abs(mtx[i][j])
        if rng.random() < 0.5:
            w[rng.randrange(m)] = -abs(w[0])
    if name == "AddValueToZero":
        for j in range(m):
            if rng.random() < 0.5:
                mtx[rng.randrange(n)][j] = 0.0
            else:
                for i in range(n):
                    if mtx[i][j] == 0:
                        mtx[i][j] = 1.0
        if rng.random() < 0.5:
            w[rng.randrange(m)] = 0.0
    # non-degenerate: no constant column, non-zero sums
    for j in range(m):
        while len({r[j] for r in mtx}) == 1 or sum(r[j] for r in mtx) == 0:
            mtx[0][j] += 1.0
    if len(set(w)) == 1 and m > 1:
        w[0] += 1.0
    if sum(w) == 0:
        w[0] += 1.0
    if name not in ("PushNegatives", "AddValueToZero") and rng.random() < 0.2 and n < 60:
        # another unit of measurement: one criterion (or all) on a tiny scale; a power of two, so exact data stay exact
        cols = range(m) if rng.random() < 0.4 else [rng.randrange(m)]
        k = rng.choice([2.0 ** -30, 2.0 ** -40, 2.0 ** -27])
        for j in cols:
            for i in range(n):
                mtx[i][j] *= k
        mode = mode + "+tiny_unit"
    c = {"matrix": mtx, "weights": w, "objectives": gen.objectives(rng, m),
         "alternatives": gen.labels(rng, n, gen.LABEL_POOL_A, "A"),
         "criteria": gen.labels(rng, m, gen.LABEL_POOL_C, "C"), "tf": cfg, "mode": mode}
    if "tiny_unit" not in mode and rng.random() < 0.1:
        # criteria stored in narrow / unsigned integer or single-precision types
        gen.narrow_dtypes(rng, c, positive=positive, pairs=False, floats=False)   # (single precision: another rounding unit)
        c["mode"] = mode + "+narrow_dtypes"
        for j in range(m):
            hi = (gen.NARROW.get(c["dtypes"][j]) or (None, float("inf")))[1]
            step = 1.0 if mtx[0][j] + 3 <= hi else -1.0       # stay inside the storage type
            while len({r[j] for r in mtx}) == 1 or sum(r[j] for r in mtx) == 0:
                mtx[0][j] += step
    return c


def F(x):
    return Fraction(x)


def expected_vector(name, params, v, cores):
    """Decimal expected output for the irrational scalers from the model's rational cores."""
    sumsq, mean, pvar = cores
    if name == "VectorScaler":
        nrm = CL.sqrt(sumsq)
        return [CL.D(x) / nrm for x in v]
    if name == "StandarScaler":
        sd = CL.sqrt(pvar) if params.get("with_std", True) else CL.D(1)
        if sd == 0:
            sd = CL.D(1)
        mu = CL.D(mean) if params.get("with_mean", True) else CL.D(0)
        return [(CL.D(x) - mu) / sd for x in v]
    raise KeyError(name)


def normal_form(name, params, vin, vout, obj=None):
    """Documented normal form on one vector (a criterion, or the weight vector)."""
    if any(x != x or abs(x) == float("inf") for x in vout):
        return f"non-finite output {vout[:6]}"
    o = [CL.D(x) for x in vout]
    i = [CL.D(x) for x in vin]
    tol = CL.D("1e-9")
    if len(set(vin)) == 1 and name in ("MinMaxScaler", "StandarScaler", "CenitDistanceMatrixScaler"):
        return None   # degenerate (constant) vector: outside the property's quantifier
    if name == "SumScaler":
        # a sum of mixed-sign terms is only as accurate as its condition number allows
        si = sum(i)
        cond = (sum(abs(x) for x in i) / abs(si)) if si != 0 else CL.D(1)
        if abs(sum(o) - 1) > tol * max(CL.D(1), cond):
            return f"sums to {sum(o)}"
    if name == "VectorScaler" and abs(sum(x * x for x in o) - 1) > tol:
        return f"squared norm {sum(x * x for x in o)}"
    if name in ("MaxAbsScaler", "MaxScaler") and abs(max(abs(x) for x in o) - 1) > tol:
        return f"largest absolute value {max(abs(x) for x in o)}"
    if name == "MinMaxScaler":
        lo, hi = params["criteria_range"]
        k = i.index(min(i)), i.index(max(i))
        if abs(o[k[0]] - CL.D(lo)) > tol or abs(o[k[1]] - CL.D(hi)) > tol:
            return f"min/max mapped to {o[k[0]]},{o[k[1]]} instead of {lo},{hi}"
    if name == "StandarScaler":
        mu = sum(o) / len(o)
        # rounding of the mean is relative to the size of the values (without scaling the output keeps that size)
        # ... and to how far the values sit from zero compared with their spread (x - mean cancels that many digits)
        spread = max(i) - min(i)
        cancel = (CL.D("1e-13") * len(i) * max(abs(x) for x in i) / spread) if spread > 0 else CL.D(0)
        if params["with_mean"] and abs(mu) > max(tol * max(1, max(abs(x) for x in o)), cancel):
            return f"mean {mu}"
        if params["with_std"]:
            var = sum((x - mu) ** 2 for x in o) / len(o)
            if abs(var - 1) > max(tol, 4 * cancel):
                return f"variance {var}"
    if name in ("CenitDistanceMatrixScaler",):
        best = max(i) if obj == 1 else min(i)
        worst = min(i) if obj == 1 else max(i)
        if abs(o[i.index(best)] - 1) > tol or abs(o[i.index(worst)]) > tol:
            return "ideal/anti-ideal not mapped to 1/0"
    if name == "PushNegatives":
        if min(i) < 0:
            if abs(min(o)) > tol or any(abs((a - b) - (o[0] - i[0])) > tol for a, b in zip(o, i)):
                return "criterion with a negative minimum not shifted to minimum 0"
        elif vout != vin:
            return "criterion without negatives was changed"
    if name == "AddValueToZero":
        if any(x == 0 for x in i):
            if any(abs(a - b - CL.D(params["value"])) > tol for a, b in zip(o, i)):
                return "value not added to a criterion that contains a zero"
        elif vout != vin:
            return "criterion without a zero was changed"
    return None


def close_cells(ctx, case, what, impl, want, rel, abs_):
    for k, (a, b) in enumerate(zip(impl, want)):
        rk = rel[k] if isinstance(rel, list) else rel
        if a != a or abs(CL.D(a) - CL.D(b)) > CL.D(abs_) + CL.D(rk) * abs(CL.D(b)):
            ctx.disagree(case, {"what": what, "index": k, "impl": a, "model": str(b)})
            return False
    return True


def run(ctx):
    I.repo_check()
    ctx.rule = RULE
    per = ctx.n(75, 1500)
    cases = []
    for name in NAMES:
        for _ in range(per):
            cases.append(gen_case(ctx.rng, name))
    outs = I.pmap(T.run_transform, cases)
    calls, plan = [], []
    for k, (c, o) in enumerate(zip(cases, outs)):
        name, p = c["tf"]["cls"], c["tf"]["params"]
        if "error" in o:
            continue
        m = len(c["weights"])
        if name in CODE:
            ps = list(p["criteria_range"]) if name == "MinMaxScaler" else ([p["value"]] if name == "AddValueToZero" else [])
            calls.append(("scale", (CODE[name], ps, TGT[p["target"]], c["matrix"], c["weights"])))
            plan.append((k, "scale"))
            dts = c.get("dtypes") or []
            if name == "PushNegatives" and p["target"] in ("matrix", "both") and dts and \
                    all(t in ("int8", "int16", "int32", "int64") for t in dts):
                # a matrix of signed integers: the integer-storage model (Model/IntStorage.v) at the width the
                # repaired code computes in, cell for cell and exactly
                for j in range(m):
                    calls.append(("push_neg_int", (64, [int(r[j]) for r in c["matrix"]])))
                    plan.append((k, ("intcol", j)))
        elif name == "CenitDistanceMatrixScaler":
            calls.append(("cenit", ([x == 1 for x in c["objectives"]], c["matrix"])))
            plan.append((k, "cenit"))
        else:
            for j in range(m):
                calls.append(("cores", [r[j] for r in c["matrix"]]))
                plan.append((k, ("col", j)))
            calls.append(("cores", c["weights"]))
            plan.append((k, ("w", None)))
    mods = ctx.model.batch(calls)
    by_case = {}
    for (k, tag), mo in zip(plan, mods):
        by_case.setdefault(k, []).append((tag, mo))
    for k, (c, o) in enumerate(zip(cases, outs)):
        name, p = c["tf"]["cls"], c["tf"]["params"]
        tgt = p.get("target", "matrix")
        ctx.count(f"scaler:{name}:{tgt}")
        if "error" in o:
            ctx.case_seen(c, False)
            ctx.disagree(c, {"what": "scaler raised on a non-degenerate matrix", "exc": o["exc"]})
            continue
        b, a = o["before"], o["after"]
        n, m = len(b["matrix"]), len(b["weights"])
        ctx.case_seen(c, n != m and (a["matrix"] != b["matrix"] or a["weights"] != b["weights"]))
        # ---- normal forms, read directly on the output (oracle) --------------------------
        if tgt in ("matrix", "both"):
            for j in range(m):
                msg = normal_form(name, p, [r[j] for r in b["matrix"]], [r[j] for r in a["matrix"]], b["objectives"][j])
                if msg:
                    ctx.oracle_fail(c, {"oracle": f"{name} criterion {j}: {msg}"})
                    break
        elif a["matrix"] != b["matrix"]:
            ctx.oracle_fail(c, {"oracle": f"{name}(target=weights) changed the matrix"})
        if tgt in ("weights", "both") and name != "CenitDistanceMatrixScaler":
            msg = normal_form(name, p, b["weights"], a["weights"])
            if msg:
                ctx.oracle_fail(c, {"oracle": f"{name} weights: {msg}"})
        elif a["weights"] != b["weights"]:
            ctx.oracle_fail(c, {"oracle": f"{name}(target=matrix) changed the weights"})
        # ---- cell by cell against the model ------------------------------------------------
        scale = max(1.0, max(abs(x) for r in b["matrix"] for x in r), max(abs(x) for x in b["weights"]))
        for tag, mo in by_case.get(k, []):
            if tag == "scale":
                rows, w = mo
                rel, ab = (1e-9, 1e-9 * scale) if name == "MinMaxScaler" else (1e-13, 0)
                relm, relw = rel, rel
                if name == "SumScaler":
                    # dividing by a sum of mixed-sign terms: the rounding error of the sum is relative to the sum of
                    # the magnitudes, so the tolerance carries the condition number of that sum
                    def cond(v):
                        sa, sv = sum(abs(Fraction(x)) for x in v), abs(sum(Fraction(x) for x in v))
                        return float(sa / sv) if sv else 1.0
                    relm = [rel * max(1.0, cond([r[j] for r in b["matrix"]])) for j in range(m)]
                    relw = rel * max(1.0, cond(b["weights"]))
                for i in range(n):
                    if not close_cells(ctx, c, f"{name} matrix row {i}", a["matrix"][i], rows[i], relm, ab):
                        break
                close_cells(ctx, c, f"{name} weights", a["weights"], w, relw, ab)
            elif tag == "cenit":
                for i in range(n):
                    if not close_cells(ctx, c, f"cenit row {i}", a["matrix"][i], mo[i], 1e-13, 0):
                        break
            elif tag[0] == "intcol":
                j = tag[1]
                got = [r[j] for r in a["matrix"]]
                if [float(x) for x in mo] != got:
                    ctx.disagree(c, {"what": f"PushNegatives on the integer criterion {j}", "impl": got, "model": mo})
                ctx.count("integer_storage_model_columns")
            else:
                kind, j = tag
                if kind == "col" and tgt in ("matrix", "both"):
                    vin = [r[j] for r in b["matrix"]]
                    want = expected_vector(name, p, vin, mo)
                    close_cells(ctx, c, f"{name} criterion {j}", [r[j] for r in a["matrix"]], want, 1e-10, 1e-10 * scale)
                if kind == "w" and tgt in ("weights", "both"):
                    want = expected_vector(name, p, b["weights"], mo)
                    close_cells(ctx, c, f"{name} weights", a["weights"], want, 1e-10, 1e-10 * scale)
    ctx.traces_validated = len(cases)
    if ctx.tier == "thorough":
        from ..core import vm_crosscheck
        sm = [i for i, cl in enumerate(calls) if cl[0] in ("scale", "cenit")][:150]
        bad, msg = vm_crosscheck([calls[i] for i in sm], [mods[i] for i in sm], "C11")
        ctx.vm_checked = len(sm)
        if bad != 0:
            ctx.disagree(cases[0], {"vm_compute_vs_extraction": bad, "msg": msg})


def replay(ctx, rep):
    case = rep["case"]
    o = T.run_transform(case)
    print("implementation:", o)
    if "error" in o:
        return 1
    name, p = case["tf"]["cls"], case["tf"]["params"]
    b, a = o["before"], o["after"]
    bad = None
    if p.get("target", "matrix") in ("matrix", "both"):
        for j in range(len(b["weights"])):
            bad = bad or normal_form(name, p, [r[j] for r in b["matrix"]], [r[j] for r in a["matrix"]], b["objectives"][j])
    if p.get("target") in ("weights", "both"):
        bad = bad or normal_form(name, p, b["weights"], a["weights"])
    print("oracle        :", bad or "normal form holds on this case")
    return 1 if bad else 0
