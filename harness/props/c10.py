"""C10 — transformers change only the part of the decision matrix they declare."""
import numpy as np

from .. import gen
from .. import impl as I
from .. import transformers as T

RULE = ("every non-abstract transformer class found by introspection of skcriteria.preprocessing (a class missing "
        "from the harness/model catalogue fails the run) in random target/parameter settings, plus user "
        "transformers made with mktransformer that return a subset of the parts, on random matrices (positive, "
        "mixed sign with zeros, missing cells for imputers; shuffled labels; non-square); the model's `declares` "
        "table says which parts the kind may change and every other part must be unchanged: labels equal in "
        "order, objectives equal, weights and matrix equal to the last bit (int64 view); inverters must leave all "
        "objectives MAX; filters must keep a subsequence of alternatives with bit-identical rows. non-trivial = "
        "the transformer changed at least one declared part; distinct by hash")

USER_RETURNS = [["matrix"], ["weights"], ["objectives"], ["matrix", "weights"], ["weights", "objectives"], []]
PART_CODE = {"alternatives": 0, "criteria": 1, "objectives": 2, "weights": 3, "matrix": 4}


def gen_case(rng, name):
    cfg = T.config(rng, name)
    style = rng.choice(["positive", "positive", "mixed"])
    if name in ("EntropyWeighter", "SumScaler", "VectorScaler",
                "MaxAbsScaler", "MaxScaler", "CRITIC", "Critic", "StdWeighter", "CenitDistanceMatrixScaler",
                "CenitDistance"):
        style = "positive"
    c = gen.dm_case(rng, nmax=8, mmax=5, nmin=3, mmin=1, positive=(style == "positive"), label_kinds=False,
                    modes=("dyadic", "int", "float", "tiny123") if style == "positive" else
                    ("dyadic", "int", "float", "tiny012"), structure=False, big=0.0, int_dtypes=0.4)
    n, m = len(c["matrix"]), len(c["weights"])
    if style == "positive" and name not in T.IMPUTERS and rng.random() < 0.12:
        # an all-integer matrix whose values no float can hold (nanosecond timestamps, amounts in cents)
        base = 2 ** 53 + 1
        c["matrix"] = [[base + 2 * rng.randint(0, 10 ** 6) + 2 * (i + n * j) for j in range(m)] for i in range(n)]
        c["dtypes"] = ["int64"] * m
        c["mode"] = "int_beyond_2^53"
    elif name not in T.IMPUTERS and rng.random() < 0.12:
        # criteria of different widths side by side (float32 next to float64, int32 next to int64, unsigned ...)
        gen.narrow_dtypes(rng, c, positive=(style == "positive"), wide=0.2)
        c["mode"] = "narrow_dtypes"
        if rng.random() < 0.5:
            c["route"] = "ctor"         # a DataFrame whose columns have these types, handed to the constructor
    if style == "positive" or name in ("CRITIC", "Critic", "StdWeighter", "CenitDistanceMatrixScaler"):
        # no constant criterion
        for j in range(m):
            if len({r[j] for r in c["matrix"]}) == 1:
                hi = (gen.NARROW.get((c.get("dtypes") or [None] * m)[j]) or (None, float("inf")))[1]
                c["matrix"][0][j] += 1.0 if c["matrix"][0][j] + 1 <= hi else -1.0     # inside the storage type
    if name in T.FILTERS and name != "FilterNonDominated":
        k = rng.randint(1, m)
        crits = rng.sample(c["criteria"], k)
        conds = []
        for cr in crits:
            j = c["criteria"].index(cr)
            colv = sorted({r[j] for r in c["matrix"]})
            if name == "Filter":
                conds.append([cr, rng.choice(list(T.PALETTE))])
            elif name in ("FilterIn", "FilterNotIn"):
                conds.append([cr, rng.sample(colv, max(1, len(colv) // 2))])
            else:
                conds.append([cr, rng.choice(colv)])
        cfg["conditions"] = conds
        cfg["ignore_missing"] = rng.random() < 0.3
    if name in T.IMPUTERS:
        cells = [(i, j) for i in range(n) for j in range(m)]
        rng.shuffle(cells)
        nan = []
        for (i, j) in cells[: rng.randint(1, max(1, n * m // 3))]:
            observed = sum(1 for i2 in range(n) if (i2, j) not in nan and i2 != i)
            if observed >= 2:
                nan.append((i, j))
        if rng.random() < 0.12 and m >= 2:
            # a wholly missing criterion: the imputer may refuse, but it may not return another set of criteria
            j = rng.randrange(m)
            nan = [x for x in nan if x[1] != j] + [(i, j) for i in range(n)]
            c["whole_criterion_missing"] = j
        c["nan"] = [list(x) for x in nan]
    c["tf"] = cfg
    return c


def run_user(case):
    """mktransformer returning only the parts named in case['returns']."""
    from skcriteria.extend import mktransformer
    returns = case["returns"]

    @mktransformer
    def UserT(matrix, weights, objectives, **kwargs):
        out = {}
        if "matrix" in returns:
            out["matrix"] = np.asarray(matrix, dtype=float) * 2 + 1
        if "weights" in returns:
            out["weights"] = np.asarray(weights, dtype=float) + 0.5
        if "objectives" in returns:
            out["objectives"] = [-o for o in objectives]
        return out
    try:
        dm = I.mkdm(np.array(case["matrix"], dtype=float), list(case["objectives"]), weights=list(case["weights"]),
                    alternatives=list(case["alternatives"]), criteria=list(case["criteria"]))
        before = T.dump(dm)
        after = T.dump(UserT().transform(dm))
    except Exception as e:  # noqa: BLE001
        return {"error": I.exc_code(e), "exc": repr(e)[:300]}
    return {
        "before": {k: (v.tolist() if isinstance(v, np.ndarray) else v) for k, v in before.items()},
        "after": {k: (v.tolist() if isinstance(v, np.ndarray) else v) for k, v in after.items()},
        "weights_bits_equal": bool(np.array_equal(T.bits(before["weights"]), T.bits(after["weights"]))),
        "matrix_bits_equal": bool(before["matrix"].shape == after["matrix"].shape and
                                  np.array_equal(T.bits(before["matrix"]), T.bits(after["matrix"]))),
        "input_untouched": True,
    }


def changed_parts(o):
    b, a = o["before"], o["after"]
    ch = []
    for k in ("alternatives", "criteria", "objectives"):
        if b[k] != a[k]:
            ch.append(k)
    if not o["weights_bits_equal"]:
        ch.append("weights")
    if not o["matrix_bits_equal"]:
        ch.append("matrix")
    return ch


def oracle(case, o):
    """Direct reading of the property, model-free."""
    name = case["tf"]["cls"] if "tf" in case else "user"
    b, a = o["before"], o["after"]
    ch = changed_parts(o)
    if "criteria" in ch:
        return "criteria changed"
    is_filter = name in T.FILTERS
    if "alternatives" in ch and not is_filter:
        return "alternatives changed by a non-filter"
    if "objectives" in ch:
        if name == "user":
            if "objectives" not in case["returns"]:
                return "objectives changed by a user transformer that did not return them"
        elif T.SIMPLE.get(name) != 4:
            return "objectives changed by a non-inverter"
    if T.SIMPLE.get(name) == 4 and any(x != 1 for x in a["objectives"]):
        return f"inverter left objectives {a['objectives']}"
    tgt = case.get("tf", {}).get("params", {}).get("target")
    w_ok = (name in T.SCALERS and tgt in ("weights", "both")) or T.SIMPLE.get(name) == 5 or \
           (name == "user" and "weights" in case["returns"])
    if "weights" in ch and not w_ok:
        return "weights changed (bitwise) by a transformer that does not target weights"
    m_ok = (name in T.SCALERS and tgt in ("matrix", "both")) or T.SIMPLE.get(name) in (3, 4) or \
           name in T.IMPUTERS or is_filter or (name == "user" and "matrix" in case["returns"])
    if "matrix" in ch and not m_ok:
        return "matrix changed (bitwise) by a transformer that does not target the matrix"
    if is_filter:
        pos, k = [], 0
        for alt in a["alternatives"]:
            while k < len(b["alternatives"]) and b["alternatives"][k] != alt:
                k += 1
            if k == len(b["alternatives"]):
                return "surviving alternatives are not a subsequence of the original ones"
            pos.append(k)
            k += 1
        for i, p in enumerate(pos):
            if not np.array_equal(T.bits(a["matrix"][i]), T.bits(b["matrix"][p])):
                return f"surviving row {a['alternatives'][i]} was altered"
    if not o["input_untouched"]:
        return "transform() modified its input matrix"
    return None


def run(ctx):
    I.repo_check()
    ctx.rule = RULE
    found = T.introspect()
    missing = found - set(T.ALL_CLASSES)
    if missing:
        ctx.disagree({"classes": sorted(missing)}, {"what": "transformer classes missing from the catalogue/model"})
    frames = ctx.model.batch([("frame", k) for k in range(8)], shards=1)
    per = ctx.n(40, 400)
    cases = []
    for name in sorted(found & set(T.ALL_CLASSES)):
        for _ in range(per):
            cases.append(gen_case(ctx.rng, name))
    outs = I.pmap(T.run_transform, cases)
    for c, o in zip(cases, outs):
        name = c["tf"]["cls"]
        ctx.count("class:" + name)
        if "error" in o:
            ctx.count("raised:" + name)
            ctx.case_seen(c, False)
            if "whole_criterion_missing" in c:
                ctx.count("refused:wholly_missing_criterion")
            elif not (name in T.FILTERS and c["tf"].get("ignore_missing") is False):
                ctx.disagree(c, {"what": "transformer raised on an in-domain matrix", "exc": o["exc"]})
            continue
        ch = changed_parts(o)
        ctx.case_seen(c, bool(ch))
        if not o.get("input_as_given", True):
            ctx.disagree(c, {"what": "the decision matrix built from the case does not report the case's numbers "
                                     "(criteria storage types: %r)" % (c.get("dtypes"),),
                             "reported": o["before"]["matrix"]})
        msg = oracle(c, o)
        if msg:
            ctx.oracle_fail(c, {"oracle": msg, "changed": ch})
        decl = frames[c["tf"]["kind"]]
        bad = [p for p in ch if not decl[PART_CODE[p]]]
        if bad:
            ctx.disagree(c, {"what": "changed a part the model says this kind does not declare", "parts": bad})
    # user transformers
    ucases = []
    for _ in range(ctx.n(40, 600)):
        c = gen.dm_case(ctx.rng, nmax=6, mmax=4, nmin=2, structure=False, big=0.0, label_kinds=False)
        c["returns"] = ctx.rng.choice(USER_RETURNS)
        ucases.append(c)
    uouts = [run_user(c) for c in ucases]
    ufr = ctx.model.batch([("frame_user", [PART_CODE[p] for p in c["returns"]]) for c in ucases], shards=1)
    for c, o, decl in zip(ucases, uouts, ufr):
        ctx.count("class:mktransformer")
        if "error" in o:
            ctx.disagree(c, {"what": "user transformer raised", "exc": o["exc"]})
            continue
        ch = changed_parts(o)
        ctx.case_seen(c, bool(ch))
        if not o.get("input_as_given", True):
            ctx.disagree(c, {"what": "the decision matrix built from the case does not report the case's numbers "
                                     "(criteria storage types: %r)" % (c.get("dtypes"),),
                             "reported": o["before"]["matrix"]})
        msg = oracle(c, o)
        if msg:
            ctx.oracle_fail(c, {"oracle": msg, "changed": ch})
        bad = [p for p in ch if not decl[PART_CODE[p]]]
        want = sorted(c["returns"])
        if bad or sorted(ch) != want:
            ctx.disagree(c, {"what": "user transformer frame", "changed": ch, "returned": want})
    ctx.traces_validated = len(cases) + len(ucases)


def replay(ctx, rep):
    case = rep["case"]
    if "classes" in case:
        print("catalogue case; re-run the check")
        return 0
    o = run_user(case) if "returns" in case else T.run_transform(case)
    print("implementation:", o)
    if "error" in o:
        return 1
    msg = oracle(case, o)
    print("changed parts :", changed_parts(o))
    print("oracle        :", msg or "property holds on this case")
    return 1 if msg else 0
