"""Helpers that drive the real library (imported from SKC_REPO, default /repo)."""
import contextlib
import os
import sys
import warnings

warnings.filterwarnings("ignore")

import numpy as np  # noqa: E402

from sklearn.experimental import enable_iterative_imputer  # noqa: E402,F401  (documented opt-in)

import skcriteria as skc  # noqa: E402
from skcriteria.core.data import DecisionMatrix, mkdm  # noqa: E402

from .val import Err  # noqa: E402


def repo_check():
    """The library under test must be the one in SKC_REPO."""
    root = os.environ.get("SKC_REPO", "/repo")
    path = os.path.realpath(skc.__file__)
    if not path.startswith(os.path.realpath(root) + os.sep):
        raise RuntimeError(f"skcriteria imported from {path}, expected under {root}")


def mk(case, dtype=float):
    mtx = np.array(case["matrix"], dtype=dtype)
    return mkdm(
        mtx,
        objectives=list(case["objectives"]),
        weights=list(case["weights"]) if case.get("weights") is not None else None,
        alternatives=list(case["alternatives"]) if case.get("alternatives") else None,
        criteria=list(case["criteria"]) if case.get("criteria") else None,
    )


def exc_code(e):
    if isinstance(e, ValueError):
        return Err(1)
    if isinstance(e, (KeyError, IndexError)):
        return Err(2)
    if isinstance(e, (TypeError, AttributeError)):
        return Err(3)
    return Err(96)


@contextlib.contextmanager
def quiet_fds():
    """Silence output written straight to fd 1/2 (CBC solver)."""
    sys.stdout.flush()
    sys.stderr.flush()
    saved = os.dup(1), os.dup(2)
    devnull = os.open(os.devnull, os.O_WRONLY)
    try:
        os.dup2(devnull, 1)
        os.dup2(devnull, 2)
        yield
    finally:
        os.dup2(saved[0], 1)
        os.dup2(saved[1], 2)
        os.close(devnull)
        os.close(saved[0])
        os.close(saved[1])


_pool = None


def pool():
    global _pool
    if _pool is None:
        import multiprocessing as mp
        _pool = mp.get_context("fork").Pool(min(16, os.cpu_count() or 1))
    return _pool


def pmap(fn, items, chunksize=None):
    items = list(items)
    if len(items) < 24:
        return [fn(x) for x in items]
    return pool().map(fn, items, chunksize or max(1, len(items) // 64))


def pmap_timeout(fn, items, timeout):
    """Like pmap, but each task gets a wall-clock budget; a task that does not come back is
    reported as {'timeout': True}.  Uses its own pool, which is terminated afterwards (stuck
    workers included)."""
    import multiprocessing as mp
    items = list(items)
    p = mp.get_context("fork").Pool(min(16, os.cpu_count() or 1))
    try:
        handles = [p.apply_async(fn, (x,)) for x in items]
        out = []
        import time
        deadline_slack = time.time()
        for h in handles:
            try:
                out.append(h.get(timeout=timeout))
            except mp.TimeoutError:
                out.append({"timeout": True})
        return out
    finally:
        p.terminate()
        p.join()
