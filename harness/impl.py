"""Helpers that drive the real library (imported from SKC_REPO, default /repo)."""
import contextlib
import json
import os
import sys
import warnings
import zlib

warnings.filterwarnings("ignore")

import numpy as np  # noqa: E402

from sklearn.experimental import enable_iterative_imputer  # noqa: E402,F401  (documented opt-in)

import skcriteria as skc  # noqa: E402
from skcriteria.core.data import DecisionMatrix, mkdm  # noqa: E402

from .val import Err  # noqa: E402


def repo_check():
    """The library under test must be the one in SKC_REPO."""
    root = os.environ.get("SKC_REPO", "/repo")
    path = os.path.realpath(skc.__file__)
    if not path.startswith(os.path.realpath(root) + os.sep):
        raise RuntimeError(f"skcriteria imported from {path}, expected under {root}")


def mk_direct(case, dtype=float):
    dts = case.get("dtypes")
    if dts and dtype is float and all(isinstance(t, str) for t in dts):
        if all(t == "int64" for t in dts):
            mtx = np.array([[int(x) for x in r] for r in case["matrix"]], dtype=np.int64)
            dts = None
        else:
            mtx = np.array(case["matrix"], dtype=float)
        return mkdm(mtx, objectives=list(case["objectives"]),
                    weights=list(case["weights"]) if case.get("weights") is not None else None,
                    alternatives=list(case["alternatives"]) if case.get("alternatives") else None,
                    criteria=list(case["criteria"]) if case.get("criteria") else None,
                    **({"dtypes": [np.dtype(t) for t in dts]} if dts else {}))
    mtx = np.array(case["matrix"], dtype=dtype)
    return mkdm(
        mtx,
        objectives=list(case["objectives"]),
        weights=list(case["weights"]) if case.get("weights") is not None else None,
        alternatives=list(case["alternatives"]) if case.get("alternatives") else None,
        criteria=list(case["criteria"]) if case.get("criteria") else None,
    )


ROUTES = ("direct", "direct", "direct", "slice", "copy", "dict", "iloc", "slice", "ctor", "aliases", "arraykind")

# the documented spellings of the two senses (skcriteria.core.objectives); "min" / "max" are the builtins
MAX_SPELLINGS = (1, max, np.max, np.nanmax, np.amax, "max", "maximize", "+", ">")
MIN_SPELLINGS = (-1, min, np.min, np.nanmin, np.amin, "min", "minimize", "-", "<")


def mk_route(case):
    """How the matrix of this case is obtained - a pure function of the case, so that replays are exact."""
    if os.environ.get("SKC_MK_ROUTES", "1") == "0" or case.get("route") == "direct":
        return "direct"
    if case.get("route") in ROUTES:
        r = case["route"]
        strs = all(isinstance(x, str) for x in list(case.get("alternatives") or [1]) + list(case.get("criteria") or [1]))
        if (r in ("slice", "iloc") and (not strs or case.get("dtypes"))) or case.get("weights") is None:
            return "direct"
        return r
    if not case.get("alternatives") or not case.get("criteria") or case.get("weights") is None:
        return "direct"
    key = json.dumps([case["matrix"], [str(o) for o in case["objectives"]], list(case["weights"]),
                      [str(x) for x in case["alternatives"]], [str(x) for x in case["criteria"]]], sort_keys=True, default=str)
    r = ROUTES[zlib.crc32(key.encode()) % len(ROUTES)]
    if not all(isinstance(x, str) for x in list(case["alternatives"]) + list(case["criteria"])):
        return r if r in ("ctor", "aliases", "copy", "dict", "arraykind") else "direct"   # any label kind
    key = json.dumps([case["matrix"], list(case["objectives"]), list(case["weights"]),
                      list(case["alternatives"]), list(case["criteria"])], sort_keys=True, default=str)
    r = ROUTES[zlib.crc32(key.encode()) % len(ROUTES)]
    if case.get("dtypes") and r in ("slice", "iloc"):
        return "copy" if r == "slice" else "dict"
    return r


def mk(case, dtype=float):
    """The decision matrix of a case.  Half of the time it is built directly with mkdm; otherwise it is DERIVED
    (a criteria + alternatives selection out of a larger, differently ordered matrix; copy(); a to_dict()/mkdm
    round trip; a positional selection) - by C01 these are the same matrix, and every check of every property
    then also covers matrices that come out of a selection."""
    route = mk_route(case) if dtype is float else "direct"
    if route == "direct":
        return mk_direct(case, dtype)
    alts, crits = list(case["alternatives"]), list(case["criteria"])
    mtx = np.array(case["matrix"], dtype=float)
    n, m = mtx.shape if mtx.ndim == 2 else (len(alts), len(crits))
    if mtx.ndim != 2 or n == 0 or m == 0:
        return mk_direct(case, dtype)
    objs, wts = list(case["objectives"]), list(case["weights"])
    if route == "aliases" and all(o in (1, -1) for o in objs):
        # every criterion's sense written in another of its documented spellings
        h0 = zlib.crc32(repr((crits, objs)).encode())
        sp = [(MAX_SPELLINGS if o == 1 else MIN_SPELLINGS)[(h0 // (j + 1) + 3 * j) % len(MAX_SPELLINGS)] for j, o in enumerate(objs)]
        return mk_direct(dict(case, objectives=sp), dtype)
    if route == "ctor" and all(o in (1, -1) for o in objs):
        # the constructor instead of mkdm: a labelled DataFrame, objectives and weights as plain pandas Series
        import pandas as pd
        if case.get("dtypes") and all(t == "int64" for t in case["dtypes"]):
            # exact integers (they may lie beyond 2**53, where a detour through float would change them)
            df = pd.DataFrame(np.array([[int(x) for x in r] for r in case["matrix"]], dtype=np.int64), index=alts, columns=crits)
        else:
            df = pd.DataFrame(mtx, index=alts, columns=crits)
            if case.get("dtypes"):
                df = df.astype({c: t for c, t in zip(crits, case["dtypes"])})
        if zlib.crc32(repr((alts, wts)).encode()) & 1:
            # the caller's frame has axis names of its own
            df.index.name, df.columns.name = "id", "indicator"
        return DecisionMatrix(df, pd.Series([int(o) for o in objs]), pd.Series([float(x) for x in wts]))
    if route == "arraykind" and not case.get("dtypes"):
        # the same numbers in another kind of container: Fortran-ordered, a strided read-only view of a larger array,
        # nested Python lists, a DataFrame; weights as a tuple / strided view
        k = zlib.crc32(repr(mtx.shape).encode() + repr(alts).encode()) % 4
        if k == 0:
            data = np.asfortranarray(mtx)
        elif k == 1:
            big = np.full((2 * n, 2 * m), -7.25)
            big[::2, ::2] = mtx
            data = big[::2, ::2]
            data.setflags(write=False)
        elif k == 2:
            data = [[float(x) for x in r] for r in mtx.tolist()]
        else:
            import pandas as pd
            data = pd.DataFrame(mtx, index=list(alts), columns=list(crits))
        w2 = np.array([x for w in wts for x in (w, -1.0)])[::2] if k % 2 else tuple(float(x) for x in wts)
        return mkdm(data, objectives=list(objs), weights=w2, alternatives=list(alts), criteria=list(crits))
    if route in ("aliases", "ctor", "arraykind"):
        return mk_direct(case, dtype)
    if route == "copy":
        return mk_direct(case).copy()
    if route == "dict":
        d = mk_direct(case).to_dict()
        return mkdm(**d)
    h = zlib.crc32(repr((alts, crits)).encode())
    if route == "iloc":
        # rows and columns listed backwards, then selected back by position
        big = mkdm(mtx[::-1, ::-1].copy(), objectives=objs[::-1], weights=wts[::-1], alternatives=alts[::-1], criteria=crits[::-1])
        return big.iloc[list(range(n - 1, -1, -1)), list(range(m - 1, -1, -1))]
    # slice: a decoy criterion (opposite sense, other weight) and a decoy alternative, everything rotated
    dc, da = "zz_decoy_crit", "zz_decoy_alt"
    if dc in crits or da in alts:
        return mk_direct(case, dtype)
    kc, ka = h % (m + 1), (h // 7) % (n + 1)
    ocr = crits[kc:] + [dc] + crits[:kc]
    oal = alts[ka:] + [da] + alts[:ka]
    col = {c: j for j, c in enumerate(crits)}
    row = {a: i for i, a in enumerate(alts)}
    decoy_col = [float(1 + (h + i) % 5) for i in range(n + 1)]
    bigm = np.empty((n + 1, m + 1), dtype=float)
    for i, a in enumerate(oal):
        for j, c in enumerate(ocr):
            if c == dc:
                bigm[i, j] = decoy_col[i]
            elif a == da:
                bigm[i, j] = float(np.mean(mtx[:, col[c]]))
            else:
                bigm[i, j] = mtx[row[a], col[c]]
    some_min = any(o in (-1, min) or str(o).lower() in ("min", "minimize") for o in objs)
    bobjs = [(max if some_min else min) if c == dc else objs[col[c]] for c in ocr]
    bw = [7.5 if c == dc else wts[col[c]] for c in ocr]
    big = mkdm(bigm, objectives=bobjs, weights=bw, alternatives=oal, criteria=ocr)
    return big[crits].loc[alts]


SALT = [0]


def set_salt(x):
    """Per-case entropy for the construction variants (the parameter space of one class is small)."""
    SALT[0] = zlib.crc32(repr(x).encode())


VARIANTS = ("direct", "direct", "copy", "rebuild", "positional", "fresh_strings", "numpy_scalars", "pickle", "copy_kw",
            "deepcopy", "subclass", "sub_fixed", "sub_defaults", "sub_extra", "omit_defaults")
_SUBCLASSES = {}


def variant(cls, params, key, first_positional=None):
    """An object of class `cls` configured with `params`, obtained one of the public ways a configured method can be
    obtained (chosen by a hash of `key`, so that replays are exact): the constructor with keywords; copy(); rebuilt
    from get_parameters(); the constructor with POSITIONAL arguments in the documented order; string parameters that
    are equal to, but not the same object as, the literals in the source; numbers given as numpy scalars; a pickle
    round trip; a default object + copy(**parameters).  By C16 / C20 all of these are the same method."""
    import inspect
    import pickle
    if os.environ.get("SKC_MK_ROUTES", "1") == "0":
        return cls(**params) if first_positional is None else cls(first_positional, **params)
    args = () if first_positional is None else (first_positional,)
    route = VARIANTS[zlib.crc32(json.dumps([cls.__name__, key, SALT[0]], sort_keys=True, default=str).encode()) % len(VARIANTS)]
    base = cls(*args, **params)
    try:
        if route == "copy":
            return base.copy()
        if route == "rebuild":
            return cls(**base.get_parameters())
        if route == "pickle":
            try:
                return pickle.loads(pickle.dumps(base))
            except Exception:  # noqa: BLE001   (a parameter that cannot be pickled is the caller's business)
                return base
        if route == "omit_defaults" and params:
            # arguments that equal the documented default are left out instead of being passed explicitly
            sigp = inspect.signature(cls.__init__).parameters
            kw = {}
            for k, v in params.items():
                d = sigp[k].default if k in sigp else inspect.Parameter.empty
                same = False
                if d is not inspect.Parameter.empty:
                    try:
                        same = bool(type(d) is type(v) and d == v)
                    except Exception:  # noqa: BLE001
                        same = False
                if not same:
                    kw[k] = v
            return cls(*args, **kw)
        if route == "deepcopy":
            import copy as _copy
            return _copy.deepcopy(base)
        if route == "subclass":
            # a user's own subclass that changes nothing (class MyTOPSIS(TOPSIS): pass): the same method
            sub = _SUBCLASSES.get(cls)
            if sub is None:
                sub = _SUBCLASSES[cls] = type(cls.__name__, (cls,), {"__module__": cls.__module__, "__doc__": cls.__doc__})
            return sub(*args, **params)
        if route == "sub_fixed":
            # a user's subclass that fixes the configuration and declares no parameters of its own
            # (class ManhattanTOPSIS(TOPSIS): _skcriteria_parameters = []; __init__ calls super().__init__(metric=...))
            import copy as _copy
            _a, _p = _copy.deepcopy(args), _copy.deepcopy(dict(params))     # (the subclass has its own constants)

            class Fixed(cls):
                _skcriteria_parameters = []

                def __init__(self):
                    super().__init__(*_a, **_p)
            Fixed.__name__, Fixed.__qualname__, Fixed.__module__ = cls.__name__, cls.__qualname__, cls.__module__
            return Fixed()
        if route == "sub_defaults" and first_positional is None and params:
            # a user's subclass that only changes the DEFAULTS of the parameters (and is then used with its defaults)
            names = list(params)
            ns = {"_d": dict(params), "_base": cls}
            src = ("def __init__(self, *, " + ", ".join(f"{n}=_d[{n!r}]" for n in names) + ", **kwargs):\n"
                   "    _base.__init__(self, " + ", ".join(f"{n}={n}" for n in names) + ", **kwargs)\n")
            exec(src, ns)       # noqa: S102  (parameter names come from the harness's own tables)
            sub = type(cls.__name__, (cls,), {"__init__": ns["__init__"], "__module__": cls.__module__,
                                              "_skcriteria_parameters": list(cls._skcriteria_parameters)})
            return sub()
        if route == "sub_extra" and first_positional is None:
            # a user's subclass that adds a parameter of its own and forwards the inherited ones through **kwargs
            class Extra(cls):
                _skcriteria_parameters = list(cls._skcriteria_parameters) + ["verif_extra"]

                def __init__(self, verif_extra=1.5, **kwargs):
                    super().__init__(**kwargs)
                    self._verif_extra = verif_extra

                @property
                def verif_extra(self):
                    return self._verif_extra
            Extra.__name__, Extra.__qualname__, Extra.__module__ = cls.__name__, cls.__qualname__, cls.__module__
            return Extra(verif_extra=2.5, **params)
        if route == "copy_kw" and first_positional is None and params:
            return cls().copy(**params)
        if route == "positional" and params:
            try:    # the documented order (recorded from the pinned source), not whatever the class says today
                sig = list(json.load(open(os.path.join(os.path.dirname(__file__), "anchors.json")))["_signatures"][cls.__name__])
            except Exception:  # noqa: BLE001
                sig = [n for n, q in inspect.signature(cls.__init__).parameters.items()
                       if n != "self" and q.kind in (q.POSITIONAL_ONLY, q.POSITIONAL_OR_KEYWORD)]
            sig = sig[len(args):]
            pos, rest = [], dict(params)
            for n in sig:           # a prefix of the positional parameters, the rest by keyword
                if n in rest:
                    pos.append(rest.pop(n))
                else:
                    break
            return cls(*args, *pos, **rest)
        if route == "fresh_strings":
            kw = {k: ("".join(list(v)) if isinstance(v, str) else v) for k, v in params.items()}
            return cls(*args, **kw)
        if route == "numpy_scalars":
            kw = {k: (np.float64(v) if isinstance(v, float) else np.int64(v) if isinstance(v, int) and not isinstance(v, bool)
                      else np.str_(v) if isinstance(v, str) else v) for k, v in params.items()}
            return cls(*args, **kw)
    except TypeError:
        return base
    except Exception:  # noqa: BLE001
        if route in ("deepcopy", "subclass", "sub_fixed", "sub_defaults", "sub_extra"):
            return base
        raise
    return base


def exc_code(e):
    if isinstance(e, ValueError):
        return Err(1)
    if isinstance(e, (KeyError, IndexError)):
        return Err(2)
    if isinstance(e, (TypeError, AttributeError)):
        return Err(3)
    return Err(96)


@contextlib.contextmanager
def quiet_fds():
    """Silence output written straight to fd 1/2 (CBC solver)."""
    sys.stdout.flush()
    sys.stderr.flush()
    saved = os.dup(1), os.dup(2)
    devnull = os.open(os.devnull, os.O_WRONLY)
    try:
        os.dup2(devnull, 1)
        os.dup2(devnull, 2)
        yield
    finally:
        os.dup2(saved[0], 1)
        os.dup2(saved[1], 2)
        os.close(devnull)
        os.close(saved[0])
        os.close(saved[1])


_pool = None


class WorkerCrash(Exception):
    """The interpreter died (segmentation fault, abort, ...) while a worker ran `fn(item)`."""

    def __init__(self, item, status):
        super().__init__(f"the interpreter died ({status}) while the harness exercised one case")
        self.item, self.status = item, status


def pool():
    """Forked workers.  A worker that dies (a crash of the interpreter inside the library or numpy/pandas) breaks the
    executor instead of leaving the map waiting for ever."""
    global _pool
    if _pool is None:
        import multiprocessing as mp
        from concurrent.futures import ProcessPoolExecutor
        _pool = ProcessPoolExecutor(min(16, os.cpu_count() or 1), mp_context=mp.get_context("fork"),
                                    initializer=_worker_init)
        _pool.submit(int).result()          # all workers are forked here, not at the first map
    return _pool


def _worker_init():
    """kill -USR1 <worker pid> dumps its Python stack to work/stack_<pid>.txt (diagnosis of a stuck check)."""
    import faulthandler
    import signal
    try:
        d = os.path.join(os.path.dirname(os.path.dirname(os.path.abspath(__file__))), "work")
        os.makedirs(d, exist_ok=True)
        f = open(os.path.join(d, f"stack_{os.getpid()}.txt"), "w")
        faulthandler.register(signal.SIGUSR1, file=f, all_threads=True)
    except Exception:  # noqa: BLE001
        pass


def pmap(fn, items, chunksize=None, on_crash=None):
    """Map in the worker pool.  If the interpreter of a worker dies, the items are run again in isolated children:
    the first item that kills its child raises WorkerCrash - or, when `on_crash(item, status)` is given, gets that
    value as its result and the others go on."""
    global _pool
    items = list(items)
    if len(items) < 24:
        if on_crash is not None:
            return _isolated_map(fn, items, on_crash)
        return [fn(x) for x in items]
    from concurrent.futures.process import BrokenProcessPool
    try:
        return list(pool().map(fn, items, chunksize=chunksize or max(1, len(items) // 64)))
    except BrokenProcessPool:
        try:
            _pool.shutdown(wait=False, cancel_futures=True)
        except Exception:  # noqa: BLE001
            pass
        _pool = None
        return _isolated_map(fn, items, on_crash)


def isolated_call(fn, item):
    """fn(item) in a forked child: -> ("ok", value) or ("crashed", status)."""
    marker = object()
    out = _isolated_map(fn, [item], lambda it, st: (marker, st))
    if isinstance(out[0], tuple) and len(out[0]) == 2 and out[0][0] is marker:
        return "crashed", out[0][1]
    return "ok", out[0]


def _isolated_map(fn, items, on_crash=None):
    """After a worker died: the items again, in forked children that report item by item, so that the item which
    kills the interpreter is identified (-> WorkerCrash) -- or, when nothing dies this time, the results."""
    import pickle
    import selectors
    import struct
    n = len(items)
    out = [None] * n
    nproc = min(16, os.cpu_count() or 1)
    sel = selectors.DefaultSelector()
    state = {}

    def spawn(idxs):
        r, w = os.pipe()
        pid = os.fork()
        if pid == 0:
            code = 0
            try:
                os.close(r)
                with os.fdopen(w, "wb") as f:
                    for i in idxs:
                        try:
                            b = pickle.dumps(("ok", fn(items[i])))
                        except Exception as e:  # noqa: BLE001
                            b = pickle.dumps(("exc", repr(e)))
                        f.write(struct.pack("<qq", i, len(b)) + b)
                        f.flush()
            except BaseException:  # noqa: BLE001
                code = 3
            finally:
                os._exit(code)
        os.close(w)
        state[r] = {"pid": pid, "idxs": idxs, "done": 0, "buf": b""}
        sel.register(r, selectors.EVENT_READ)

    for k in range(nproc):
        idxs = list(range(k, n, nproc))
        if idxs:
            spawn(idxs)
    crash = None
    while state:
        for key, _ in sel.select():
            r = key.fd
            st = state[r]
            data = os.read(r, 1 << 20)
            if data:
                st["buf"] += data
                while len(st["buf"]) >= 16:
                    i, ln = struct.unpack("<qq", st["buf"][:16])
                    if len(st["buf"]) < 16 + ln:
                        break
                    kind, val = pickle.loads(st["buf"][16:16 + ln])
                    st["buf"] = st["buf"][16 + ln:]
                    st["done"] += 1
                    if kind == "exc":
                        raise RuntimeError(val)
                    out[i] = val
                continue
            sel.unregister(r)
            os.close(r)
            _, status = os.waitpid(st["pid"], 0)
            del state[r]
            if st["done"] < len(st["idxs"]):
                sig = os.WTERMSIG(status) if os.WIFSIGNALED(status) else None
                what = f"signal {sig}" if sig else f"exit status {status}"
                bad = st["idxs"][st["done"]]
                if on_crash is not None:
                    out[bad] = on_crash(items[bad], what)
                    rest = st["idxs"][st["done"] + 1:]
                    if rest:
                        spawn(rest)
                elif crash is None:
                    crash = (bad, what)
    if crash:
        raise WorkerCrash(items[crash[0]], crash[1])
    return out


def pmap_timeout(fn, items, timeout):
    """Like pmap, but each task gets a wall-clock budget; a task that does not come back is
    reported as {'timeout': True}.  Uses its own pool, which is terminated afterwards (stuck
    workers included)."""
    import multiprocessing as mp
    items = list(items)
    p = mp.get_context("fork").Pool(min(16, os.cpu_count() or 1))
    try:
        handles = [p.apply_async(fn, (x,)) for x in items]
        out = []
        import time
        deadline_slack = time.time()
        for h in handles:
            try:
                out.append(h.get(timeout=timeout))
            except mp.TimeoutError:
                out.append({"timeout": True})
        return out
    finally:
        p.terminate()
        p.join()
