"""Exact (Fraction) two-phase simplex with Bland's rule for  max c.x  s.t.  A x <= b, x >= 0.

UNTRUSTED: it only PROPOSES a primal/dual pair (x, y); the extracted, verified certificate
checker (coq/Model/Simus.v check_cert, coq/Props/C09.v) decides whether the pair proves optimality."""
from fractions import Fraction


def solve_linear(M, rhs):
    """Solve M z = rhs exactly (square, Fractions).  Returns None if singular."""
    n = len(M)
    a = [list(map(Fraction, M[i])) + [Fraction(rhs[i])] for i in range(n)]
    for col in range(n):
        piv = next((r for r in range(col, n) if a[r][col] != 0), None)
        if piv is None:
            return None
        a[col], a[piv] = a[piv], a[col]
        pv = a[col][col]
        a[col] = [v / pv for v in a[col]]
        for r in range(n):
            if r != col and a[r][col] != 0:
                f = a[r][col]
                a[r] = [v - f * w for v, w in zip(a[r], a[col])]
    return [a[i][n] for i in range(n)]


def _pivot(T, basis, r, c):
    pv = T[r][c]
    T[r] = [v / pv for v in T[r]]
    for i in range(len(T)):
        if i != r and T[i][c] != 0:
            f = T[i][c]
            T[i] = [v - f * w for v, w in zip(T[i], T[r])]
    basis[r] = c


def _simplex(T, basis, ncols, allowed):
    """T: rows = constraints + last row = objective (to MAXIMISE: row holds -reduced costs convention below).
    Tableau convention: last row z-row such that entering columns have negative entries."""
    m = len(T) - 1
    for _ in range(10000):
        ent = next((j for j in range(ncols) if j in allowed and T[m][j] < 0), None)   # Bland: smallest index
        if ent is None:
            return "optimal"
        best, row = None, None
        for i in range(m):
            if T[i][ent] > 0:
                ratio = T[i][ncols] / T[i][ent]
                if best is None or ratio < best or (ratio == best and basis[i] < basis[row]):
                    best, row = ratio, i
        if row is None:
            return "unbounded"
        _pivot(T, basis, row, ent)
    return "iteration-limit"


def solve(c, A, b):
    """-> ('optimal', x, y) | ('infeasible'|'unbounded'|..., None, None)."""
    c = [Fraction(v) for v in c]
    A = [[Fraction(v) for v in r] for r in A]
    b = [Fraction(v) for v in b]
    n, m = len(c), len(A)
    # columns: x (n), slacks (m), artificials (one per row with negative rhs)
    neg = [i for i in range(m) if b[i] < 0]
    na = len(neg)
    ncols = n + m + na
    T, basis = [], []
    for i in range(m):
        row = A[i] + [Fraction(int(k == i)) for k in range(m)] + [Fraction(0)] * na + [b[i]]
        if i in neg:
            row = [-v for v in row]
            row[n + m + neg.index(i)] = Fraction(1)
            basis.append(n + m + neg.index(i))
        else:
            basis.append(n + i)
        T.append(row)
    if na:
        # phase I: maximise -(sum of artificials)
        z = [Fraction(0)] * (ncols + 1)
        for k in range(na):
            z[n + m + k] = Fraction(1)
        T.append(z)
        for i in range(m):
            if basis[i] >= n + m:
                T[m] = [v - w for v, w in zip(T[m], T[i])]
        st = _simplex(T, basis, ncols, set(range(ncols)))
        if st != "optimal" or T[m][ncols] != 0:
            return ("infeasible" if st == "optimal" else st), None, None
        # drive artificials out of the basis where possible
        for i in range(m):
            if basis[i] >= n + m:
                j = next((j for j in range(n + m) if T[i][j] != 0), None)
                if j is not None:
                    _pivot(T, basis, i, j)
        T.pop()
    # phase II
    z = [-v for v in c] + [Fraction(0)] * (m + na) + [Fraction(0)]
    T.append(z)
    for i in range(m):
        if T[m][basis[i]] != 0:
            f = T[m][basis[i]]
            T[m] = [v - f * w for v, w in zip(T[m], T[i])]
    st = _simplex(T, basis, ncols, set(range(n + m)))
    if st != "optimal":
        return st, None, None
    x = [Fraction(0)] * n
    for i in range(m):
        if basis[i] < n:
            x[basis[i]] = T[i][ncols]
    # dual from the optimal basis: y^T B = c_B over the equality system [A | I]
    cols = [b_ for b_ in basis]
    if any(k >= n + m for k in cols):
        return "degenerate-artificial", None, None
    B = [[(A[i][k] if k < n else Fraction(int(k - n == i))) for k in cols] for i in range(m)]
    cB = [(c[k] if k < n else Fraction(0)) for k in cols]
    # solve B^T y = cB
    Bt = [[B[i][j] for i in range(m)] for j in range(m)]
    y = solve_linear(Bt, cB) if m else []
    if y is None:
        return "singular-basis", None, None
    return "optimal", x, y
