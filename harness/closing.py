"""The four irrational closing operations (sqrt, ln, log10) evaluated with
`decimal` at 60 digits on exact rational inputs.  These duplicate the real-valued
closing definitions of coq/Theory/RealClosing.v and are part of the trusted base."""
from decimal import Decimal, getcontext
from fractions import Fraction

getcontext().prec = 60


def D(x):
    if isinstance(x, Decimal):
        return x
    f = Fraction(x)
    return Decimal(f.numerator) / Decimal(f.denominator)


def sqrt(x):
    return D(x).sqrt()


def ln(x):
    return D(x).ln()


def log10(x):
    return D(x).log10()


def close(a, b, rel=0.0, abs_=0.0):
    """|a-b| <= abs_ + rel*max(|a|,|b|), all in Decimal."""
    a, b = D(a), D(b)
    return abs(a - b) <= D(abs_) + D(rel) * max(abs(a), abs(b))
