"""Encoding of values crossing the model boundary (see ocaml/driver.ml)."""
from fractions import Fraction
import numbers

import numpy as np


class Err:
    """Model-side / implementation-side error value."""

    NAMES = {1: "ValueError", 2: "KeyError", 3: "TypeError", 7: "Fuel", 96: "Other",
             97: "stack", 98: "no-such-fn", 99: "decode"}

    def __init__(self, code):
        self.code = int(code)

    def __eq__(self, other):
        return isinstance(other, Err) and other.code == self.code

    def __hash__(self):
        return hash(("Err", self.code))

    def __repr__(self):
        return f"Err({self.NAMES.get(self.code, self.code)})"


def _hx(n):
    return ("-" if n < 0 else "") + format(abs(int(n)), "x")


def enc(x, out=None):
    top = out is None
    if top:
        out = []
    if isinstance(x, (bool, np.bool_)):
        out.append("#t" if x else "#f")
    elif isinstance(x, (int, np.integer)):
        out.append("i" + _hx(int(x)))
    elif isinstance(x, Fraction):
        out.append("q" + _hx(x.numerator) + "/" + _hx(x.denominator))
    elif isinstance(x, (float, np.floating)):
        f = Fraction(float(x))
        out.append("q" + _hx(f.numerator) + "/" + _hx(f.denominator))
    elif isinstance(x, Err):
        out.append("!" + _hx(x.code))
    elif x is None:
        out.append("(")
        out.append(")")
    elif isinstance(x, (list, tuple, np.ndarray)):
        out.append("(")
        for y in x:
            enc(y, out)
        out.append(")")
    else:
        raise TypeError(f"cannot encode {type(x)}: {x!r}")
    if top:
        return " ".join(out)


def dec(s):
    toks = s.split()
    pos = 0

    def go():
        nonlocal pos
        t = toks[pos]
        pos += 1
        if t == "(":
            acc = []
            while toks[pos] != ")":
                acc.append(go())
            pos += 1
            return acc
        if t == "#t":
            return True
        if t == "#f":
            return False
        c, body = t[0], t[1:]
        if c == "i":
            return int(body, 16)
        if c == "!":
            return Err(int(body, 16))
        if c == "q":
            n, d = body.split("/")
            return Fraction(int(n, 16), int(d, 16))
        raise ValueError(t)

    v = go()
    return v


def jsonable(x):
    """Make a case/result printable in evidence and replay files."""
    if isinstance(x, (bool, np.bool_)):
        return bool(x)
    if isinstance(x, (int, np.integer)):
        return int(x)
    if isinstance(x, Fraction):
        return str(x)
    if isinstance(x, (float, np.floating)):
        return float(x)
    if isinstance(x, Err):
        return repr(x)
    if x is None or isinstance(x, str):
        return x
    if isinstance(x, dict):
        return {str(k): jsonable(v) for k, v in x.items()}
    if isinstance(x, (list, tuple, np.ndarray)):
        return [jsonable(y) for y in x]
    return repr(x)
