"""Seeded generators shared by the checks.  Every choice comes from the
random.Random instance that is passed in, so a (property, seed) pair replays
exactly.  Cases are JSON-native (ints, floats, strings, lists, dicts)."""
import itertools
import os
import math

LABEL_POOL_A = ["A10", "A2", "zeta", "alpha", "B", "a", "A1", "A0", "M", "x11", "x2", "Q7", "q",
                "A3", "A20", "beta", "C", "k9", "k10", "w", "AA", "Ab", "aB", "Z", "mid", "A_1",
                "A", "A_2", "b1", "b10", "b2", "n0", "n1", "n00", "u", "v", "t", "s", "r", "p"]
LABEL_POOL_C = ["C10", "C2", "roe", "CAP", "ri", "c", "C1", "C0", "zz", "aa", "K", "C3", "C20",
                "gamma", "D", "d", "C_1", "cost", "gain", "C"]


LABEL_KINDS_P = float(os.environ.get("SKC_LABEL_KINDS", "0.1"))


def labels(rng, n, pool, default_prefix, kinds=True):
    """Distinct labels whose sorted order differs from positional order (mostly).  A tenth of the time the labels are
    not the usual strings: integers (a shuffled 0..n-1, so that labels and positions disagree; or unrelated, unsorted
    integers), floats, or strings that look like numbers."""
    if kinds and LABEL_KINDS_P and rng.random() < LABEL_KINDS_P:
        kind = rng.choice(["int_positions", "int_other", "float", "numeric_strings"])
        if kind == "int_positions":
            ls = list(range(n))
        elif kind == "int_other":
            ls = [7 * i + 3 for i in range(n)]
        elif kind == "float":
            ls = [i + 0.5 for i in range(n)]
        else:
            ls = [str(2 * i + 1) for i in range(n)]
        rng.shuffle(ls)
        return ls
    mode = rng.random()
    if mode < 0.05 and os.environ.get("SKC_EXOTIC_LABELS", "1") != "0":
        # strings that are easy to confuse: the empty string, blanks, case pairs that fold onto each other, composed
        # and decomposed accents, very long labels with a long common prefix, digits-only, quotes
        exotic = ["", " ", "a", "A", "\u00e9", "e\u0301", "\u00c9", "\u00df", "ss", "SS", "\u0130", "i", "I", "\u0131",
                  "x" * 150 + "1", "x" * 150 + "2", "x" * 150, "None", "nan", "NaN", "0", "00", "'q'", '"q"', "a b", "a  b",
                  "\u03a9", "\u2126", "\u00e5", "A\u030a"]
        if n <= len(exotic):
            return rng.sample(exotic, n)
    if mode < 0.15:
        return [f"{default_prefix}{i}" for i in range(n)]
    if n <= len(pool) and mode < 0.9:
        return rng.sample(pool, n)
    ls = [f"{default_prefix}{i}" for i in range(n)]
    rng.shuffle(ls)
    return ls


HUGE_SIZES = (65, 100, 129, 150, 257, 300)


def shape(rng, nmax, mmax, nmin=1, mmin=1, force_nonsquare=0.7, big=0.15, bigmin=11, huge=0.0):
    if huge and rng.random() < huge:
        # far more alternatives than any internal block / chunk / narrow counter (64, 128, 256)
        return rng.choice(HUGE_SIZES), rng.randint(mmin, mmax)
    for _ in range(100):
        if nmax >= bigmin and rng.random() < big:
            n = rng.randint(bigmin, nmax)
        else:
            n = rng.randint(nmin, min(nmax, max(nmin + 3, 7)))
        m = rng.randint(mmin, mmax)
        if n != m or rng.random() > force_nonsquare or (nmax == nmin and mmax == mmin):
            return n, m
    return n, m


VALUE_MODES = ("tiny012", "tiny123", "dyadic", "int", "float", "logfloat")


def values(rng, n, m, mode, positive=False):
    def one():
        if mode == "tiny012":
            return float(rng.choice([1, 2, 3] if positive else [0, 1, 2]))
        if mode == "tiny123":
            return float(rng.choice([1, 2, 3]))
        if mode == "dyadic":
            k = rng.randint(1 if positive else -16, 48)
            return k / 8.0
        if mode == "int":
            return float(rng.randint(1 if positive else -9, 30))
        if mode == "float":
            x = rng.uniform(0.01 if positive else -10.0, 10.0)
            return x
        if mode == "logfloat":
            x = 10 ** rng.uniform(-3, 3)
            return x if positive or rng.random() < 0.7 else -x
        raise ValueError(mode)
    return [[one() for _ in range(m)] for _ in range(n)]


def objectives(rng, m, mode=None):
    mode = mode or rng.choice(["random", "random", "allmax", "allmin", "onemin"])
    if mode == "allmax":
        return [1] * m
    if mode == "allmin":
        return [-1] * m
    if mode == "onemin":
        o = [1] * m
        o[rng.randrange(m)] = -1
        return o
    return [rng.choice([1, -1]) for _ in range(m)]


def weights(rng, m, mode=None, positive=True):
    """Pairwise distinct in >= 80% of the cases."""
    mode = mode or rng.choice(["dyadic", "dyadic", "int", "float", "sum1", "equal"])
    if mode == "equal" and rng.random() < 0.5:
        return [1.0] * m
    if mode == "sum1":
        # exact dyadic weights summing to one (k/64), distinct when possible
        for _ in range(50):
            cuts = sorted(rng.sample(range(1, 64), m - 1)) if m > 1 else []
            parts = [b - a for a, b in zip([0] + cuts, cuts + [64])]
            if len(set(parts)) == m or m > 8:
                break
        rng.shuffle(parts)
        return [p / 64.0 for p in parts]
    if mode == "int":
        ws = rng.sample(range(1, max(12, 2 * m + 1)), m)
        return [float(w) for w in ws]
    if mode == "float":
        return [rng.uniform(0.05, 5.0) for _ in range(m)]
    ws = rng.sample(range(1, max(33, 2 * m + 1)), m)
    return [w / 8.0 for w in ws]


def inject_structure(rng, mtx, objs, p_dup=0.3, p_dom=0.4):
    """Duplicate rows / dominated copies, in place.  Returns list of tags."""
    n, m = len(mtx), len(mtx[0])
    tags = []
    if n >= 2 and rng.random() < p_dup:
        i, j = rng.sample(range(n), 2)
        mtx[j] = list(mtx[i])
        tags.append("dup")
    if n >= 2 and rng.random() < p_dom:
        i, j = rng.sample(range(n), 2)
        sub = [k for k in range(m) if rng.random() < 0.5] or [rng.randrange(m)]
        row = list(mtx[i])
        for k in sub:
            delta = rng.choice([1.0, 0.5, 2.0])
            row[k] = row[k] - delta if objs[k] == 1 else row[k] + delta
        mtx[j] = row
        tags.append("dominated_copy")
    return tags


def dm_case(rng, nmax=7, mmax=5, nmin=1, mmin=1, modes=VALUE_MODES, positive=False,
            wmode=None, omode=None, structure=True, big=0.15, int_dtypes=0.0, label_kinds=True, huge=0.0, bigmin=11):
    n, m = shape(rng, nmax, mmax, nmin, mmin, big=big, huge=huge, bigmin=bigmin)
    mode = rng.choice(list(modes))
    if n >= min(HUGE_SIZES):
        # keep the exact rational arithmetic of the model cheap: short numerators and denominators only
        small = [x for x in modes if x in ("tiny012", "tiny123", "int", "dyadic")] or ["int"]
        mode = rng.choice(small)
        wmode = wmode or rng.choice(["dyadic", "int", "sum1"])
    mtx = values(rng, n, m, mode, positive=positive)
    objs = objectives(rng, m, omode)
    tags = inject_structure(rng, mtx, objs) if structure else []
    if n >= min(HUGE_SIZES) and structure and rng.random() < 0.5:
        # one alternative that every other one beats on every criterion (more than 255 of them, sometimes)
        lo = [min(r[j] for r in mtx) for j in range(m)]
        hi = [max(r[j] for r in mtx) for j in range(m)]
        mtx[rng.randrange(n)] = [(lo[j] - 1.0 if not positive else lo[j] / 2.0) if objs[j] == 1 else hi[j] + 1.0
                                 for j in range(m)]
        tags.append("worst_row")
    if positive:
        mtx = [[abs(x) if x != 0 else 1.0 for x in r] for r in mtx]
    c = {
        "matrix": mtx,
        "objectives": objs,
        "weights": weights(rng, m, wmode),
        "alternatives": labels(rng, n, LABEL_POOL_A, "A", kinds=label_kinds in (True, "alternatives")),
        "criteria": labels(rng, m, LABEL_POOL_C, "C", kinds=label_kinds is True),
        "mode": mode,
        "tags": tags,
    }
    if int_dtypes and rng.random() < int_dtypes:
        integerise(rng, c, positive)
    return c


def integerise(rng, c, positive=False):
    """Integer-typed criteria: all of them, or some of them next to float (possibly fractional) ones.  A criterion
    that becomes integer-typed gets integral values first."""
    mtx = c["matrix"]
    m = len(c["weights"])
    allint = rng.random() < 0.4
    dts = ["int64" if allint or rng.random() < 0.5 else "float64" for _ in range(m)]
    if "int64" not in dts:
        dts[rng.randrange(m)] = "int64"
    for j in range(m):
        if dts[j] == "int64":
            for r in mtx:
                v = float(round(r[j]))
                r[j] = (1.0 if positive and v < 1 else v)
    c["dtypes"] = dts
    c["tags"] = list(c.get("tags", [])) + ["int_dtypes"]
    return c


NARROW = {"uint8": (0, 255), "uint16": (0, 65535), "int16": (-32768, 32767), "int32": (-2 ** 31, 2 ** 31 - 1),
          "uint32": (0, 2 ** 32 - 1), "int8": (-128, 127), "float32": None}


SPECIAL = [-0.0, 0.0, 5e-324, -5e-324, 2.2250738585072014e-308, 1.0, 1.0000000000000002, 0.9999999999999999,
           9007199254740992.0, 9007199254740994.0, -1.0, -1.0000000000000002, 0.1 + 0.2, 0.3, 1e308, -1e308]


def special_values(rng, c, p=0.5):
    """Floats that are valid data but sit at the edges of the format: signed zeros, the smallest subnormals, neighbours
    that differ in the last bit, integers at 2**53, the largest finite numbers.  (Exact for the model: every float is
    a rational; the two zeros are the same number.)"""
    for r in c["matrix"]:
        for j in range(len(r)):
            if rng.random() < p:
                r[j] = rng.choice(SPECIAL)
    c["mode"] = "special"
    c["tags"] = list(c.get("tags", [])) + ["special_values"]
    c.pop("dtypes", None)
    return c


def narrow_dtypes(rng, c, positive=False, wide=0.5, pairs=True, floats=True):
    """Criteria stored in narrow / unsigned numpy types (what a caller gets from an image, a sensor file or a
    compact table).  The values are made to fit exactly; half of the time some of them sit near the ends of the type's
    range, so that differences and sums of two values no longer fit the type itself."""
    mtx = c["matrix"]
    m = len(c["weights"])
    names = sorted(k for k in NARROW if floats or k != "float32")
    one = rng.random() < 0.4 and rng.choice(names)
    pair = None
    if pairs and not one and m >= 2 and rng.random() < 0.5:
        # two widths of one kind side by side, the narrower one first
        pair = rng.choice([("float32", "float64"), ("int32", "int64"), ("int16", "int64"), ("uint8", "uint32")])
    dts = []
    for j in range(m):
        t = one or rng.choice(names + ["int64", "float64"])
        if pair:
            t = pair[0] if j == 0 else (pair[1] if j == m - 1 else rng.choice(pair))
        dts.append(t)
        if pair and t == pair[1]:
            # values that need the wider type
            for r in mtx:
                if t == "float64":
                    r[j] = r[j] + 1.0 / 3.0 if not float(r[j]).is_integer() else r[j] + 0.1
                else:
                    r[j] = float(abs(int(round(r[j]))) + (5_000_000_000 if t == "int64" else 3_000_000_000))
            continue
        if t in ("float64", "int64") and t != "int64":
            continue
        if t == "float32":
            for r in mtx:
                r[j] = float(round(r[j] * 8) / 8) if abs(r[j]) < 2 ** 20 else float(round(r[j]))
                if positive and r[j] <= 0:
                    r[j] = 0.125
            continue
        lo, hi = NARROW.get(t, (-2 ** 62, 2 ** 62))
        ends = rng.random() < wide and t != "int64"
        for r in mtx:
            v = int(round(r[j]))
            if ends and rng.random() < 0.5:
                v = rng.choice([lo, lo + 1, lo + rng.randint(0, 40), hi, hi - 1, hi - rng.randint(0, 40)])
            v = min(max(v, lo), hi)
            if positive and v < 1:
                v = 1
            r[j] = float(v)
    c["dtypes"] = dts
    c["tags"] = list(c.get("tags", [])) + ["narrow_dtypes"]
    return c


def all_small_matrices(nmax, mmax, alphabet=(0, 1, 2)):
    """Exhaustive enumeration: every matrix n<=nmax, m<=mmax over the alphabet,
    every objective vector."""
    for n in range(1, nmax + 1):
        for m in range(1, mmax + 1):
            for cells in itertools.product(alphabet, repeat=n * m):
                mtx = [[float(cells[i * m + j]) for j in range(m)] for i in range(n)]
                for objs in itertools.product((1, -1), repeat=m):
                    yield mtx, list(objs)
