(* Line-oriented driver around the extracted model.
   input line :  <fn> <val>      output line : <val>
   val ::= i<hex> | i-<hex> | q<hex>/<hex> | q-<hex>/<hex> | #t | #f | !<hex> | ( val* )
   Integers cross the boundary as hexadecimal text and are converted bit by
   bit into the extracted [positive]; no OCaml arithmetic on model numbers. *)
open Model

let hexval c = match c with
  | '0'..'9' -> Char.code c - 48
  | 'a'..'f' -> Char.code c - 87
  | 'A'..'F' -> Char.code c - 55
  | _ -> failwith "hex"

(* bits, least significant first *)
let bits_of_hex s : bool list =
  let n = String.length s in
  let acc = ref [] in
  for i = 0 to n - 1 do
    let v = hexval s.[i] in
    (* most significant nibble first; we cons so final list has LSB first after processing *)
    acc := (v land 1 = 1) :: (v land 2 = 2) :: (v land 4 = 4) :: (v land 8 = 8) :: !acc
  done;
  !acc

let rec strip_msb = function   (* input MSB first *)
  | false :: t -> strip_msb t
  | l -> l

(* positive from bits LSB first with no leading (most significant) zeros *)
let pos_of_bits_lsb (l : bool list) : positive option =
  (* l is LSB first; the last element is the MSB and must be true *)
  let msb_first = strip_msb (List.rev l) in
  match msb_first with
  | [] -> None
  | _ :: rest ->
    (* build from MSB: start XH, then for each following bit b: p -> XO p / XI p *)
    Some (List.fold_left (fun p b -> if b then XI p else XO p) XH rest)

let z_of_hex s : z =
  let neg, body =
    if String.length s > 0 && s.[0] = '-' then true, String.sub s 1 (String.length s - 1)
    else false, s in
  match pos_of_bits_lsb (bits_of_hex body) with
  | None -> Z0
  | Some p -> if neg then Zneg p else Zpos p

let hex_of_pos (p : positive) =
  (* collect bits LSB first *)
  let rec go p acc = match p with
    | XH -> true :: acc
    | XO q -> go q (false :: acc)
    | XI q -> go q (true :: acc) in
  (* go conses each successive (more significant) bit in front: result is MSB first *)
  let rec collect p = match p with
    | XH -> [true]
    | XO q -> false :: collect q
    | XI q -> true :: collect q in
  ignore go;
  let lsb = Array.of_list (collect p) in
  let n = Array.length lsb in
  let nn = (n + 3) / 4 in
  let b = Bytes.make nn '0' in
  for k = 0 to nn - 1 do
    let v = ref 0 in
    for j = 0 to 3 do
      let idx = 4 * k + j in
      if idx < n && lsb.(idx) then v := !v lor (1 lsl j)
    done;
    Bytes.set b (nn - 1 - k) "0123456789abcdef".[!v]
  done;
  Bytes.to_string b

let hex_of_z = function
  | Z0 -> "0"
  | Zpos p -> hex_of_pos p
  | Zneg p -> "-" ^ hex_of_pos p

let coq_string s : Model.string =
  let n = String.length s in
  let rec go i =
    if i >= n then EmptyString
    else
      let c = Char.code s.[i] in
      let b k = (c lsr k) land 1 = 1 in
      String (Ascii (b 0, b 1, b 2, b 3, b 4, b 5, b 6, b 7), go (i + 1)) in
  go 0

(* tokenizer on whitespace *)
let tokens s =
  List.filter (fun t -> t <> "") (String.split_on_char ' ' s)

let rec parse_val ts =
  match ts with
  | [] -> failwith "eof"
  | "(" :: rest -> parse_list rest []
  | "#t" :: rest -> VB true, rest
  | "#f" :: rest -> VB false, rest
  | t :: rest ->
    let body = String.sub t 1 (String.length t - 1) in
    (match t.[0] with
     | 'i' -> VZ (z_of_hex body), rest
     | '!' -> VE (z_of_hex body), rest
     | 'q' ->
       (match String.index_opt body '/' with
        | None -> failwith "q"
        | Some k ->
          let n = z_of_hex (String.sub body 0 k) in
          let d = z_of_hex (String.sub body (k + 1) (String.length body - k - 1)) in
          (match d with
           | Zpos p -> VQ { qnum = n; qden = p }
           | _ -> failwith "den"), rest)
     | _ -> failwith ("tok " ^ t))
and parse_list ts acc =
  match ts with
  | ")" :: rest -> VL (List.rev acc), rest
  | _ -> let v, rest = parse_val ts in parse_list rest (v :: acc)

let rec print_val (b : Buffer.t) (v : val0) : unit =
  match v with
  | VZ z -> Buffer.add_string b "i"; Buffer.add_string b (hex_of_z z)
  | VQ q -> Buffer.add_string b "q"; Buffer.add_string b (hex_of_z q.qnum);
    Buffer.add_char b '/'; Buffer.add_string b (hex_of_pos q.qden)
  | VB true -> Buffer.add_string b "#t"
  | VB false -> Buffer.add_string b "#f"
  | VE z -> Buffer.add_string b "!"; Buffer.add_string b (hex_of_z z)
  | VL l ->
    Buffer.add_string b "(";
    List.iter (fun x -> Buffer.add_char b ' '; print_val b x) l;
    Buffer.add_string b " )"

let () =
  let b = Buffer.create 65536 in
  (try
     while true do
       let line = input_line stdin in
       Buffer.clear b;
       (try
          match tokens line with
          | fn :: rest ->
            let v, _ = parse_val rest in
            print_val b (dispatch (coq_string fn) v)
          | [] -> Buffer.add_string b "!61"
        with
        | Stack_overflow -> Buffer.clear b; Buffer.add_string b "!60"
        | Failure _ | Invalid_argument _ | Not_found -> Buffer.clear b; Buffer.add_string b "!62");
       print_string (Buffer.contents b);
       print_newline ()
     done
   with End_of_file -> ())
