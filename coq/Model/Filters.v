(* Criteria filters (skcriteria/preprocessing/filters.py).  Labels are integers.
   Definitions only. *)
From Coq Require Import ZArith QArith List Bool Arith.
From SKC Require Import Base.QBool Base.QList Model.Agg Model.Select Model.Dominance.
Import ListNotations.

Inductive cond :=
| CGt (v : Q) | CGe (v : Q) | CLt (v : Q) | CLe (v : Q) | CEq (v : Q) | CNe (v : Q)
| CIn (s : list Q) | CNotIn (s : list Q)
| CFn (code : Z).     (* function filters: a fixed palette of predicates *)

Definition palette (code : Z) (x : Q) : bool :=
  if (code =? 0)%Z then Qltb 2 x            (* v > 2 *)
  else if (code =? 1)%Z then Qleb x 3       (* v <= 3 *)
  else if (code =? 2)%Z then negb (Qeqb x 1) (* v != 1 *)
  else Qltb 0 x.                            (* v > 0 *)

Definition sat (c : cond) (x : Q) : bool :=
  match c with
  | CGt v => Qltb v x | CGe v => Qleb v x | CLt v => Qltb x v | CLe v => Qleb x v
  | CEq v => Qeqb x v | CNe v => negb (Qeqb x v)
  | CIn s => existsb (Qeqb x) s | CNotIn s => negb (existsb (Qeqb x) s)
  | CFn k => palette k x
  end.

(* ---- specification: an alternative survives iff, for every condition, its value on the
   criterion the condition NAMES satisfies it; a condition on an absent criterion raises
   unless missing criteria are ignored, and then only that condition is skipped --------- *)
Definition has_missing (crits : list Z) (conds : list (Z * cond)) : bool :=
  existsb (fun p => match index_of (fst p) crits with None => true | Some _ => false end) conds.

Definition survives (crits : list Z) (conds : list (Z * cond)) (row : list Q) : bool :=
  forallb (fun p => match index_of (fst p) crits with
                    | Some j => sat (snd p) (nth j row 0)
                    | None => true
                    end) conds.

Definition filter_spec (crits : list Z) (conds : list (Z * cond)) (ignore : bool)
           (rows : list (list Q)) : result (list bool) :=
  if negb ignore && has_missing crits conds then Err E_VALUE
  else Ok (map (survives crits conds) rows).

(* ---- implementation-shaped mask (arithmetic and set/function filters) ---------------------
   criteria_to_use = the present conditions in the order they were written; the columns are
   picked by looking each of those names up; cell k of the picked row meets condition k *)
Definition to_use (crits : list Z) (conds : list (Z * cond)) : list (nat * cond) :=
  flat_map (fun p => match index_of (fst p) crits with
                     | Some j => [(j, snd p)]
                     | None => []
                     end) conds.

Definition make_mask (use : list (nat * cond)) (rows : list (list Q)) : list bool :=
  map (fun r =>
         let picked := map (fun jc => nth (fst jc) r 0) use in        (* matrix[:, idxs] *)
         forallb (fun xc => sat (snd (snd xc)) (fst xc)) (combine picked use))
      rows.

Definition filter_impl (crits : list Z) (conds : list (Z * cond)) (ignore : bool)
           (rows : list (list Q)) : result (list bool) :=
  if negb ignore && has_missing crits conds then Err E_VALUE
  else
    let use := to_use crits conds in
    match use with
    | [] => Ok (map (fun _ => true) rows)         (* no usable condition: nothing is filtered *)
    | _ => Ok (make_mask use rows)
    end.

(* the faithful model of the repaired defect (columns in MATRIX order, thresholds in
   written order) lives in Findings.v *)

(* FilterNonDominated keeps the alternatives no other alternative (strictly) dominates *)
Definition nondominated (strict : bool) (objs : list bool) (rows : list (list Q)) : list bool :=
  map negb (dominated strict objs rows).
