(* Model of skcriteria.utils.rank.dominance and of the dominance accessor
   (skcriteria/core/dominance.py).  Definitions only. *)
From Coq Require Import QArith List Bool Arith.
From SKC Require Import Base.QBool.
Import ListNotations.

(* objective: true = maximise, false = minimise (reverse = dm.minwhere) *)

(* ---- specification level ------------------------------------------- *)
Definition better (mx : bool) (x y : Q) : bool := if mx then Qltb y x else Qltb x y.

Fixpoint count_better (objs : list bool) (ra rb : list Q) : nat :=
  match objs, ra, rb with
  | o :: os, x :: xs, y :: ys =>
      (if better o x y then 1 else 0) + count_better os xs ys
  | _, _, _ => 0
  end.

Fixpoint count_equal (objs : list bool) (ra rb : list Q) : nat :=
  match objs, ra, rb with
  | o :: os, x :: xs, y :: ys => (if Qeqb x y then 1 else 0) + count_equal os xs ys
  | _, _, _ => 0
  end.

(* a nowhere worse than b *)
Fixpoint all_geq (objs : list bool) (ra rb : list Q) : bool :=
  match objs, ra, rb with
  | o :: os, x :: xs, y :: ys => negb (better o y x) && all_geq os xs ys
  | _, _, _ => true
  end.
Fixpoint some_better (objs : list bool) (ra rb : list Q) : bool :=
  match objs, ra, rb with
  | o :: os, x :: xs, y :: ys => better o x y || some_better os xs ys
  | _, _, _ => false
  end.
Fixpoint all_better (objs : list bool) (ra rb : list Q) : bool :=
  match objs, ra, rb with
  | o :: os, x :: xs, y :: ys => better o x y && all_better os xs ys
  | _, _, _ => true
  end.

Definition dominates (objs : list bool) (ra rb : list Q) : bool :=
  all_geq objs ra rb && some_better objs ra rb.
Definition strictly_dominates (objs : list bool) (ra rb : list Q) : bool :=
  all_better objs ra rb && some_better objs ra rb.
Definition dom_spec (strict : bool) := if strict then strictly_dominates else dominates.

(* ---- implementation-shaped level ------------------------------------- *)
(* rank.dominance(array_a, array_b, reverse) *)
Record entry := {
  e_eq : nat; e_aDb : nat; e_bDa : nat;
  e_eq_where : list bool; e_aDb_where : list bool; e_bDa_where : list bool }.

Fixpoint zip3 {A B C D} (f : A -> B -> C -> D) (la : list A) (lb : list B) (lc : list C) : list D :=
  match la, lb, lc with
  | a :: la', b :: lb', c :: lc' => f a b c :: zip3 f la' lb' lc'
  | _, _, _ => []
  end.

Definition count_true (l : list bool) : nat := length (filter (fun b => b) l).

Definition rank_dominance (objs : list bool) (ra rb : list Q) : entry :=
  let eqw := zip3 (fun (_ : bool) x y => Qeqb x y) objs ra rb in
  (* np.where(reverse, a < b, a > b) with reverse = not maximise *)
  let adb := zip3 (fun (o : bool) x y => if o then Qltb y x else Qltb x y) objs ra rb in
  let bda := map (fun p => negb (fst p || snd p)) (combine adb eqw) in
  {| e_eq := count_true eqw; e_aDb := count_true adb; e_bDa := count_true bda;
     e_eq_where := eqw; e_aDb_where := adb; e_bDa_where := bda |}.

Definition row (rows : list (list Q)) (i : nat) : list Q := nth i rows [].

(* the cache holds entries for i<j only; the second component is "reverted" *)
Definition cache_read (objs : list bool) (rows : list (list Q)) (i j : nat) : entry * bool :=
  if i <? j then (rank_dominance objs (row rows i) (row rows j), false)
  else (rank_dominance objs (row rows j) (row rows i), true).

Definition bt_cell objs rows (i j : nat) : nat :=
  if i =? j then 0 else
    let (e, rev) := cache_read objs rows i j in if rev then e_bDa e else e_aDb e.

Definition eq_cell objs rows (i j : nat) : nat :=
  if i =? j then length objs else e_eq (fst (cache_read objs rows i j)).

Definition dom_cell (strict : bool) objs rows (i j : nat) : bool :=
  if i =? j then false else
    let (e, rev) := cache_read objs rows i j in
    let (p0, p1) := if rev then (e_bDa e, e_aDb e) else (e_aDb e, e_bDa e) in
    if strict && negb (e_eq e =? 0) then false
    else (0 <? p0) && (p1 =? 0).

(* compare(a0,a1): three boolean rows and the performance column *)
Definition compare_cell objs rows (i j : nat) : (list bool * list bool * list bool) * (nat * nat * nat) :=
  let (e, rev) := cache_read objs rows i j in
  let (p0, p1) := if rev then (e_bDa e, e_aDb e) else (e_aDb e, e_bDa e) in
  let (w0, w1) := if rev then (e_bDa_where e, e_aDb_where e) else (e_aDb_where e, e_bDa_where e) in
  ((w0, w1, e_eq_where e), (p0, p1, e_eq e)).

Definition table {A} (n : nat) (cell : nat -> nat -> A) : list (list A) :=
  map (fun i => map (fun j => cell i j) (seq 0 n)) (seq 0 n).

(* dominated(strict): column-wise any *)
Definition dominated (strict : bool) objs rows : list bool :=
  let n := length rows in
  map (fun j => existsb (fun i => dom_cell strict objs rows i j) (seq 0 n)) (seq 0 n).

(* dominators_of: recursion with concatenation, duplicates kept; None models
   RecursionError (fuel exhausted) *)
Fixpoint dominators_of (fuel : nat) (dom : nat -> nat -> bool) (n : nat) (a : nat) : option (list nat) :=
  match fuel with
  | O => None
  | S f =>
      let ds := filter (fun d => dom d a) (seq 0 n) in
      fold_left (fun acc d =>
                   match acc, dominators_of f dom n d with
                   | Some l, Some l' => Some (l ++ l')
                   | _, _ => None
                   end) ds (Some ds)
  end.

Definition has_loops (dom : nat -> nat -> bool) (n : nat) : bool :=
  existsb (fun a => match dominators_of (S n) dom n a with None => true | Some _ => false end)
          (seq 0 n).
