(* Ownership abstraction for "decision matrices and results are values" (C02).
   The state is the content of the object's own storage (internal cell and memo caches); the
   caller holds handles to cells; writing through a handle changes the cell it points to.
   An accessor either hands out a fresh copy or shares one of the object's own cells. *)
From Coq Require Import ZArith List Bool Arith.
Import ListNotations.

Inductive cellref := Internal (part : nat) | Cache (key : nat) | Fresh (id : nat).
Inductive amode := Copy (src : cellref) | Share (c : cellref).

Record st := {
  internal : nat -> Z;        (* content of each internal part *)
  cache : nat -> Z;           (* content of each memo entry *)
  fresh : nat -> Z;           (* cells owned by the caller *)
  next : nat;                 (* next fresh id *)
  handles : list cellref }.   (* what the caller holds, newest first *)

Definition rd (s : st) (c : cellref) : Z :=
  match c with Internal p => internal s p | Cache k => cache s k | Fresh i => fresh s i end.

Definition upd (f : nat -> Z) (k : nat) (v : Z) : nat -> Z := fun x => if Nat.eqb x k then v else f x.

Definition wr (s : st) (c : cellref) (v : Z) : st :=
  match c with
  | Internal p => {| internal := upd (internal s) p v; cache := cache s; fresh := fresh s; next := next s; handles := handles s |}
  | Cache k => {| internal := internal s; cache := upd (cache s) k v; fresh := fresh s; next := next s; handles := handles s |}
  | Fresh i => {| internal := internal s; cache := cache s; fresh := upd (fresh s) i v; next := next s; handles := handles s |}
  end.

Inductive op :=
| Read (a : nat)               (* call accessor number a and keep what it returned *)
| Write (h : nat) (v : Z)      (* write v into the h-th object the caller holds *)
| RunMethod.                   (* transform / evaluate / == / rank-reversal test on the matrix *)

Section Machine.
  Variable mode : nat -> amode.     (* what each accessor does *)

  Definition step (s : st) (o : op) : st :=
    match o with
    | Read a =>
        match mode a with
        | Copy src =>
            {| internal := internal s; cache := cache s; fresh := upd (fresh s) (next s) (rd s src);
               next := S (next s); handles := Fresh (next s) :: handles s |}
        | Share c =>
            {| internal := internal s; cache := cache s; fresh := fresh s; next := next s;
               handles := c :: handles s |}
        end
    | Write h v => match nth_error (handles s) h with Some c => wr s c v | None => s end
    | RunMethod => s
    end.

  Definition run (s : st) (ops : list op) : st := fold_left step ops s.
End Machine.

(* what the public accessors report: every internal part and every memo entry *)
Definition observe_eq (s t : st) : Prop :=
  (forall p, internal s p = internal t p) /\ (forall k, cache s k = cache t k).

Definition init (i c : nat -> Z) : st :=
  {| internal := i; cache := c; fresh := fun _ => 0%Z; next := 0; handles := [] |}.

(* the accessor surface of the (repaired) implementation, as enumerated by harness/props/c02.py:
   every accessor hands out a copy.  The harness checks that its enumeration has exactly
   [n_accessors] entries and that no public accessor of the real classes is missing from it. *)
Definition n_accessors : nat := 50.
Definition impl_mode (a : nat) : amode := Copy (Internal a).
