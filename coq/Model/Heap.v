(* C02, first clause: "nothing a caller does to arrays handed to a DecisionMatrix constructor ... changes what
   that matrix reports afterwards".  Model/Alias.v treats the object's storage as values; here storage is a
   heap of cells, the object's parts POINT to cells, and the caller keeps the addresses of the arrays he handed
   to the constructor, so that "the constructor kept my array" can be expressed (it is what the harness writes
   into after construction: matrix, weights, objectives, alternatives, criteria - frozen and re-thawed or not). *)
From Coq Require Import ZArith List Bool Arith.
Import ListNotations.

Inductive cmode := CopyIn | Adopt.          (* what the constructor does with the k-th array it is given *)

Record hst := {
  store : nat -> Z;       (* the heap *)
  brk : nat;              (* first unallocated address *)
  field : nat -> nat;     (* address of the cell behind each part of the object *)
  held : list nat }.      (* addresses the caller holds, newest first *)

Definition hupd (f : nat -> Z) (a : nat) (v : Z) : nat -> Z := fun x => if Nat.eqb x a then v else f x.

(* the caller's n arrays live at 0..n-1; the constructor's copies at n..2n-1 *)
Definition construct (cm : nat -> cmode) (n : nat) (input : nat -> Z) : hst :=
  {| store := fun a => if Nat.ltb a n then input a else input (a - n);
     brk := 2 * n;
     field := fun p => match cm p with CopyIn => n + p | Adopt => p end;
     held := seq 0 n |}.

Inductive hop :=
| HRead (p : nat)             (* call the accessor of part p, keep what it returned *)
| HWrite (h : nat) (v : Z)    (* write into the h-th thing the caller holds (his own arrays included) *)
| HRun.                       (* transform / evaluate / compare / rank-reversal test *)

Section HeapMachine.
  Variable copies : nat -> bool.        (* accessor of part p hands out a copy (true) or the cell itself *)

  Definition hstep (s : hst) (o : hop) : hst :=
    match o with
    | HRead p =>
        if copies p then
          {| store := hupd (store s) (brk s) (store s (field s p)); brk := S (brk s); field := field s;
             held := brk s :: held s |}
        else {| store := store s; brk := brk s; field := field s; held := field s p :: held s |}
    | HWrite h v =>
        match nth_error (held s) h with
        | Some a => {| store := hupd (store s) a v; brk := brk s; field := field s; held := held s |}
        | None => s
        end
    | HRun => s
    end.

  Definition hrun (s : hst) (ops : list hop) : hst := fold_left hstep ops s.
End HeapMachine.

(* what the matrix reports about part p *)
Definition report (s : hst) (p : nat) : Z := store s (field s p).

(* the constructor of the (repaired) implementation copies each of the arrays it is given; the harness checks
   that it writes into exactly [n_ctor_inputs] of them *)
Definition n_ctor_inputs : nat := 5.
Definition impl_cmode (k : nat) : cmode := CopyIn.
