(* RankResult.untied_rank_ and the RanksComparator tables.  Definitions only. *)
From Coq Require Import ZArith QArith List Bool Arith.
From SKC Require Import Base.QBool Base.QList Model.Transform Model.Weights.
Import ListNotations.
Local Open Scope nat_scope.

Definition count_lt (x : nat) (r : list nat) : nat := length (filter (fun y => y <? x) r).
Definition count_eq (x : nat) (r : list nat) : nat := length (filter (fun y => y =? x) r).

(* rank without ties: strictly-better alternatives first, ties broken by order of appearance *)
Definition untie_at (r : list nat) (i : nat) : nat :=
  let x := nth i r 0 in 1 + count_lt x r + count_eq x (firstn i r).
Definition untie (r : list nat) : list nat := map (untie_at r) (seq 0 (length r)).

Definition has_ties (r : list nat) : bool :=
  existsb (fun i => existsb (fun j => negb (i =? j) && (nth i r 0 =? nth j r 0)) (seq 0 (length r)))
          (seq 0 (length r)).
(* the property returns rank_ itself when there are no ties *)
Definition untied_rank (r : list nat) : list nat := if has_ties r then untie r else r.

(* the defect repaired by a fix: commit: argsort(rank) + 1, i.e. the sorting permutation *)
Fixpoint insert_idx (r : list nat) (i : nat) (sorted : list nat) : list nat :=
  match sorted with
  | [] => [i]
  | j :: t => if nth i r 0 <? nth j r 0 then i :: sorted else j :: insert_idx r i t
  end.
Definition argsort (r : list nat) : list nat :=
  fold_left (fun acc i => insert_idx r i acc) (seq 0 (length r)) [].
Definition argsort_plus_1 (r : list nat) : list nat := map S (argsort r).

Local Open Scope Q_scope.
(* ---- comparator tables over rankings given as (label, rank) association lists ---------------- *)
(* cell of the frame: the rank of the alternative named [a] under ranking [rk] *)
Fixpoint lookup (a : Z) (rk : list (Z * nat)%type) : option nat :=
  match rk with
  | [] => None
  | (b, v) :: t => if Z.eqb a b then Some v else lookup a t
  end.
(* column of a ranking aligned to a reference order of alternative names *)
Definition aligned (names : list Z) (rk : list (Z * nat)%type) : list Q :=
  map (fun a => match lookup a rk with Some v => inject_Z (Z.of_nat v) | None => 0 end) names.

(* sample covariance (pandas cov, ddof = 1) *)
Definition scov (v u : list Q) : Q :=
  let mv := mean v in let mu := mean u in
  qsum (map2 (fun x y => (x - mv) * (y - mu)) v u) / (qn v - 1).
(* hamming distance: fraction of positions that differ *)
Definition hamming (v u : list Q) : Q :=
  qsum (map2 (fun x y => if Qeqb x y then 0 else 1) v u) / qn v.
(* R2 of u as a prediction of v *)
Definition r2 (v u : list Q) : Q :=
  let mv := mean v in
  1 - qsum (map2 (fun x y => (x - y) * (x - y)) v u) / qsum (map (fun x => (x - mv) * (x - mv)) v).

(* a comparator table: one row and one column per ranking, cell = the measure of the two rankings *)
Definition cmp_table {A} (f : list Q -> list Q -> A) (cs : list (list Q)) : list (list A) :=
  map (fun v => map (fun u => f v u) cs) cs.
