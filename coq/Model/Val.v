(* Universal value type crossing the model/harness boundary, with decoders
   and encoders.  All per-entry-point glue lives in Coq (type checked); the
   OCaml driver only parses and prints [val]. *)
From Coq Require Import ZArith QArith List String.
Import ListNotations.

Inductive val : Type :=
| VZ (z : Z)
| VQ (q : Q)
| VB (b : bool)
| VL (l : list val)
| VE (code : Z).

(* error codes shared with the harness *)
Definition E_DECODE : Z := 99.
Definition E_VALUE : Z := 1.     (* ValueError *)
Definition E_KEY : Z := 2.       (* KeyError / IndexError *)
Definition E_TYPE : Z := 3.      (* TypeError / AttributeError *)
Definition E_FUEL : Z := 7.      (* fuel exhausted (never expected) *)
Definition E_NOFN : Z := 98.

Fixpoint mapM {A B} (f : A -> option B) (l : list A) : option (list B) :=
  match l with
  | [] => Some []
  | x :: t => match f x, mapM f t with
              | Some y, Some ys => Some (y :: ys)
              | _, _ => None
              end
  end.

Definition dZ (v : val) : option Z := match v with VZ z => Some z | _ => None end.
Definition dQ (v : val) : option Q :=
  match v with VQ q => Some q | VZ z => Some (inject_Z z) | _ => None end.
Definition dB (v : val) : option bool := match v with VB b => Some b | _ => None end.
Definition dN (v : val) : option nat :=
  match v with VZ z => if (0 <=? z)%Z then Some (Z.to_nat z) else None | _ => None end.
Definition dV (v : val) : option val := Some v.
Definition dL {A} (d : val -> option A) (v : val) : option (list A) :=
  match v with VL l => mapM d l | _ => None end.
Definition dO {A} (d : val -> option A) (v : val) : option (option A) :=
  match v with
  | VL [] => Some None
  | VL [x] => match d x with Some a => Some (Some a) | None => None end
  | _ => None
  end.
Definition dP2 {A B} (da : val -> option A) (db : val -> option B) (v : val) : option (A * B) :=
  match v with
  | VL [a; b] => match da a, db b with Some x, Some y => Some (x, y) | _, _ => None end
  | _ => None
  end.
Definition dP3 {A B C} (da : val -> option A) (db : val -> option B) (dc : val -> option C)
  (v : val) : option (A * B * C) :=
  match v with
  | VL [a; b; c] => match da a, db b, dc c with
                    | Some x, Some y, Some z => Some (x, y, z) | _, _, _ => None end
  | _ => None
  end.
Definition dP4 {A B C D} (da : val -> option A) (db : val -> option B) (dc : val -> option C)
  (dd : val -> option D) (v : val) : option (A * B * C * D) :=
  match v with
  | VL [a; b; c; d] => match da a, db b, dc c, dd d with
                       | Some x, Some y, Some z, Some w => Some (x, y, z, w)
                       | _, _, _, _ => None end
  | _ => None
  end.
Definition dP5 {A B C D F} (da : val -> option A) (db : val -> option B) (dc : val -> option C)
  (dd : val -> option D) (df : val -> option F) (v : val) : option (A * B * C * D * F) :=
  match v with
  | VL [a; b; c; d; f] => match da a, db b, dc c, dd d, df f with
                       | Some x, Some y, Some z, Some w, Some u => Some (x, y, z, w, u)
                       | _, _, _, _, _ => None end
  | _ => None
  end.

Definition eZ (z : Z) : val := VZ z.
Definition eN (n : nat) : val := VZ (Z.of_nat n).
Definition eQ (q : Q) : val := VQ q.
Definition eB (b : bool) : val := VB b.
Definition eL {A} (e : A -> val) (l : list A) : val := VL (map e l).
Definition eO {A} (e : A -> val) (o : option A) : val :=
  match o with None => VL [] | Some a => VL [e a] end.
Definition eP2 {A B} (ea : A -> val) (eb : B -> val) (p : A * B) : val :=
  VL [ea (fst p); eb (snd p)].

(* run a decoder, then a function *)
Definition with_arg {A} (d : val -> option A) (f : A -> val) (v : val) : val :=
  match d v with Some a => f a | None => VE E_DECODE end.
