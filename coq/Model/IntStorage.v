(* Criteria stored in fixed-width signed integers: arithmetic done in the storage type wraps around.
   [wrap bits x] is x read back from a signed integer of [bits] bits. *)
From Coq Require Import ZArith List.
Import ListNotations.

Definition wrap (bits : positive) (x : Z) : Z :=
  let h := Z.pow 2 (Z.pos bits - 1) in ((x + h) mod (2 * h) - h)%Z.
Definition zmin (v : list Z) : Z := fold_right Z.min (hd 0%Z v) v.
Definition push_neg_wrapped (bits : positive) (v : list Z) : list Z :=
  let mn := zmin v in if (mn <? 0)%Z then map (fun x => wrap bits (x - mn)) v else v.
Definition push_neg_Z (v : list Z) : list Z :=
  let mn := zmin v in if (mn <? 0)%Z then map (fun x => (x - mn)%Z) v else v.

