(* SIMUS (skcriteria/agg/simus.py, utils/lp.py): the stage linear programs, a certificate
   checker for their optimal solutions, and the scoring formulas.  Definitions only. *)
From Coq Require Import ZArith QArith List Bool Arith.
From SKC Require Import Base.QBool Base.QList Base.QRank Model.Electre.
Import ListNotations.

(* ---- linear programs in the form  max c.x  s.t.  A x <= b, x >= 0 ---------------------------- *)
Record lp := { lp_c : list Q; lp_A : list (list Q); lp_b : list Q }.

Definition mv (A : list (list Q)) (x : list Q) : list Q := map (fun r => dot r x) A.
(* y^T A as a vector of length n: sum_i y_i * row_i *)
Fixpoint ytA (n : nat) (y : list Q) (A : list (list Q)) : list Q :=
  match y, A with
  | yi :: y', r :: A' => map2 Qplus (map (Qmult yi) r) (ytA n y' A')
  | _, _ => repeat 0 n
  end.

Fixpoint all_le (a b : list Q) : bool :=
  match a, b with
  | [], [] => true
  | x :: ta, y :: tb => Qleb x y && all_le ta tb
  | _, _ => false
  end.
Definition nonneg (x : list Q) : bool := forallb (fun v => Qleb 0 v) x.
Definition rows_len (n : nat) (A : list (list Q)) : bool := forallb (fun r => Nat.eqb (length r) n) A.

Definition feasible (p : lp) (x : list Q) : bool :=
  Nat.eqb (length x) (length (lp_c p)) && nonneg x && all_le (mv (lp_A p) x) (lp_b p).

(* (x, y) is a primal/dual pair with equal objective values *)
Definition check_cert (p : lp) (x y : list Q) : bool :=
  let n := length (lp_c p) in
  rows_len n (lp_A p) && Nat.eqb (length y) (length (lp_A p)) && Nat.eqb (length (lp_b p)) (length (lp_A p)) &&
  feasible p x && nonneg y && all_le (lp_c p) (ytA n y (lp_A p)) &&
  Qeqb (dot (lp_c p) x) (dot y (lp_b p)).

(* ---- the SIMUS stage for criterion z ---------------------------------------------------------------
   tm  : the transposed matrix (one row per criterion, one column per alternative)
   objs: true = maximise;  bv: the right-hand sides (user-supplied or defaulted)
   optimise criterion z subject to every other criterion k:  row_k . x <= b_k (maximise) or >= b_k (minimise) *)
Definition default_b (objs : list bool) (tm : list (list Q)) (user : list (option Q)) : list Q :=
  map3 (fun (o : bool) r u => match u with Some v => v | None => if o then lmax r else lmin r end) objs tm user.

Definition neg_row (r : list Q) : list Q := map Qopp r.

Fixpoint others {A} (z : nat) (l : list A) : list A :=
  match l, z with
  | [], _ => []
  | _ :: t, O => t
  | x :: t, S z' => x :: others z' t
  end.

Definition stage_lp (objs : list bool) (tm : list (list Q)) (bv : list Q) (z : nat) : lp :=
  let oz := nth z objs true in
  let rz := nth z tm [] in
  let rows := others z (map3 (fun (o : bool) r b => if o then (r, b) else (neg_row r, - b)) objs tm bv) in
  {| lp_c := if oz then rz else neg_row rz; lp_A := map fst rows; lp_b := map snd rows |}.
(* the stage's objective value in the criterion's own sense *)
Definition stage_value (objs : list bool) (tm : list (list Q)) (z : nat) (x : list Q) : Q := dot (nth z tm []) x.

(* ---- scoring ------------------------------------------------------------------------------------------ *)
Definition normalise_row (r : list Q) : list Q :=
  let s := qsum r in if Qeqb s 0 then map (fun _ => 0) r else map (fun v => v / s) r.

Definition col_of {A} (d : A) (rows : list (list A)) (j : nat) : list A := map (fun r => nth j r d) rows.

(* first method: (sum of the column) * (fraction of stages in which the alternative is positive) *)
Definition first_method (n : nat) (sr : list (list Q)) : list Q :=
  map (fun j => let c := col_of 0 sr j in
                qsum c * (inject_Z (Z.of_nat (length (filter (fun v => Qltb 0 v) c))) /
                          inject_Z (Z.of_nat (length sr))))
      (seq 0 n).

(* second method: dominance table, domination (row sums), subordination (column sums), score *)
Definition dom_by_crit (crit : list Q) : list (list Q) :=
  map (fun a => map (fun b => let d := a - b in if Qltb d 0 then 0 else d) crit) crit.
Definition add_tables (t u : list (list Q)) : list (list Q) := map2 (map2 Qplus) t u.
Definition zero_table (n : nat) : list (list Q) := repeat (repeat 0 n) n.
Definition dominance_table (n : nat) (sr : list (list Q)) : list (list Q) :=
  fold_left (fun acc crit => add_tables acc (dom_by_crit crit)) sr (zero_table n).
Definition second_method (n : nat) (sr : list (list Q)) : list Q * list Q * list Q * list (list Q) :=
  let d := dominance_table n sr in
  let p := map qsum d in
  let s := map (fun j => qsum (col_of 0 d j)) (seq 0 n) in
  (map2 Qminus p s, p, s, d).

(* ---- crediting values to alternatives ------------------------------------------------------------------- *)
(* PuLP lists the variables x0..x{n-1} sorted by NAME as text; the repaired code sorts them
   naturally, i.e. the value at position i belongs to alternative i *)
Fixpoint digits_of (fuel n : nat) (acc : list nat) : list nat :=
  match fuel with
  | O => acc
  | S f => let acc' := (n mod 10) :: acc in if n / 10 =? 0 then acc' else digits_of f (n / 10) acc'
  end.
Fixpoint lex_ltb (a b : list nat) : bool :=
  match a, b with
  | [], [] => false
  | [], _ => true
  | _, [] => false
  | x :: ta, y :: tb => if x <? y then true else if y <? x then false else lex_ltb ta tb
  end.
Fixpoint insert_by (ltb : nat -> nat -> bool) (i : nat) (l : list nat) : list nat :=
  match l with
  | [] => [i]
  | j :: t => if ltb i j then i :: l else j :: insert_by ltb i t
  end.
(* order in which name-sorted variables are listed *)
Definition name_sorted (n : nat) : list nat :=
  fold_right (insert_by (fun i j => lex_ltb (digits_of (S i) i []) (digits_of (S j) j []))) [] (seq 0 n).
(* value vector as the unrepaired code read it: position k holds the value of variable name_sorted[k] *)
Definition credit_sorted (vals : list Q) : list Q := map (fun i => nth i vals 0) (name_sorted (length vals)).
Definition credit_by_index (vals : list Q) : list Q := vals.
