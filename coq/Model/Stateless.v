(* Methods are stateless (C20): the only state of a method object is its parameters; applying it
   returns an output (possibly an error) and leaves the object as it was. *)
From Coq Require Import List.
Import ListNotations.

Section Stateless.
  Variables P D O : Type.            (* parameters, decision matrices, outputs incl. raised errors *)
  Variable apply : P -> D -> O.

  Definition step (s : P) (d : D) : P * O := (s, apply s d).

  Fixpoint run (s : P) (ds : list D) : P * list O :=
    match ds with
    | [] => (s, [])
    | d :: t => let (s1, o) := step s d in let (s2, os) := run s1 t in (s2, o :: os)
    end.
End Stateless.
Arguments step {P D O}.
Arguments run {P D O}.
