(* Methods are stateless (C20): the only state of a method object is its parameters; applying it
   returns an output (possibly an error) and leaves the object as it was. *)
From Coq Require Import List.
Import ListNotations.

Section Stateless.
  Variables P D O : Type.            (* parameters, decision matrices, outputs incl. raised errors *)
  Variable apply : P -> D -> O.

  Definition step (s : P) (d : D) : P * O := (s, apply s d).

  Fixpoint run (s : P) (ds : list D) : P * list O :=
    match ds with
    | [] => (s, [])
    | d :: t => let (s1, o) := step s d in let (s2, os) := run s1 t in (s2, o :: os)
    end.
End Stateless.
Arguments step {P D O}.
Arguments run {P D O}.

(* The general situation the check is about: an object MAY carry hidden state h next to its parameters p (a cache, a
   fitted estimator kept from an earlier call, a keyword left behind by a call that raised).  `out` is what a call
   returns (or raises), `next` what it leaves behind, `h0 p` the hidden state of a freshly built object. *)
Section Hidden.
  Variables P H D O : Type.
  Variable out : P -> H -> D -> O.
  Variable next : P -> H -> D -> H.
  Variable h0 : P -> H.

  Definition after (p : P) (ds : list D) : H := fold_left (next p) ds (h0 p).
  (* what the probe returns when it is the call made after the history ds *)
  Definition probe_after (p : P) (ds : list D) (probe : D) : O := out p (after p ds) probe.
  Definition fresh (p : P) (probe : D) : O := out p (h0 p) probe.
  (* no hidden state that some history can produce changes any output *)
  Definition state_blind (p : P) : Prop := forall ds d, out p (after p ds) d = out p (h0 p) d.
End Hidden.
Arguments after {P H D}.
Arguments probe_after {P H D O}.
Arguments fresh {P H D O}.
Arguments state_blind {P H D O}.
