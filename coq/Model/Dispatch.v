(* Entry points of the executable model, by name.  Used both by the extracted
   OCaml driver and by vm_compute in generated cases files. *)
From Coq Require Import ZArith QArith List String Bool.
From SKC Require Import Model.Val Base.QRank Model.Dominance.
Import ListNotations.
Local Open Scope string_scope.

Definition dMatrix := dL (dL dQ).
Definition eTable {A} (e : A -> val) (t : list (list A)) : val := eL (eL e) t.

(* C07: everything the dominance accessor reports, for one matrix *)
Definition run_dominance (arg : list bool * list (list Q)) : val :=
  let (objs, rows) := arg in
  let n := List.length rows in
  let dom s i j := dom_cell s objs rows i j in
  let doms s a := eO (eL eN) (dominators_of (S n) (dom s) n a) in
  VL [ eTable eN (table n (bt_cell objs rows));
       eTable eN (table n (eq_cell objs rows));
       eTable eB (table n (dom false));
       eTable eB (table n (dom true));
       eL eB (dominated false objs rows);
       eL eB (dominated true objs rows);
       eL (doms false) (seq 0 n);
       eL (doms true) (seq 0 n);
       eB (has_loops (dom false) n);
       eB (has_loops (dom true) n);
       eTable (fun p => let '((w0, w1, we), (p0, p1, pe)) := p in
                        VL [eL eB w0; eL eB w1; eL eB we; eN p0; eN p1; eN pe])
              (table n (fun i j => if Nat.eqb i j then (([], [], []), (0, 0, 0))%nat
                                   else compare_cell objs rows i j)) ].

(* C03: rank_values *)
Definition run_rank (arg : bool * list Q) : val :=
  let (rev, xs) := arg in eL eN (rank_values rev xs).

Definition dispatch (fn : string) (arg : val) : val :=
  if fn =? "dominance" then with_arg (dP2 (dL dB) dMatrix) run_dominance arg
  else if fn =? "rank" then with_arg (dP2 dB (dL dQ)) run_rank arg
  else VE E_NOFN.
