(* Entry points of the executable model, by name.  Used both by the extracted
   OCaml driver and by vm_compute in generated cases files. *)
From Coq Require Import ZArith QArith List String Bool.
From SKC Require Import Model.Val Base.QBool Base.QList Base.QRank Model.Dominance Model.Agg Model.Electre Model.Result Model.Select Model.Transform Model.Weights Model.Filters Model.Untie Model.Diff Model.Pipeline Model.Impute Model.RRT Model.Simus.
From SKC Require Model.Alias Model.Heap Model.IntStorage.
Import ListNotations.
Local Open Scope string_scope.

Definition dMatrix := dL (dL dQ).
Definition eTable {A} (e : A -> val) (t : list (list A)) : val := eL (eL e) t.

(* C07: everything the dominance accessor reports, for one matrix *)
Definition run_dominance (arg : list bool * list (list Q)) : val :=
  let (objs, rows) := arg in
  let n := List.length rows in
  let dom s i j := dom_cell s objs rows i j in
  let doms s a := eO (eL eN) (dominators_of (S n) (dom s) n a) in
  VL [ eTable eN (table n (bt_cell objs rows));
       eTable eN (table n (eq_cell objs rows));
       eTable eB (table n (dom false));
       eTable eB (table n (dom true));
       eL eB (dominated false objs rows);
       eL eB (dominated true objs rows);
       eL (doms false) (seq 0 n);
       eL (doms true) (seq 0 n);
       eB (has_loops (dom false) n);
       eB (has_loops (dom true) n);
       eTable (fun p => let '((w0, w1, we), (p0, p1, pe)) := p in
                        VL [eL eB w0; eL eB w1; eL eB we; eN p0; eN p1; eN pe])
              (table n (fun i j => if Nat.eqb i j then (([], [], []), (0, 0, 0))%nat
                                   else compare_cell objs rows i j)) ].

(* C03: rank_values *)
Definition run_rank (arg : bool * list Q) : val :=
  let (rev, xs) := arg in eL eN (rank_values rev xs).

(* ---- aggregation kernels (C03-C06) ----------------------------------- *)
Definition eRes {A} (e : A -> val) (r : result A) : val :=
  match r with Ok a => e a | Err c => VE c end.
Definition dDM := dP3 (dL dB) (dL dQ) dMatrix.

Definition run_wsm (a : list bool * list Q * list (list Q)) : val :=
  let '(objs, w, rows) := a in
  eRes (fun p => VL [eL eN (fst p); eL eQ (snd p)]) (wsm objs w rows).
Definition run_ratio (a : list bool * list Q * list (list Q)) : val :=
  let '(objs, w, rows) := a in
  let p := ratio objs w rows in VL [eL eN (fst p); eL eQ (snd p)].
Definition run_refpoint (a : list bool * list Q * list (list Q)) : val :=
  let '(objs, w, rows) := a in
  let '(r, s, rp) := refpoint objs w rows in VL [eL eN r; eL eQ s; eL eQ rp].
Definition metric_of (z : Z) : metric :=
  if (z =? 0)%Z then Cityblock else if (z =? 1)%Z then SqEuclidean
  else if (z =? 2)%Z then Chebyshev else Euclidean.
Definition run_topsis (a : Z * list bool * list Q * list (list Q)) : val :=
  let '(mz, objs, w, rows) := a in
  let mt := metric_of mz in
  let c := topsis_core mt objs w rows in
  VL [eL eQ (t_ideal c); eL eQ (t_anti c); eL eQ (t_dbetter c); eL eQ (t_dworst c);
      match mt with
      | Euclidean => VL []
      | _ => eRes (fun p => VL [eL eN (fst p); eL eQ (snd p)]) (topsis_rational mt objs w rows)
      end].
Definition run_wpm_domain (a : list bool * list (list Q)) : val :=
  eB (wpm_domain (fst a) (snd a)).
Definition run_fmf (a : list bool * list Q * list (list Q)) : val :=
  let '(objs, w, rows) := a in
  VL [eB (fmf_domain rows); eQ (fmf_offset objs);
      eL (fun r => eL (fun t => VL [eB (fst t); eQ (snd t)]) (fmf_terms objs w r)) rows].
Definition run_mm_score (rm : list (list nat)) : val := eL eN (mm_score rm).
Definition run_rank_matrix (a : list nat * list nat * list nat) : val :=
  let '(r1, r2, r3) := a in eL (eL eN) (rank_matrix r1 r2 r3).

(* ---- ELECTRE (C03, C08) ---------------------------------------------------- *)
Definition dBT := dL (dL dB).
Definition run_kernel (t : list (list bool)) : val := eL eB (kernel (List.length t) t).
Definition run_electre_tables (a : list bool * list Q * list (list Q)) : val :=
  let '(objs, w, rows) := a in
  VL [eTable eQ (concordance objs w rows); eTable eQ (discordance objs rows);
      eTable eB (wor_table (wor_spec_cell objs w) rows);
      eTable eB (wor_table (wor_called_cell objs w) rows)].
Definition run_outrank (a : Q * Q * list (list Q) * list (list Q)) : val :=
  let '(p, q, conc, disc) := a in
  eTable eB (outrank_of (List.length conc) p q conc disc).
Definition run_electre2_rel
  (a : list Q * list (list Q) * list (list Q) * list (list bool)) : val :=
  let '(th, conc, disc, wor) := a in
  match th with
  | [p0; p1; p2; q0; q1] =>
      let n := List.length conc in
      VL [eTable eB (outrank_s_of n p0 p1 q0 q1 conc disc wor);
          eTable eB (outrank_w_of n p2 q0 conc disc wor)]
  | _ => VE E_DECODE
  end.
Definition run_electre2_rank (a : list (list bool) * list (list bool)) : val :=
  let (s, w) := a in
  match electre2_rank (List.length s) s w with
  | Some (d, i, sc, r) => VL [eL eN d; eL eN i; eL eQ sc; eL eN r]
  | None => VE E_FUEL
  end.

(* ---- C01: selection chains -------------------------------------------------------- *)
Definition dSel (v : val) : option sel :=
  match v with
  | VL [VZ 0] => Some SAll
  | VL [VZ 1; ls] => option_map SLabels (dL dZ ls)
  | VL [VZ 2; VZ a; VZ b; VB r] => Some (SLabelSlice a b r)
  | VL [VZ 3; ps] => option_map SPosList (dL dN ps)
  | VL [VZ 4; VZ a; VZ b; VZ st] => Some (SPosRange a b st)
  | VL [VZ 5; bs] => option_map SMask (dL dB bs)
  | _ => None
  end%Z.
Definition dOp (v : val) : option op :=
  match v with
  | VL [VZ 0; r; c] => match dSel r, dSel c with Some x, Some y => Some (OSel x y) | _, _ => None end
  | VL [VZ 1] => Some OCopy
  | VL [VZ 2] => Some ORoundTrip
  | _ => None
  end%Z.
Definition dDmx (v : val) : option dmx :=
  match v with
  | VL [a; c; m; o; w; t] =>
      match dL dZ a, dL dZ c, dMatrix m, dL dB o, dL dQ w, dL dZ t with
      | Some a', Some c', Some m', Some o', Some w', Some t' =>
          Some {| alts := a'; crits := c'; cells := m'; objs := o'; wts := w'; dts := t' |}
      | _, _, _, _, _, _ => None
      end
  | _ => None
  end.
Definition eDmx (d : dmx) : val :=
  VL [eL eZ (alts d); eL eZ (crits d); eTable eQ (cells d); eL eB (objs d); eL eQ (wts d); eL eZ (dts d)].
Definition run_select (a : dmx * list op) : val :=
  eRes eDmx (run_ops (snd a) (fst a)).
Definition run_alias (c : Z) : val := eO eB (alias_sense c).

(* ---- C10-C12: transformers ------------------------------------------------------------ *)
Definition scaler_of (code : Z) (ps : list Q) : option (list Q -> list Q) :=
  match code, ps with
  | 0, _ => Some sum_scale
  | 1, _ => Some maxabs_scale
  | 2, [lo; hi] => Some (minmax_scale lo hi)
  | 3, _ => Some push_neg
  | 4, [e] => Some (add_zero e)
  | _, _ => None
  end%Z.
(* (code, params, target 0 matrix / 1 weights / 2 both, m, rows, weights) -> (rows', weights') *)
Definition run_scale (a : Z * list Q * Z * list (list Q) * list Q) : val :=
  let '(code, ps, tgt, rows, w) := a in
  match scaler_of code ps with
  | None => VE E_DECODE
  | Some f =>
      let m := List.length w in
      let rows' := if (tgt =? 1)%Z then rows else on_matrix m f rows in
      let w' := if (tgt =? 0)%Z then w else on_weights f w in
      VL [eTable eQ rows'; eL eQ w']
  end.
Definition run_cenit (a : list bool * list (list Q)) : val :=
  eTable eQ (cenit_matrix (fst a) (snd a)).
(* inverters: 0 negate, 1 reciprocal *)
Definition run_invert (a : Z * list bool * list (list Q)) : val :=
  let '(code, objs, rows) := a in
  let f := if (code =? 0)%Z then Qopp else Qinv in
  VL [eTable eQ (invert_matrix f objs rows); eL eB (map (fun _ => true) objs)].
(* rational cores of the irrational scalers, per vector: sumsq, mean, population variance *)
Definition run_cores (v : list Q) : val := VL [eQ (sumsq v); eQ (mean v); eQ (pvar v)].
Definition run_equal_weights (a : Q * nat) : val := eL eQ (equal_weights (fst a) (snd a)).
Definition kind_of (code : Z) : kind :=
  if (code =? 0)%Z then KScaler TMatrix else if (code =? 1)%Z then KScaler TWeights
  else if (code =? 2)%Z then KScaler TBoth else if (code =? 3)%Z then KCenit
  else if (code =? 4)%Z then KInverter else if (code =? 5)%Z then KWeighter
  else if (code =? 6)%Z then KFilter else KImputer.
Definition part_of (code : Z) : part :=
  if (code =? 0)%Z then PAlts else if (code =? 1)%Z then PCrits else if (code =? 2)%Z then PObjs
  else if (code =? 3)%Z then PWts else PMatrix.
Definition run_frame_user (codes : list Z) : val :=
  eL (fun p => eB (declares (KUser (map part_of codes)) p)) [PAlts; PCrits; PObjs; PWts; PMatrix].
Definition run_frame (code : Z) : val :=
  eL (fun p => eB (declares (kind_of code) p)) [PAlts; PCrits; PObjs; PWts; PMatrix].

(* ---- C13: rational cores of the weighters --------------------------------------------- *)
Definition run_weight_cores (a : list bool * list (list Q) * bool * bool) : val :=
  let '(objs, rows, scale, spearman) := a in
  let m := List.length objs in
  let raw := cols m rows in
  (* cells are reduced to lowest terms first (Qred q == q): same values, smaller numerals *)
  let M := if scale then map (map Qred) (cols m (cenit_matrix objs rows)) else raw in
  let R := if spearman then map avg_rank M else M in
  VL [eL eQ (map svar_r raw); eL eQ (map pvar_r M); eL eQ (map pvar_r R); eTable eQ (cov_matrix_r R);
      eTable eQ (map probs raw)].

(* ---- C14: filters ------------------------------------------------------------------------ *)
Definition dCond (v : val) : option cond :=
  match v with
  | VL [VZ 0; x] => option_map CGt (dQ x) | VL [VZ 1; x] => option_map CGe (dQ x)
  | VL [VZ 2; x] => option_map CLt (dQ x) | VL [VZ 3; x] => option_map CLe (dQ x)
  | VL [VZ 4; x] => option_map CEq (dQ x) | VL [VZ 5; x] => option_map CNe (dQ x)
  | VL [VZ 6; s] => option_map CIn (dL dQ s) | VL [VZ 7; s] => option_map CNotIn (dL dQ s)
  | VL [VZ 8; VZ k] => Some (CFn k)
  | _ => None
  end%Z.
Definition run_filter (a : list Z * list (Z * cond) * bool * list (list Q)) : val :=
  let '(crits, conds, ignore, rows) := a in
  eRes (eL eB) (filter_impl crits conds ignore rows).
Definition run_nondominated (a : bool * list bool * list (list Q)) : val :=
  let '(strict, objs, rows) := a in eL eB (nondominated strict objs rows).

(* ---- C18: untied ranks and comparator tables ------------------------------------------------ *)
Definition run_untie (r : list nat) : val := eL eN (untied_rank r).
(* names (reference order), rankings as lists of (label, rank) -> frame columns + cov/hamming/r2 tables *)
Definition run_cmp (a : list Z * list (list (Z * nat))) : val :=
  let (names, rks) := a in
  let cs := map (aligned names) rks in
  VL [eTable eQ cs;
      eTable eQ (cmp_table (fun v u => Qred (scov v u)) cs);
      eTable eQ (cmp_table (fun v u => Qred (hamming v u)) cs);
      eTable eQ (cmp_table (fun v u => Qred (cov_r v u)) cs);
      eL eQ (map pvar_r cs)].

(* ---- C17: equality and diff ------------------------------------------------------------------ *)
Definition dRes (v : val) : option resv :=
  match v with
  | VL [VB k; VZ m; a; vs; e] =>
      match dL dZ a, dL dQ vs, dL (dP2 dZ (dL dQ)) e with
      | Some a', Some vs', Some e' =>
          Some {| r_kernel := k; r_method := m; r_alts := a'; r_vals := vs'; r_extra := e' |}
      | _, _, _ => None
      end
  | _ => None
  end.
Definition dObj (v : val) : option obj :=
  match v with
  | VL [VZ 1; a; c; o; w; m; t] =>
      match dL dZ a, dL dZ c, dL dB o, dL dQ w, dMatrix m, dL dZ t with
      | Some a', Some c', Some o', Some w', Some m', Some t' =>
          Some (ODM {| d_alts := a'; d_crits := c'; d_objs := o'; d_wts := w'; d_cells := m'; d_dts := t' |})
      | _, _, _, _, _, _ => None
      end
  | VL [VZ 2; r] => option_map ORes (dRes r)
  | VL [VZ 4; rs] => option_map OCmp (dL (dP2 dZ dRes) rs)
  | VL [VZ 9; VZ t] => Some (OOther t)
  | _ => None
  end%Z.
Definition member_code (m : member) : Z :=
  match m with
  | MShape => 0 | MCriteria => 1 | MAlternatives => 2 | MObjectives => 3 | MWeights => 4 | MMatrix => 5
  | MDtypes => 6 | MMethod => 7 | MValues => 8 | MExtra => 9 | MRanks => 10
  end%Z.
Definition run_diff (a : Q * Q * bool * obj * obj) : val :=
  let '(rt, at_, cd, x, y) := a in
  let d := Model.Diff.diff {| rtol := rt; atol := at_ |} cd x y in
  VL [eB (fst d); eL (fun m => eZ (member_code m)) (snd d);
      eB (equals x y); eB (neb x y); eB (aequals {| rtol := rt; atol := at_ |} x y)].

(* ---- C16: unique step names, parameter round trip ------------------------------------------- *)
Definition run_unique_names (ns : list (list Z)) : val := eL (eL eZ) (unique_names ns).
Definition run_copy_with (a : list (Z * Z) * list (Z * Z)) : val :=
  eL (fun kv => VL [eZ (fst kv); eZ (snd kv)]) (copy_with (fst a) (snd a)).

(* ---- C15: SimpleImputer on columns of optional cells ------------------------------------------- *)
Definition run_simple_impute (a : Z * Q * list (list (option Q))) : val :=
  let '(code, v, columns) := a in
  let s := if (code =? 0)%Z then SMean else if (code =? 1)%Z then SMedian
           else if (code =? 2)%Z then SMode else SConst v in
  VL [eTable eQ (simple_impute s columns); eL (fun c => eQ (fill_value s c)) columns].

(* ---- C19: rank reversal test ---------------------------------------------------------------------- *)
Definition run_rrt (a : list bool * list (list Q) * Z * list Q * list (nat * list Q)) : val :=
  let '(objs, rows, code, given, noises) := a in
  let s := if (code =? 0)%Z then LMedian else if (code =? 1)%Z then LMean else LGiven given in
  let bounds := max_abs_noises s (List.length objs) rows in
  VL [eTable eQ bounds;
      eL (fun kn => eB (noise_ok objs (nth (fst kn) bounds []) (snd kn))) noises].
Definition run_schedule (a : list Z * nat) : val :=
  eL (fun p => VL [eN (fst p); eZ (snd p)]) (schedule (fst a) (snd a)).

(* ---- C09: SIMUS ------------------------------------------------------------------------------------ *)
Definition eLp (p : lp) : val := VL [eL eQ (lp_c p); eTable eQ (lp_A p); eL eQ (lp_b p)].
Definition dStage := dP4 (dL dB) dMatrix (dL (dO dQ)) dN.
Definition run_stage_lp (a : list bool * list (list Q) * list (option Q) * nat) : val :=
  let '(objs, tm, user, z) := a in
  let bv := default_b objs tm user in
  VL [eLp (stage_lp objs tm bv z); eL eQ bv].
Definition run_check_cert (a : (list bool * list (list Q) * list (option Q) * nat) * list Q * list Q) : val :=
  let '((objs, tm, user, z), x, y) := a in
  let p := stage_lp objs tm (default_b objs tm user) z in
  VL [eB (check_cert p x y); eQ (stage_value objs tm z x)].
(* A x, b, c.x for a credited value vector (the harness applies the tolerance) *)
Definition run_stage_eval (a : (list bool * list (list Q) * list (option Q) * nat) * list Q) : val :=
  let '((objs, tm, user, z), x) := a in
  let p := stage_lp objs tm (default_b objs tm user) z in
  VL [eL eQ (mv (lp_A p) x); eL eQ (lp_b p); eQ (stage_value objs tm z x)].
Definition run_simus_scores (a : nat * list (list Q)) : val :=
  let (n, sr) := a in
  let '(sc, p, s, d) := second_method n sr in
  VL [eL eQ (first_method n sr); eL eQ sc; eL eQ p; eL eQ s; eTable eQ d].
Definition run_normalise_rows (rs : list (list Q)) : val := eTable eQ (map normalise_row rs).
Definition run_credit_sorted (vals : list Q) : val := eL eQ (credit_sorted vals).

(* ---- C02: the enumerated accessor surface ------------------------------------------------------------ *)
Definition run_accessor_surface (u : Z) : val :=
  VL [eN Model.Alias.n_accessors;
      eL (fun a => match Model.Alias.impl_mode a with Model.Alias.Copy _ => VB true | Model.Alias.Share _ => VB false end)
         (seq 0 Model.Alias.n_accessors)].

(* ... and the arrays the constructor is given (Model/Heap.v) *)
Definition run_ctor_surface (u : Z) : val :=
  VL [eN Model.Heap.n_ctor_inputs;
      eL (fun k => match Model.Heap.impl_cmode k with Model.Heap.CopyIn => VB true | Model.Heap.Adopt => VB false end)
         (seq 0 Model.Heap.n_ctor_inputs)].

(* C11: PushNegatives on a criterion stored in signed integers of the given width (the repaired code: 64) *)
Definition run_push_neg_int (a : Z * list Z) : val :=
  let (bits, v) := a in
  match bits with
  | Zpos b => eL eZ (Model.IntStorage.push_neg_wrapped b v)
  | _ => VE 0%Z
  end.

Definition dispatch (fn : string) (arg : val) : val :=
  if fn =? "dominance" then with_arg (dP2 (dL dB) dMatrix) run_dominance arg
  else if fn =? "rank" then with_arg (dP2 dB (dL dQ)) run_rank arg
  else if fn =? "validate_rank" then with_arg (dL dZ) (fun vs => eB (validate_rank vs)) arg
  else if fn =? "select" then with_arg (dP2 dDmx (dL dOp)) run_select arg
  else if fn =? "alias" then with_arg dZ run_alias arg
  else if fn =? "scale" then with_arg (dP5 dZ (dL dQ) dZ dMatrix (dL dQ)) run_scale arg
  else if fn =? "cenit" then with_arg (dP2 (dL dB) dMatrix) run_cenit arg
  else if fn =? "invert" then with_arg (dP3 dZ (dL dB) dMatrix) run_invert arg
  else if fn =? "cores" then with_arg (dL dQ) run_cores arg
  else if fn =? "equal_weights" then with_arg (dP2 dQ dN) run_equal_weights arg
  else if fn =? "frame" then with_arg dZ run_frame arg
  else if fn =? "frame_user" then with_arg (dL dZ) run_frame_user arg
  else if fn =? "weight_cores" then with_arg (dP4 (dL dB) dMatrix dB dB) run_weight_cores arg
  else if fn =? "filter" then with_arg (dP4 (dL dZ) (dL (dP2 dZ dCond)) dB dMatrix) run_filter arg
  else if fn =? "nondominated" then with_arg (dP3 dB (dL dB) dMatrix) run_nondominated arg
  else if fn =? "untie" then with_arg (dL dN) run_untie arg
  else if fn =? "cmp" then with_arg (dP2 (dL dZ) (dL (dL (dP2 dZ dN)))) run_cmp arg
  else if fn =? "diff" then with_arg (dP5 dQ dQ dB dObj dObj) run_diff arg
  else if fn =? "unique_names" then with_arg (dL (dL dZ)) run_unique_names arg
  else if fn =? "copy_with" then with_arg (dP2 (dL (dP2 dZ dZ)) (dL (dP2 dZ dZ))) run_copy_with arg
  else if fn =? "simple_impute" then with_arg (dP3 dZ dQ (dL (dL (dO dQ)))) run_simple_impute arg
  else if fn =? "rrt" then with_arg (dP5 (dL dB) dMatrix dZ (dL dQ) (dL (dP2 dN (dL dQ)))) run_rrt arg
  else if fn =? "schedule" then with_arg (dP2 (dL dZ) dN) run_schedule arg
  else if fn =? "stage_lp" then with_arg dStage run_stage_lp arg
  else if fn =? "check_cert" then with_arg (dP3 dStage (dL dQ) (dL dQ)) run_check_cert arg
  else if fn =? "stage_eval" then with_arg (dP2 dStage (dL dQ)) run_stage_eval arg
  else if fn =? "simus_scores" then with_arg (dP2 dN dMatrix) run_simus_scores arg
  else if fn =? "normalise_rows" then with_arg dMatrix run_normalise_rows arg
  else if fn =? "credit_sorted" then with_arg (dL dQ) run_credit_sorted arg
  else if fn =? "accessor_surface" then with_arg dZ run_accessor_surface arg
  else if fn =? "ctor_surface" then with_arg dZ run_ctor_surface arg
  else if fn =? "push_neg_int" then with_arg (dP2 dZ (dL dZ)) run_push_neg_int arg
  else if fn =? "wsm" then with_arg dDM run_wsm arg
  else if fn =? "ratio" then with_arg dDM run_ratio arg
  else if fn =? "refpoint" then with_arg dDM run_refpoint arg
  else if fn =? "topsis" then with_arg (dP4 dZ (dL dB) (dL dQ) dMatrix) run_topsis arg
  else if fn =? "wpm_domain" then with_arg (dP2 (dL dB) dMatrix) run_wpm_domain arg
  else if fn =? "fmf" then with_arg dDM run_fmf arg
  else if fn =? "mm_score" then with_arg (dL (dL dN)) run_mm_score arg
  else if fn =? "rank_matrix" then with_arg (dP3 (dL dN) (dL dN) (dL dN)) run_rank_matrix arg
  else if fn =? "kernel" then with_arg dBT run_kernel arg
  else if fn =? "electre_tables" then with_arg dDM run_electre_tables arg
  else if fn =? "outrank" then with_arg (dP4 dQ dQ dMatrix dMatrix) run_outrank arg
  else if fn =? "electre2_rel" then with_arg (dP4 (dL dQ) dMatrix dMatrix dBT) run_electre2_rel arg
  else if fn =? "electre2_rank" then with_arg (dP2 dBT dBT) run_electre2_rank arg
  else VE E_NOFN.
