(* Transformers (skcriteria/preprocessing): scalers, inverters, weighters, filters —
   the frame structure (which part of the decision matrix a transformer may
   touch) and the rational scalers.  Definitions only. *)
From Coq Require Import ZArith QArith List Bool Arith.
From SKC Require Import Base.QBool Base.QList Model.Agg Model.Select.
Import ListNotations.

(* ---- column-wise application --------------------------------------------------- *)
Definition rows_of_cols (n : nat) (cs : list (list Q)) : list (list Q) :=
  map (fun i => map (fun c => nth i c 0) cs) (seq 0 n).

(* matrix-target scalers act on each criterion (column) separately ... *)
Definition on_matrix (m : nat) (f : list Q -> list Q) (rows : list (list Q)) : list (list Q) :=
  rows_of_cols (length rows) (map f (cols m rows)).
(* ... weight-target scalers on the weight vector as a whole *)
Definition on_weights (f : list Q -> list Q) (w : list Q) : list Q := f w.

(* ---- rational scalers on one vector ---------------------------------------------- *)
Definition sum_scale (v : list Q) : list Q := let s := qsum v in map (fun x => x / s) v.
Definition maxabs_scale (v : list Q) : list Q :=
  let s := lmax (map qabs v) in if Qeqb s 0 then v else map (fun x => x / s) v.
Definition minmax_scale (lo hi : Q) (v : list Q) : list Q :=
  let mn := lmin v in let r := lmax v - mn in
  if Qeqb r 0 then map (fun _ => lo) v
  else map (fun x => (x - mn) / r * (hi - lo) + lo) v.
Definition push_neg (v : list Q) : list Q :=
  let mn := lmin v in if Qltb mn 0 then map (fun x => x - mn) v else v.
Definition add_zero (e : Q) (v : list Q) : list Q :=
  if existsb (fun x => Qeqb x 0) v then map (fun x => x + e) v else v.
(* rational cores of the two irrational scalers *)
Definition sumsq (v : list Q) : Q := qsum (map (fun x => x * x) v).     (* VectorScaler: x / sqrt(sumsq) *)
Definition mean (v : list Q) : Q := qsum v / inject_Z (Z.of_nat (length v)).
Definition pvar (v : list Q) : Q :=                                      (* population variance *)
  let mu := mean v in qsum (map (fun x => (x - mu) * (x - mu)) v) / inject_Z (Z.of_nat (length v)).

(* cenit distance needs the objective of the column *)
Definition cenit_col (mx : bool) (v : list Q) : list Q :=
  let hi := lmax v in let lo := lmin v in
  let cenit := if mx then hi else lo in let nadir := if mx then lo else hi in
  map (fun x => (x - nadir) / (cenit - nadir)) v.
Definition cenit_matrix (objs : list bool) (rows : list (list Q)) : list (list Q) :=
  rows_of_cols (length rows) (map2 cenit_col objs (cols (length objs) rows)).

(* objective inverters: act on minimise columns only *)
Definition invert_col (f : Q -> Q) (mx : bool) (v : list Q) : list Q := if mx then v else map f v.
Definition invert_matrix (f : Q -> Q) (objs : list bool) (rows : list (list Q)) : list (list Q) :=
  rows_of_cols (length rows) (map2 (invert_col f) objs (cols (length objs) rows)).

Definition equal_weights (base : Q) (m : nat) : list Q := repeat (base / inject_Z (Z.of_nat m)) m.

(* ---- frame structure --------------------------------------------------------------- *)
Inductive target := TMatrix | TWeights | TBoth.
Inductive part := PAlts | PCrits | PObjs | PWts | PMatrix.

Inductive kind :=
| KScaler (t : target)      (* SumScaler, VectorScaler, MaxAbsScaler, MinMaxScaler, StandarScaler,
                               PushNegatives, AddValueToZero *)
| KCenit                    (* CenitDistanceMatrixScaler *)
| KInverter                 (* NegateMinimize, InvertMinimize *)
| KWeighter                 (* EqualWeighter, StdWeighter, EntropyWeighter, CRITIC *)
| KFilter                   (* all filters *)
| KImputer                  (* Simple / KNN / Iterative imputers *)
| KUser (returns : list part).   (* mktransformer: the parts the user function returns *)

Definition part_eqb (a b : part) : bool :=
  match a, b with
  | PAlts, PAlts | PCrits, PCrits | PObjs, PObjs | PWts, PWts | PMatrix, PMatrix => true
  | _, _ => false
  end.

(* which parts a transformer of this kind may change *)
Definition declares (k : kind) (p : part) : bool :=
  match k, p with
  | KScaler TMatrix, PMatrix => true
  | KScaler TWeights, PWts => true
  | KScaler TBoth, PMatrix => true
  | KScaler TBoth, PWts => true
  | KCenit, PMatrix => true
  | KInverter, PMatrix => true
  | KInverter, PObjs => true
  | KWeighter, PWts => true
  | KFilter, PAlts => true
  | KFilter, PMatrix => true      (* rows dropped; surviving rows identical *)
  | KImputer, PMatrix => true
  | KUser ps, p => existsb (part_eqb p) ps
  | _, _ => false
  end.

(* what the concrete transformer computes (any function of the input matrix) *)
Record proposal := {
  pr_matrix : list (list Q); pr_wts : list Q; pr_objs : list bool;
  pr_keep : list bool   (* filters: which alternatives survive *) }.

(* the base classes merge a proposal into the input: only declared parts are taken *)
Definition merge (k : kind) (d : dmx) (pr : proposal) : dmx :=
  match k with
  | KFilter =>
      let rp := mask_pos 0 (pr_keep pr) in
      {| alts := gather 0%Z rp (alts d); crits := crits d;
         cells := gather [] rp (cells d); objs := objs d; wts := wts d; dts := dts d |}
  | _ =>
      {| alts := alts d; crits := crits d;
         cells := if declares k PMatrix then pr_matrix pr else cells d;
         objs := if declares k PObjs then pr_objs pr else objs d;
         wts := if declares k PWts then pr_wts pr else wts d;
         dts := dts d |}
  end.

Definition transformer := (kind * (dmx -> proposal))%type.
Definition transform (t : transformer) (d : dmx) : dmx := merge (fst t) d (snd t d).
Definition pipeline_transform (steps : list transformer) (d : dmx) : dmx :=
  fold_left (fun acc t => transform t acc) steps d.

Inductive pval := VLabels (l : list Z) | VObjs (l : list bool) | VWts (l : list Q) | VMatrix (m : list (list Q)).
Definition get_part (p : part) (d : dmx) : pval :=
  match p with
  | PAlts => VLabels (alts d) | PCrits => VLabels (crits d) | PObjs => VObjs (objs d)
  | PWts => VWts (wts d) | PMatrix => VMatrix (cells d)
  end.

(* concrete inverter proposal: all objectives become maximise *)
Definition inverter_proposal (f : Q -> Q) (d : dmx) : proposal :=
  {| pr_matrix := invert_matrix f (objs d) (cells d); pr_wts := wts d;
     pr_objs := map (fun _ => true) (objs d); pr_keep := [] |}.
