(* Rational cores of the weighting methods (skcriteria/preprocessing/weighters.py). *)
From Coq Require Import ZArith QArith List Bool Arith.
From SKC Require Import Base.QBool Base.QList Model.Transform.
Import ListNotations.

Definition qn (l : list Q) : Q := inject_Z (Z.of_nat (length l)).

(* sample variance (ddof = 1): StdWeighter is sqrt(svar_j) / sum_k sqrt(svar_k) *)
Definition svar (v : list Q) : Q :=
  let mu := mean v in qsum (map (fun x => (x - mu) * (x - mu)) v) / (qn v - 1).

(* population covariance (ddof = 0): CRITIC uses sd_j = sqrt(pvar) and r_jk = cov / (sd_j sd_k) *)
Definition cov (v u : list Q) : Q :=
  let mv := mean v in let mu := mean u in
  qsum (map2 (fun x y => (x - mv) * (y - mu)) v u) / qn v.

Definition cov_matrix (cs : list (list Q)) : list (list Q) :=
  map (fun v => map (fun u => cov v u) cs) cs.

(* ranks with average ties (Spearman = Pearson on these) *)
Definition avg_rank (v : list Q) : list Q :=
  map (fun x =>
         let less := inject_Z (Z.of_nat (length (filter (fun y => Qltb y x) v))) in
         let eq := inject_Z (Z.of_nat (length (filter (fun y => Qeqb y x) v))) in
         less + (eq + 1) / 2) v.

(* entropy: p_ij = x_ij / sum_i x_ij ; H_j = - sum_i p ln p / ln n (closed in the harness / reals) *)
Definition probs (v : list Q) : list Q := sum_scale v.

(* normalisation shared by Std / Entropy / CRITIC *)
Definition normalise (u : list Q) : list Q := sum_scale u.

(* ---- executable versions that keep the rationals reduced (same values up to ==,
   see Theory/Weights.v: *_r_correct); these are what Dispatch runs ------------------- *)
Definition qsum_r (l : list Q) : Q := fold_right (fun x acc => Qred (x + acc)) 0 l.
Definition mean_r (v : list Q) : Q := Qred (qsum_r v / qn v).
Definition pvar_r (v : list Q) : Q :=
  let mu := mean_r v in Qred (qsum_r (map (fun x => Qred ((x - mu) * (x - mu))) v) / qn v).
Definition svar_r (v : list Q) : Q :=
  let mu := mean_r v in Qred (qsum_r (map (fun x => Qred ((x - mu) * (x - mu))) v) / (qn v - 1)).
Definition cov_r (v u : list Q) : Q :=
  let mv := mean_r v in let mu := mean_r u in
  Qred (qsum_r (map2 (fun x y => Qred ((x - mv) * (y - mu))) v u) / qn v).
Definition cov_matrix_r (cs : list (list Q)) : list (list Q) :=
  map (fun v => map (fun u => cov_r v u) cs) cs.
