(* Structural comparison of values (rationals up to Qeq); used only by the
   vm_compute cross-check of the extracted driver. *)
From Coq Require Import ZArith QArith List Bool.
From SKC Require Import Model.Val.
Import ListNotations.

Fixpoint val_eqb (a b : val) : bool :=
  match a, b with
  | VZ x, VZ y => Z.eqb x y
  | VQ x, VQ y => Qeq_bool x y
  | VB x, VB y => Bool.eqb x y
  | VE x, VE y => Z.eqb x y
  | VL l, VL m =>
      (fix go (l m : list val) : bool :=
         match l, m with
         | [], [] => true
         | x :: l', y :: m' => val_eqb x y && go l' m'
         | _, _ => false
         end) l m
  | _, _ => false
  end.
