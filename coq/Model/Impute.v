(* Imputers (skcriteria/preprocessing/impute.py).  Cells are [option Q] (None = missing).
   Definitions only. *)
From Coq Require Import ZArith QArith List Bool Arith.
From SKC Require Import Base.QBool Base.QList Model.Transform.
Import ListNotations.

Definition ocol := list (option Q).
Definition observed (c : ocol) : list Q :=
  flat_map (fun o => match o with Some x => [x] | None => [] end) c.

Fixpoint insertQ (x : Q) (l : list Q) : list Q :=
  match l with
  | [] => [x]
  | y :: t => if Qleb x y then x :: l else y :: insertQ x t
  end.
Definition sortQ (l : list Q) : list Q := fold_right insertQ [] l.

Definition median (l : list Q) : Q :=
  let s := sortQ l in let n := length s in
  if Nat.even n then (nth (n / 2 - 1) s 0 + nth (n / 2) s 0) / 2 else nth (n / 2) s 0.

Definition countQ (x : Q) (l : list Q) : nat := length (filter (Qeqb x) l).
(* most frequent value; among equally frequent values the smallest (scikit-learn's rule) *)
Definition mode (l : list Q) : Q :=
  let s := sortQ l in
  fold_left (fun best x => if countQ best l <? countQ x l then x else best) s (hd 0 s).

Inductive strategy := SMean | SMedian | SMode | SConst (v : Q).

Definition fill_value (s : strategy) (c : ocol) : Q :=
  match s with
  | SMean => mean (observed c)
  | SMedian => median (observed c)
  | SMode => mode (observed c)
  | SConst v => v
  end.

(* SimpleImputer works criterion by criterion *)
Definition simple_impute_col (s : strategy) (c : ocol) : list Q :=
  map (fun o => match o with Some x => x | None => fill_value s c end) c.
Definition simple_impute (s : strategy) (columns : list ocol) : list (list Q) :=
  map (simple_impute_col s) columns.

(* KNN / Iterative imputers: the filled values come from scikit-learn (an oracle indexed by cell) *)
Definition impute_with (f : nat -> nat -> Q) (columns : list ocol) : list (list Q) :=
  map (fun jc => map (fun io => match snd io with Some x => x | None => f (fst io) (fst jc) end)
                     (combine (seq 0 (length (snd jc))) (snd jc)))
      (combine (seq 0 (length columns)) columns).
