(* Closed-form aggregation kernels: WSM, WPM (domain + rational view),
   TOPSIS, RatioMOORA, ReferencePointMOORA, FullMultiplicativeForm (domain +
   signed log terms), MultiMOORA's rank matrix and win count.
   objectives: true = maximise. *)
From Coq Require Import QArith List Bool Arith.
From SKC Require Import Base.QBool Base.QList Base.QRank.
Import ListNotations.

Inductive result (A : Type) : Type := Ok (a : A) | Err (code : Z).
Arguments Ok {A} a.
Arguments Err {A} code.

Definition E_VALUE : Z := 1.

Definition any_cell (p : Q -> bool) (rows : list (list Q)) : bool :=
  existsb (fun r => existsb p r) rows.
Definition has_min (objs : list bool) : bool := existsb negb objs.
Definition has_max (objs : list bool) : bool := existsb (fun b => b) objs.

(* ---- WSM ---------------------------------------------------------------- *)
Definition wsm_scores (w : list Q) (rows : list (list Q)) : list Q :=
  map (fun r => dot r w) rows.

Definition wsm (objs : list bool) (w : list Q) (rows : list (list Q))
  : result (list nat * list Q) :=
  if has_min objs then Err E_VALUE
  else if any_cell (fun x => Qltb x 0) rows then Err E_VALUE
  else let s := wsm_scores w rows in Ok (rank_values true s, s).

(* ---- WPM: score is sum_j w_j log10 a_ij; the model decides the domain and
   exposes the terms; the logarithm is closed in Theory (reals) ---------------- *)
Definition wpm_domain (objs : list bool) (rows : list (list Q)) : bool :=
  negb (has_min objs) && negb (any_cell (fun x => Qleb x 0) rows).

(* ---- RatioMOORA ------------------------------------------------------------ *)
Definition signed_weights (objs : list bool) (w : list Q) : list Q :=
  map2 (fun (o : bool) x => if o then x else - x) objs w.
Definition ratio_scores (objs : list bool) (w : list Q) (rows : list (list Q)) : list Q :=
  map (fun r => dot r (signed_weights objs w)) rows.
Definition ratio (objs : list bool) (w : list Q) (rows : list (list Q)) : list nat * list Q :=
  let s := ratio_scores objs w rows in (rank_values true s, s).

(* ---- ReferencePointMOORA --------------------------------------------------- *)
Definition col_opt (objs : list bool) (rows : list (list Q)) : list Q :=
  map2 (fun (o : bool) c => if o then lmax c else lmin c) objs (cols (length objs) rows).
Definition col_anti (objs : list bool) (rows : list (list Q)) : list Q :=
  map2 (fun (o : bool) c => if o then lmin c else lmax c) objs (cols (length objs) rows).

Definition refpoint_score_row (w rp r : list Q) : Q :=
  lmax (map2 (fun wj d => qabs (wj * d)) w (map2 Qminus r rp)).
Definition refpoint_scores (objs : list bool) (w : list Q) (rows : list (list Q)) : list Q :=
  let rp := col_opt objs rows in map (refpoint_score_row w rp) rows.
Definition refpoint (objs : list bool) (w : list Q) (rows : list (list Q))
  : list nat * list Q * list Q :=
  let s := refpoint_scores objs w rows in (rank_values false s, s, col_opt objs rows).

(* ---- TOPSIS ------------------------------------------------------------------ *)
Inductive metric := Cityblock | SqEuclidean | Chebyshev | Euclidean.

Definition weighted (w : list Q) (rows : list (list Q)) : list (list Q) :=
  map (fun r => map2 Qmult r w) rows.

(* rational distance (for Euclidean: the squared distance, closed by sqrt in Theory) *)
Definition dist (mt : metric) (a b : list Q) : Q :=
  let d := map2 Qminus a b in
  match mt with
  | Cityblock => qsum (map qabs d)
  | Chebyshev => lmax (map qabs d)
  | SqEuclidean | Euclidean => qsum (map (fun x => x * x) d)
  end.

Record topsis_out := {
  t_ideal : list Q; t_anti : list Q;
  t_dbetter : list Q; t_dworst : list Q   (* rational distances (squared for Euclidean) *)
}.

Definition topsis_core (mt : metric) (objs : list bool) (w : list Q) (rows : list (list Q)) : topsis_out :=
  let wm := weighted w rows in
  let ideal := col_opt objs wm in
  let anti := col_anti objs wm in
  {| t_ideal := ideal; t_anti := anti;
     t_dbetter := map (fun r => dist mt r ideal) wm;
     t_dworst := map (fun r => dist mt r anti) wm |}.

(* similarity for the rational metrics; None where 0/0 (implementation: NaN -> refusal) *)
Definition similarity (db dw : Q) : option Q :=
  if Qeqb (db + dw) 0 then None else Some (dw / (db + dw)).

Fixpoint all_some {A} (l : list (option A)) : option (list A) :=
  match l with
  | [] => Some []
  | Some x :: t => match all_some t with Some r => Some (x :: r) | None => None end
  | None :: _ => None
  end.

Definition topsis_rational (mt : metric) (objs : list bool) (w : list Q) (rows : list (list Q))
  : result (list nat * list Q) :=
  let c := topsis_core mt objs w rows in
  match all_some (map2 similarity (t_dbetter c) (t_dworst c)) with
  | Some s => Ok (rank_values true s, s)
  | None => Err E_VALUE
  end.

(* ---- FullMultiplicativeForm ------------------------------------------------- *)
Definition fmf_domain (rows : list (list Q)) : bool :=
  negb (any_cell (fun x => Qleb x 0) rows).
(* score_i = offset + sum_j sign_j * ln (w_j * x_ij), offset = 1 when no maximise criterion
   (faithful to the implementation: Aj = 1.0) *)
Definition fmf_offset (objs : list bool) : Q := if has_max objs then 0 else 1.
Definition fmf_terms (objs : list bool) (w : list Q) (r : list Q) : list (bool * Q) :=
  map2 (fun (o : bool) t => (o, t)) objs (map2 Qmult r w).

(* ---- MultiMOORA: final score from the three component rankings ---------------- *)
Definition rank_matrix (r1 r2 r3 : list nat) : list (list nat) :=
  map2 (fun a bc => a :: fst bc :: snd bc :: nil) r1 (combine r2 r3).

(* rank.dominance(alt_a, alt_b, reverse=True) on rank rows: lower is better *)
Fixpoint cmp_ranks (ra rb : list nat) : nat * nat * nat :=   (* eq, aDb, bDa *)
  match ra, rb with
  | a :: ta, b :: tb =>
      let '(e, x, y) := cmp_ranks ta tb in
      if Nat.eqb a b then (S e, x, y)
      else if Nat.ltb a b then (e, S x, y) else (e, x, S y)
  | _, _ => (0, 0, 0)
  end%nat.

(* win of the pair (i<j): Some true = i scores, Some false = j scores, None = nobody *)
Definition pair_win (ra rb : list nat) : option bool :=
  let '(e, x, y) := cmp_ranks ra rb in
  if Nat.eqb e 0 then Some (Nat.ltb y x) else None.

Definition mm_score (rm : list (list nat)) : list nat :=
  let n := length rm in
  map (fun i =>
         length (filter (fun j =>
                   if Nat.eqb i j then false
                   else if Nat.ltb i j then
                          match pair_win (nth i rm []) (nth j rm []) with Some true => true | _ => false end
                        else
                          match pair_win (nth j rm []) (nth i rm []) with Some false => true | _ => false end)
                 (seq 0 n)))
      (seq 0 n).
