(* RankInvariantChecker (skcriteria/cmp/ranks_rev/rank_inv_check.py): bounds, mutation,
   schedule.  Rows are the alternatives listed in the order of the reference ranking with
   the best one removed.  Definitions only. *)
From Coq Require Import ZArith QArith List Bool Arith.
From SKC Require Import Base.QBool Base.QList Model.Transform Model.Impute Model.Electre.
Import ListNotations.

(* |row_k - row_{k+1}| for consecutive non-best alternatives *)
Fixpoint consecutive_gaps (rows : list (list Q)) : list (list Q) :=
  match rows with
  | a :: ((b :: _) as t) => map2 (fun x y => qabs (x - y)) a b :: consecutive_gaps t
  | _ => []
  end.

Inductive lds := LMedian | LMean | LGiven (g : list Q).   (* last_diff_strategy; LGiven = custom callable's answer *)

Definition last_gap (s : lds) (m : nat) (gs : list (list Q)) : list Q :=
  match s with
  | LMedian => map median (cols m gs)
  | LMean => map mean (cols m gs)
  | LGiven g => g
  end.

(* one bound vector per non-best alternative: the gap to the next-ranked one, and for the
   last-ranked the configured aggregate of the other gaps *)
Definition max_abs_noises (s : lds) (m : nat) (rows : list (list Q)) : list (list Q) :=
  let gs := consecutive_gaps rows in gs ++ [last_gap s m gs].

(* the change applied: u_j in [0,1] are the uniform draws scaled by the bound; the sign makes the
   alternative worse (down if maximised, up if minimised) *)
Definition noise_of (objs : list bool) (gap u : list Q) : list Q :=
  map3 (fun (o : bool) g uj => if o then - (uj * g) else uj * g) objs gap u.
Definition apply_noise (row noise : list Q) : list Q := map2 Qplus row noise.

Fixpoint replace_row (k : nat) (r : list Q) (rows : list (list Q)) : list (list Q) :=
  match rows, k with
  | [], _ => []
  | _ :: t, O => r :: t
  | x :: t, S k' => x :: replace_row k' r t
  end.
Definition mutate (objs : list bool) (rows : list (list Q)) (k : nat) (gap u : list Q) : list (list Q) :=
  replace_row k (apply_noise (nth k rows []) (noise_of objs gap u)) rows.

(* checker for a recorded mutation: direction, bound, and at least one strict change *)
Definition noise_ok (objs : list bool) (gap noise : list Q) : bool :=
  forallb (fun t => let '(o, g, e) := t in
                    (if (o : bool) then Qleb e 0 else Qleb 0 e) && Qleb (qabs e) g)
          (map3 (fun (o : bool) g e => (o, g, e)) objs gap noise)
  && existsb (fun e => negb (Qeqb e 0)) noise
  && Nat.eqb (length noise) (length objs) && Nat.eqb (length gap) (length objs).

(* the experiment: the original first, then every non-best alternative once per repetition *)
Definition schedule (nonbest : list Z) (repeat : nat) : list (nat * Z) :=
  flat_map (fun it => map (fun a => (it, a)) nonbest) (seq 0 repeat).

(* the rejection loop "draw until some noise is non-zero", with explicit fuel over a stream of draws *)
Fixpoint draw_loop (fuel : nat) (objs : list bool) (gap : list Q) (draws : nat -> list Q) (t : nat)
  : option (list Q) :=
  match fuel with
  | O => None
  | S f => let e := noise_of objs gap (draws t) in
           if existsb (fun x => negb (Qeqb x 0)) e then Some e else draw_loop f objs gap draws (S t)
  end.
