(* Pipelines (skcriteria/pipeline.py), unique step names (utils/unames.py) and the
   parameter round trip of methods (core/methods.py).  Definitions only. *)
From Coq Require Import ZArith List Bool Arith.
Import ListNotations.

Section Pipe.
  Variables D R : Type.                       (* decision matrices, results *)
  Definition pipe_transform (ts : list (D -> D)) (d : D) : D := fold_left (fun acc t => t acc) ts d.
  Definition pipe_evaluate (ts : list (D -> D)) (dm : D -> R) (d : D) : R := dm (pipe_transform ts d).
End Pipe.
Arguments pipe_transform {D}.
Arguments pipe_evaluate {D R}.

(* ---- unique_names ------------------------------------------------------------------------- *)
(* names are strings = lists of character codes; suffixing appends "_<decimal k>" *)
Definition name := list Z.
Fixpoint name_eqb (a b : name) : bool :=
  match a, b with
  | [], [] => true
  | x :: ta, y :: tb => Z.eqb x y && name_eqb ta tb
  | _, _ => false
  end.

Fixpoint digits_fuel (fuel n : nat) (acc : list Z) : list Z :=
  match fuel with
  | O => acc
  | S f => let acc' := Z.of_nat (48 + n mod 10) :: acc in
           if n / 10 =? 0 then acc' else digits_fuel f (n / 10) acc'
  end.
Definition digits (n : nat) : list Z := digits_fuel (S n) n [].
Definition suffix (x : name) (k : nat) : name := x ++ 95%Z :: digits k.    (* x ++ "_" ++ str(k) *)

Definition count_name (x : name) (l : list name) : nat := length (filter (name_eqb x) l).

(* k-th occurrence of a repeated name becomes name_k; names occurring once are kept *)
Definition unique_names (names : list name) : list name :=
  map (fun i => let x := nth i names [] in
                if 1 <? count_name x names then suffix x (S (count_name x (firstn i names))) else x)
      (seq 0 (length names)).

(* ---- method parameters ------------------------------------------------------------------------ *)
Definition params := list (Z * Z).       (* parameter name -> value, both interned *)
Fixpoint pget (p : Z) (m : params) : option Z :=
  match m with
  | [] => None
  | (k, v) :: t => if Z.eqb p k then Some v else pget p t
  end.
(* copy with overrides: get_parameters(), then dict.update(overrides), then the constructor *)
Definition pupdate (m ov : params) : params :=
  map (fun kv => match pget (fst kv) ov with Some v => (fst kv, v) | None => kv end) m.
Definition copy_with (m ov : params) : params := pupdate m ov.
Definition rebuild (m : params) : params := pupdate m [].
