(* ELECTRE 1 / 2 (skcriteria/agg/electre.py).  Definitions only.
   objectives: true = maximise.  Diagonal cells are NaN in the implementation
   and are never consulted by the harness; the model gives them a value but
   every relation built from them excludes i = j explicitly, as NaN does. *)
From Coq Require Import QArith List Bool Arith.
From SKC Require Import Base.QBool Base.QList Base.QRank.
Import ListNotations.

Fixpoint map3 {A B C D} (f : A -> B -> C -> D) (la : list A) (lb : list B) (lc : list C) : list D :=
  match la, lb, lc with
  | a :: la', b :: lb', c :: lc' => f a b c :: map3 f la' lb' lc'
  | _, _, _ => []
  end.

(* a at least as good as b on one criterion *)
Definition geq1 (o : bool) (x y : Q) : bool := if o then Qleb y x else Qleb x y.
(* b strictly better than a *)
Definition worse1 (o : bool) (x y : Q) : bool := if o then Qltb x y else Qltb y x.

Definition conc_cell (objs : list bool) (w : list Q) (ra rb : list Q) : Q :=
  qsum (map3 (fun (o : bool) wj xy => if geq1 o (fst xy) (snd xy) then wj else 0)
             objs w (combine ra rb)).

Definition max_range (m : nat) (rows : list (list Q)) : Q :=
  lmax (map (fun c => lmax c - lmin c) (cols m rows)).

Definition disc_num (objs : list bool) (ra rb : list Q) : Q :=
  lmax (map2 (fun (o : bool) xy =>
                if worse1 o (fst xy) (snd xy) then qabs (snd xy - fst xy) else 0)
             objs (combine ra rb)).

Definition disc_cell (objs : list bool) (mr : Q) (ra rb : list Q) : Q :=
  disc_num objs ra rb / mr.

Definition sq_table {A} (rows : list (list Q)) (cell : list Q -> list Q -> A) : list (list A) :=
  map (fun ra => map (fun rb => cell ra rb) rows) rows.

Definition concordance (objs : list bool) (w : list Q) (rows : list (list Q)) : list (list Q) :=
  sq_table rows (conc_cell objs w).
Definition discordance (objs : list bool) (rows : list (list Q)) : list (list Q) :=
  let mr := max_range (length objs) rows in sq_table rows (disc_cell objs mr).

(* boolean square matrices as functions on indices with explicit size *)
Definition bget (t : list (list bool)) (i j : nat) : bool := nth j (nth i t []) false.
Definition qget (t : list (list Q)) (i j : nat) : Q := nth j (nth i t []) 0.
Definition btable (n : nat) (f : nat -> nat -> bool) : list (list bool) :=
  map (fun i => map (fun j => f i j) (seq 0 n)) (seq 0 n).

(* outrank from concordance / discordance tables; diagonal is False (NaN comparisons) *)
Definition outrank_of (n : nat) (p q : Q) (conc disc : list (list Q)) : list (list bool) :=
  btable n (fun i j => negb (Nat.eqb i j) && Qleb p (qget conc i j) && Qleb (qget disc i j) q).

(* kernel = ~outrank.any(axis=0) *)
Definition kernel (n : nat) (outrank : list (list bool)) : list bool :=
  map (fun j => negb (existsb (fun i => bget outrank i j) (seq 0 n))) (seq 0 n).

(* weight comparison relation: specification *)
Definition wor_sum (objs : list bool) (w : list Q) (ra rb : list Q) : Q :=
  qsum (map3 (fun (o : bool) wj xy => if worse1 o (snd xy) (fst xy) then wj else 0)
             objs w (combine ra rb)).   (* weight where a strictly better than b *)
Definition wor_spec_cell (objs : list bool) (w : list Q) (ra rb : list Q) : bool :=
  Qleb (wor_sum objs w rb ra) (wor_sum objs w ra rb).

(* ... and as the implementation calls it: weights_outrank(matrix, objectives, weights)
   against the signature (matrix, weights, objectives): inside, "objectives" is the
   weight vector (compared with 1) and "weights" is the +1/-1 objective vector *)
Definition obj_pm (o : bool) : Q := if o then 1 else -(1).
Definition wor_called_sum (objs : list bool) (w : list Q) (ra rb : list Q) : Q :=
  qsum (map3 (fun (o : bool) wj xy =>
                let gt := Qltb (snd xy) (fst xy) in   (* a > b *)
                let lt := Qltb (fst xy) (snd xy) in   (* a < b *)
                if (if Qeqb wj 1 then gt else lt) then obj_pm o else 0)
             objs w (combine ra rb)).
Definition wor_called_cell (objs : list bool) (w : list Q) (ra rb : list Q) : bool :=
  Qleb (wor_called_sum objs w rb ra) (wor_called_sum objs w ra rb).

Definition wor_table (cell : list Q -> list Q -> bool) (rows : list (list Q)) : list (list bool) :=
  let n := length rows in
  btable n (fun i j => negb (Nat.eqb i j) && cell (nth i rows []) (nth j rows [])).

(* strong and weak relations *)
Definition outrank_s_of (n : nat) (p0 p1 q0 q1 : Q) (conc disc : list (list Q)) (wor : list (list bool)) :=
  btable n (fun i j =>
    negb (Nat.eqb i j) && bget wor i j &&
    ((Qleb p0 (qget conc i j) && Qleb (qget disc i j) q0) ||
     (Qleb p1 (qget conc i j) && Qleb (qget disc i j) q1))).
Definition outrank_w_of (n : nat) (p2 q0 : Q) (conc disc : list (list Q)) (wor : list (list bool)) :=
  btable n (fun i j =>
    negb (Nat.eqb i j) && bget wor i j && Qleb p2 (qget conc i j) && Qleb (qget disc i j) q0).

(* ---- distillation (_electre2_ranker) ---------------------------------------- *)
Definition in_kernel (idx : list nat) (g : nat -> nat -> bool) (i : nat) : bool :=
  negb (existsb (fun j => g j i) idx).

Fixpoint ranker_loop (fuel : nat) (s w : nat -> nat -> bool) (idx : list nat)
         (ranking : list nat) (pos : nat) : option (list nat) :=
  match fuel with
  | O => None
  | S f =>
      match idx with
      | [] => Some ranking
      | _ =>
          let smw i := in_kernel idx s i && negb (in_kernel idx w i) in
          let chosen := filter smw idx in
          match chosen with
          | [] => Some (map (fun r => if Nat.eqb r 0 then pos else r) ranking)
          | _ =>
              let ranking' :=
                map (fun ir => if existsb (Nat.eqb (fst ir)) chosen then (snd ir + pos)%nat else snd ir)
                    (combine (seq 0 (length ranking)) ranking) in
              ranker_loop f s w (filter (fun i => negb (smw i)) idx) ranking' (S pos)
          end
      end
  end.

Definition ranker (n : nat) (s w : list (list bool)) (invert : bool) : option (list nat) :=
  match ranker_loop (S n) (bget s) (bget w) (seq 0 n) (repeat 0%nat n) 1 with
  | None => None
  | Some r =>
      if invert then
        let mx := fold_right Nat.max 0%nat r in Some (map (fun x => (mx + 1 - x)%nat) r)
      else Some r
  end.

Definition btranspose (n : nat) (t : list (list bool)) : list (list bool) :=
  btable n (fun i j => bget t j i).

Definition electre2_rank (n : nat) (s w : list (list bool))
  : option (list nat * list nat * list Q * list nat) :=
  match ranker n s w false, ranker n (btranspose n s) (btranspose n w) true with
  | Some d, Some i =>
      let score := map2 (fun a b => (inject_Z (Z.of_nat a) + inject_Z (Z.of_nat b)) / 2) d i in
      Some (d, i, score, rank_values false score)
  | _, _ => None
  end.
