(* DecisionMatrix value + selection (dm[...], dm.loc[...], dm.iloc[...], copy,
   to_dict/mkdm round trip).  Labels are integers (interned strings).
   Definitions only. *)
From Coq Require Import ZArith QArith List Bool Arith.
From SKC Require Import Model.Agg.
Import ListNotations.

Record dmx := {
  alts : list Z; crits : list Z;
  cells : list (list Q);          (* rows *)
  objs : list bool; wts : list Q; dts : list Z }.

Definition E_KEY : Z := 2.

Fixpoint index_of (x : Z) (l : list Z) : option nat :=
  match l with
  | [] => None
  | y :: t => if Z.eqb x y then Some 0%nat
              else match index_of x t with Some k => Some (S k) | None => None end
  end.

(* ---- selectors -------------------------------------------------------------- *)
Inductive sel :=
| SAll
| SLabels (ls : list Z)                (* list of labels, requested order *)
| SLabelSlice (a b : Z) (rev : bool)   (* label slice, inclusive; rev = step -1 *)
| SPosList (ps : list nat)
| SPosRange (start stop step : Z)      (* already normalised by slice.indices(n) *)
| SMask (bs : list bool).

Fixpoint mapM_opt {A B} (f : A -> option B) (l : list A) : option (list B) :=
  match l with
  | [] => Some []
  | x :: t => match f x, mapM_opt f t with
              | Some y, Some ys => Some (y :: ys)
              | _, _ => None
              end
  end.

(* positions of range(start, stop, step) *)
Fixpoint range_pos (fuel : nat) (cur stop step : Z) : list nat :=
  match fuel with
  | O => []
  | S f =>
      if (0 <? step)%Z then
        if (cur <? stop)%Z then Z.to_nat cur :: range_pos f (cur + step) stop step else []
      else if (step <? 0)%Z then
        if (stop <? cur)%Z then Z.to_nat cur :: range_pos f (cur + step) stop step else []
      else []
  end.

Fixpoint mask_pos (k : nat) (bs : list bool) : list nat :=
  match bs with
  | [] => []
  | b :: t => if b then k :: mask_pos (S k) t else mask_pos (S k) t
  end.

Definition resolve (labels : list Z) (s : sel) : result (list nat) :=
  let n := length labels in
  match s with
  | SAll => Ok (seq 0 n)
  | SLabels ls =>
      match mapM_opt (fun l => index_of l labels) ls with
      | Some ps => Ok ps
      | None => Err E_KEY
      end
  | SLabelSlice a b rv =>
      match index_of a labels, index_of b labels with
      | Some i, Some j => if rv then Ok (rev (seq j (S i - j))) else Ok (seq i (S j - i))
      | _, _ => Err E_KEY
      end
  | SPosList ps => if forallb (fun p => p <? n) ps then Ok ps else Err E_KEY
  | SPosRange a b st =>
      let ps := range_pos (S n) a b st in
      if forallb (fun p => p <? n) ps then Ok ps else Err E_KEY
  | SMask bs => if length bs =? n then Ok (mask_pos 0 bs) else Err E_KEY
  end.

(* ---- gathering ------------------------------------------------------------------ *)
Definition gather {A} (d : A) (ps : list nat) (l : list A) : list A :=
  map (fun p => nth p l d) ps.

Definition select (rp cp : list nat) (d : dmx) : dmx :=
  {| alts := gather 0%Z rp (alts d);
     crits := gather 0%Z cp (crits d);
     cells := map (fun r => gather 0 cp r) (gather [] rp (cells d));
     objs := gather true cp (objs d);
     wts := gather 0 cp (wts d);
     dts := gather 0%Z cp (dts d) |}.

Inductive op :=
| OSel (rsel csel : sel)    (* dm[...], loc[...], iloc[...] all reduce to a (rows, columns) pair *)
| OCopy
| ORoundTrip.               (* mkdm of dm.to_dict() *)

Definition apply_op (o : op) (d : dmx) : result dmx :=
  match o with
  | OSel rs cs =>
      match resolve (alts d) rs, resolve (crits d) cs with
      | Ok rp, Ok cp => Ok (select rp cp d)
      | Err e, _ => Err e
      | _, Err e => Err e
      end
  | OCopy => Ok d
  | ORoundTrip => Ok d
  end.

Fixpoint run_ops (ops : list op) (d : dmx) : result dmx :=
  match ops with
  | [] => Ok d
  | o :: t => match apply_op o d with Ok d' => run_ops t d' | Err e => Err e end
  end.

(* ---- the view by label ------------------------------------------------------------ *)
Definition obj_of (d : dmx) (c : Z) : option bool :=
  match index_of c (crits d) with Some j => nth_error (objs d) j | None => None end.
Definition wt_of (d : dmx) (c : Z) : option Q :=
  match index_of c (crits d) with Some j => nth_error (wts d) j | None => None end.
Definition dt_of (d : dmx) (c : Z) : option Z :=
  match index_of c (crits d) with Some j => nth_error (dts d) j | None => None end.
Definition cell_of (d : dmx) (a c : Z) : option Q :=
  match index_of a (alts d), index_of c (crits d) with
  | Some i, Some j => match nth_error (cells d) i with
                      | Some r => nth_error r j
                      | None => None
                      end
  | _, _ => None
  end.

Definition wf (d : dmx) : Prop :=
  NoDup (alts d) /\ NoDup (crits d) /\
  length (cells d) = length (alts d) /\
  Forall (fun r => length r = length (crits d)) (cells d) /\
  length (objs d) = length (crits d) /\ length (wts d) = length (crits d) /\
  length (dts d) = length (crits d).

(* ---- objective aliases (skcriteria/core/objectives.py) ---------------------------- *)
(* The documented aliases are interned by harness/props/c01.py: codes 1..10 are the
   maximise family (1, the up-triangle, max, np.max, np.nanmax, np.amax, "max", "maximize",
   "+", ">"), codes 101..110 the minimise family in the same order; strings in any
   letter case intern to the code of their lower-case form. *)
Definition max_codes : list Z := [1; 2; 3; 4; 5; 6; 7; 8; 9; 10]%Z.
Definition min_codes : list Z := [101; 102; 103; 104; 105; 106; 107; 108; 109; 110]%Z.
Definition alias_sense (code : Z) : option bool :=
  if existsb (Z.eqb code) max_codes then Some true
  else if existsb (Z.eqb code) min_codes then Some false
  else None.

(* ---- the only side condition of the chain theorem: nothing is listed twice, and positional ranges
   are in the normal form Python's slice.indices produces ---------------------------------------------- *)
Fixpoint nodupZ (l : list Z) : bool :=
  match l with [] => true | x :: t => negb (existsb (Z.eqb x) t) && nodupZ t end.
Fixpoint nodupN (l : list nat) : bool :=
  match l with [] => true | x :: t => negb (existsb (Nat.eqb x) t) && nodupN t end.
Definition sel_ok (s : sel) : bool :=
  match s with
  | SLabels ls => nodupZ ls
  | SPosList ps => nodupN ps
  | SPosRange a b st => ((st <=? 0) || (0 <=? a))%Z && ((0 <=? st) || (-1 <=? b))%Z
  | _ => true
  end.
Definition op_ok (o : op) : bool :=
  match o with OSel r c => sel_ok r && sel_ok c | _ => true end.
