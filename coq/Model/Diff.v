(* Equality / diff of decision matrices, results and rank comparators
   (utils/object_diff.py, core/data.py diff, agg/_agg_base.py diff, utils/dict_cmp.py,
   cmp/ranks_cmp.py diff).  Finite values only.  Definitions only. *)
From Coq Require Import ZArith QArith List Bool Arith.
From SKC Require Import Base.QBool Base.QList.
Import ListNotations.

Record tol := { rtol : Q; atol : Q }.
Definition exact : tol := {| rtol := 0; atol := 0 |}.

(* numpy.isclose on finite values: |a - b| <= atol + rtol * |b| *)
Definition close1 (t : tol) (a b : Q) : bool := Qleb (qabs (a - b)) (atol t + rtol t * qabs b).

Fixpoint forallb2 {A B} (f : A -> B -> bool) (la : list A) (lb : list B) : bool :=
  match la, lb with
  | [], [] => true
  | a :: ta, b :: tb => f a b && forallb2 f ta tb
  | _, _ => false             (* shape guard: different lengths are different *)
  end.

Definition allclose (t : tol) (a b : list Q) : bool := forallb2 (close1 t) a b.
Definition allclose2 (t : tol) (a b : list (list Q)) : bool := forallb2 (allclose t) a b.
Definition eq_labels (a b : list Z) : bool := forallb2 Z.eqb a b.
Definition eq_bools (a b : list bool) : bool := forallb2 Bool.eqb a b.

Inductive member :=
| MShape | MCriteria | MAlternatives | MObjectives | MWeights | MMatrix | MDtypes   (* decision matrix *)
| MMethod | MValues | MExtra                                                       (* results *)
| MRanks.                                                                           (* comparators *)

Record dmv := {
  d_alts : list Z; d_crits : list Z; d_objs : list bool; d_wts : list Q;
  d_cells : list (list Q); d_dts : list Z }.

Record resv := {
  r_kernel : bool;                 (* KernelResult vs RankResult: different classes *)
  r_method : Z; r_alts : list Z; r_vals : list Q;
  r_extra : list (Z * list Q) }.   (* array-valued extras by key *)

Inductive obj :=
| ODM (d : dmv) | ORes (r : resv) | OCmp (rs : list (Z * resv)) | OOther (tag : Z).

Definition type_tag (o : obj) : Z :=
  match o with
  | ODM _ => 1 | ORes r => if r_kernel r then 3 else 2 | OCmp _ => 4 | OOther t => (10 + t)
  end%Z.

Definition dm_shape (d : dmv) : nat * nat := (length (d_alts d), length (d_crits d)).
Definition same_shape (a b : dmv) : bool :=
  Nat.eqb (fst (dm_shape a)) (fst (dm_shape b)) && Nat.eqb (snd (dm_shape a)) (snd (dm_shape b)).

Definition keep (m : member) (ok : bool) : list member := if ok then [] else [m].

Definition dm_diff (t : tol) (check_dtypes : bool) (a b : dmv) : list member :=
  let ss := same_shape a b in
  keep MShape ss ++
  keep MCriteria (ss && eq_labels (d_crits a) (d_crits b)) ++
  keep MAlternatives (ss && eq_labels (d_alts a) (d_alts b)) ++
  keep MObjectives (ss && eq_bools (d_objs a) (d_objs b)) ++
  keep MWeights (ss && allclose t (d_wts a) (d_wts b)) ++
  keep MMatrix (ss && allclose2 t (d_cells a) (d_cells b)) ++
  (if check_dtypes then keep MDtypes (ss && eq_labels (d_dts a) (d_dts b)) else []).

(* dict_allclose on array-valued extras: same keys, and per key same shape and close values *)
Fixpoint lookup_extra (k : Z) (e : list (Z * list Q)) : option (list Q) :=
  match e with
  | [] => None
  | (k', v) :: t => if Z.eqb k k' then Some v else lookup_extra k t
  end.
Definition extra_close (t : tol) (a b : list (Z * list Q)) : bool :=
  Nat.eqb (length a) (length b) &&
  forallb (fun kv => match lookup_extra (fst kv) b with
                     | Some v => allclose t (snd kv) v
                     | None => false
                     end) a.

Definition res_diff (t : tol) (a b : resv) : list member :=
  keep MMethod (Z.eqb (r_method a) (r_method b)) ++
  keep MAlternatives (eq_labels (r_alts a) (r_alts b)) ++
  keep MValues (allclose t (r_vals a) (r_vals b)) ++
  keep MExtra (extra_close t (r_extra a) (r_extra b)).

Definition ranks_close (t : tol) (a b : list (Z * resv)) : bool :=
  forallb2 (fun x y => Z.eqb (fst x) (fst y) && Bool.eqb (r_kernel (snd x)) (r_kernel (snd y)) &&
                        match res_diff t (snd x) (snd y) with [] => true | _ => false end) a b.

(* Difference = (different types?, members that differ) *)
Definition diff (t : tol) (check_dtypes : bool) (x y : obj) : bool * list member :=
  if negb (Z.eqb (type_tag x) (type_tag y)) then (true, [])
  else match x, y with
       | ODM a, ODM b => (false, dm_diff t check_dtypes a b)
       | ORes a, ORes b => (false, res_diff t a b)
       | OCmp a, OCmp b => (false, keep MRanks (ranks_close t a b))
       | _, _ => (false, [])
       end.

Definition has_differences (d : bool * list member) : bool :=
  fst d || match snd d with [] => false | _ => true end.
Definition aequals (t : tol) (x y : obj) : bool := negb (has_differences (diff t false x y)).
Definition equals (x y : obj) : bool := negb (has_differences (diff exact true x y)).
Definition eqb (x y : obj) : bool := equals x y.
Definition neb (x y : obj) : bool := negb (eqb x y).
