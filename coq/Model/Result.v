(* RankResult / KernelResult validation (skcriteria/agg/_agg_base.py). *)
From Coq Require Import ZArith List Bool.
Import ListNotations.

Fixpoint dedupZ (l : list Z) : list Z :=
  match l with
  | [] => []
  | x :: t => if existsb (Z.eqb x) t then dedupZ t else x :: dedupZ t
  end.

(* "sorted unique values == 1..len": every value lies in 1..k where k is the
   number of distinct values *)
Definition validate_rank (vs : list Z) : bool :=
  let k := Z.of_nat (length (dedupZ vs)) in
  forallb (fun v => (1 <=? v)%Z && (v <=? k)%Z) vs.
