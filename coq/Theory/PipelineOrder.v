(* C12 at matrix and pipeline level: a chain of column-wise order-preserving scalers keeps the whole preference
   profile of every pair of alternatives, hence the dominance relation. *)
From Coq Require Import ZArith QArith List Bool Arith Lia Lqa.
From SKC Require Import Base.QBool Base.QList Model.Dominance Model.Agg Model.Transform
  Theory.QListFacts Theory.Dominance Theory.Transform Theory.OrderPres Theory.PipelinePerm.
Import ListNotations.

(* f keeps the order of any two entries of the vector v, read in the sense mx *)
Definition keeps_order (mx : bool) (f : list Q -> list Q) (v : list Q) : Prop :=
  forall i j, (i < length v)%nat -> (j < length v)%nat ->
    better mx (nth i (f v) 0) (nth j (f v) 0) = better mx (nth i v 0) (nth j v 0).

Lemma row_cell rows a j : (a < length rows)%nat -> nth j (nth a rows []) 0 = nth a (col rows j) 0.
Proof.
  intros Ha. unfold col.
  rewrite (nth_indep (map (fun r => nth j r 0) rows) 0 ((fun r => nth j r 0) [])) by (rewrite map_length; exact Ha).
  rewrite (map_nth (fun r => nth j r 0) rows [] a). reflexivity.
Qed.

Lemma on_matrix_cell m f rows a j : (a < length rows)%nat -> (j < m)%nat ->
  nth j (nth a (on_matrix m f rows) []) 0 = nth a (f (col rows j)) 0.
Proof.
  intros Ha Hj. rewrite on_matrix_row by exact Ha. apply (nth_map_seq1 m (fun k => nth a (f (col rows k)) 0) j 0 Hj).
Qed.

Lemma on_matrix_row_length m f rows a : (a < length rows)%nat -> length (nth a (on_matrix m f rows) []) = m.
Proof. intros Ha. rewrite on_matrix_row by exact Ha. rewrite map_length, seq_length. reflexivity. Qed.

Theorem scaled_matrix_keeps_every_preference m f objs rows a b :
  length objs = m -> rect m rows -> (a < length rows)%nat -> (b < length rows)%nat ->
  (forall j, (j < m)%nat -> keeps_order (nth j objs true) f (col rows j)) ->
  prefs objs (nth a (on_matrix m f rows) []) (nth b (on_matrix m f rows) []) =
  prefs objs (nth a rows []) (nth b rows []).
Proof.
  intros Lo Hr Ha Hb Hk.
  pose proof (rect_row _ _ _ Hr Ha) as La. pose proof (rect_row _ _ _ Hr Hb) as Lb. unfold row in La, Lb.
  symmetry. apply prefs_pointwise; try congruence;
    try (rewrite on_matrix_row_length by assumption; congruence).
  intros j Hj. rewrite Lo in Hj.
  rewrite !on_matrix_cell by assumption. rewrite !row_cell by assumption.
  assert (Lc : length (col rows j) = length rows) by (unfold col; apply map_length).
  split; apply (Hk j Hj); rewrite Lc; assumption.
Qed.

Lemma on_matrix_rect m f rows : rect m (on_matrix m f rows).
Proof.
  unfold rect. apply Forall_forall. intros r Hr. destruct (In_nth _ _ [] Hr) as [a [Ha <-]].
  rewrite on_matrix_length in Ha. apply on_matrix_row_length. exact Ha.
Qed.

(* a chain of steps, each order preserving on the columns it actually meets *)
Fixpoint chain_keeps_order (m : nat) (objs : list bool) (fs : list (list Q -> list Q)) (rows : list (list Q)) : Prop :=
  match fs with
  | [] => True
  | f :: t => (forall j, (j < m)%nat -> keeps_order (nth j objs true) f (col rows j)) /\
              chain_keeps_order m objs t (on_matrix m f rows)
  end.

Theorem scaler_chain_keeps_every_preference m objs fs : forall rows a b,
  length objs = m -> rect m rows -> (a < length rows)%nat -> (b < length rows)%nat ->
  chain_keeps_order m objs fs rows ->
  prefs objs (nth a (scale_all m fs rows) []) (nth b (scale_all m fs rows) []) = prefs objs (nth a rows []) (nth b rows []).
Proof.
  induction fs as [|f t IH]; intros rows a b Lo Hr Ha Hb Hc; [reflexivity|].
  destruct Hc as [Hf Ht]. unfold scale_all in *. cbn [fold_left].
  rewrite (IH (on_matrix m f rows) a b Lo (on_matrix_rect m f rows)) by (rewrite ?on_matrix_length; assumption).
  apply scaled_matrix_keeps_every_preference; assumption.
Qed.

Corollary scaler_chain_keeps_dominance strict m objs fs rows a b :
  length objs = m -> rect m rows -> (a < length rows)%nat -> (b < length rows)%nat ->
  chain_keeps_order m objs fs rows ->
  dom_spec strict objs (nth a (scale_all m fs rows) []) (nth b (scale_all m fs rows) []) =
  dom_spec strict objs (nth a rows []) (nth b rows []).
Proof. intros. apply dominance_invariant. apply scaler_chain_keeps_every_preference; assumption. Qed.

(* the rational scalers are such steps on their documented domains *)
Theorem rational_scalers_keep_order mx v :
  (0 < qsum v -> keeps_order mx sum_scale v) /\ keeps_order mx maxabs_scale v /\
  (forall lo hi, lo < hi -> keeps_order mx (minmax_scale lo hi) v) /\ keeps_order mx push_neg v /\
  (forall e, keeps_order mx (add_zero e) v).
Proof.
  repeat split.
  - intros Hs i j Hi Hj. apply sum_scale_order; assumption.
  - intros i j Hi Hj. apply maxabs_scale_order; assumption.
  - intros lo hi Hlh i j Hi Hj. apply minmax_scale_order; assumption.
  - intros i j Hi Hj. apply push_neg_order; assumption.
  - intros e i j Hi Hj. apply add_zero_order; assumption.
Qed.
