(* Scalers commute with listing the alternatives in another order (up to ==): the statistic a scaler divides or
   shifts by does not depend on the order of the vector, and the rest is cell by cell. *)
From Coq Require Import ZArith QArith List Bool Arith Lia Lqa Permutation.
From SKC Require Import Base.QBool Base.QList Model.Agg Model.Transform
  Theory.QListFacts Theory.RankFacts Theory.Invariance Theory.RankPerm Theory.RankPerm2.
Import ListNotations.

Lemma pointwise_reindex (g g' : Q -> Q) sigma v :
  Permutation sigma (seq 0 (length v)) -> (forall x, g x == g' x) ->
  Forall2 Qeq (map g (reindex 0 sigma v)) (reindex 0 sigma (map g' v)).
Proof.
  intros P H. assert (B := perm_seq_bound _ _ P).
  rewrite (reindex_default 0 (g' 0) sigma (map g' v)) by (rewrite map_length; exact B).
  rewrite (reindex_map g' 0 sigma v B).
  generalize (reindex 0 sigma v). intros l. induction l as [|a t IH]; cbn [map]; constructor; auto.
Qed.

Lemma Qeqb_ext x x' y y' : x == x' -> y == y' -> Qeqb x y = Qeqb x' y'.
Proof. intros Ex Ey. destruct (Qeqb x y) eqn:E, (Qeqb x' y') eqn:E'; auto; qb; [exfalso; apply E'|exfalso; apply E]; lra. Qed.
Lemma Qltb_ext x x' y y' : x == x' -> y == y' -> Qltb x y = Qltb x' y'.
Proof. intros Ex Ey. destruct (Qltb x y) eqn:E, (Qltb x' y') eqn:E'; auto; qb; lra. Qed.

Lemma qsum_map_ext_l (f g : Q -> Q) l : (forall x, f x == g x) -> qsum (map f l) == qsum (map g l).
Proof.
  intros H. induction l as [|a t IH]; [reflexivity|]. cbn [map]. unfold qsum in *. cbn [fold_right]. rewrite IH, H. reflexivity.
Qed.

Section OneVector.
  Variable sigma : list nat.
  Variable v : list Q.
  Hypothesis P : Permutation sigma (seq 0 (length v)).

  Let Pv : Permutation (reindex 0 sigma v) v := reindex_perm 0 sigma v P.

  Lemma reindex_id_eq : Forall2 Qeq (reindex 0 sigma v) (reindex 0 sigma v).
  Proof. apply Forall2_Qeq_refl. Qed.

  Theorem sum_scale_reindex : Forall2 Qeq (sum_scale (reindex 0 sigma v)) (reindex 0 sigma (sum_scale v)).
  Proof.
    unfold sum_scale. apply pointwise_reindex; [exact P|]. intros x. rewrite (qsum_perm _ _ Pv). reflexivity.
  Qed.

  Theorem maxabs_scale_reindex : Forall2 Qeq (maxabs_scale (reindex 0 sigma v)) (reindex 0 sigma (maxabs_scale v)).
  Proof.
    unfold maxabs_scale.
    assert (E : lmax (map qabs (reindex 0 sigma v)) == lmax (map qabs v)).
    { apply lmax_perm. apply Permutation_map. exact Pv. }
    rewrite (Qeqb_ext _ _ 0 0 E (Qeq_refl 0)).
    destruct (Qeqb (lmax (map qabs v)) 0); [apply Forall2_Qeq_refl|].
    apply pointwise_reindex; [exact P|]. intros x. rewrite E. reflexivity.
  Qed.

  Theorem minmax_scale_reindex lo hi :
    Forall2 Qeq (minmax_scale lo hi (reindex 0 sigma v)) (reindex 0 sigma (minmax_scale lo hi v)).
  Proof.
    unfold minmax_scale.
    assert (E1 : lmin (reindex 0 sigma v) == lmin v) by (apply lmin_perm; exact Pv).
    assert (E2 : lmax (reindex 0 sigma v) == lmax v) by (apply lmax_perm; exact Pv).
    assert (E : lmax (reindex 0 sigma v) - lmin (reindex 0 sigma v) == lmax v - lmin v) by (rewrite E1, E2; reflexivity).
    rewrite (Qeqb_ext _ _ 0 0 E (Qeq_refl 0)).
    destruct (Qeqb (lmax v - lmin v) 0).
    - apply pointwise_reindex; [exact P|]. intros x. reflexivity.
    - apply pointwise_reindex; [exact P|]. intros x. rewrite E1, E2. reflexivity.
  Qed.

  Theorem push_neg_reindex : Forall2 Qeq (push_neg (reindex 0 sigma v)) (reindex 0 sigma (push_neg v)).
  Proof.
    unfold push_neg.
    assert (E1 : lmin (reindex 0 sigma v) == lmin v) by (apply lmin_perm; exact Pv).
    rewrite (Qltb_ext _ _ 0 0 E1 (Qeq_refl 0)).
    destruct (Qltb (lmin v) 0); [|apply Forall2_Qeq_refl].
    apply pointwise_reindex; [exact P|]. intros x. rewrite E1. reflexivity.
  Qed.

  Lemma existsb_perm' {A} (f : A -> bool) l l' : Permutation l l' -> existsb f l = existsb f l'.
  Proof.
    intros Q. induction Q as [|a l1 l2 _ IH|a b l1|l1 l2 l3 _ IH1 _ IH2]; cbn [existsb]; auto.
    - rewrite IH. reflexivity.
    - destruct (f a), (f b); reflexivity.
    - congruence.
  Qed.

  Theorem add_zero_reindex e : Forall2 Qeq (add_zero e (reindex 0 sigma v)) (reindex 0 sigma (add_zero e v)).
  Proof.
    unfold add_zero. rewrite (existsb_perm' _ _ _ Pv).
    destruct (existsb (fun x => Qeqb x 0) v); [|apply Forall2_Qeq_refl].
    apply pointwise_reindex; [exact P|]. intros x. reflexivity.
  Qed.

  Theorem cenit_col_reindex mx : Forall2 Qeq (cenit_col mx (reindex 0 sigma v)) (reindex 0 sigma (cenit_col mx v)).
  Proof.
    unfold cenit_col.
    assert (E1 : lmin (reindex 0 sigma v) == lmin v) by (apply lmin_perm; exact Pv).
    assert (E2 : lmax (reindex 0 sigma v) == lmax v) by (apply lmax_perm; exact Pv).
    apply pointwise_reindex; [exact P|]. intros x. destruct mx; rewrite E1, E2; reflexivity.
  Qed.

  (* the rational cores of the two irrational scalers: VectorScaler and StandarScaler divide / shift by the same numbers *)
  Theorem cores_reindex :
    sumsq (reindex 0 sigma v) == sumsq v /\ mean (reindex 0 sigma v) == mean v /\ pvar (reindex 0 sigma v) == pvar v.
  Proof.
    assert (L : length (reindex 0 sigma v) = length v).
    { rewrite reindex_length, (Permutation_length P), seq_length. reflexivity. }
    assert (M : mean (reindex 0 sigma v) == mean v).
    { unfold mean. rewrite L, (qsum_perm _ _ Pv). reflexivity. }
    split; [|split; [exact M|]].
    - unfold sumsq. apply qsum_perm. apply Permutation_map. exact Pv.
    - unfold pvar. rewrite L.
      assert (S : qsum (map (fun x => (x - mean (reindex 0 sigma v)) * (x - mean (reindex 0 sigma v))) (reindex 0 sigma v)) ==
                  qsum (map (fun x => (x - mean v) * (x - mean v)) v)).
      { rewrite (qsum_map_ext_l (fun x => (x - mean (reindex 0 sigma v)) * (x - mean (reindex 0 sigma v)))
                                 (fun x => (x - mean v) * (x - mean v)) (reindex 0 sigma v))
          by (intros x; rewrite M; reflexivity).
        apply qsum_perm. apply Permutation_map. exact Pv. }
      rewrite S. reflexivity.
  Qed.
End OneVector.

(* ---- matrix level: every column of the scaled reordered matrix is the scaled column, reordered ----------- *)
From SKC Require Import Theory.Transform.

Lemma col_reindex sigma rows j :
  (forall i, In i sigma -> (i < length rows)%nat) -> col (reindex [] sigma rows) j = reindex 0 sigma (col rows j).
Proof.
  intros B. unfold col. rewrite (rowwise_reindex (fun r => nth j r 0) sigma rows B).
  apply reindex_default. rewrite map_length. exact B.
Qed.

Theorem matrix_scaler_follows_alternatives m (f : list Q -> list Q) sigma rows j :
  Permutation sigma (seq 0 (length rows)) ->
  (forall v, Permutation sigma (seq 0 (length v)) -> Forall2 Qeq (f (reindex 0 sigma v)) (reindex 0 sigma (f v))) ->
  (forall c, length (f c) = length c) -> (j < m)%nat ->
  Forall2 Qeq (col (on_matrix m f (reindex [] sigma rows)) j) (reindex 0 sigma (col (on_matrix m f rows) j)).
Proof.
  intros P Hf Hl Hj. assert (B := perm_seq_bound _ _ P).
  rewrite !(matrix_target_columnwise m f _ j Hj Hl), (col_reindex sigma rows j B).
  apply Hf. unfold col. rewrite map_length. exact P.
Qed.

(* instances: the rational scalers *)
Lemma sum_scale_length v : length (sum_scale v) = length v.
Proof. unfold sum_scale. apply map_length. Qed.
Lemma maxabs_scale_length v : length (maxabs_scale v) = length v.
Proof. unfold maxabs_scale. destruct (Qeqb _ 0); [reflexivity|apply map_length]. Qed.
Lemma minmax_scale_length lo hi v : length (minmax_scale lo hi v) = length v.
Proof. unfold minmax_scale. destruct (Qeqb _ 0); apply map_length. Qed.
Lemma push_neg_length v : length (push_neg v) = length v.
Proof. unfold push_neg. destruct (Qltb _ 0); [apply map_length|reflexivity]. Qed.
Lemma add_zero_length e v : length (add_zero e v) = length v.
Proof. unfold add_zero. destruct (existsb _ v); [apply map_length|reflexivity]. Qed.

Theorem rational_scalers_follow_alternatives m sigma rows j :
  Permutation sigma (seq 0 (length rows)) -> (j < m)%nat ->
  forall f, (f = sum_scale \/ f = maxabs_scale \/ (exists lo hi, f = minmax_scale lo hi) \/ f = push_neg \/
             exists e, f = add_zero e) ->
  Forall2 Qeq (col (on_matrix m f (reindex [] sigma rows)) j) (reindex 0 sigma (col (on_matrix m f rows) j)).
Proof.
  intros P Hj f Hf.
  destruct Hf as [->|[->|[[lo [hi ->]]|[->|[e ->]]]]]; apply matrix_scaler_follows_alternatives; try assumption.
  - intros v Pv. apply sum_scale_reindex. exact Pv.
  - apply sum_scale_length.
  - intros v Pv. apply maxabs_scale_reindex. exact Pv.
  - apply maxabs_scale_length.
  - intros v Pv. apply minmax_scale_reindex. exact Pv.
  - apply minmax_scale_length.
  - intros v Pv. apply push_neg_reindex. exact Pv.
  - apply push_neg_length.
  - intros v Pv. apply add_zero_reindex. exact Pv.
  - apply add_zero_length.
Qed.
