(* MultiMOORA's final score: the order-dependent loop of the code (pairs i<j, a point to one of the two)
   equals an order-free specification - the number of alternatives an alternative beats. *)
From Coq Require Import List Arith Bool Lia Permutation.
From SKC Require Import Base.QList Model.Agg.
Import ListNotations.

(* a beats b: no component ranks them equal, and a is ahead in more components than b *)
Definition beats (ra rb : list nat) : bool :=
  let '(e, x, y) := cmp_ranks ra rb in Nat.eqb e 0 && Nat.ltb y x.

Definition mm_spec (rm : list (list nat)) : list nat :=
  map (fun ra => length (filter (beats ra) rm)) rm.

Lemma cmp_ranks_swap ra : forall rb e x y, cmp_ranks ra rb = (e, x, y) -> cmp_ranks rb ra = (e, y, x).
Proof.
  induction ra as [|a ta IH]; intros [|b tb] e x y H; cbn [cmp_ranks] in *; try (inversion H; reflexivity).
  destruct (cmp_ranks ta tb) as [[e0 x0] y0] eqn:E. rewrite (IH tb e0 x0 y0 E).
  destruct (Nat.eqb_spec a b) as [->|Hne].
  - rewrite Nat.eqb_refl. inversion H; reflexivity.
  - destruct (Nat.eqb_spec b a) as [->|_]; [congruence|].
    destruct (Nat.ltb_spec a b), (Nat.ltb_spec b a); try lia; inversion H; reflexivity.
Qed.

Lemma cmp_ranks_sum ra : forall rb e x y, cmp_ranks ra rb = (e, x, y) ->
  e + x + y = Nat.min (length ra) (length rb).
Proof.
  induction ra as [|a ta IH]; intros [|b tb] e x y H; cbn [cmp_ranks length] in *; try (inversion H; reflexivity).
  destruct (cmp_ranks ta tb) as [[e0 x0] y0] eqn:E. pose proof (IH tb e0 x0 y0 E) as S.
  rewrite <- Nat.succ_min_distr.
  destruct (Nat.eqb a b); [|destruct (Nat.ltb a b)]; inversion H; subst; lia.
Qed.

Lemma cmp_ranks_refl r : cmp_ranks r r = (length r, 0, 0).
Proof. induction r as [|a t IH]; cbn [cmp_ranks length]; [reflexivity|]. rewrite IH, Nat.eqb_refl. reflexivity. Qed.

Lemma beats_irrefl r : r <> [] -> beats r r = false.
Proof. intros H. unfold beats. rewrite cmp_ranks_refl. destruct r; [congruence|reflexivity]. Qed.

(* with an odd number of components (three) and no tie, exactly one of the two beats the other *)
Lemma pair_win_is_beats ra rb : length ra = 3 -> length rb = 3 ->
  (match pair_win ra rb with Some true => true | _ => false end = beats ra rb) /\
  (match pair_win ra rb with Some false => true | _ => false end = beats rb ra).
Proof.
  intros La Lb. unfold pair_win, beats.
  destruct (cmp_ranks ra rb) as [[e x] y] eqn:E.
  rewrite (cmp_ranks_swap _ _ _ _ _ E). pose proof (cmp_ranks_sum _ _ _ _ _ E) as S. rewrite La, Lb in S.
  cbn [Nat.min] in S. destruct (Nat.eqb_spec e 0) as [->|Hne]; cbn [andb]; [|split; reflexivity].
  destruct (Nat.ltb_spec y x), (Nat.ltb_spec x y); try lia; split; reflexivity.
Qed.

Lemma beats_asym ra rb : beats ra rb = true -> beats rb ra = false.
Proof.
  unfold beats. destruct (cmp_ranks ra rb) as [[e x] y] eqn:E. rewrite (cmp_ranks_swap _ _ _ _ _ E).
  intros H. apply andb_true_iff in H. destruct H as [H1 H2]. rewrite H1. cbn [andb].
  apply Nat.ltb_lt in H2. apply Nat.ltb_ge. lia.
Qed.

Lemma filter_length_map {A B} (f : B -> bool) (g : A -> B) l :
  length (filter f (map g l)) = length (filter (fun a => f (g a)) l).
Proof. induction l as [|a t IH]; cbn [map filter]; [reflexivity|]. destruct (f (g a)); cbn [length]; rewrite IH; reflexivity. Qed.

Lemma filter_length_ext_in {A} (f g : A -> bool) l :
  (forall a, In a l -> f a = g a) -> length (filter f l) = length (filter g l).
Proof. intros H. rewrite (filter_ext_in f g l H). reflexivity. Qed.

Lemma map_nth_seq {A} (l : list A) d : map (fun i => nth i l d) (seq 0 (length l)) = l.
Proof.
  apply (nth_ext _ _ d d).
  - rewrite map_length, seq_length. reflexivity.
  - intros n Hn. rewrite map_length, seq_length in Hn.
    rewrite (nth_indep _ _ (nth 0 l d)) by (rewrite map_length, seq_length; exact Hn).
    rewrite (map_nth (fun i => nth i l d) (seq 0 (length l)) 0 n) at 1.
    rewrite seq_nth by exact Hn. reflexivity.
Qed.

Lemma map_seq_as_map {A B} (l : list A) d (f : nat -> B) (g : A -> B) :
  (forall i, i < length l -> f i = g (nth i l d)) -> map f (seq 0 (length l)) = map g l.
Proof.
  intros H. rewrite <- (map_nth_seq l d) at 2. rewrite map_map. apply map_ext_in.
  intros i Hi. apply in_seq in Hi. apply H. lia.
Qed.

(* the loop over index pairs computes the order-free count *)
Theorem mm_score_is_spec rm :
  Forall (fun r => length r = 3) rm -> mm_score rm = mm_spec rm.
Proof.
  intros Hall. unfold mm_score, mm_spec.
  rewrite <- (map_seq_as_map rm [] (fun i => length (filter (beats (nth i rm [])) rm))
                (fun ra => length (filter (beats ra) rm))) by reflexivity.
  apply map_ext_in. intros i Hi. apply in_seq in Hi.
  rewrite <- (map_nth_seq rm []) at 3. rewrite filter_length_map.
  apply filter_length_ext_in. intros j Hj. apply in_seq in Hj.
  assert (Li : length (nth i rm []) = 3) by (apply (proj1 (Forall_forall _ rm) Hall); apply nth_In; lia).
  assert (Lj : length (nth j rm []) = 3) by (apply (proj1 (Forall_forall _ rm) Hall); apply nth_In; lia).
  destruct (Nat.eqb_spec i j) as [->|Hne].
  - symmetry. apply beats_irrefl. intros E. rewrite E in Lj. discriminate.
  - destruct (Nat.ltb_spec i j).
    + apply (proj1 (pair_win_is_beats _ _ Li Lj)).
    + apply (proj2 (pair_win_is_beats _ _ Lj Li)).
Qed.

(* consequently the score an alternative gets depends only on its own rank row and the multiset of rows *)
Lemma filter_length_perm {A} (f : A -> bool) l l' : Permutation l l' -> length (filter f l) = length (filter f l').
Proof.
  intros P. induction P as [|a l l' _ IH|a b l|l1 l2 l3 _ IH1 _ IH2]; cbn [filter]; auto.
  - destruct (f a); cbn [length]; rewrite IH; reflexivity.
  - destruct (f a), (f b); reflexivity.
  - congruence.
Qed.

Theorem mm_spec_row_order_irrelevant rm rm' :
  Permutation rm rm' ->
  Permutation (combine rm (mm_spec rm)) (combine rm' (mm_spec rm')).
Proof.
  intros P. unfold mm_spec.
  assert (E : forall l (f : list nat -> nat), combine l (map f l) = map (fun r => (r, f r)) l).
  { induction l as [|a t IH]; intros f; cbn [map combine]; [reflexivity|]. rewrite IH. reflexivity. }
  rewrite !E.
  rewrite (map_ext _ (fun r => (r, length (filter (beats r) rm))) ) with (l := rm') .
  - apply Permutation_map. exact P.
  - intros r. f_equal. symmetry. apply filter_length_perm. exact P.
Qed.

(* every pair without a component tie gives exactly one point in total *)
Theorem mm_points_per_pair ra rb : length ra = 3 -> length rb = 3 ->
  (if beats ra rb then 1 else 0) + (if beats rb ra then 1 else 0) =
  (let '(e, _, _) := cmp_ranks ra rb in if Nat.eqb e 0 then 1 else 0).
Proof.
  intros La Lb. unfold beats. destruct (cmp_ranks ra rb) as [[e x] y] eqn:E.
  rewrite (cmp_ranks_swap _ _ _ _ _ E). pose proof (cmp_ranks_sum _ _ _ _ _ E) as S. rewrite La, Lb in S.
  cbn [Nat.min] in S. destruct (Nat.eqb_spec e 0) as [->|]; cbn [andb]; [|reflexivity].
  destruct (Nat.ltb_spec y x), (Nat.ltb_spec x y); lia.
Qed.

(* the rank matrix is the three component rankings, column by column *)
Theorem rank_matrix_rows r1 r2 r3 i :
  length r1 = length r2 -> length r2 = length r3 -> i < length r1 ->
  nth i (rank_matrix r1 r2 r3) [] = [nth i r1 0; nth i r2 0; nth i r3 0].
Proof.
  unfold rank_matrix. revert r2 r3 i. induction r1 as [|a t IH]; intros [|b u] [|c v] i L1 L2 Hi;
    cbn [length] in *; try lia.
  destruct i as [|i]; cbn [combine map2 nth fst snd]; [reflexivity|].
  apply IH; lia.
Qed.

Theorem rank_matrix_row_length r1 r2 r3 : Forall (fun r => length r = 3) (rank_matrix r1 r2 r3).
Proof.
  unfold rank_matrix. revert r2 r3. induction r1 as [|a t IH]; intros r2 r3.
  - destruct (combine r2 r3); constructor.
  - destruct r2 as [|b u]; [constructor|]. destruct r3 as [|c v]; [constructor|].
    cbn [combine map2]. constructor; [reflexivity|apply IH].
Qed.
