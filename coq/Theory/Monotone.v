(* C06: distances to the ideal / anti-ideal and the reference-point score are monotone under
   dominance (rational metrics). *)
From Coq Require Import QArith List Bool Arith Lia Lqa.
From SKC Require Import Base.QBool Base.QList Model.Dominance Model.Agg Theory.QListFacts Theory.Agg.
Import ListNotations.

(* a is between b and the target t on every coordinate (a at least as close to t as b, same side) *)
Inductive between : list Q -> list Q -> list Q -> Prop :=
| bt_nil : between [] [] []
| bt_cons x y t xs ys ts :
    ((y <= x /\ x <= t) \/ (t <= x /\ x <= y)) -> between xs ys ts -> between (x :: xs) (y :: ys) (t :: ts).

Lemma between_abs x y t : ((y <= x /\ x <= t) \/ (t <= x /\ x <= y)) -> qabs (x - t) <= qabs (y - t).
Proof.
  intros H. destruct (qabs_cases (x - t)) as [[H1 ->]|[H1 ->]], (qabs_cases (y - t)) as [[H2 ->]|[H2 ->]];
    destruct H as [[A B]|[A B]]; lra.
Qed.

Lemma sq_le_of_abs_le u v : qabs u <= qabs v -> u * u <= v * v.
Proof.
  intros H. destruct (qabs_cases u) as [[H1 E1]|[H1 E1]], (qabs_cases v) as [[H2 E2]|[H2 E2]];
    rewrite E1, E2 in H; nra.
Qed.

Lemma qmax_mono a b c d : a <= c -> b <= d -> qmax a b <= qmax c d.
Proof.
  intros H1 H2. unfold qmax. destruct (Qleb a b) eqn:E1, (Qleb c d) eqn:E2; qb; lra.
Qed.

Lemma qmaxl_mono x y l m : x <= y -> Forall2 Qle l m -> qmaxl x l <= qmaxl y m.
Proof.
  intros Hxy H. unfold qmaxl. revert x y Hxy. induction H as [|a b l m Hab _ IH]; intros x y Hxy; simpl; auto.
  apply IH. apply qmax_mono; auto.
Qed.

Lemma lmax_mono l m : Forall2 Qle l m -> lmax l <= lmax m.
Proof. intros H. destruct H as [|a b l m Hab H]; simpl; [lra|]. apply qmaxl_mono; auto. Qed.

Lemma qsum_mono l m : Forall2 Qle l m -> qsum l <= qsum m.
Proof. induction 1; simpl; lra. Qed.

(* moving towards the target on every coordinate never increases the distance, for every rational metric *)
Theorem dist_between mt a b t : between a b t -> dist mt a t <= dist mt b t.
Proof.
  intros H. unfold dist.
  assert (A : Forall2 Qle (map qabs (map2 Qminus a t)) (map qabs (map2 Qminus b t))).
  { induction H as [|x y t0 xs ys ts Hb _ IH]; cbn [map map2]; [constructor|].
    constructor; [apply between_abs; exact Hb|exact IH]. }
  assert (S : Forall2 Qle (map (fun x => x * x) (map2 Qminus a t)) (map (fun x => x * x) (map2 Qminus b t))).
  { clear A. induction H as [|x y t0 xs ys ts Hb _ IH]; cbn [map map2]; [constructor|].
    constructor; [apply sq_le_of_abs_le; apply between_abs; exact Hb|exact IH]. }
  destruct mt; [apply qsum_mono|apply qsum_mono|apply lmax_mono|apply qsum_mono]; assumption.
Qed.

(* b is between a and the anti-target: then a is at least as FAR from it as b *)
Theorem dist_away mt a b t : between b a t -> dist mt b t <= dist mt a t.
Proof. apply dist_between. Qed.

(* putting it together: dominator nearer to the ideal, farther from the anti-ideal, hence a closeness
   at least as high (rational metrics) *)
Theorem topsis_dominance_monotone mt wa wb ideal anti sa sb :
  between wa wb ideal -> between wb wa anti ->
  similarity (dist mt wa ideal) (dist mt wa anti) = Some sa ->
  similarity (dist mt wb ideal) (dist mt wb anti) = Some sb ->
  sb <= sa.
Proof.
  intros H1 H2 Ea Eb.
  apply (similarity_monotone (dist mt wa ideal) (dist mt wa anti) (dist mt wb ideal) (dist mt wb anti)); auto.
  - apply dist_nonneg.
  - apply dist_nonneg.
  - apply dist_between. exact H1.
  - apply dist_away. exact H2.
Qed.

(* the hypotheses hold for a dominating pair: weighting by non-negative weights keeps "at least as good",
   and the ideal (anti-ideal) is beyond both on every criterion *)
Theorem dominance_gives_between objs w ra rb ideal :
  length ra = length objs -> length rb = length objs -> length w = length objs -> length ideal = length objs ->
  (forall x, In x w -> 0 <= x) ->
  all_geq objs ra rb = true ->
  (forall j, (j < length objs)%nat ->
     better (nth j objs true) (nth j (map2 Qmult ra w) 0) (nth j ideal 0) = false /\
     better (nth j objs true) (nth j (map2 Qmult rb w) 0) (nth j ideal 0) = false) ->
  between (map2 Qmult ra w) (map2 Qmult rb w) ideal.
Proof.
  revert w ra rb ideal.
  induction objs as [|o os IH]; intros [|wj w] [|x xs] [|y ys] [|t ts]; simpl;
    intros La Lb Lw Li Hw Hg Hi; try discriminate; [constructor|].
  apply andb_true_iff in Hg. destruct Hg as [Hg1 Hg2]. apply negb_true_iff in Hg1.
  assert (W : 0 <= wj) by (apply Hw; auto).
  constructor.
  - destruct (Hi 0%nat ltac:(lia)) as [B1 B2]. simpl in B1, B2.
    unfold better in Hg1, B1, B2. destruct o; qb; [left|right]; split; nra.
  - apply (IH w xs ys ts ltac:(lia) ltac:(lia) ltac:(lia) ltac:(lia)).
    + intros z Hz. apply Hw. auto.
    + exact Hg2.
    + intros j Hj. apply (Hi (S j)). lia.
Qed.

(* ---- ReferencePointMOORA: lower score for the dominator ------------------------------------------------ *)
Theorem refpoint_dominance_monotone w rp ra rb :
  (forall x, In x w -> 0 <= x) -> between ra rb rp -> length w = length ra ->
  refpoint_score_row w rp ra <= refpoint_score_row w rp rb.
Proof.
  intros Hw H L. unfold refpoint_score_row. apply lmax_mono.
  revert w Hw L. induction H as [|x y t xs ys ts Hb _ IH]; intros [|wj w] Hw L; simpl; try constructor;
    try discriminate.
  - assert (W : 0 <= wj) by (apply Hw; simpl; auto).
    pose proof (between_abs x y t Hb) as A.
    destruct (qabs_cases (wj * (x - t))) as [[H1 ->]|[H1 ->]], (qabs_cases (wj * (y - t))) as [[H2 ->]|[H2 ->]];
      destruct (qabs_cases (x - t)) as [[H3 E3]|[H3 E3]], (qabs_cases (y - t)) as [[H4 E4]|[H4 E4]];
      rewrite E3, E4 in A; nra.
  - apply IH; [intros z Hz; apply Hw; simpl; auto|simpl in L; lia].
Qed.
