From Coq Require Import ZArith List Bool Arith Lia.
From SKC Require Import Model.Alias.
Import ListNotations.

Definition all_fresh (s : st) : Prop := Forall (fun c => exists i, c = Fresh i) (handles s).

Section Values.
  Variable mode : nat -> amode.
  Hypothesis all_copy : forall a, exists src, mode a = Copy src.

  Lemma step_inv s o : all_fresh s -> all_fresh (step mode s o) /\ observe_eq (step mode s o) s.
  Proof.
    intros H. destruct o as [a|h v|]; simpl.
    - destruct (all_copy a) as [src ->]. split.
      + constructor; [eexists; reflexivity|exact H].
      + split; intros; reflexivity.
    - destruct (nth_error (handles s) h) as [c|] eqn:E.
      + unfold all_fresh in H. rewrite Forall_forall in H.
        destruct (H c (nth_error_In _ _ E)) as [i ->]. simpl. split.
        * unfold all_fresh. simpl. apply Forall_forall. exact H.
        * split; intros; reflexivity.
      + split; [exact H|split; intros; reflexivity].
    - split; [exact H|split; intros; reflexivity].
  Qed.

  (* whatever the caller reads, writes and runs, the object reports what it reported before *)
  Theorem values_semantics ops s : all_fresh s -> observe_eq (run mode s ops) s.
  Proof.
    revert s. induction ops as [|o t IH]; intros s H; simpl.
    - split; intros; reflexivity.
    - destruct (step_inv s o H) as [H1 [E1 E2]]. destruct (IH _ H1) as [F1 F2].
      split; intros; [rewrite F1, E1|rewrite F2, E2]; reflexivity.
  Qed.

  Corollary values_semantics_init ops i c : observe_eq (run mode (init i c) ops) (init i c).
  Proof. apply values_semantics. unfold all_fresh. simpl. constructor. Qed.
End Values.

(* running a method never changes what the matrix reports, whatever the accessors do *)
Theorem run_method_frame mode s : observe_eq (step mode s RunMethod) s.
Proof. split; intros; reflexivity. Qed.

(* with ONE sharing accessor the property fails: read it, write into what it returned *)
Theorem shared_accessor_refuted :
  exists mode ops, ~ observe_eq (run mode (init (fun _ => 0%Z) (fun _ => 0%Z)) ops) (init (fun _ => 0%Z) (fun _ => 0%Z)).
Proof.
  exists (fun a => if Nat.eqb a 7 then Share (Cache 0) else Copy (Internal 0)), [Read 7; Write 0 5%Z].
  intros [_ H]. specialize (H 0%nat). vm_compute in H. discriminate.
Qed.
