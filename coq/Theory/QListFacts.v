From Coq Require Import QArith List Bool Arith Lia Lqa Permutation.
From SKC Require Import Base.QBool Base.QList.
Import ListNotations.

(* ---- qmax / qmin / qabs --------------------------------------------------- *)
Lemma qmax_spec a b : (a <= qmax a b /\ b <= qmax a b) /\ (qmax a b = a \/ qmax a b = b).
Proof. unfold qmax. destruct (Qleb a b) eqn:E; qb; split; auto; split; lra. Qed.
Lemma qmin_spec a b : (qmin a b <= a /\ qmin a b <= b) /\ (qmin a b = a \/ qmin a b = b).
Proof. unfold qmin. destruct (Qleb a b) eqn:E; qb; split; auto; split; lra. Qed.
Lemma qabs_nonneg a : 0 <= qabs a.
Proof. unfold qabs. destruct (Qleb 0 a) eqn:E; qb; lra. Qed.
Lemma qabs_cases a : (0 <= a /\ qabs a = a) \/ (a < 0 /\ qabs a = - a).
Proof. unfold qabs. destruct (Qleb 0 a) eqn:E; qb; [left|right]; split; auto. Qed.
Lemma qabs_eq0 a : qabs a == 0 <-> a == 0.
Proof. destruct (qabs_cases a) as [[H ->]|[H ->]]; split; intros; lra. Qed.

(* ---- fold-based extrema ---------------------------------------------------- *)
Lemma qmaxl_ge x l : x <= qmaxl x l /\ forall y, In y l -> y <= qmaxl x l.
Proof.
  unfold qmaxl. revert x. induction l as [|a t IH]; intros x; simpl.
  - split; [lra|tauto].
  - destruct (IH (qmax x a)) as [H1 H2]. pose proof (qmax_spec x a) as [[Hx Ha] _].
    split; [lra|]. intros y [<-|Hy]; [lra|auto].
Qed.
Lemma qmaxl_In x l : qmaxl x l = x \/ In (qmaxl x l) l.
Proof.
  unfold qmaxl. revert x. induction l as [|a t IH]; intros x; simpl; auto.
  destruct (IH (qmax x a)) as [H|H]; [|right; right; exact H].
  rewrite H. destruct (qmax_spec x a) as [_ [E|E]]; rewrite E; auto.
Qed.
Lemma qminl_le x l : qminl x l <= x /\ forall y, In y l -> qminl x l <= y.
Proof.
  unfold qminl. revert x. induction l as [|a t IH]; intros x; simpl.
  - split; [lra|tauto].
  - destruct (IH (qmin x a)) as [H1 H2]. pose proof (qmin_spec x a) as [[Hx Ha] _].
    split; [lra|]. intros y [<-|Hy]; [lra|auto].
Qed.
Lemma qminl_In x l : qminl x l = x \/ In (qminl x l) l.
Proof.
  unfold qminl. revert x. induction l as [|a t IH]; intros x; simpl; auto.
  destruct (IH (qmin x a)) as [H|H]; [|right; right; exact H].
  rewrite H. destruct (qmin_spec x a) as [_ [E|E]]; rewrite E; auto.
Qed.

Lemma lmax_ge l y : In y l -> y <= lmax l.
Proof.
  destruct l as [|x t]; simpl; [tauto|]. destruct (qmaxl_ge x t) as [H1 H2].
  intros [<-|H]; auto.
Qed.
Lemma lmin_le l y : In y l -> lmin l <= y.
Proof.
  destruct l as [|x t]; simpl; [tauto|]. destruct (qminl_le x t) as [H1 H2].
  intros [<-|H]; auto.
Qed.
Lemma lmax_In l : l <> [] -> In (lmax l) l.
Proof.
  destruct l as [|x t]; [congruence|]. intros _. simpl.
  destruct (qmaxl_In x t) as [H|H]; [left; symmetry; exact H|right; exact H].
Qed.
Lemma lmin_In l : l <> [] -> In (lmin l) l.
Proof.
  destruct l as [|x t]; [congruence|]. intros _. simpl.
  destruct (qminl_In x t) as [H|H]; [left; symmetry; exact H|right; exact H].
Qed.
Lemma lmax_le_bound l b : l <> [] -> (forall y, In y l -> y <= b) -> lmax l <= b.
Proof. intros Hn H. apply H. apply lmax_In. exact Hn. Qed.
Lemma lmin_ge_bound l b : l <> [] -> (forall y, In y l -> b <= y) -> b <= lmin l.
Proof. intros Hn H. apply H. apply lmin_In. exact Hn. Qed.

(* ---- map2 -------------------------------------------------------------------- *)
Lemma map2_length {A B C} (f : A -> B -> C) la lb :
  length la = length lb -> length (map2 f la lb) = length la.
Proof.
  revert lb. induction la as [|a t IH]; intros [|b u]; simpl; intros H; try discriminate; auto.
Qed.
Lemma map2_nth {A B C} (f : A -> B -> C) la lb i da db dc :
  (i < length la)%nat -> (i < length lb)%nat ->
  nth i (map2 f la lb) dc = f (nth i la da) (nth i lb db).
Proof.
  revert lb i. induction la as [|a t IH]; intros [|b u] i; simpl; intros H1 H2; try lia.
  destruct i; auto. apply IH; lia.
Qed.
Lemma In_map2 {A B C} (f : A -> B -> C) la lb z :
  In z (map2 f la lb) -> exists a b, In a la /\ In b lb /\ z = f a b.
Proof.
  revert lb. induction la as [|a t IH]; intros [|b u]; simpl; try tauto.
  intros [<-|H].
  - exists a, b. auto.
  - destruct (IH _ H) as [a' [b' [Ha [Hb E]]]]. exists a', b'. auto.
Qed.

(* ---- sums ---------------------------------------------------------------------- *)
Lemma qsum_app l1 l2 : qsum (l1 ++ l2) == qsum l1 + qsum l2.
Proof. induction l1 as [|a t IH]; simpl; [lra|]. rewrite IH. lra. Qed.

Lemma qsum_perm l1 l2 : Permutation l1 l2 -> qsum l1 == qsum l2.
Proof. induction 1; simpl; try lra. Qed.

Lemma qsum_nonneg l : (forall x, In x l -> 0 <= x) -> 0 <= qsum l.
Proof.
  induction l as [|a t IH]; simpl; intros H; [lra|].
  assert (0 <= a) by (apply H; auto). assert (0 <= qsum t) by (apply IH; auto). lra.
Qed.

Lemma qsum_scale c l : qsum (map (Qmult c) l) == c * qsum l.
Proof. induction l as [|a t IH]; simpl; [lra|]. rewrite IH. lra. Qed.

(* pointwise comparison of two sums built by map2 over the same index lists *)
Lemma qsum_map2_le {A B} (f g : A -> B -> Q) la lb :
  (forall a b, In a la -> In b lb -> f a b <= g a b) ->
  qsum (map2 f la lb) <= qsum (map2 g la lb).
Proof.
  revert lb. induction la as [|a t IH]; intros [|b u] H; simpl; try lra.
  assert (f a b <= g a b) by (apply H; simpl; auto).
  assert (qsum (map2 f t u) <= qsum (map2 g t u)) by (apply IH; intros; apply H; simpl; auto).
  lra.
Qed.

Lemma qsum_map2_eq {A B} (f g : A -> B -> Q) la lb :
  (forall a b, In a la -> In b lb -> f a b == g a b) ->
  qsum (map2 f la lb) == qsum (map2 g la lb).
Proof.
  intros H. apply Qle_antisym; apply qsum_map2_le; intros a b Ha Hb; rewrite (H a b Ha Hb); lra.
Qed.

Lemma dot_scale_r c a b : dot a (map (Qmult c) b) == c * dot a b.
Proof.
  unfold dot. revert b. induction a as [|x t IH]; intros [|y u]; simpl; try lra.
  rewrite IH. lra.
Qed.
