(* C05: rankings do not depend on how the decision problem is written down. *)
From Coq Require Import ZArith QArith List Bool Arith Lia Lqa Permutation.
From SKC Require Import Base.QBool Base.QList Base.QRank Model.Dominance Model.Agg
  Theory.QListFacts Theory.RankFacts Theory.Agg.
Import ListNotations.

(* ---- extrema do not depend on the order ----------------------------------------------------------- *)
Lemma perm_nil_iff {A} (l l' : list A) : Permutation l l' -> (l = [] <-> l' = []).
Proof.
  intros P. split; intros ->.
  - apply Permutation_nil. exact P.
  - apply Permutation_nil. apply Permutation_sym. exact P.
Qed.

Theorem lmax_perm l l' : Permutation l l' -> lmax l == lmax l'.
Proof.
  intros P. destruct l as [|x t].
  - apply Permutation_nil in P. subst. reflexivity.
  - assert (Hne : x :: t <> []) by discriminate.
    assert (Hne' : l' <> []) by (intros E; apply (proj2 (perm_nil_iff _ _ P)) in E; discriminate).
    apply Qle_antisym.
    + apply lmax_ge. eapply Permutation_in; [exact P|]. apply lmax_In. exact Hne.
    + apply lmax_ge. eapply Permutation_in; [apply Permutation_sym; exact P|]. apply lmax_In. exact Hne'.
Qed.

Theorem lmin_perm l l' : Permutation l l' -> lmin l == lmin l'.
Proof.
  intros P. destruct l as [|x t].
  - apply Permutation_nil in P. subst. reflexivity.
  - assert (Hne : x :: t <> []) by discriminate.
    assert (Hne' : l' <> []) by (intros E; apply (proj2 (perm_nil_iff _ _ P)) in E; discriminate).
    apply Qle_antisym.
    + apply lmin_le. eapply Permutation_in; [apply Permutation_sym; exact P|]. apply lmin_In. exact Hne'.
    + apply lmin_le. eapply Permutation_in; [exact P|]. apply lmin_In. exact Hne.
Qed.

(* ---- listing the ALTERNATIVES in another order ----------------------------------------------------- *)
Lemma col_perm rows rows' j : Permutation rows rows' -> Permutation (col rows j) (col rows' j).
Proof. intros P. unfold col. apply Permutation_map. exact P. Qed.

(* the ideal / reference point (per-criterion optimum) is the same point *)
Theorem col_opt_row_order_irrelevant objs rows rows' j :
  Permutation rows rows' -> (j < length objs)%nat ->
  nth j (col_opt objs rows) 0 == nth j (col_opt objs rows') 0.
Proof.
  intros P Hj. rewrite !col_opt_nth by exact Hj.
  destruct (nth j objs true); [apply lmax_perm|apply lmin_perm]; apply col_perm; exact P.
Qed.

Theorem col_anti_row_order_irrelevant objs rows rows' j :
  Permutation rows rows' -> (j < length objs)%nat ->
  nth j (col_anti objs rows) 0 == nth j (col_anti objs rows') 0.
Proof.
  intros P Hj. rewrite !col_anti_nth by exact Hj.
  destruct (nth j objs true); [apply lmin_perm|apply lmax_perm]; apply col_perm; exact P.
Qed.

(* every row-wise score is carried along with its alternative *)
Theorem rowwise_scores_follow_alternatives {A} (f : list Q -> A) rows rows' :
  Permutation rows rows' -> Permutation (map f rows) (map f rows').
Proof. apply Permutation_map. Qed.

(* with the alternative's name attached: the (name, score) pairs are the same set *)
Theorem named_scores_row_order_irrelevant {A} (f : list Q -> A) (named named' : list (Z * list Q)) :
  Permutation named named' ->
  Permutation (map (fun p => (fst p, f (snd p))) named) (map (fun p => (fst p, f (snd p))) named').
Proof. apply Permutation_map. Qed.

(* ---- listing the CRITERIA (with their objectives and weights) in another order ------------------- *)
Lemma map2_combine' {A B C} (f : A -> B -> C) la lb :
  map2 f la lb = map (fun p => f (fst p) (snd p)) (combine la lb).
Proof. revert lb. induction la as [|a t IH]; intros [|b u]; simpl; auto. rewrite IH. reflexivity. Qed.

Theorem dot_criteria_order_irrelevant r w r' w' :
  Permutation (combine r w) (combine r' w') -> dot r w == dot r' w'.
Proof.
  intros P. unfold dot. rewrite !map2_combine'.
  apply qsum_perm. apply Permutation_map. exact P.
Qed.

(* signed weighted sum (RatioMOORA / WSM): permuting (value, objective, weight) triples together *)
Fixpoint triples (objs : list bool) (w r : list Q) : list (bool * Q * Q) :=
  match objs, w, r with
  | o :: os, x :: ws, v :: rs => (o, x, v) :: triples os ws rs
  | _, _, _ => []
  end.

Lemma ratio_as_triples objs w r :
  dot r (signed_weights objs w) ==
  qsum (map (fun t => let '(o, x, v) := t in v * (if (o : bool) then x else - x)) (triples objs w r)).
Proof.
  unfold dot, signed_weights. revert w r.
  induction objs as [|o os IH]; intros w r.
  - destruct r; reflexivity.
  - destruct w as [|x ws].
    + destruct r; reflexivity.
    + destruct r as [|v rs]; [reflexivity|].
      simpl. rewrite IH. reflexivity.
Qed.

Theorem ratio_criteria_order_irrelevant objs w r objs' w' r' :
  Permutation (triples objs w r) (triples objs' w' r') ->
  dot r (signed_weights objs w) == dot r' (signed_weights objs' w').
Proof.
  intros P. rewrite !ratio_as_triples. apply qsum_perm. apply Permutation_map. exact P.
Qed.

(* ---- multiplying every weight by the same positive constant ------------------------------------- *)
Theorem wsm_rank_scale_invariant c w rows :
  0 < c -> rank_values true (wsm_scores (map (Qmult c) w) rows) = rank_values true (wsm_scores w rows).
Proof.
  intros Hc. apply (rank_values_affine true c 0); auto.
  unfold wsm_scores. rewrite map_map.
  induction rows as [|r t IH]; simpl; constructor; auto. rewrite dot_scale_r. lra.
Qed.

(* reference point: the scores are multiplied by c, the (lower-is-better) ranking is unchanged *)
Lemma qabs_scale c x : 0 <= c -> qabs (c * x) == c * qabs x.
Proof.
  intros Hc. destruct (qabs_cases x) as [[H ->]|[H ->]].
  - destruct (qabs_cases (c * x)) as [[H1 ->]|[H1 ->]]; [reflexivity|]. nra.
  - destruct (qabs_cases (c * x)) as [[H1 ->]|[H1 ->]]; [|ring]. nra.
Qed.

Lemma lmax_scale c l : 0 <= c -> lmax (map (Qmult c) l) == c * lmax l.
Proof.
  intros Hc. destruct l as [|x t]; [simpl; ring|].
  assert (Hne : x :: t <> []) by discriminate.
  assert (Hne' : map (Qmult c) (x :: t) <> []) by discriminate.
  apply Qle_antisym.
  - apply lmax_le_bound; auto. intros y Hy. apply in_map_iff in Hy. destruct Hy as [z [<- Hz]].
    pose proof (lmax_ge _ _ Hz). nra.
  - apply lmax_ge. apply (in_map (Qmult c)). apply lmax_In. exact Hne.
Qed.

Theorem refpoint_row_scale c w rp r :
  0 <= c -> length w = length r -> length rp = length r ->
  refpoint_score_row (map (Qmult c) w) rp r == c * refpoint_score_row w rp r.
Proof.
  intros Hc Lw Lr. unfold refpoint_score_row. rewrite <- lmax_scale by exact Hc.
  assert (E : Forall2 Qeq (map2 (fun wj d => qabs (wj * d)) (map (Qmult c) w) (map2 Qminus r rp))
                          (map (Qmult c) (map2 (fun wj d => qabs (wj * d)) w (map2 Qminus r rp)))).
  { generalize (map2 Qminus r rp). clear -Hc. intros ds. revert ds.
    induction w as [|x t IH]; intros [|d ds]; cbn [map map2]; constructor; auto.
    assert (X : c * x * d == c * (x * d)) by ring.
    assert (Y : qabs (c * x * d) == qabs (c * (x * d))).
    { destruct (qabs_cases (c * x * d)) as [[H1 ->]|[H1 ->]], (qabs_cases (c * (x * d))) as [[H2 ->]|[H2 ->]]; lra. }
    change (qabs (c * x * d) == c * qabs (x * d)). rewrite Y. apply qabs_scale. exact Hc. }
  clear Lw Lr. revert E. generalize (map2 (fun wj d => qabs (wj * d)) (map (Qmult c) w) (map2 Qminus r rp)).
  generalize (map (Qmult c) (map2 (fun wj d => qabs (wj * d)) w (map2 Qminus r rp))).
  intros l2 l1 E.
  (* lmax respects pointwise Qeq *)
  destruct E as [|a b ta tb Hab Ht]; [reflexivity|].
  apply Qle_antisym.
  - apply lmax_le_bound; [discriminate|]. intros y Hy.
    assert (G : exists y', In y' (b :: tb) /\ y == y').
    { clear -Hab Ht Hy. destruct Hy as [<-|Hy]; [exists b; split; simpl; auto|].
      induction Ht as [|p q tp tq Hpq _ IH]; [contradiction|].
      destruct Hy as [<-|Hy]; [exists q; split; simpl; auto|].
      destruct (IH Hy) as [y' [Hin E]]. exists y'. split; auto. simpl in *. tauto. }
    destruct G as [y' [Hin E]]. rewrite E. apply lmax_ge. exact Hin.
  - apply lmax_le_bound; [discriminate|]. intros y Hy.
    assert (G : exists y', In y' (a :: ta) /\ y == y').
    { clear -Hab Ht Hy. destruct Hy as [<-|Hy]; [exists a; split; simpl; auto; symmetry; exact Hab|].
      induction Ht as [|p q tp tq Hpq _ IH]; [contradiction|].
      destruct Hy as [<-|Hy]; [exists p; split; simpl; auto; symmetry; exact Hpq|].
      destruct (IH Hy) as [y' [Hin E]]. exists y'. split; auto. simpl in *. tauto. }
    destruct G as [y' [Hin E]]. rewrite E. apply lmax_ge. exact Hin.
Qed.

(* TOPSIS closeness is a ratio of distances: scaling both distances by the same positive factor
   (the effect of multiplying all weights by c, or c^2 for the squared metric) leaves it unchanged *)
Theorem similarity_scale_invariant k db dw :
  0 < k -> 0 <= db -> 0 <= dw ->
  match similarity db dw, similarity (k * db) (k * dw) with
  | Some s, Some s' => s == s'
  | None, None => True
  | _, _ => False
  end.
Proof.
  intros Hk Hb Hw. unfold similarity.
  destruct (Qeqb (db + dw) 0) eqn:E, (Qeqb (k * db + k * dw) 0) eqn:E'; qb; auto.
  - apply E'. nra.
  - apply E. nra.
  - field. split; [intros H; apply E; lra|lra].
Qed.
