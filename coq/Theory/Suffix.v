(* The suffix "_<decimal k>" is injective: the last "_" separates a non-empty string of digits.  This discharges the
   side condition under which Theory/Pipeline.v proves the uniqueness of mkpipe's step names. *)
From Coq Require Import ZArith List Bool Arith Lia.
From SKC Require Import Model.Pipeline Theory.Pipeline.
Import ListNotations.

Definition is_digit (d : Z) : Prop := (48 <= d <= 57)%Z.
Definition val (ds : list Z) : nat := fold_left (fun a d => 10 * a + Z.to_nat (d - 48)) ds 0.

Lemma val_app ds d : val (ds ++ [d]) = 10 * val ds + Z.to_nat (d - 48).
Proof. unfold val. rewrite fold_left_app. reflexivity. Qed.

Lemma digits_fuel_spec fuel : forall n acc, n < fuel ->
  exists ds, digits_fuel fuel n acc = ds ++ acc /\ val ds = n /\ Forall is_digit ds /\ ds <> [].
Proof.
  induction fuel as [|f IH]; intros n acc Hn; [lia|]. cbn [digits_fuel].
  assert (D0 : is_digit (Z.of_nat (48 + n mod 10))).
  { unfold is_digit. pose proof (Nat.mod_upper_bound n 10). lia. }
  assert (V0 : Z.to_nat (Z.of_nat (48 + n mod 10) - 48) = n mod 10) by lia.
  destruct (Nat.eqb_spec (n / 10) 0) as [E|NE].
  - exists [Z.of_nat (48 + n mod 10)]. repeat split.
    + unfold val. cbn [fold_left]. rewrite V0. pose proof (Nat.div_mod n 10). lia.
    + constructor; [exact D0|constructor].
    + discriminate.
  - assert (Hq : n / 10 < f).
    { pose proof (Nat.div_mod n 10). assert (n / 10 < n) by (apply Nat.div_lt; lia). lia. }
    destruct (IH (n / 10) (Z.of_nat (48 + n mod 10) :: acc) Hq) as [ds [E1 [V [F Hne]]]].
    exists (ds ++ [Z.of_nat (48 + n mod 10)]). repeat split.
    + rewrite E1, <- app_assoc. reflexivity.
    + rewrite val_app, V, V0. pose proof (Nat.div_mod n 10). lia.
    + apply Forall_app. split; [exact F|constructor; [exact D0|constructor]].
    + intros X. apply app_eq_nil in X. destruct X; discriminate.
Qed.

Lemma digits_spec n : val (digits n) = n /\ Forall is_digit (digits n) /\ digits n <> [].
Proof.
  unfold digits. destruct (digits_fuel_spec (S n) n [] ltac:(lia)) as [ds [E [V [F Hne]]]].
  rewrite E, app_nil_r. auto.
Qed.

Lemma digits_inj k l : digits k = digits l -> k = l.
Proof. intros E. rewrite <- (proj1 (digits_spec k)), <- (proj1 (digits_spec l)), E. reflexivity. Qed.

Lemma split_at_last_underscore (x y dk dl : list Z) :
  Forall is_digit dk -> Forall is_digit dl -> x ++ 95%Z :: dk = y ++ 95%Z :: dl -> x = y /\ dk = dl.
Proof.
  intros Fk Fl. revert y. induction x as [|a x IH]; intros [|b y] E; cbn [app] in E.
  - inversion E. auto.
  - inversion E as [[Hb Hr]]. exfalso. subst.
    assert (In 95%Z (y ++ 95%Z :: dl)) by (apply in_or_app; right; left; reflexivity).
    apply (proj1 (Forall_forall _ _) Fk) in H. unfold is_digit in H. lia.
  - inversion E as [[Ha Hr]]. exfalso. subst.
    assert (In 95%Z (x ++ 95%Z :: dk)) by (apply in_or_app; right; left; reflexivity).
    apply (proj1 (Forall_forall _ _) Fl) in H. unfold is_digit in H. lia.
  - inversion E as [[Hab Hr]]. destruct (IH y Hr) as [-> ->]. auto.
Qed.

Theorem suffix_injective x y k l : suffix x k = suffix y l -> x = y /\ k = l.
Proof.
  unfold suffix. intros E.
  destruct (split_at_last_underscore x y (digits k) (digits l)
              (proj1 (proj2 (digits_spec k))) (proj1 (proj2 (digits_spec l))) E) as [-> D].
  split; [reflexivity|apply digits_inj; exact D].
Qed.

(* the uniqueness of the step names with the side condition discharged: only the collision hypothesis remains,
   and Findings.unique_names_collision_refuted shows that one cannot be dropped *)
Theorem unique_names_nodup_unconditional names :
  (forall x k, 1 < count_name x names -> 1 <= k <= count_name x names -> ~ In (suffix x k) names) ->
  NoDup (unique_names names).
Proof. apply unique_names_nodup. exact suffix_injective. Qed.
