From Coq Require Import QArith List Bool Arith Lia Lqa.
From SKC Require Import Base.QBool Base.QList Base.QRank Model.Electre Theory.QListFacts.
Import ListNotations.

(* ---- tables ---------------------------------------------------------------------- *)
Lemma btable_get n f i j : (i < n)%nat -> (j < n)%nat -> bget (btable n f) i j = f i j.
Proof.
  intros Hi Hj. unfold bget, btable.
  rewrite (nth_indep _ [] (map (fun j => f 0%nat j) (seq 0 n))) by (rewrite map_length, seq_length; exact Hi).
  rewrite (map_nth (fun i => map (fun j => f i j) (seq 0 n))). rewrite seq_nth by exact Hi. simpl.
  rewrite (nth_indep _ false (f i 0%nat)) by (rewrite map_length, seq_length; exact Hj).
  rewrite (map_nth (fun j => f i j)). rewrite seq_nth by exact Hj. reflexivity.
Qed.

(* a outranks b exactly when concordance >= p and discordance <= q (never on the diagonal) *)
Theorem outrank_iff n p q conc disc i j :
  (i < n)%nat -> (j < n)%nat ->
  (bget (outrank_of n p q conc disc) i j = true <->
   i <> j /\ p <= qget conc i j /\ qget disc i j <= q).
Proof.
  intros Hi Hj. unfold outrank_of. rewrite btable_get by assumption.
  rewrite !andb_true_iff, negb_true_iff, Nat.eqb_neq. split.
  - intros [[H1 H2] H3]. qb. auto.
  - intros [H1 [H2 H3]]. repeat split; auto; qb; auto.
Qed.

(* ---- concordance -------------------------------------------------------------------- *)
Lemma conc_bounds objs w ra rb :
  (forall x, In x w -> 0 <= x) -> 0 <= conc_cell objs w ra rb <= qsum w.
Proof.
  unfold conc_cell. revert w ra rb.
  induction objs as [|o os IH]; intros [|wj w] [|x xs] [|y ys] Hw; simpl; try lra;
    try (assert (0 <= qsum w) by (apply qsum_nonneg; intros; apply Hw; simpl; auto);
         assert (0 <= wj) by (apply Hw; simpl; auto); lra).
  assert (0 <= wj) by (apply Hw; simpl; auto).
  destruct (IH w xs ys) as [L U]; [intros; apply Hw; simpl; auto|].
  destruct (geq1 o x y); lra.
Qed.

Lemma conc_head o x y wj :
  (if geq1 o x y then wj else 0) + (if worse1 o x y then wj else 0) == wj.
Proof.
  unfold geq1, worse1. destruct o.
  - destruct (Qleb y x) eqn:E1, (Qltb x y) eqn:E2; qb; lra.
  - destruct (Qleb x y) eqn:E1, (Qltb y x) eqn:E2; qb; lra.
Qed.

(* concordance(a,b) + weight of the criteria where b is strictly better = total weight *)
Theorem conc_complement objs w ra rb :
  length w = length objs -> length ra = length objs -> length rb = length objs ->
  conc_cell objs w ra rb + wor_sum objs w rb ra == qsum w.
Proof.
  unfold conc_cell, wor_sum. revert w ra rb.
  induction objs as [|o os IH]; intros [|wj w] [|x xs] [|y ys]; simpl; intros Lw La Lb;
    try discriminate; try lra.
  specialize (IH w xs ys ltac:(lia) ltac:(lia) ltac:(lia)).
  pose proof (conc_head o x y wj) as H.
  lra.
Qed.

(* ---- discordance ---------------------------------------------------------------------- *)
Lemma disc_num_nonneg objs ra rb : 0 <= disc_num objs ra rb.
Proof.
  unfold disc_num.
  destruct objs as [|o os], ra as [|x xs], rb as [|y ys]; simpl; try lra.
  match goal with |- 0 <= qmaxl ?h ?t => destruct (qmaxl_ge h t) as [H _] end.
  destruct (worse1 o x y); [pose proof (qabs_nonneg (y - x))|]; lra.
Qed.

(* discordance is 0 exactly when b is nowhere strictly better than a *)
Theorem disc_zero_iff objs ra rb :
  length ra = length objs -> length rb = length objs ->
  (disc_num objs ra rb == 0 <->
   forall j, (j < length objs)%nat -> worse1 (nth j objs true) (nth j ra 0) (nth j rb 0) = false).
Proof.
  intros La Lb. unfold disc_num.
  set (L := map2 _ objs (combine ra rb)).
  assert (HL : forall z, In z L -> 0 <= z).
  { intros z Hz. apply In_map2 in Hz. destruct Hz as [o [[x y] [_ [_ ->]]]]. simpl.
    destruct (worse1 o x y); [apply qabs_nonneg|lra]. }
  assert (Hlen : length L = length objs).
  { unfold L. rewrite map2_length; [reflexivity|]. rewrite combine_length. lia. }
  assert (Hnth : forall j, (j < length objs)%nat ->
            nth j L 0 = if worse1 (nth j objs true) (nth j ra 0) (nth j rb 0)
                        then qabs (nth j rb 0 - nth j ra 0) else 0).
  { intros j Hj. unfold L.
    rewrite (map2_nth _ _ _ j true (0, 0) 0) by (rewrite ?combine_length; lia).
    rewrite combine_nth by lia. reflexivity. }
  split.
  - intros H0 j Hj.
    destruct (worse1 (nth j objs true) (nth j ra 0) (nth j rb 0)) eqn:E; auto.
    assert (Hin : In (nth j L 0) L) by (apply nth_In; lia).
    pose proof (lmax_ge L _ Hin) as Hle. rewrite Hnth, E in Hle by exact Hj.
    assert (Z : qabs (nth j rb 0 - nth j ra 0) == 0).
    { pose proof (qabs_nonneg (nth j rb 0 - nth j ra 0)). lra. }
    apply (proj1 (qabs_eq0 _)) in Z. exfalso. unfold worse1 in E. destruct (nth j objs true); qb; lra.
  - intros H.
    destruct L as [|z t] eqn:EL; [simpl; reflexivity|].
    apply Qle_antisym.
    + apply lmax_le_bound; [discriminate|]. intros y Hy.
      apply In_nth with (d := 0) in Hy. destruct Hy as [j [Hj <-]].
      rewrite <- EL in *. rewrite Hnth by lia. rewrite H by lia. lra.
    + apply HL. apply lmax_In. discriminate.
Qed.

(* ---- weight comparison relation ------------------------------------------------------ *)
Theorem wor_spec_total objs w ra rb :
  wor_spec_cell objs w ra rb = true \/ wor_spec_cell objs w rb ra = true.
Proof.
  unfold wor_spec_cell.
  destruct (Qleb (wor_sum objs w rb ra) (wor_sum objs w ra rb)) eqn:E; auto.
  right. qb. lra.
Qed.

(* ---- strong relation is contained in the weak one ------------------------------------- *)
Theorem strong_subset_weak n p0 p1 p2 q0 q1 conc disc wor i j :
  p2 <= p1 -> p1 <= p0 -> q1 <= q0 -> (i < n)%nat -> (j < n)%nat ->
  bget (outrank_s_of n p0 p1 q0 q1 conc disc wor) i j = true ->
  bget (outrank_w_of n p2 q0 conc disc wor) i j = true.
Proof.
  intros Hp21 Hp10 Hq Hi Hj. unfold outrank_s_of, outrank_w_of.
  rewrite !btable_get by assumption.
  rewrite !andb_true_iff, orb_true_iff, !andb_true_iff.
  intros [[H1 H2] [[H3 H4]|[H3 H4]]]; repeat split; auto; qb.
  all: lra.
Qed.

(* ---- distillation: the loop terminates within the fuel the model passes --------------- *)
Lemma filter_length_le {A} (f : A -> bool) l : (length (filter f l) <= length l)%nat.
Proof. induction l as [|a t IH]; simpl; [lia|]. destruct (f a); simpl; lia. Qed.

Lemma filter_negb_shrinks {A} (f : A -> bool) l :
  filter f l <> [] -> (length (filter (fun x => negb (f x)) l) < length l)%nat.
Proof.
  induction l as [|a t IH]; simpl; [congruence|].
  destruct (f a) eqn:E; simpl.
  - intros _. pose proof (filter_length_le (fun x => negb (f x)) t). lia.
  - intros H. specialize (IH H). lia.
Qed.

Theorem ranker_loop_terminates fuel s w idx ranking pos :
  (length idx < fuel)%nat -> exists r, ranker_loop fuel s w idx ranking pos = Some r.
Proof.
  revert idx ranking pos. induction fuel as [|f IH]; intros idx ranking pos Hf; [lia|].
  simpl. destruct idx as [|i0 rest] eqn:Eidx; [eauto|].
  rewrite <- Eidx in *.
  set (smw := fun i => in_kernel idx s i && negb (in_kernel idx w i)).
  destruct (filter smw idx) as [|c cs] eqn:Ec; [eauto|].
  apply IH.
  assert (filter smw idx <> []) by (rewrite Ec; discriminate).
  pose proof (filter_negb_shrinks smw idx H) as P. unfold smw in *. cbv beta in P. lia.
Qed.

Theorem ranker_fuel_adequate n s w invert : exists r, ranker n s w invert = Some r.
Proof.
  unfold ranker.
  destruct (ranker_loop_terminates (S n) (bget s) (bget w) (seq 0 n) (repeat 0%nat n) 1) as [r Hr].
  - rewrite seq_length. lia.
  - rewrite Hr. destruct invert; eauto.
Qed.

Theorem electre2_rank_defined n s w : exists out, electre2_rank n s w = Some out.
Proof.
  unfold electre2_rank.
  destruct (ranker_fuel_adequate n s w false) as [d ->].
  destruct (ranker_fuel_adequate n (btranspose n s) (btranspose n w) true) as [i ->].
  eauto.
Qed.
