From Coq Require Import List Bool Arith Lia Permutation.
From SKC Require Import Model.Untie.
Import ListNotations.
Local Open Scope nat_scope.

(* ---- counting lemmas -------------------------------------------------------------------------- *)
Lemma count_lt_eq_le x y r : x < y -> count_lt x r + count_eq x r <= count_lt y r.
Proof.
  intros H. unfold count_lt, count_eq. induction r as [|a t IH]; simpl; [lia|].
  destruct (Nat.ltb_spec a x), (Nat.eqb_spec a x), (Nat.ltb_spec a y); simpl; lia.
Qed.

Lemma count_lt_eq_bound x r : count_lt x r + count_eq x r <= length r.
Proof.
  unfold count_lt, count_eq. induction r as [|a t IH]; simpl; [lia|].
  destruct (Nat.ltb_spec a x), (Nat.eqb_spec a x); simpl; lia.
Qed.

(* occurrences before position i, plus the one at i, are among the occurrences before j > i *)
Lemma count_eq_firstn_step x r i j :
  i < j -> j <= length r -> nth i r 0 = x ->
  count_eq x (firstn i r) + 1 <= count_eq x (firstn j r).
Proof.
  unfold count_eq. revert i j. induction r as [|a t IH]; intros i j Hij Hj Hx; simpl in *; [lia|].
  destruct j; [lia|]. destruct i; simpl.
  - subst a. rewrite Nat.eqb_refl. simpl. lia.
  - specialize (IH i j ltac:(lia) ltac:(lia) Hx). destruct (a =? x); simpl; lia.
Qed.

Lemma count_eq_firstn_lt x r i :
  i < length r -> nth i r 0 = x -> count_eq x (firstn i r) + 1 <= count_eq x r.
Proof.
  intros Hi Hx. pose proof (count_eq_firstn_step x r i (length r) Hi (le_n _) Hx) as H.
  rewrite firstn_all in H. exact H.
Qed.

(* ---- order ---------------------------------------------------------------------------------- *)
Theorem untie_refines r i j :
  i < length r -> j < length r -> nth i r 0 < nth j r 0 -> untie_at r i < untie_at r j.
Proof.
  intros Hi Hj H. unfold untie_at.
  pose proof (count_lt_eq_le _ _ r H). pose proof (count_eq_firstn_lt (nth i r 0) r i Hi eq_refl). lia.
Qed.

Theorem untie_ties_by_position r i j :
  i < j -> j < length r -> nth i r 0 = nth j r 0 -> untie_at r i < untie_at r j.
Proof.
  intros Hij Hj H. unfold untie_at. rewrite <- H.
  pose proof (count_eq_firstn_step (nth i r 0) r i j Hij ltac:(lia) eq_refl). lia.
Qed.

Theorem untie_bounds r i : i < length r -> 1 <= untie_at r i <= length r.
Proof.
  intros Hi. unfold untie_at.
  pose proof (count_lt_eq_bound (nth i r 0) r). pose proof (count_eq_firstn_lt (nth i r 0) r i Hi eq_refl). lia.
Qed.

Lemma untie_inj r i j : i < length r -> j < length r -> untie_at r i = untie_at r j -> i = j.
Proof.
  intros Hi Hj E.
  destruct (Nat.lt_trichotomy (nth i r 0) (nth j r 0)) as [L|[Q|G]].
  - pose proof (untie_refines r i j Hi Hj L). lia.
  - destruct (Nat.lt_trichotomy i j) as [L|[Q'|G]]; auto.
    + pose proof (untie_ties_by_position r i j L Hj Q). lia.
    + pose proof (untie_ties_by_position r j i G Hi (eq_sym Q)). lia.
  - pose proof (untie_refines r j i Hj Hi G). lia.
Qed.

(* the untied ranking is a permutation of 1..n *)
Theorem untie_perm r : Permutation (untie r) (seq 1 (length r)).
Proof.
  apply NoDup_Permutation_bis.
  - unfold untie.
    assert (G : forall l, (forall i, In i l -> i < length r) -> NoDup l -> NoDup (map (untie_at r) l)).
    { induction l as [|a t IH]; intros Hb Hnd; simpl; constructor.
      - inversion Hnd as [|? ? Hna Hnt]; subst. rewrite in_map_iff. intros [b [Eb Hb']].
        apply untie_inj in Eb; [subst; contradiction| |]; apply Hb; simpl; auto.
      - inversion Hnd; subst. apply IH; auto. intros i Hin. apply Hb. simpl. auto. }
    apply G; [|apply seq_NoDup]. intros i Hin. apply in_seq in Hin. lia.
  - unfold untie. rewrite map_length, !seq_length. lia.
  - intros x Hx. unfold untie in Hx. apply in_map_iff in Hx. destruct Hx as [i [<- Hi]].
    apply in_seq in Hi. apply in_seq. pose proof (untie_bounds r i ltac:(lia)). lia.
Qed.

Theorem untie_length r : length (untie r) = length r.
Proof. unfold untie. rewrite map_length, seq_length. reflexivity. Qed.

(* without ties (the ranking is itself a permutation of 1..n) nothing changes *)
Lemma filter_length_perm' {A} (f : A -> bool) l l' : Permutation l l' -> length (filter f l) = length (filter f l').
Proof.
  induction 1; simpl; auto.
  - destruct (f x); simpl; congruence.
  - destruct (f x), (f y); reflexivity.
  - congruence.
Qed.

Lemma count_lt_seq x n : 1 <= x <= n -> count_lt x (seq 1 n) = x - 1.
Proof.
  unfold count_lt. intros H.
  assert (G : forall k s, length (filter (fun y => y <? x) (seq s k)) = Nat.min (x - s) k).
  { induction k as [|k IH]; intros s; simpl; [lia|].
    rewrite <- (seq_shift k s). destruct (Nat.ltb_spec s x); simpl.
    - rewrite seq_shift, IH. lia.
    - rewrite seq_shift, IH. lia. }
  rewrite G. lia.
Qed.

Theorem untie_id_without_ties r :
  Permutation r (seq 1 (length r)) -> untie r = r.
Proof.
  intros P. unfold untie. apply nth_ext with (d := 0) (d' := 0).
  - rewrite map_length, seq_length. reflexivity.
  - intros i Hi. rewrite map_length, seq_length in Hi.
    rewrite (nth_indep _ 0 (untie_at r 0)) by (rewrite map_length, seq_length; exact Hi).
    rewrite (map_nth (untie_at r)). rewrite seq_nth by exact Hi. simpl. unfold untie_at.
    set (x := nth i r 0).
    assert (Hin : In x (seq 1 (length r))).
    { eapply Permutation_in; [exact P|]. apply nth_In. exact Hi. }
    apply in_seq in Hin.
    assert (E1 : count_lt x r = x - 1).
    { unfold count_lt. rewrite (filter_length_perm' _ _ _ P). apply count_lt_seq. lia. }
    (* no earlier occurrence: r has no duplicates *)
    assert (Hnd : NoDup r). { eapply Permutation_NoDup; [apply Permutation_sym; exact P|apply seq_NoDup]. }
    assert (E2 : count_eq x (firstn i r) = 0).
    { unfold count_eq. destruct (filter (fun y => y =? x) (firstn i r)) as [|a t] eqn:F; auto. exfalso.
      assert (Ha : In a (filter (fun y => y =? x) (firstn i r))) by (rewrite F; simpl; auto).
      apply filter_In in Ha. destruct Ha as [Ha1 Ha2]. apply Nat.eqb_eq in Ha2. subst a.
      apply In_nth with (d := 0) in Ha1. destruct Ha1 as [k [Hk Ek]].
      rewrite firstn_length in Hk.
      assert (nth k r 0 = x).
      { rewrite <- Ek. rewrite <- (firstn_skipn i r) at 1. rewrite app_nth1; auto. rewrite firstn_length. exact Hk. }
      assert (k = i). { apply (proj1 (NoDup_nth r 0) Hnd); try lia; exact H. }
      lia. }
    rewrite E1, E2. lia.
Qed.

From Coq Require Import QArith.
Local Close Scope Q_scope.
(* ---- comparator tables: square over the rankings, cell (i, j) compares ranking i with ranking j, symmetric
   measures give symmetric tables --------------------------------------------------------------------------- *)
Theorem cmp_table_square {A} (f : list Q -> list Q -> A) cs :
  length (cmp_table f cs) = length cs /\ forall row, In row (cmp_table f cs) -> length row = length cs.
Proof.
  unfold cmp_table. split; [apply map_length|].
  intros row Hr. apply in_map_iff in Hr. destruct Hr as [v [<- _]]. apply map_length.
Qed.

Lemma nth_map_any {X Y} (g : X -> Y) l i dY dX : (i < length l)%nat -> nth i (map g l) dY = g (nth i l dX).
Proof.
  revert i. induction l as [|a t IH]; intros i Hi; cbn in *; [lia|].
  destruct i; [reflexivity|]. apply IH. lia.
Qed.

Theorem cmp_table_cell {A} (f : list Q -> list Q -> A) cs i j d :
  (i < length cs)%nat -> (j < length cs)%nat ->
  nth j (nth i (cmp_table f cs) []) d = f (nth i cs []) (nth j cs []).
Proof.
  intros Hi Hj. unfold cmp_table.
  rewrite (nth_map_any (fun v => map (fun u => f v u) cs) cs i [] [] Hi).
  apply (nth_map_any (fun u => f (nth i cs []) u) cs j d [] Hj).
Qed.

Theorem cmp_table_symmetric {A} (f : list Q -> list Q -> A) cs i j d :
  (forall v u, f v u = f u v) -> (i < length cs)%nat -> (j < length cs)%nat ->
  nth j (nth i (cmp_table f cs) []) d = nth i (nth j (cmp_table f cs) []) d.
Proof. intros Hs Hi Hj. rewrite !cmp_table_cell by assumption. apply Hs. Qed.

From SKC Require Import Base.QBool Base.QList Model.Transform Model.Weights.
Local Open Scope Q_scope.
Theorem scov_sym v u : length v = length u -> scov v u == scov u v.
Proof.
  intros L. unfold scov. unfold qn. rewrite L.
  assert (E : qsum (map2 (fun x y => (x - mean v) * (y - mean u)) v u) ==
              qsum (map2 (fun x y => (x - mean u) * (y - mean v)) u v)).
  { generalize (mean v) (mean u). intros a b. clear L. revert u.
    induction v as [|x t IH]; intros [|y w]; simpl; try reflexivity. rewrite IH. ring. }
  rewrite E. reflexivity.
Qed.

Theorem hamming_sym v u : length v = length u -> hamming v u == hamming u v.
Proof.
  intros L. unfold hamming. unfold qn. rewrite L.
  assert (E : qsum (map2 (fun x y => if Qeqb x y then 0 else 1) v u) ==
              qsum (map2 (fun x y => if Qeqb x y then 0 else 1) u v)).
  { clear L. revert u. induction v as [|x t IH]; intros [|y w]; simpl; try reflexivity.
    rewrite IH. rewrite (Qeqb_sym x y). reflexivity. }
  rewrite E. reflexivity.
Qed.
Local Close Scope Q_scope.

(* the covariance and distance tables of a comparator are symmetric (all columns are aligned to the same names,
   hence of one length); entries are reduced fractions, so the two cells are the same number, not just equal *)
Theorem cmp_tables_symmetric cs n i j :
  (forall c, In c cs -> length c = n) -> (i < length cs)%nat -> (j < length cs)%nat ->
  nth j (nth i (cmp_table (fun v u => Qred (scov v u)) cs) []) 0%Q
    = nth i (nth j (cmp_table (fun v u => Qred (scov v u)) cs) []) 0%Q /\
  nth j (nth i (cmp_table (fun v u => Qred (hamming v u)) cs) []) 0%Q
    = nth i (nth j (cmp_table (fun v u => Qred (hamming v u)) cs) []) 0%Q.
Proof.
  intros Hn Hi Hj. rewrite !cmp_table_cell by assumption.
  assert (L : length (nth i cs []) = length (nth j cs [])).
  { rewrite (Hn _ (nth_In cs [] Hi)), (Hn _ (nth_In cs [] Hj)). reflexivity. }
  split; apply Qred_complete; [apply scov_sym|apply hamming_sym]; exact L.
Qed.
