From Coq Require Import ZArith QArith List Bool Arith Lia Lqa.
From SKC Require Import Base.QBool Base.QList Model.Diff Theory.QListFacts.
Import ListNotations.

(* ---- forallb2 --------------------------------------------------------------------------------- *)
Lemma forallb2_refl {A} (f : A -> A -> bool) l : (forall a, f a a = true) -> forallb2 f l l = true.
Proof. intros H. induction l as [|a t IH]; simpl; auto. rewrite H, IH. reflexivity. Qed.

Lemma forallb2_sym {A} (f : A -> A -> bool) la lb :
  (forall a b, f a b = f b a) -> forallb2 f la lb = forallb2 f lb la.
Proof.
  intros H. revert lb. induction la as [|a t IH]; intros [|b u]; simpl; auto. rewrite H, IH. reflexivity.
Qed.

Lemma forallb2_impl {A B} (f g : A -> B -> bool) la lb :
  (forall a b, f a b = true -> g a b = true) -> forallb2 f la lb = true -> forallb2 g la lb = true.
Proof.
  intros H. revert lb. induction la as [|a t IH]; intros [|b u]; simpl; auto.
  rewrite !andb_true_iff. intros [H1 H2]. split; auto.
Qed.

Lemma forallb2_length {A B} (f : A -> B -> bool) la lb :
  forallb2 f la lb = true -> length la = length lb.
Proof.
  revert lb. induction la as [|a t IH]; intros [|b u]; simpl; try discriminate; auto.
  rewrite andb_true_iff. intros [_ H]. f_equal. apply IH. exact H.
Qed.

(* comparing arrays of different length is "different", never an error *)
Theorem allclose_length_mismatch t a b : length a <> length b -> allclose t a b = false.
Proof.
  intros H. destruct (allclose t a b) eqn:E; auto. apply forallb2_length in E. contradiction.
Qed.

(* ---- exact tolerance is equality ------------------------------------------------------------------ *)
Lemma close1_exact a b : close1 exact a b = Qeqb a b.
Proof.
  unfold close1, exact. simpl.
  destruct (Qeqb a b) eqn:E; qb.
  - destruct (qabs_cases (a - b)) as [[H ->]|[H ->]]; lra.
  - destruct (qabs_cases (a - b)) as [[H Ha]|[H Ha]]; rewrite Ha.
    + destruct (Qlt_le_dec 0 (a - b)); [lra|]. exfalso. apply E. lra.
    + lra.
Qed.

Lemma close1_refl t a : 0 <= rtol t -> 0 <= atol t -> close1 t a a = true.
Proof.
  intros Hr Ha. unfold close1. qb.
  assert (E : qabs (a - a) == 0) by (apply qabs_eq0; lra).
  pose proof (qabs_nonneg a). nra.
Qed.

Lemma close1_exact_sym a b : close1 exact a b = close1 exact b a.
Proof. rewrite !close1_exact. apply Qeqb_sym. Qed.

Lemma close1_exact_weaker t a b :
  0 <= rtol t -> 0 <= atol t -> close1 exact a b = true -> close1 t a b = true.
Proof.
  intros Hr Ha. rewrite close1_exact. intros E. unfold close1. qb.
  assert (Z : qabs (a - b) == 0) by (apply qabs_eq0; lra).
  pose proof (qabs_nonneg b). nra.
Qed.

(* ---- labels / booleans ------------------------------------------------------------------------------ *)
Lemma eq_labels_refl l : eq_labels l l = true.
Proof. apply forallb2_refl. intros a. apply Z.eqb_refl. Qed.
Lemma eq_labels_sym a b : eq_labels a b = eq_labels b a.
Proof. apply forallb2_sym. intros x y. apply Z.eqb_sym. Qed.
Lemma eq_bools_refl l : eq_bools l l = true.
Proof. apply forallb2_refl. intros a. destruct a; reflexivity. Qed.
Lemma eq_bools_sym a b : eq_bools a b = eq_bools b a.
Proof. apply forallb2_sym. intros x y. destruct x, y; reflexivity. Qed.
Lemma allclose_exact_refl l : allclose exact l l = true.
Proof. apply forallb2_refl. intros a. apply close1_refl; simpl; lra. Qed.
Lemma allclose_exact_sym a b : allclose exact a b = allclose exact b a.
Proof. apply forallb2_sym. apply close1_exact_sym. Qed.
Lemma allclose2_exact_refl l : allclose2 exact l l = true.
Proof. apply forallb2_refl. apply allclose_exact_refl. Qed.
Lemma allclose2_exact_sym a b : allclose2 exact a b = allclose2 exact b a.
Proof. apply forallb2_sym. apply allclose_exact_sym. Qed.
Lemma allclose_weaker t a b :
  0 <= rtol t -> 0 <= atol t -> allclose exact a b = true -> allclose t a b = true.
Proof. intros Hr Ha. apply forallb2_impl. intros x y. apply close1_exact_weaker; auto. Qed.
Lemma allclose2_weaker t a b :
  0 <= rtol t -> 0 <= atol t -> allclose2 exact a b = true -> allclose2 t a b = true.
Proof. intros Hr Ha. apply forallb2_impl. intros x y. apply allclose_weaker; auto. Qed.

(* ---- decision matrices ---------------------------------------------------------------------------------- *)
Lemma keep_nil m ok : keep m ok = [] <-> ok = true.
Proof. destruct ok; simpl; split; auto; discriminate. Qed.

Lemma same_shape_refl a : same_shape a a = true.
Proof. unfold same_shape. rewrite !Nat.eqb_refl. reflexivity. Qed.
Lemma same_shape_sym a b : same_shape a b = same_shape b a.
Proof. unfold same_shape. rewrite (Nat.eqb_sym (fst (dm_shape a))), (Nat.eqb_sym (snd (dm_shape a))). reflexivity. Qed.

Theorem dm_equals_refl c a : dm_diff exact c a a = [].
Proof.
  unfold dm_diff. rewrite same_shape_refl, !eq_labels_refl, eq_bools_refl, allclose_exact_refl, allclose2_exact_refl.
  destruct c; reflexivity.
Qed.

Theorem dm_diff_exact_sym c a b : dm_diff exact c a b = dm_diff exact c b a.
Proof.
  unfold dm_diff.
  rewrite (same_shape_sym a b), (eq_labels_sym (d_crits a)), (eq_labels_sym (d_alts a)),
    (eq_bools_sym (d_objs a)), (allclose_exact_sym (d_wts a)), (allclose2_exact_sym (d_cells a)),
    (eq_labels_sym (d_dts a)). reflexivity.
Qed.

(* when the shapes differ, every member is named *)
Theorem shape_change_names_all t a b :
  same_shape a b = false ->
  dm_diff t false a b = [MShape; MCriteria; MAlternatives; MObjectives; MWeights; MMatrix].
Proof. intros H. unfold dm_diff. rewrite H. reflexivity. Qed.

(* same shape: a member is named exactly when that member differs (beyond tolerance) *)
Theorem dm_diff_same_shape t c a b :
  same_shape a b = true ->
  dm_diff t c a b =
  keep MCriteria (eq_labels (d_crits a) (d_crits b)) ++
  keep MAlternatives (eq_labels (d_alts a) (d_alts b)) ++
  keep MObjectives (eq_bools (d_objs a) (d_objs b)) ++
  keep MWeights (allclose t (d_wts a) (d_wts b)) ++
  keep MMatrix (allclose2 t (d_cells a) (d_cells b)) ++
  (if c then keep MDtypes (eq_labels (d_dts a) (d_dts b)) else []).
Proof. intros H. unfold dm_diff. rewrite H. reflexivity. Qed.

Theorem one_member_named_weights t a b :
  same_shape a b = true ->
  eq_labels (d_crits a) (d_crits b) = true -> eq_labels (d_alts a) (d_alts b) = true ->
  eq_bools (d_objs a) (d_objs b) = true -> allclose2 t (d_cells a) (d_cells b) = true ->
  allclose t (d_wts a) (d_wts b) = false ->
  dm_diff t false a b = [MWeights].
Proof. intros S C A O M W. rewrite dm_diff_same_shape by exact S. rewrite C, A, O, M, W. reflexivity. Qed.

Theorem one_member_named_matrix t a b :
  same_shape a b = true ->
  eq_labels (d_crits a) (d_crits b) = true -> eq_labels (d_alts a) (d_alts b) = true ->
  eq_bools (d_objs a) (d_objs b) = true -> allclose t (d_wts a) (d_wts b) = true ->
  allclose2 t (d_cells a) (d_cells b) = false ->
  dm_diff t false a b = [MMatrix].
Proof. intros S C A O W M. rewrite dm_diff_same_shape by exact S. rewrite C, A, O, M, W. reflexivity. Qed.

Theorem dm_exact_implies_tolerant t a b :
  0 <= rtol t -> 0 <= atol t -> dm_diff exact true a b = [] -> dm_diff t false a b = [].
Proof.
  intros Hr Ha. unfold dm_diff. intros H.
  apply app_eq_nil in H. destruct H as [H1 H]. apply app_eq_nil in H. destruct H as [H2 H].
  apply app_eq_nil in H. destruct H as [H3 H]. apply app_eq_nil in H. destruct H as [H4 H].
  apply app_eq_nil in H. destruct H as [H5 H]. apply app_eq_nil in H. destruct H as [H6 _].
  apply keep_nil in H1, H2, H3, H4, H5, H6.
  rewrite H1 in *. simpl in *. rewrite H2, H3, H4.
  rewrite (allclose_weaker t _ _ Hr Ha H5), (allclose2_weaker t _ _ Hr Ha H6). reflexivity.
Qed.

(* ---- results -------------------------------------------------------------------------------------------- *)
Lemma lookup_extra_self_head k v e : lookup_extra k ((k, v) :: e) = Some v.
Proof. simpl. rewrite Z.eqb_refl. reflexivity. Qed.

Theorem res_values_length_mismatch t a b :
  length (r_vals a) <> length (r_vals b) -> In MValues (res_diff t a b).
Proof.
  intros H. unfold res_diff. rewrite (allclose_length_mismatch t _ _ H).
  apply in_or_app. right. apply in_or_app. right. apply in_or_app. left. simpl. auto.
Qed.

Theorem one_member_named_values t a b :
  r_method a = r_method b -> eq_labels (r_alts a) (r_alts b) = true ->
  extra_close t (r_extra a) (r_extra b) = true -> allclose t (r_vals a) (r_vals b) = false ->
  res_diff t a b = [MValues].
Proof.
  intros M A E V. unfold res_diff. rewrite M, Z.eqb_refl, A, E, V. reflexivity.
Qed.

(* ---- the operators ----------------------------------------------------------------------------------------- *)
Theorem ne_is_not_eq x y : neb x y = negb (eqb x y).
Proof. reflexivity. Qed.

Theorem dm_equals_copy d : equals (ODM d) (ODM d) = true.
Proof.
  unfold equals, diff, has_differences. rewrite Z.eqb_refl. simpl. rewrite dm_equals_refl. reflexivity.
Qed.

Theorem dm_equals_sym a b : equals (ODM a) (ODM b) = equals (ODM b) (ODM a).
Proof.
  unfold equals, diff, has_differences. simpl. rewrite (dm_diff_exact_sym true a b). reflexivity.
Qed.

Theorem dm_equals_implies_aequals t a b :
  0 <= rtol t -> 0 <= atol t -> equals (ODM a) (ODM b) = true -> aequals t (ODM a) (ODM b) = true.
Proof.
  intros Hr Ha. unfold equals, aequals, diff, has_differences. simpl.
  destruct (dm_diff exact true a b) eqn:E; [|discriminate]. intros _.
  rewrite (dm_exact_implies_tolerant t a b Hr Ha E). reflexivity.
Qed.

Theorem different_types_never_equal x y :
  type_tag x <> type_tag y -> equals x y = false /\ fst (diff exact true x y) = true.
Proof.
  intros H. unfold equals, diff, has_differences.
  destruct (Z.eqb_spec (type_tag x) (type_tag y)) as [E|E]; [contradiction|]. simpl. auto.
Qed.
