(* C07, continued: the per-criterion comparison table and the dominated set. *)
From Coq Require Import QArith List Bool Arith Lia.
From SKC Require Import Base.QBool Model.Dominance Theory.Dominance.
Import ListNotations.
Local Open Scope nat_scope.

Definition better_where (objs : list bool) (ra rb : list Q) : list bool := zip3 (fun o x y => better o x y) objs ra rb.
Definition equal_where (objs : list bool) (ra rb : list Q) : list bool := zip3 (fun (_ : bool) x y => Qeqb x y) objs ra rb.

Lemma zip3_nth {A B C D} (f : A -> B -> C -> D) la lb lc k da db dc dd :
  k < length la -> k < length lb -> k < length lc ->
  nth k (zip3 f la lb lc) dd = f (nth k la da) (nth k lb db) (nth k lc dc).
Proof.
  revert lb lc k. induction la as [|a ta IH]; intros [|b tb] [|c tc] k Ha Hb Hc; cbn [length] in *; try lia.
  destruct k as [|k]; cbn [zip3 nth]; [reflexivity|]. apply IH; lia.
Qed.

(* the per-criterion rows mean what their names say *)
Theorem better_where_nth objs ra rb k :
  k < length objs -> k < length ra -> k < length rb ->
  nth k (better_where objs ra rb) false = better (nth k objs true) (nth k ra 0%Q) (nth k rb 0%Q).
Proof. intros. unfold better_where. apply (zip3_nth (fun o x y => better o x y) objs ra rb k true 0%Q 0%Q false); assumption. Qed.

Theorem equal_where_nth objs ra rb k :
  k < length objs -> k < length ra -> k < length rb ->
  nth k (equal_where objs ra rb) false = Qeqb (nth k ra 0%Q) (nth k rb 0%Q).
Proof. intros. unfold equal_where. apply (zip3_nth (fun (_ : bool) x y => Qeqb x y) objs ra rb k true 0%Q 0%Q false); assumption. Qed.

(* compare(a, b): whichever way round the unordered-pair cache holds the pair *)
Theorem compare_cell_spec objs rows i j :
  i <> j ->
  compare_cell objs rows i j =
  ((better_where objs (row rows i) (row rows j), better_where objs (row rows j) (row rows i),
    equal_where objs (row rows i) (row rows j)),
   (count_better objs (row rows i) (row rows j), count_better objs (row rows j) (row rows i),
    count_equal objs (row rows i) (row rows j))).
Proof.
  intros Hne. unfold compare_cell, cache_read.
  destruct (Nat.ltb_spec i j) as [Hlt|Hge].
  - rewrite entry_bDa_where, entry_aDb, entry_bDa, entry_eq. reflexivity.
  - rewrite entry_bDa_where, entry_aDb, entry_bDa, entry_eq.
    rewrite (entry_eq_where_sym objs (row rows j) (row rows i)), (count_equal_sym objs (row rows j) (row rows i)).
    reflexivity.
Qed.

Lemma nth_map_seq0 {A} n (f : nat -> A) k d : k < n -> nth k (map f (seq 0 n)) d = f k.
Proof.
  intros Hk. rewrite (nth_indep _ d (f 0)) by (rewrite map_length, seq_length; exact Hk).
  rewrite (map_nth f (seq 0 n) 0 k). rewrite seq_nth by exact Hk. reflexivity.
Qed.

(* the dominated set: j is reported dominated iff some other alternative dominates it *)
Theorem dominated_spec strict objs rows j :
  rect (length objs) rows -> j < length rows ->
  (nth j (dominated strict objs rows) false = true <->
   exists i, i < length rows /\ i <> j /\ dom_spec strict objs (row rows i) (row rows j) = true).
Proof.
  intros Hr Hj. unfold dominated. rewrite nth_map_seq0 by exact Hj. rewrite existsb_exists. split.
  - intros [i [Hi H]]. apply in_seq in Hi. exists i. split; [lia|].
    rewrite dom_cell_spec in H by (try assumption; lia).
    destruct (Nat.eqb_spec i j); [discriminate|]. split; assumption.
  - intros [i [Hi [Hne H]]]. exists i. split; [apply in_seq; lia|].
    rewrite dom_cell_spec by assumption.
    destruct (Nat.eqb_spec i j); [contradiction|exact H].
Qed.

Theorem dominated_length strict objs rows : length (dominated strict objs rows) = length rows.
Proof. unfold dominated. rewrite map_length, seq_length. reflexivity. Qed.

(* strictly dominated alternatives are dominated *)
Theorem strictly_dominated_is_dominated objs rows j :
  rect (length objs) rows -> j < length rows ->
  nth j (dominated true objs rows) false = true -> nth j (dominated false objs rows) false = true.
Proof.
  intros Hr Hj H. apply (dominated_spec true objs rows j Hr Hj) in H. destruct H as [i [Hi [Hne H]]].
  apply (dominated_spec false objs rows j Hr Hj). exists i. repeat split; auto.
  apply strict_implies_dominates. exact H.
Qed.
