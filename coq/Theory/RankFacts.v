From Coq Require Import QArith List Bool Arith Lia Lqa.
From SKC Require Import Base.QRank.
Import ListNotations.

Lemma Forall2_Qeq_refl l : Forall2 Qeq l l.
Proof. induction l; constructor; auto. reflexivity. Qed.

Lemma Forall2_Qeq_map (f g : Q -> Q) l l' :
  (forall a b, a == b -> f a == g b) -> Forall2 Qeq l l' -> Forall2 Qeq (map f l) (map g l').
Proof. intros H. induction 1; simpl; constructor; auto. Qed.

Lemma Forall2_Qeq_trans l1 l2 l3 : Forall2 Qeq l1 l2 -> Forall2 Qeq l2 l3 -> Forall2 Qeq l1 l3.
Proof.
  intros H. revert l3. induction H as [|a b t u Hab _ IH]; intros l3 H3; inversion H3; subst; constructor.
  - rewrite Hab. assumption.
  - apply IH. assumption.
Qed.

Lemma Forall2_Qeq_map_through (f g h : Q -> Q) L S :
  (forall a b, a == g b -> f a == h b) ->
  Forall2 Qeq L (map g S) -> Forall2 Qeq (map f L) (map h S).
Proof.
  intros H. revert L. induction S as [|b t IH]; intros L HL; simpl in *; inversion HL; subst; simpl;
    constructor; auto.
Qed.

(* strictly increasing affine maps leave every ranking unchanged *)
Theorem rank_values_affine rev c d L S :
  0 < c -> Forall2 Qeq L (map (fun x => c * x + d) S) ->
  rank_values rev L = rank_values rev S.
Proof.
  intros Hc HL. unfold rank_values. destruct rev.
  - rewrite (dense_rank_Q_ext (map Qopp L) (map (fun x => c * x - d) (map Qopp S))).
    + apply (dense_rank_Q_mono_invariant (fun _ => True)); auto.
      * intros a b E. rewrite E. reflexivity.
      * intros a b _ _. split; intros H; nra.
    + rewrite map_map.
      apply (Forall2_Qeq_map_through Qopp (fun x => c * x + d) (fun x => c * - x - d)); auto.
      intros a b E. rewrite E. lra.
  - rewrite (dense_rank_Q_ext L (map (fun x => c * x + d) S)) by exact HL.
    apply (dense_rank_Q_mono_invariant (fun _ => True)); auto.
    + intros a b E. rewrite E. reflexivity.
    + intros a b _ _. split; intros H; nra.
Qed.
