(* C08, continued: the discordance numerator is the largest shortfall; discordance lies in [0, 1]. *)
From Coq Require Import QArith List Bool Arith Lia Lqa.
From SKC Require Import Base.QBool Base.QList Model.Electre Theory.QListFacts Theory.Electre.
Import ListNotations.

(* the amount by which b beats a on criterion j (0 when it does not) *)
Definition shortfall (o : bool) (x y : Q) : Q := if worse1 o x y then qabs (y - x) else 0.

Lemma disc_list_nth objs ra rb j :
  length ra = length objs -> length rb = length objs -> (j < length objs)%nat ->
  nth j (map2 (fun (o : bool) xy => if worse1 o (fst xy) (snd xy) then qabs (snd xy - fst xy) else 0) objs (combine ra rb)) 0 =
  shortfall (nth j objs true) (nth j ra 0) (nth j rb 0).
Proof.
  intros La Lb Hj. rewrite (map2_nth _ _ _ j true (0, 0) 0) by (rewrite ?combine_length; lia).
  rewrite combine_nth by lia. reflexivity.
Qed.

(* ... it is an upper bound of every criterion's shortfall, and it is attained (or there are no criteria) *)
Theorem disc_num_is_largest_shortfall objs ra rb :
  length ra = length objs -> length rb = length objs ->
  (forall j, (j < length objs)%nat -> shortfall (nth j objs true) (nth j ra 0) (nth j rb 0) <= disc_num objs ra rb) /\
  (objs = [] \/ exists j, (j < length objs)%nat /\ disc_num objs ra rb = shortfall (nth j objs true) (nth j ra 0) (nth j rb 0)).
Proof.
  intros La Lb. unfold disc_num.
  set (L := map2 _ objs (combine ra rb)).
  assert (Hlen : length L = length objs).
  { unfold L. rewrite map2_length; [reflexivity|]. rewrite combine_length. lia. }
  split.
  - intros j Hj. rewrite <- (disc_list_nth objs ra rb j La Lb Hj). fold L. apply lmax_ge. apply nth_In. lia.
  - destruct objs as [|o os]; [left; reflexivity|right].
    assert (Hne : L <> []) by (intros E; rewrite E in Hlen; discriminate).
    destruct (In_nth _ _ 0 (lmax_In L Hne)) as [j [Hj E]]. exists j. split; [lia|].
    rewrite <- E. unfold L. apply disc_list_nth; try assumption. lia.
Qed.

Lemma shortfall_le_range o x y c : In x c -> In y c -> shortfall o x y <= lmax c - lmin c.
Proof.
  intros Hx Hy. unfold shortfall.
  pose proof (lmax_ge c x Hx). pose proof (lmax_ge c y Hy). pose proof (lmin_le c x Hx). pose proof (lmin_le c y Hy).
  destruct (worse1 o x y); [|lra].
  destruct (qabs_cases (y - x)) as [[_ ->]|[_ ->]]; lra.
Qed.

(* discordance, as a fraction of the largest criterion range, lies in [0, 1] for any two alternatives of the matrix *)
Theorem discordance_bounds objs rows ra rb :
  Forall (fun r => length r = length objs) rows -> In ra rows -> In rb rows ->
  0 < max_range (length objs) rows ->
  0 <= disc_cell objs (max_range (length objs) rows) ra rb <= 1.
Proof.
  intros Hr Ha Hb Hpos. unfold disc_cell.
  assert (La : length ra = length objs) by (apply (proj1 (Forall_forall _ rows) Hr); exact Ha).
  assert (Lb : length rb = length objs) by (apply (proj1 (Forall_forall _ rows) Hr); exact Hb).
  pose proof (disc_num_nonneg objs ra rb) as N0.
  assert (UB : disc_num objs ra rb <= max_range (length objs) rows).
  { destruct (disc_num_is_largest_shortfall objs ra rb La Lb) as [_ [->|[j [Hj ->]]]].
    - cbn. unfold disc_num. cbn. lra.
    - unfold max_range.
      apply Qle_trans with (lmax (col rows j) - lmin (col rows j)).
      + apply shortfall_le_range; unfold col; [apply (in_map (fun r => nth j r 0) rows ra Ha)|apply (in_map (fun r => nth j r 0) rows rb Hb)].
      + apply lmax_ge. unfold cols. rewrite map_map.
        apply (in_map (fun k => lmax (col rows k) - lmin (col rows k)) (seq 0 (length objs)) j). apply in_seq. lia. }
  split.
  - apply Qle_shift_div_l; [exact Hpos|]. lra.
  - apply Qle_shift_div_r; [exact Hpos|]. lra.
Qed.
