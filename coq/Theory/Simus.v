From Coq Require Import ZArith QArith List Bool Arith Lia Lqa.
From SKC Require Import Base.QBool Base.QList Model.Electre Model.Simus Theory.QListFacts.
Import ListNotations.

(* ---- dot-product algebra --------------------------------------------------------------------------- *)
Lemma dot_nil_l x : dot [] x == 0.
Proof. reflexivity. Qed.

Lemma dot_cons a t b u : dot (a :: t) (b :: u) == a * b + dot t u.
Proof. unfold dot. simpl. reflexivity. Qed.

Lemma dot_repeat0 n x : dot (repeat 0 n) x == 0.
Proof.
  revert x. induction n as [|n IH]; intros [|b u]; simpl repeat; try reflexivity.
  rewrite dot_cons, IH. ring.
Qed.

Lemma dot_scale_l c a x : dot (map (Qmult c) a) x == c * dot a x.
Proof.
  revert x. induction a as [|v t IH]; intros [|b u]; simpl map; unfold dot; simpl; try ring.
  fold (dot (map (Qmult c) t) u). fold (dot t u). rewrite IH. ring.
Qed.

Lemma dot_add_l a b x :
  length a = length x -> length b = length x -> dot (map2 Qplus a b) x == dot a x + dot b x.
Proof.
  revert b x. induction a as [|v t IH]; intros [|w s] [|c u]; simpl; intros H1 H2; try discriminate;
    unfold dot; simpl; try ring.
  fold (dot (map2 Qplus t s) u). fold (dot t u). fold (dot s u).
  rewrite IH by lia. ring.
Qed.

Lemma ytA_length n y A :
  rows_len n A = true -> length (ytA n y A) = n.
Proof.
  revert y. induction A as [|r A' IH]; intros [|yi y'] H; simpl; try apply repeat_length.
  simpl in H. apply andb_true_iff in H. destruct H as [Hr HA]. apply Nat.eqb_eq in Hr.
  rewrite map2_length; rewrite map_length; [exact Hr|]. rewrite IH by exact HA. exact Hr.
Qed.

(* (y^T A) . x = y . (A x) *)
Lemma ytA_dot n y A x :
  rows_len n A = true -> length x = n -> length y = length A ->
  dot (ytA n y A) x == dot y (mv A x).
Proof.
  revert y. induction A as [|r A' IH]; intros [|yi y'] HA Hx Hy; simpl in *; try discriminate.
  - rewrite dot_repeat0. reflexivity.
  - apply andb_true_iff in HA. destruct HA as [Hr HA']. apply Nat.eqb_eq in Hr.
    rewrite dot_add_l.
    + rewrite dot_scale_l, IH by (auto; lia). rewrite dot_cons. reflexivity.
    + rewrite map_length. lia.
    + rewrite ytA_length by exact HA'. lia.
Qed.

(* ---- monotonicity of dot products ---------------------------------------------------------------------- *)
Lemma all_le_spec a b : all_le a b = true -> length a = length b /\ forall i, (i < length a)%nat -> nth i a 0 <= nth i b 0.
Proof.
  revert b. induction a as [|x t IH]; intros [|y u]; simpl; intros H; try discriminate.
  - split; auto. intros i Hi. lia.
  - apply andb_true_iff in H. destruct H as [H1 H2]. qb. destruct (IH _ H2) as [L N]. split; [lia|].
    intros [|i] Hi; simpl; auto. apply N. lia.
Qed.

Lemma nonneg_spec x : nonneg x = true -> forall v, In v x -> 0 <= v.
Proof. unfold nonneg. rewrite forallb_forall. intros H v Hv. specialize (H v Hv). qb. exact H. Qed.

Lemma dot_le_r y a b :
  nonneg y = true -> all_le a b = true -> length y = length a -> dot y a <= dot y b.
Proof.
  revert a b. induction y as [|v t IH]; intros [|p a] [|q b]; simpl; intros Hy Hab L; try discriminate;
    try (unfold dot; simpl; lra).
  apply andb_true_iff in Hy. destruct Hy as [Hv Ht]. apply andb_true_iff in Hab. destruct Hab as [Hpq Hab].
  qb. rewrite !dot_cons. specialize (IH a b Ht Hab ltac:(lia)). nra.
Qed.

Lemma dot_le_l a b x :
  nonneg x = true -> all_le a b = true -> length x = length a -> dot a x <= dot b x.
Proof.
  revert a b. induction x as [|v t IH]; intros [|p a] [|q b]; simpl; intros Hx Hab L; try discriminate;
    try (unfold dot; simpl; lra).
  apply andb_true_iff in Hx. destruct Hx as [Hv Ht]. apply andb_true_iff in Hab. destruct Hab as [Hpq Hab].
  qb. rewrite !dot_cons. specialize (IH a b Ht Hab ltac:(lia)). nra.
Qed.

(* ---- weak duality and certificate soundness -------------------------------------------------------------- *)
Theorem weak_duality p x y :
  rows_len (length (lp_c p)) (lp_A p) = true -> length y = length (lp_A p) ->
  length (lp_b p) = length (lp_A p) ->
  feasible p x = true -> nonneg y = true -> all_le (lp_c p) (ytA (length (lp_c p)) y (lp_A p)) = true ->
  dot (lp_c p) x <= dot y (lp_b p).
Proof.
  intros HA Hy Hb Hf Hny Hd. unfold feasible in Hf.
  apply andb_true_iff in Hf. destruct Hf as [Hf Hle]. apply andb_true_iff in Hf. destruct Hf as [Hlen Hnx].
  apply Nat.eqb_eq in Hlen.
  (* c.x <= (y^T A).x = y.(A x) <= y.b *)
  apply Qle_trans with (dot (ytA (length (lp_c p)) y (lp_A p)) x).
  - apply dot_le_l; auto.
  - rewrite ytA_dot by auto. apply dot_le_r; auto. unfold mv. rewrite map_length. exact Hy.
Qed.

Theorem check_cert_sound p x y :
  check_cert p x y = true ->
  feasible p x = true /\ forall x', feasible p x' = true -> dot (lp_c p) x' <= dot (lp_c p) x.
Proof.
  unfold check_cert. rewrite !andb_true_iff.
  intros [[[[[[HA Hy] Hb] Hf] Hny] Hd] He]. split; auto.
  intros x' Hf'. apply Nat.eqb_eq in Hy, Hb. qb. rewrite He.
  apply weak_duality; auto.
Qed.

(* ---- stage rows and scores ---------------------------------------------------------------------------------- *)
Theorem stage_row_sums_to_one_or_zero r :
  (qsum r == 0 -> forall v, In v (normalise_row r) -> v == 0) /\
  (~ qsum r == 0 -> qsum (normalise_row r) == 1).
Proof.
  unfold normalise_row. split; intros H.
  - destruct (Qeqb (qsum r) 0) eqn:E; [|qb; contradiction].
    intros v Hv. apply in_map_iff in Hv. destruct Hv as [_ [<- _]]. reflexivity.
  - destruct (Qeqb (qsum r) 0) eqn:E; [qb; contradiction|].
    assert (G : forall l, qsum (map (fun v => v / qsum r) l) == qsum l / qsum r).
    { induction l as [|a t IH]; simpl; [field; exact H|]. rewrite IH. field. exact H. }
    rewrite G. field. exact H.
Qed.

Theorem second_method_formula n sr :
  let '(score, p, s, d) := second_method n sr in
  score = map2 Qminus p s /\ p = map qsum d /\ s = map (fun j => qsum (col_of 0 d j)) (seq 0 n) /\
  d = dominance_table n sr.
Proof. unfold second_method. repeat split. Qed.

Theorem credit_by_index_id vals : credit_by_index vals = vals.
Proof. reflexivity. Qed.
