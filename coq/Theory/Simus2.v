(* C09, continued: the stage LP handed to the solver IS the documented one, so a checked certificate means
   "satisfies every documented constraint and attains the true optimum in the criterion's own sense";
   the dominance table of the second method is the pointwise sum; its scores sum to zero. *)
From Coq Require Import ZArith QArith List Bool Arith Lia Lqa.
From SKC Require Import Base.QBool Base.QList Model.Electre Model.Simus Theory.QListFacts Theory.Simus.
Import ListNotations.

(* ---- the documented stage ----------------------------------------------------------------------------- *)
(* tm: one row per criterion; x: one variable per alternative *)
Definition doc_feasible (objs : list bool) (tm : list (list Q)) (bv : list Q) (z : nat) (x : list Q) : Prop :=
  length x = length (nth z tm []) /\ (forall v, In v x -> 0 <= v) /\
  forall k, (k < length objs)%nat -> k <> z ->
    if nth k objs true then dot (nth k tm []) x <= nth k bv 0 else nth k bv 0 <= dot (nth k tm []) x.

Lemma all_le_pairs (rows : list (list Q * Q)) x :
  all_le (mv (map fst rows) x) (map snd rows) = true <-> Forall (fun rb => dot (fst rb) x <= snd rb) rows.
Proof.
  induction rows as [|[r b] t IH]; cbn [map mv all_le fst snd].
  - split; [constructor|reflexivity].
  - change (map (fun r0 => dot r0 x) (map fst t)) with (mv (map fst t) x).
    rewrite andb_true_iff, IH. split.
    + intros [H1 H2]. qb. constructor; assumption.
    + intros H. inversion H as [|? ? H1 H2]; subst. split; [qb; exact H1|exact H2].
Qed.

Lemma Forall_others {A} (P : A -> Prop) d (l : list A) z :
  Forall P (others z l) <-> forall k, (k < length l)%nat -> k <> z -> P (nth k l d).
Proof.
  revert z. induction l as [|a t IH]; intros z.
  - destruct z; cbn [others length]; (split; [intros _ k Hk; lia|constructor]).
  - destruct z as [|z]; cbn [others length].
    + rewrite Forall_forall. split.
      * intros H [|k] Hk Hne; [congruence|]. cbn [nth]. apply H. apply nth_In. lia.
      * intros H v Hv. destruct (In_nth _ _ d Hv) as [k [Hk <-]]. apply (H (S k)); lia.
    + split.
      * intros H. inversion H as [|? ? Ha Ht]; subst. intros [|k] Hk Hne; cbn [nth]; [exact Ha|].
        apply (proj1 (IH z) Ht); lia.
      * intros H. constructor; [apply (H 0%nat); lia|].
        apply (proj2 (IH z)). intros k Hk Hne. apply (H (S k)); lia.
Qed.

Lemma map3_length {A B C D} (f : A -> B -> C -> D) la lb lc :
  length la = length lb -> length lb = length lc -> length (map3 f la lb lc) = length la.
Proof.
  revert lb lc. induction la as [|a ta IH]; intros [|b tb] [|c tc] H1 H2; cbn [map3 length] in *; try lia.
  rewrite IH; lia.
Qed.

Lemma map3_nth {A B C D} (f : A -> B -> C -> D) la lb lc k da db dc dd :
  (k < length la)%nat -> length la = length lb -> length lb = length lc ->
  nth k (map3 f la lb lc) dd = f (nth k la da) (nth k lb db) (nth k lc dc).
Proof.
  revert lb lc k. induction la as [|a ta IH]; intros [|b tb] [|c tc] k Hk H1 H2; cbn [length] in *; try lia.
  destruct k as [|k]; cbn [map3 nth]; [reflexivity|]. apply IH; lia.
Qed.

Lemma dot_neg_row r x : dot (neg_row r) x == - dot r x.
Proof.
  unfold neg_row. rewrite (map_ext Qopp (Qmult (-(1)))) by (intros a; ring_simplify; reflexivity).
  - rewrite dot_scale_l. ring.
Qed.

Lemma nonneg_iff x : nonneg x = true <-> forall v, In v x -> 0 <= v.
Proof.
  unfold nonneg. rewrite forallb_forall. split; intros H v Hv; specialize (H v Hv); qb; exact H.
Qed.

Theorem stage_lp_is_the_documented_program objs tm bv z x :
  length objs = length tm -> length tm = length bv -> (z < length objs)%nat ->
  (feasible (stage_lp objs tm bv z) x = true <-> doc_feasible objs tm bv z x).
Proof.
  intros L1 L2 Hz. unfold feasible, doc_feasible, stage_lp. cbn [lp_c lp_A lp_b].
  rewrite !andb_true_iff, Nat.eqb_eq, nonneg_iff, all_le_pairs.
  rewrite (Forall_others _ ([], 0)).
  rewrite map3_length by assumption.
  assert (LC : length (if nth z objs true then nth z tm [] else neg_row (nth z tm [])) = length (nth z tm [])).
  { destruct (nth z objs true); [reflexivity|]. unfold neg_row. apply map_length. }
  rewrite LC.
  assert (Cell : forall k, (k < length objs)%nat ->
            (dot (fst (nth k (map3 (fun (o : bool) r b => if o then (r, b) else (neg_row r, - b)) objs tm bv) ([], 0))) x <=
             snd (nth k (map3 (fun (o : bool) r b => if o then (r, b) else (neg_row r, - b)) objs tm bv) ([], 0))) <->
            (if nth k objs true then dot (nth k tm []) x <= nth k bv 0 else nth k bv 0 <= dot (nth k tm []) x)).
  { intros k Hk.
    rewrite (map3_nth (fun (o : bool) r b => if o then (r, b) else (neg_row r, - b)) objs tm bv k true [] 0 ([], 0) Hk L1 L2).
    destruct (nth k objs true); cbn [fst snd]; [tauto|]. rewrite dot_neg_row. split; intros; lra. }
  split.
  - intros [[H1 H2] H3]. split; [exact H1|]. split; [exact H2|]. intros k Hk Hne.
    apply (proj1 (Cell k Hk)). exact (H3 k Hk Hne).
  - intros [H1 [H2 H3]]. split; [split; [exact H1|exact H2]|]. intros k Hk Hne.
    apply (proj2 (Cell k Hk)). exact (H3 k Hk Hne).
Qed.

(* a checked certificate: x meets every documented constraint and no admissible x' does better on criterion z
   in the criterion's own sense *)
Theorem certified_stage_is_optimal objs tm bv z x y :
  length objs = length tm -> length tm = length bv -> (z < length objs)%nat ->
  check_cert (stage_lp objs tm bv z) x y = true ->
  doc_feasible objs tm bv z x /\
  forall x', doc_feasible objs tm bv z x' ->
    if nth z objs true then stage_value objs tm z x' <= stage_value objs tm z x
    else stage_value objs tm z x <= stage_value objs tm z x'.
Proof.
  intros L1 L2 Hz Hc. destruct (check_cert_sound _ _ _ Hc) as [Hf Hopt]. split.
  - apply (stage_lp_is_the_documented_program objs tm bv z x L1 L2 Hz). exact Hf.
  - intros x' Hx'. apply (stage_lp_is_the_documented_program objs tm bv z x' L1 L2 Hz) in Hx'.
    specialize (Hopt x' Hx'). unfold stage_lp in Hopt. cbn [lp_c] in Hopt. unfold stage_value.
    destruct (nth z objs true); [exact Hopt|]. rewrite !dot_neg_row in Hopt. lra.
Qed.

(* ---- second method: the dominance table is the pointwise sum over the stages; the scores sum to zero ---- *)
Definition square (n : nat) (t : list (list Q)) : Prop := length t = n /\ Forall (fun r => length r = n) t.
Definition pos_part (d : Q) : Q := if Qltb d 0 then 0 else d.

Lemma square_row n t a : square n t -> (a < n)%nat -> length (nth a t []) = n.
Proof. intros [L F] Ha. apply (proj1 (Forall_forall _ t) F). apply nth_In. lia. Qed.

Lemma zero_table_square n : square n (zero_table n).
Proof. unfold zero_table. split; [apply repeat_length|]. apply Forall_forall. intros r Hr. apply repeat_spec in Hr. subst. apply repeat_length. Qed.

Lemma zero_table_get n a b : qget (zero_table n) a b = 0.
Proof.
  unfold qget, zero_table. destruct (Nat.lt_ge_cases a n) as [Ha|Ha].
  - rewrite (nth_indep _ [] (repeat 0 n)) by (rewrite repeat_length; exact Ha). rewrite nth_repeat. apply nth_repeat.
  - rewrite (nth_overflow (repeat (repeat 0 n) n) []) by (rewrite repeat_length; exact Ha). destruct b; reflexivity.
Qed.

Lemma nth_map_in {A B} (f : A -> B) l k da db : (k < length l)%nat -> nth k (map f l) db = f (nth k l da).
Proof. intros H. rewrite (nth_indep _ db (f da)) by (rewrite map_length; exact H). apply map_nth. Qed.

Lemma dom_by_crit_square crit : square (length crit) (dom_by_crit crit).
Proof.
  unfold dom_by_crit. split; [apply map_length|]. apply Forall_forall. intros r Hr.
  apply in_map_iff in Hr. destruct Hr as [a [<- _]]. apply map_length.
Qed.

Lemma dom_by_crit_get crit a b : (a < length crit)%nat -> (b < length crit)%nat ->
  qget (dom_by_crit crit) a b = pos_part (nth a crit 0 - nth b crit 0).
Proof.
  intros Ha Hb. unfold qget, dom_by_crit.
  rewrite (nth_map_in _ crit a 0 []) by exact Ha.
  rewrite (nth_map_in _ crit b 0 0) by exact Hb. reflexivity.
Qed.

Lemma add_tables_square n t u : square n t -> square n u -> square n (add_tables t u).
Proof.
  intros [Lt Ft] [Lu Fu]. unfold add_tables. split; [rewrite map2_length; lia|].
  clear Lt Lu. revert u Fu. induction Ft as [|r t Hr _ IH]; intros u Fu; [destruct u; constructor|].
  destruct Fu as [|r' u Hr' Fu]; cbn [map2]; constructor; [rewrite map2_length; lia|apply IH; exact Fu].
Qed.

Lemma add_tables_get n t u a b : square n t -> square n u -> (a < n)%nat -> (b < n)%nat ->
  qget (add_tables t u) a b = qget t a b + qget u a b.
Proof.
  intros St Su Ha Hb. unfold qget, add_tables.
  rewrite (map2_nth (map2 Qplus) t u a [] [] []) by (destruct St, Su; lia).
  apply map2_nth; rewrite (square_row n) by assumption; exact Hb.
Qed.

Lemma fold_tables_get n sr : Forall (fun c => length c = n) sr -> forall acc a b,
  square n acc -> (a < n)%nat -> (b < n)%nat ->
  qget (fold_left (fun acc crit => add_tables acc (dom_by_crit crit)) sr acc) a b ==
  qget acc a b + qsum (map (fun crit => pos_part (nth a crit 0 - nth b crit 0)) sr) /\
  square n (fold_left (fun acc crit => add_tables acc (dom_by_crit crit)) sr acc).
Proof.
  intros F. induction F as [|c sr Hc _ IH]; intros acc a b Sa Ha Hb; cbn [fold_left map qsum fold_right].
  - split; [ring|exact Sa].
  - assert (Sd : square n (dom_by_crit c)) by (rewrite <- Hc; apply dom_by_crit_square).
    destruct (IH (add_tables acc (dom_by_crit c)) a b (add_tables_square n _ _ Sa Sd) Ha Hb) as [E S]. split; [|exact S].
    rewrite E, (add_tables_get n _ _ a b Sa Sd Ha Hb), dom_by_crit_get by (rewrite Hc; assumption). unfold qsum. ring.
Qed.

(* cell (a, b) of the dominance table: how much a exceeds b, summed over the stages *)
Theorem dominance_table_cell n sr a b :
  Forall (fun c => length c = n) sr -> (a < n)%nat -> (b < n)%nat ->
  qget (dominance_table n sr) a b == qsum (map (fun crit => pos_part (nth a crit 0 - nth b crit 0)) sr).
Proof.
  intros F Ha Hb. unfold dominance_table.
  destruct (fold_tables_get n sr F (zero_table n) a b (zero_table_square n) Ha Hb) as [E _].
  rewrite E, zero_table_get. ring.
Qed.

Lemma fold_tables_square n sr : Forall (fun c => length c = n) sr -> forall acc, square n acc ->
  square n (fold_left (fun acc crit => add_tables acc (dom_by_crit crit)) sr acc).
Proof.
  intros F. induction F as [|c sr Hc _ IH]; intros acc Sa; cbn [fold_left]; [exact Sa|].
  apply IH. apply add_tables_square; [exact Sa|]. rewrite <- Hc. apply dom_by_crit_square.
Qed.

Theorem dominance_table_square n sr : Forall (fun c => length c = n) sr -> square n (dominance_table n sr).
Proof. intros F. unfold dominance_table. apply fold_tables_square; [exact F|apply zero_table_square]. Qed.

Lemma qsum_nil : qsum [] = 0.
Proof. reflexivity. Qed.
Lemma qsum_cons a t : qsum (a :: t) = a + qsum t.
Proof. reflexivity. Qed.

Lemma qsum_map_plus {A} (f g : A -> Q) l : qsum (map (fun x => f x + g x) l) == qsum (map f l) + qsum (map g l).
Proof. induction l as [|a t IH]; [unfold qsum; cbn [map fold_right]; ring|]. change (qsum (map (fun x => f x + g x) (a :: t))) with (f a + g a + qsum (map (fun x => f x + g x) t)). change (qsum (map f (a :: t))) with (f a + qsum (map f t)). change (qsum (map g (a :: t))) with (g a + qsum (map g t)). rewrite IH. ring. Qed.

Lemma qsum_nth_seq r n : length r = n -> qsum (map (fun j => nth j r 0) (seq 0 n)) == qsum r.
Proof.
  intros L. subst n. assert (E : map (fun j => nth j r 0) (seq 0 (length r)) = r).
  { apply (nth_ext _ _ 0 0); [rewrite map_length, seq_length; reflexivity|].
    intros k Hk. rewrite map_length, seq_length in Hk.
    rewrite (nth_indep _ 0 ((fun j => nth j r 0) 0%nat)) by (rewrite map_length, seq_length; exact Hk).
    rewrite (map_nth (fun j => nth j r 0) (seq 0 (length r)) 0%nat k), seq_nth by exact Hk. reflexivity. }
  rewrite E. reflexivity.
Qed.

Lemma qsum_map_ext_gen {A} (f g : A -> Q) l : (forall x, f x == g x) -> qsum (map f l) == qsum (map g l).
Proof. intros H. induction l as [|a t IH]; cbn [map]; [reflexivity|]. rewrite !qsum_cons, IH, H. reflexivity. Qed.

(* summing by columns or by rows gives the same total *)
Lemma sum_cols_eq_sum_rows n d : Forall (fun r => length r = n) d ->
  qsum (map (fun j => qsum (col_of 0 d j)) (seq 0 n)) == qsum (map qsum d).
Proof.
  intros F. induction F as [|r t Hr _ IH].
  - cbn [col_of map]. induction (seq 0 n) as [|j s IHs]; cbn [map]; [reflexivity|].
    rewrite qsum_cons, IHs, !qsum_nil. ring.
  - cbn [map]. rewrite qsum_cons, <- IH, <- (qsum_nth_seq r n Hr), <- qsum_map_plus.
    apply qsum_map_ext_gen. intros j. cbn [col_of map]. rewrite qsum_cons. reflexivity.
Qed.

Lemma qsum_map2_minus p s : length p = length s -> qsum (map2 Qminus p s) == qsum p - qsum s.
Proof.
  revert s. induction p as [|a t IH]; intros [|b u] L; cbn [length] in L; try discriminate; cbn [map2];
    rewrite ?qsum_cons, ?qsum_nil; [ring|].
  rewrite IH by lia. ring.
Qed.

(* what one alternative gains another loses: the second-method scores sum to zero *)
Theorem second_method_scores_sum_to_zero n sr :
  Forall (fun c => length c = n) sr ->
  let '(score, _, _, _) := second_method n sr in qsum score == 0.
Proof.
  intros F. unfold second_method. destruct (dominance_table_square n sr F) as [L R].
  rewrite qsum_map2_minus by (rewrite !map_length, seq_length; exact L).
  rewrite (sum_cols_eq_sum_rows n _ R). ring.
Qed.

(* first method: each score is (column sum) x (share of the stages in which the alternative is positive) *)
Theorem first_method_cell n sr j : (j < n)%nat ->
  nth j (first_method n sr) 0 =
  qsum (col_of 0 sr j) * (inject_Z (Z.of_nat (length (filter (fun v => Qltb 0 v) (col_of 0 sr j)))) /
                          inject_Z (Z.of_nat (length sr))).
Proof.
  intros Hj. unfold first_method.
  rewrite (nth_indep _ 0 ((fun j0 => qsum (col_of 0 sr j0) *
             (inject_Z (Z.of_nat (length (filter (fun v => Qltb 0 v) (col_of 0 sr j0)))) / inject_Z (Z.of_nat (length sr)))) 0%nat))
    by (rewrite map_length, seq_length; exact Hj).
  rewrite (map_nth (fun j0 => qsum (col_of 0 sr j0) *
             (inject_Z (Z.of_nat (length (filter (fun v => Qltb 0 v) (col_of 0 sr j0)))) / inject_Z (Z.of_nat (length sr))))
             (seq 0 n) 0%nat j).
  rewrite seq_nth by exact Hj. reflexivity.
Qed.

(* the right-hand sides: the supplied bound where there is one, otherwise the criterion's own maximum (if maximised)
   or minimum (if minimised) - 0 is a bound like any other *)
Theorem default_b_spec objs tm user k :
  length objs = length tm -> length tm = length user -> (k < length objs)%nat ->
  nth k (default_b objs tm user) 0 =
  match nth k user None with
  | Some v => v
  | None => if nth k objs true then lmax (nth k tm []) else lmin (nth k tm [])
  end.
Proof.
  intros L1 L2 Hk. unfold default_b.
  apply (map3_nth (fun (o : bool) r u => match u with Some v => v | None => if o then lmax r else lmin r end)
                  objs tm user k true [] None 0 Hk L1 L2).
Qed.
