(* C05 for ELECTRE: concordance / discordance / weight comparison do not depend on the order of the criteria;
   under a reordering of the alternatives every table, the kernel and the ELECTRE2 distillation are the
   same objects read in the new order. *)
From Coq Require Import QArith List Bool Arith Lia Lqa Permutation.
From SKC Require Import Base.QBool Base.QList Base.QRank Model.Electre
  Theory.QListFacts Theory.Invariance Theory.RankPerm Theory.RankPerm2 Theory.Electre.
Import ListNotations.

(* ---- A. order of the criteria --------------------------------------------------------------------- *)
Fixpoint quads (objs : list bool) (w ra rb : list Q) : list (bool * Q * Q * Q) :=
  match objs, w, ra, rb with
  | o :: os, wj :: ws, x :: xs, y :: ys => (o, wj, x, y) :: quads os ws xs ys
  | _, _, _, _ => []
  end.

Lemma map3_as_quads (g : bool -> Q -> Q * Q -> Q) objs w ra rb :
  map3 g objs w (combine ra rb) =
  map (fun q => let '(o, wj, x, y) := q in g o wj (x, y)) (quads objs w ra rb).
Proof.
  revert w ra rb. induction objs as [|o os IH]; intros [|wj w] [|x ra] [|y rb]; cbn [map3 combine quads map]; try reflexivity.
  rewrite IH. reflexivity.
Qed.

Theorem conc_criteria_order_irrelevant objs w ra rb objs' w' ra' rb' :
  Permutation (quads objs w ra rb) (quads objs' w' ra' rb') ->
  conc_cell objs w ra rb == conc_cell objs' w' ra' rb'.
Proof. intros P. unfold conc_cell. rewrite !map3_as_quads. apply qsum_perm. apply Permutation_map. exact P. Qed.

Theorem wor_sum_criteria_order_irrelevant objs w ra rb objs' w' ra' rb' :
  Permutation (quads objs w ra rb) (quads objs' w' ra' rb') ->
  wor_sum objs w ra rb == wor_sum objs' w' ra' rb'.
Proof. intros P. unfold wor_sum. rewrite !map3_as_quads. apply qsum_perm. apply Permutation_map. exact P. Qed.

(* also as the implementation calls it (known finding C08-wor-args-exchanged) *)
Theorem wor_called_sum_criteria_order_irrelevant objs w ra rb objs' w' ra' rb' :
  Permutation (quads objs w ra rb) (quads objs' w' ra' rb') ->
  wor_called_sum objs w ra rb == wor_called_sum objs' w' ra' rb'.
Proof. intros P. unfold wor_called_sum. rewrite !map3_as_quads. apply qsum_perm. apply Permutation_map. exact P. Qed.

Fixpoint trips (objs : list bool) (ra rb : list Q) : list (bool * Q * Q) :=
  match objs, ra, rb with
  | o :: os, x :: xs, y :: ys => (o, x, y) :: trips os xs ys
  | _, _, _ => []
  end.

Lemma map2_as_trips (g : bool -> Q * Q -> Q) objs ra rb :
  map2 g objs (combine ra rb) = map (fun t => let '(o, x, y) := t in g o (x, y)) (trips objs ra rb).
Proof.
  revert ra rb. induction objs as [|o os IH]; intros [|x ra] [|y rb]; cbn [map2 combine trips map]; try reflexivity.
  rewrite IH. reflexivity.
Qed.

Theorem disc_num_criteria_order_irrelevant objs ra rb objs' ra' rb' :
  Permutation (trips objs ra rb) (trips objs' ra' rb') ->
  disc_num objs ra rb == disc_num objs' ra' rb'.
Proof. intros P. unfold disc_num. rewrite !map2_as_trips. apply lmax_perm. apply Permutation_map. exact P. Qed.

Theorem max_range_criteria_order_irrelevant m rows m' rows' :
  Permutation (cols m rows) (cols m' rows') -> max_range m rows == max_range m' rows'.
Proof. intros P. unfold max_range. apply lmax_perm. apply Permutation_map. exact P. Qed.

(* ---- B. order of the alternatives: the scale and the cells ----------------------------------------- *)
Theorem max_range_row_order_irrelevant m rows rows' :
  Permutation rows rows' -> max_range m rows == max_range m rows'.
Proof.
  intros P. unfold max_range, cols. apply lmax_Forall2. rewrite !map_map.
  induction (seq 0 m) as [|j t IH]; cbn [map]; constructor; auto.
  rewrite (lmax_perm _ _ (col_perm rows rows' j P)), (lmin_perm _ _ (col_perm rows rows' j P)). reflexivity.
Qed.

Lemma sq_table_get {A} (d : A) rows (cell : list Q -> list Q -> A) i j :
  (i < length rows)%nat -> (j < length rows)%nat ->
  nth j (nth i (sq_table rows cell) []) d = cell (nth i rows []) (nth j rows []).
Proof.
  intros Hi Hj. unfold sq_table.
  rewrite (nth_indep _ [] (map (fun rb => cell [] rb) rows)) by (rewrite map_length; exact Hi).
  rewrite (map_nth (fun ra => map (fun rb => cell ra rb) rows) rows [] i).
  rewrite (nth_indep _ d (cell (nth i rows []) [])) by (rewrite map_length; exact Hj).
  apply (map_nth (fun rb => cell (nth i rows []) rb) rows [] j).
Qed.

Lemma reindex_nth {A} (d : A) sigma l i : (i < length sigma)%nat -> nth i (reindex d sigma l) d = nth (nth i sigma 0%nat) l d.
Proof.
  intros Hi. unfold reindex.
  rewrite (nth_indep _ d (nth 0%nat l d)) by (rewrite map_length; exact Hi).
  apply (map_nth (fun k => nth k l d) sigma 0%nat i).
Qed.

(* concordance of the reordered problem at (i, j) = concordance of the original at (sigma i, sigma j) *)
Theorem concordance_follows_alternatives objs w sigma rows i j :
  Permutation sigma (seq 0 (length rows)) -> (i < length rows)%nat -> (j < length rows)%nat ->
  qget (concordance objs w (reindex [] sigma rows)) i j =
  qget (concordance objs w rows) (nth i sigma 0%nat) (nth j sigma 0%nat).
Proof.
  intros P Hi Hj. assert (L : length sigma = length rows) by (rewrite (Permutation_length P), seq_length; reflexivity).
  assert (B := perm_seq_bound _ _ P).
  unfold qget, concordance.
  rewrite sq_table_get by (rewrite reindex_length, L; assumption).
  rewrite sq_table_get by (apply B; apply nth_In; rewrite L; assumption).
  rewrite !reindex_nth by (rewrite L; assumption). reflexivity.
Qed.

Theorem discordance_follows_alternatives objs sigma rows i j :
  Permutation sigma (seq 0 (length rows)) -> (i < length rows)%nat -> (j < length rows)%nat ->
  qget (discordance objs (reindex [] sigma rows)) i j ==
  qget (discordance objs rows) (nth i sigma 0%nat) (nth j sigma 0%nat).
Proof.
  intros P Hi Hj. assert (L : length sigma = length rows) by (rewrite (Permutation_length P), seq_length; reflexivity).
  assert (B := perm_seq_bound _ _ P).
  unfold qget, discordance.
  rewrite sq_table_get by (rewrite reindex_length, L; assumption).
  rewrite sq_table_get by (apply B; apply nth_In; rewrite L; assumption).
  rewrite !reindex_nth by (rewrite L; assumption). unfold disc_cell.
  rewrite (max_range_row_order_irrelevant _ _ _ (reindex_perm [] sigma rows P)). reflexivity.
Qed.

(* ---- C. relations, kernel, distillation under a renumbering of the alternatives --------------------- *)
Section Renumber.
  Variable n : nat.
  Variable sg : nat -> nat.                     (* new number -> old number *)
  Hypothesis sg_perm : Permutation (map sg (seq 0 n)) (seq 0 n).

  Lemma sg_bound i : (i < n)%nat -> (sg i < n)%nat.
  Proof.
    intros Hi. assert (In (sg i) (seq 0 n)) as H.
    { apply (Permutation_in _ sg_perm). apply in_map. apply in_seq. lia. }
    apply in_seq in H. lia.
  Qed.

  Lemma NoDup_map_inj {A B} (f : A -> B) l : NoDup (map f l) -> forall x y, In x l -> In y l -> f x = f y -> x = y.
  Proof.
    induction l as [|a t IH]; intros ND x y Hx Hy E; [contradiction|].
    cbn [map] in ND. inversion ND as [|? ? Hna Hnt]; subst.
    destruct Hx as [<-|Hx], Hy as [<-|Hy]; auto.
    - exfalso. apply Hna. rewrite E. apply in_map. exact Hy.
    - exfalso. apply Hna. rewrite <- E. apply in_map. exact Hx.
  Qed.

  Lemma sg_inj i j : (i < n)%nat -> (j < n)%nat -> sg i = sg j -> i = j.
  Proof.
    intros Hi Hj. apply (NoDup_map_inj sg (seq 0 n)); try (apply in_seq; lia).
    apply (Permutation_NoDup (Permutation_sym sg_perm)). apply seq_NoDup.
  Qed.

  Lemma existsb_perm {A} (f : A -> bool) l l' : Permutation l l' -> existsb f l = existsb f l'.
  Proof.
    intros P. induction P as [|a l l' _ IH|a b l|l1 l2 l3 _ IH1 _ IH2]; cbn [existsb]; auto.
    - rewrite IH. reflexivity.
    - destruct (f a), (f b); reflexivity.
    - congruence.
  Qed.

  Lemma existsb_map {A B} (f : B -> bool) (g : A -> B) l : existsb f (map g l) = existsb (fun a => f (g a)) l.
  Proof. induction l as [|a t IH]; cbn [map existsb]; [reflexivity|]. rewrite IH. reflexivity. Qed.

  Lemma existsb_ext_in {A} (f g : A -> bool) l : (forall a, In a l -> f a = g a) -> existsb f l = existsb g l.
  Proof.
    induction l as [|a t IH]; intros H; cbn [existsb]; [reflexivity|].
    rewrite (H a) by (left; reflexivity). rewrite IH; [reflexivity|]. intros b Hb. apply H. right. exact Hb.
  Qed.

  Variables g g' : nat -> nat -> bool.          (* a relation and the same relation in the new numbering *)
  Hypothesis g_rel : forall i j, (i < n)%nat -> (j < n)%nat -> g' i j = g (sg i) (sg j).

  Lemma in_kernel_renumber idx idx' i :
    Permutation (map sg idx') idx -> (forall k, In k idx' -> (k < n)%nat) -> (i < n)%nat ->
    in_kernel idx' g' i = in_kernel idx g (sg i).
  Proof.
    intros P Hb Hi. unfold in_kernel. f_equal.
    rewrite <- (existsb_perm _ _ _ P), existsb_map.
    apply existsb_ext_in. intros k Hk. apply g_rel; auto.
  Qed.

  (* the kernel: alternative i of the reordered problem is in the kernel iff alternative sg i was *)
  Theorem kernel_follows_alternatives (t t' : list (list bool)) i :
    (forall a b, (a < n)%nat -> (b < n)%nat -> bget t' a b = bget t (sg a) (sg b)) ->
    (i < n)%nat -> nth i (kernel n t') false = nth (sg i) (kernel n t) false.
  Proof.
    intros Ht Hi. unfold kernel.
    assert (K : forall (tt : list (list bool)) k, (k < n)%nat ->
              nth k (map (fun j => negb (existsb (fun a => bget tt a j) (seq 0 n))) (seq 0 n)) false =
              negb (existsb (fun a => bget tt a k) (seq 0 n))).
    { intros tt k Hk.
      rewrite (nth_indep _ false (negb (existsb (fun a => bget tt a 0%nat) (seq 0 n)))) by (rewrite map_length, seq_length; exact Hk).
      rewrite (map_nth (fun j => negb (existsb (fun a => bget tt a j) (seq 0 n))) (seq 0 n) 0%nat k).
      rewrite seq_nth by exact Hk. reflexivity. }
    rewrite K by exact Hi. rewrite K by (apply sg_bound; exact Hi). f_equal.
    rewrite <- (existsb_perm (fun a => bget t a (sg i)) _ _ sg_perm), existsb_map.
    apply existsb_ext_in. intros a Ha. apply in_seq in Ha. apply Ht; [lia|exact Hi].
  Qed.
End Renumber.

(* ---- D. the ELECTRE2 distillation under a renumbering ------------------------------------------------ *)
Lemma filter_perm' {A} (f : A -> bool) l l' : Permutation l l' -> Permutation (filter f l) (filter f l').
Proof.
  intros P. induction P as [|a l l' _ IH|a b l|l1 l2 l3 _ IH1 _ IH2]; cbn [filter].
  - constructor.
  - destruct (f a); [constructor|]; exact IH.
  - destruct (f a), (f b); try apply Permutation_refl. apply perm_swap.
  - eapply Permutation_trans; eassumption.
Qed.

Lemma filter_map_swap {A B} (f : B -> bool) (g : A -> B) l : filter f (map g l) = map g (filter (fun a => f (g a)) l).
Proof. induction l as [|a t IH]; cbn [map filter]; [reflexivity|]. destruct (f (g a)); cbn [map]; rewrite IH; reflexivity. Qed.

Lemma nth_map_seq {A} n (f : nat -> A) k d : (k < n)%nat -> nth k (map f (seq 0 n)) d = f k.
Proof.
  intros Hk. rewrite (nth_indep _ d (f 0%nat)) by (rewrite map_length, seq_length; exact Hk).
  rewrite (map_nth f (seq 0 n) 0%nat k). rewrite seq_nth by exact Hk. reflexivity.
Qed.

Lemma combine_seq_map {A} (l : list A) d a :
  combine (seq a (length l)) l = map (fun k => (k, nth (k - a) l d)) (seq a (length l)).
Proof.
  revert a. induction l as [|x t IH]; intros a; cbn [length seq combine map]; [reflexivity|].
  rewrite Nat.sub_diag. cbn [nth]. f_equal. rewrite IH. apply map_ext_in. intros k Hk. apply in_seq in Hk.
  replace (k - a)%nat with (S (k - S a)) by lia. reflexivity.
Qed.

Definition bump (chosen : list nat) (pos : nat) (ranking : list nat) : list nat :=
  map (fun ir => if existsb (Nat.eqb (fst ir)) chosen then (snd ir + pos)%nat else snd ir)
      (combine (seq 0 (length ranking)) ranking).

Lemma bump_as_map chosen pos ranking :
  bump chosen pos ranking =
  map (fun k => if existsb (Nat.eqb k) chosen then (nth k ranking 0 + pos)%nat else nth k ranking 0%nat)
      (seq 0 (length ranking)).
Proof.
  unfold bump. rewrite (combine_seq_map ranking 0%nat 0%nat), map_map. apply map_ext. intros k.
  cbn [fst snd]. rewrite Nat.sub_0_r. reflexivity.
Qed.

Lemma mem_eqb x l : existsb (Nat.eqb x) l = true <-> In x l.
Proof.
  rewrite existsb_exists. split.
  - intros [y [Hy E]]. apply Nat.eqb_eq in E. subst. exact Hy.
  - intros H. exists x. split; [exact H|apply Nat.eqb_refl].
Qed.

Section Distill.
  Variable n : nat.
  Variable sg : nat -> nat.
  Hypothesis sg_perm : Permutation (map sg (seq 0 n)) (seq 0 n).
  Variables s w s' w' : nat -> nat -> bool.
  Hypothesis s_rel : forall i j, (i < n)%nat -> (j < n)%nat -> s' i j = s (sg i) (sg j).
  Hypothesis w_rel : forall i j, (i < n)%nat -> (j < n)%nat -> w' i j = w (sg i) (sg j).

  Definition follows (r r' : list nat) : Prop := r' = map (fun i => nth (sg i) r 0%nat) (seq 0 n) /\ length r = n.

  Lemma follows_map (h : nat -> nat) r r' : follows r r' -> follows (map h r) (map h r').
  Proof.
    intros [E L]. split; [|rewrite map_length; exact L]. rewrite E, map_map. apply map_ext_in.
    intros i Hi. apply in_seq in Hi. assert (B : (sg i < n)%nat) by (apply (sg_bound n sg sg_perm); lia).
    rewrite (nth_indep (map h r) 0%nat (h 0%nat)) by (rewrite map_length, L; exact B).
    symmetry. apply map_nth.
  Qed.

  Theorem ranker_loop_renumber fuel : forall idx idx' ranking ranking' pos,
    Permutation (map sg idx') idx -> (forall k, In k idx' -> (k < n)%nat) -> follows ranking ranking' ->
    match ranker_loop fuel s w idx ranking pos, ranker_loop fuel s' w' idx' ranking' pos with
    | Some r, Some r' => follows r r'
    | None, None => True
    | _, _ => False
    end.
  Proof.
    induction fuel as [|f IH]; intros idx idx' ranking ranking' pos P Hb F; cbn [ranker_loop]; [exact I|].
    destruct idx as [|a t].
    { apply Permutation_sym, Permutation_nil in P. apply map_eq_nil in P. subst idx'. exact F. }
    destruct idx' as [|a' t'].
    { cbn [map] in P. apply Permutation_nil in P. discriminate. }
    remember (a :: t) as idx eqn:Eidx. remember (a' :: t') as idx' eqn:Eidx'. clear Eidx Eidx' a t a' t'.
    set (smw := fun i => in_kernel idx s i && negb (in_kernel idx w i)).
    set (smw' := fun i => in_kernel idx' s' i && negb (in_kernel idx' w' i)).
    assert (Hsm : forall k, In k idx' -> smw' k = smw (sg k)).
    { intros k Hk. unfold smw, smw'.
      rewrite (in_kernel_renumber n sg s s' s_rel idx idx' k P Hb (Hb k Hk)).
      rewrite (in_kernel_renumber n sg w w' w_rel idx idx' k P Hb (Hb k Hk)). reflexivity. }
    assert (PF : forall (c : bool -> bool),
              Permutation (map sg (filter (fun i => c (smw' i)) idx')) (filter (fun i => c (smw i)) idx)).
    { intros c. rewrite (filter_ext_in (fun i => c (smw' i)) (fun i => c (smw (sg i))) idx')
        by (intros k Hk; rewrite (Hsm k Hk); reflexivity).
      rewrite <- (filter_map_swap (fun i => c (smw i)) sg idx'). apply filter_perm'. exact P. }
    pose proof (PF (fun b => b)) as PC. cbn beta in PC.
    change (filter (fun i => smw i) idx) with (filter smw idx) in PC.
    change (filter (fun i => smw' i) idx') with (filter smw' idx') in PC.
    destruct (filter smw idx) as [|c0 ct] eqn:EC.
    - apply Permutation_sym, Permutation_nil in PC. apply map_eq_nil in PC. rewrite PC.
      apply follows_map. exact F.
    - destruct (filter smw' idx') as [|c0' ct'] eqn:EC'.
      { cbn [map] in PC. apply Permutation_nil in PC. discriminate. }
      rewrite <- EC, <- EC'. rewrite <- EC in PC. rewrite <- EC' in PC.
      fold (bump (filter smw idx) pos ranking). fold (bump (filter smw' idx') pos ranking').
      apply IH.
      + apply (PF negb).
      + intros k Hk. apply filter_In in Hk. apply Hb. tauto.
      + destruct F as [E L]. split.
        * rewrite !bump_as_map, L.
          assert (L' : length ranking' = n) by (rewrite E, map_length, seq_length; reflexivity).
          rewrite L'. apply map_ext_in. intros i Hi. apply in_seq in Hi.
          assert (B : (sg i < n)%nat) by (apply (sg_bound n sg sg_perm); lia).
          rewrite nth_map_seq by exact B.
          assert (R : nth i ranking' 0%nat = nth (sg i) ranking 0%nat) by (rewrite E; apply (nth_map_seq n (fun i0 => nth (sg i0) ranking 0%nat) i 0%nat); lia).
          rewrite R.
          assert (M : existsb (Nat.eqb i) (filter smw' idx') = existsb (Nat.eqb (sg i)) (filter smw idx)).
          { destruct (existsb (Nat.eqb (sg i)) (filter smw idx)) eqn:E2.
            - apply mem_eqb. apply mem_eqb in E2.
              apply (Permutation_in _ (Permutation_sym PC)) in E2. apply in_map_iff in E2.
              destruct E2 as [k [Ek Hk]]. assert (k = i) as ->; [|exact Hk].
              apply (sg_inj n sg sg_perm); [|lia|exact Ek]. apply filter_In in Hk. apply Hb. tauto.
            - destruct (existsb (Nat.eqb i) (filter smw' idx')) eqn:E1; [|reflexivity].
              apply mem_eqb in E1. apply (in_map sg) in E1. apply (Permutation_in _ PC) in E1.
              apply mem_eqb in E1. congruence. }
          rewrite M. reflexivity.
        * rewrite bump_as_map, map_length, seq_length. exact L.
  Qed.
End Distill.

(* ---- E. the whole ELECTRE2 ranking -------------------------------------------------------------------- *)
Lemma fold_max_perm l l' : Permutation l l' -> fold_right Nat.max 0%nat l = fold_right Nat.max 0%nat l'.
Proof.
  intros P. induction P as [|a l l' _ IH|a b l|l1 l2 l3 _ IH1 _ IH2]; cbn [fold_right]; auto; try lia.
Qed.

Lemma map2_maps {A B C D} (f : B -> C -> D) (a : A -> B) (b : A -> C) l :
  map2 f (map a l) (map b l) = map (fun k => f (a k) (b k)) l.
Proof. induction l as [|x t IH]; cbn [map map2]; [reflexivity|]. rewrite IH. reflexivity. Qed.

Lemma map_const_seq a m : map (fun _ : nat => 0%nat) (seq a m) = repeat 0%nat m.
Proof. revert a. induction m as [|m IH]; intros a; cbn [repeat seq map]; [reflexivity|]. f_equal. apply IH. Qed.

Section Whole.
  Variable n : nat.
  Variable sg : nat -> nat.
  Hypothesis sg_perm : Permutation (map sg (seq 0 n)) (seq 0 n).

  Lemma follows_perm r r' : follows n sg r r' -> Permutation r' r.
  Proof.
    intros [E L]. rewrite E. rewrite <- (map_map sg (fun k => nth k r 0%nat)).
    eapply Permutation_trans; [apply Permutation_map; exact sg_perm|].
    rewrite <- L, map_nth_seq'. apply Permutation_refl.
  Qed.

  Lemma follows_zero : follows n sg (repeat 0%nat n) (repeat 0%nat n).
  Proof.
    split; [|apply repeat_length].
    rewrite (map_ext (fun i => nth (sg i) (repeat 0%nat n) 0%nat) (fun _ => 0%nat)) by (intros i; apply nth_repeat).
    symmetry. apply map_const_seq.
  Qed.

  Theorem ranker_follows_alternatives (ts tw ts' tw' : list (list bool)) invert :
    (forall i j, (i < n)%nat -> (j < n)%nat -> bget ts' i j = bget ts (sg i) (sg j)) ->
    (forall i j, (i < n)%nat -> (j < n)%nat -> bget tw' i j = bget tw (sg i) (sg j)) ->
    match ranker n ts tw invert, ranker n ts' tw' invert with
    | Some r, Some r' => follows n sg r r'
    | None, None => True
    | _, _ => False
    end.
  Proof.
    intros Hs Hw. unfold ranker.
    pose proof (ranker_loop_renumber n sg sg_perm (bget ts) (bget tw) (bget ts') (bget tw') Hs Hw (S n)
                  (seq 0 n) (seq 0 n) (repeat 0%nat n) (repeat 0%nat n) 1%nat sg_perm
                  (fun k Hk => proj2 (proj1 (in_seq _ _ _) Hk)) follows_zero) as R.
    destruct (ranker_loop (S n) (bget ts) (bget tw) (seq 0 n) (repeat 0%nat n) 1) as [r|],
             (ranker_loop (S n) (bget ts') (bget tw') (seq 0 n) (repeat 0%nat n) 1) as [r'|];
      destruct invert; try exact R.
    rewrite (fold_max_perm _ _ (follows_perm _ _ R)).
    apply (follows_map n sg sg_perm). exact R.
  Qed.

  Theorem electre2_rank_follows_alternatives (ts tw ts' tw' : list (list bool)) :
    (forall i j, (i < n)%nat -> (j < n)%nat -> bget ts' i j = bget ts (sg i) (sg j)) ->
    (forall i j, (i < n)%nat -> (j < n)%nat -> bget tw' i j = bget tw (sg i) (sg j)) ->
    match electre2_rank n ts tw, electre2_rank n ts' tw' with
    | Some (d, iv, sc, rk), Some (d', iv', sc', rk') =>
        follows n sg d d' /\ follows n sg iv iv' /\ follows n sg rk rk'
    | None, None => True
    | _, _ => False
    end.
  Proof.
    intros Hs Hw. unfold electre2_rank.
    pose proof (ranker_follows_alternatives ts tw ts' tw' false Hs Hw) as R1.
    assert (T : forall t t' : list (list bool),
              (forall i j, (i < n)%nat -> (j < n)%nat -> bget t' i j = bget t (sg i) (sg j)) ->
              forall i j, (i < n)%nat -> (j < n)%nat ->
                bget (btranspose n t') i j = bget (btranspose n t) (sg i) (sg j)).
    { intros t t' H i j Hi Hj. unfold btranspose.
      rewrite !btable_get by (try assumption; apply (sg_bound n sg sg_perm); assumption).
      apply H; assumption. }
    pose proof (ranker_follows_alternatives (btranspose n ts) (btranspose n tw) (btranspose n ts') (btranspose n tw')
                  true (T _ _ Hs) (T _ _ Hw)) as R2.
    destruct (ranker n ts tw false) as [d|], (ranker n ts' tw' false) as [d'|]; try contradiction;
      destruct (ranker n (btranspose n ts) (btranspose n tw) true) as [iv|],
               (ranker n (btranspose n ts') (btranspose n tw') true) as [iv'|]; try contradiction; try exact I.
    split; [exact R1|]. split; [exact R2|].
    destruct R1 as [E1 L1], R2 as [E2 L2].
    set (f := fun a b : nat => (inject_Z (Z.of_nat a) + inject_Z (Z.of_nat b)) / 2).
    assert (Ls : length (map2 f d iv) = n) by (rewrite map2_length; congruence).
    assert (ES : map2 f d' iv' = reindex 0 (map sg (seq 0 n)) (map2 f d iv)).
    { rewrite E1, E2, map2_maps. unfold reindex. rewrite map_map. apply map_ext_in. intros k Hk.
      apply in_seq in Hk. assert (B : (sg k < n)%nat) by (apply (sg_bound n sg sg_perm); lia).
      symmetry. apply (map2_nth f d iv (sg k) 0%nat 0%nat 0); congruence. }
    split.
    - rewrite ES. rewrite rank_values_reindex by (rewrite Ls; exact sg_perm).
      unfold reindex. rewrite map_map. reflexivity.
    - rewrite rank_values_length. exact Ls.
  Qed.
End Whole.

(* ---- F. from the tables to the relations ---------------------------------------------------------------- *)
Lemma Qleb_ext x x' y y' : x == x' -> y == y' -> Qleb x y = Qleb x' y'.
Proof.
  intros Ex Ey. destruct (Qleb x y) eqn:E, (Qleb x' y') eqn:E'; auto; qb; lra.
Qed.

Section Relations.
  Variable n : nat.
  Variable sg : nat -> nat.
  Hypothesis sg_perm : Permutation (map sg (seq 0 n)) (seq 0 n).
  Variables conc conc' disc disc' : list (list Q).
  Hypothesis conc_rel : forall i j, (i < n)%nat -> (j < n)%nat -> qget conc' i j == qget conc (sg i) (sg j).
  Hypothesis disc_rel : forall i j, (i < n)%nat -> (j < n)%nat -> qget disc' i j == qget disc (sg i) (sg j).

  Lemma diag_renumber i j : (i < n)%nat -> (j < n)%nat -> Nat.eqb i j = Nat.eqb (sg i) (sg j).
  Proof.
    intros Hi Hj. destruct (Nat.eqb_spec i j) as [->|Hne]; [rewrite Nat.eqb_refl; reflexivity|].
    destruct (Nat.eqb_spec (sg i) (sg j)) as [E|_]; [|reflexivity].
    exfalso. apply Hne. apply (sg_inj n sg sg_perm); assumption.
  Qed.

  Theorem outrank_follows_alternatives p q i j : (i < n)%nat -> (j < n)%nat ->
    bget (outrank_of n p q conc' disc') i j = bget (outrank_of n p q conc disc) (sg i) (sg j).
  Proof.
    intros Hi Hj. unfold outrank_of.
    rewrite !btable_get by (try assumption; apply (sg_bound n sg sg_perm); assumption).
    rewrite (diag_renumber i j Hi Hj).
    rewrite (Qleb_ext p p _ _ (Qeq_refl p) (conc_rel i j Hi Hj)).
    rewrite (Qleb_ext _ _ q q (disc_rel i j Hi Hj) (Qeq_refl q)). reflexivity.
  Qed.

  Variables wor wor' : list (list bool).
  Hypothesis wor_rel : forall i j, (i < n)%nat -> (j < n)%nat -> bget wor' i j = bget wor (sg i) (sg j).

  Theorem outrank_s_follows_alternatives p0 p1 q0 q1 i j : (i < n)%nat -> (j < n)%nat ->
    bget (outrank_s_of n p0 p1 q0 q1 conc' disc' wor') i j =
    bget (outrank_s_of n p0 p1 q0 q1 conc disc wor) (sg i) (sg j).
  Proof.
    intros Hi Hj. unfold outrank_s_of.
    rewrite !btable_get by (try assumption; apply (sg_bound n sg sg_perm); assumption).
    rewrite (diag_renumber i j Hi Hj), (wor_rel i j Hi Hj).
    rewrite (Qleb_ext p0 p0 _ _ (Qeq_refl p0) (conc_rel i j Hi Hj)).
    rewrite (Qleb_ext p1 p1 _ _ (Qeq_refl p1) (conc_rel i j Hi Hj)).
    rewrite (Qleb_ext _ _ q0 q0 (disc_rel i j Hi Hj) (Qeq_refl q0)).
    rewrite (Qleb_ext _ _ q1 q1 (disc_rel i j Hi Hj) (Qeq_refl q1)). reflexivity.
  Qed.

  Theorem outrank_w_follows_alternatives p2 q0 i j : (i < n)%nat -> (j < n)%nat ->
    bget (outrank_w_of n p2 q0 conc' disc' wor') i j = bget (outrank_w_of n p2 q0 conc disc wor) (sg i) (sg j).
  Proof.
    intros Hi Hj. unfold outrank_w_of.
    rewrite !btable_get by (try assumption; apply (sg_bound n sg sg_perm); assumption).
    rewrite (diag_renumber i j Hi Hj), (wor_rel i j Hi Hj).
    rewrite (Qleb_ext p2 p2 _ _ (Qeq_refl p2) (conc_rel i j Hi Hj)).
    rewrite (Qleb_ext _ _ q0 q0 (disc_rel i j Hi Hj) (Qeq_refl q0)). reflexivity.
  Qed.
End Relations.

(* the weight-comparison table is built cell by cell from the two rows, in either reading of the call *)
Theorem wor_table_follows_alternatives (cell : list Q -> list Q -> bool) sigma rows i j :
  Permutation sigma (seq 0 (length rows)) -> (i < length rows)%nat -> (j < length rows)%nat ->
  bget (wor_table cell (reindex [] sigma rows)) i j =
  bget (wor_table cell rows) (nth i sigma 0%nat) (nth j sigma 0%nat).
Proof.
  intros P Hi Hj. assert (L : length sigma = length rows) by (rewrite (Permutation_length P), seq_length; reflexivity).
  assert (B := perm_seq_bound _ _ P).
  assert (Bi : (nth i sigma 0 < length rows)%nat) by (apply B, nth_In; rewrite L; exact Hi).
  assert (Bj : (nth j sigma 0 < length rows)%nat) by (apply B, nth_In; rewrite L; exact Hj).
  unfold wor_table. rewrite reindex_length, L.
  rewrite !btable_get by assumption.
  rewrite !reindex_nth by (rewrite L; assumption).
  f_equal. f_equal.
  destruct (Nat.eqb_spec i j) as [->|Hne]; [rewrite Nat.eqb_refl; reflexivity|].
  destruct (Nat.eqb_spec (nth i sigma 0%nat) (nth j sigma 0%nat)) as [E|_]; [|reflexivity].
  exfalso. apply Hne.
  assert (ND : NoDup sigma) by (apply (Permutation_NoDup (Permutation_sym P)), seq_NoDup).
  apply (proj1 (NoDup_nth sigma 0%nat) ND); rewrite ?L; assumption.
Qed.
