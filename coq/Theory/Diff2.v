(* C17, continued: diff names EXACTLY the members that differ (every member, both object kinds), and
   equality of results and comparators. *)
From Coq Require Import ZArith QArith List Bool Arith Lia Lqa.
From SKC Require Import Base.QBool Base.QList Model.Diff Theory.QListFacts Theory.Diff.
Import ListNotations.

Lemma in_keep m m' ok : In m (keep m' ok) <-> (m = m' /\ ok = false).
Proof.
  destruct ok; simpl; split.
  - intros [].
  - intros [_ H]. discriminate.
  - intros [H|[]]. split; [symmetry; exact H|reflexivity].
  - intros [H _]. left. symmetry. exact H.
Qed.

(* is member m of the two matrices the same (within tolerance)? *)
Definition dm_member_ok (t : tol) (c : bool) (a b : dmv) (m : member) : bool :=
  let ss := same_shape a b in
  match m with
  | MShape => ss
  | MCriteria => ss && eq_labels (d_crits a) (d_crits b)
  | MAlternatives => ss && eq_labels (d_alts a) (d_alts b)
  | MObjectives => ss && eq_bools (d_objs a) (d_objs b)
  | MWeights => ss && allclose t (d_wts a) (d_wts b)
  | MMatrix => ss && allclose2 t (d_cells a) (d_cells b)
  | MDtypes => if c then ss && eq_labels (d_dts a) (d_dts b) else true
  | _ => true
  end.

Theorem dm_diff_names_exactly t c a b m : In m (dm_diff t c a b) <-> dm_member_ok t c a b m = false.
Proof.
  unfold dm_diff. rewrite !in_app_iff, !in_keep.
  assert (D : In m (if c then keep MDtypes (same_shape a b && eq_labels (d_dts a) (d_dts b)) else []) <->
              (m = MDtypes /\ (if c then same_shape a b && eq_labels (d_dts a) (d_dts b) else true) = false)).
  { destruct c; [apply in_keep|]. simpl. split; [tauto|]. intros [_ H]; discriminate. }
  rewrite D. clear D.
  destruct m; cbn [dm_member_ok]; split; intros H;
    repeat match goal with
           | H : _ \/ _ |- _ => destruct H as [H|H]
           | H : _ /\ _ |- _ => destruct H as [? H]
           end; try discriminate; try assumption; try tauto.
Qed.

(* the members are listed in the documented order, each at most once *)
Theorem dm_diff_sorted_nodup t c a b : NoDup (dm_diff t c a b).
Proof.
  unfold dm_diff.
  destruct (same_shape a b), (eq_labels (d_crits a) (d_crits b)), (eq_labels (d_alts a) (d_alts b)),
    (eq_bools (d_objs a) (d_objs b)), (allclose t (d_wts a) (d_wts b)), (allclose2 t (d_cells a) (d_cells b)),
    c, (eq_labels (d_dts a) (d_dts b)); cbn [andb keep app];
    repeat (constructor; [cbn [In]; intuition discriminate|]); constructor.
Qed.

Definition res_member_ok (t : tol) (a b : resv) (m : member) : bool :=
  match m with
  | MMethod => Z.eqb (r_method a) (r_method b)
  | MAlternatives => eq_labels (r_alts a) (r_alts b)
  | MValues => allclose t (r_vals a) (r_vals b)
  | MExtra => extra_close t (r_extra a) (r_extra b)
  | _ => true
  end.

Theorem res_diff_names_exactly t a b m : In m (res_diff t a b) <-> res_member_ok t a b m = false.
Proof.
  unfold res_diff. rewrite !in_app_iff, !in_keep.
  destruct m; cbn [res_member_ok]; split; intros H;
    repeat match goal with
           | H : _ \/ _ |- _ => destruct H as [H|H]
           | H : _ /\ _ |- _ => destruct H as [? H]
           end; try discriminate; try assumption; try tauto.
Qed.

Lemma member_eq_dec (x y : member) : {x = y} + {x <> y}.
Proof. decide equality. Qed.

(* exactly one member changed => diff is exactly that member: the general form *)
Theorem dm_one_member_changed t c a b m :
  dm_member_ok t c a b m = false -> (forall m', m' <> m -> dm_member_ok t c a b m' = true) ->
  forall m', In m' (dm_diff t c a b) <-> m' = m.
Proof.
  intros Hm Hothers m'. rewrite dm_diff_names_exactly. split.
  - intros H. destruct (member_eq_dec m' m) as [E|NE]; [exact E|]. rewrite (Hothers m' NE) in H. discriminate.
  - intros ->. exact Hm.
Qed.

Theorem res_one_member_changed t a b m :
  res_member_ok t a b m = false -> (forall m', m' <> m -> res_member_ok t a b m' = true) ->
  forall m', In m' (res_diff t a b) <-> m' = m.
Proof.
  intros Hm Hothers m'. rewrite res_diff_names_exactly. split.
  - intros H. destruct (member_eq_dec m' m) as [E|NE]; [exact E|]. rewrite (Hothers m' NE) in H. discriminate.
  - intros ->. exact Hm.
Qed.

(* ---- results: reflexivity, exact => tolerant ------------------------------------------------------ *)
Lemma lookup_extra_In k v e : NoDup (map fst e) -> In (k, v) e -> lookup_extra k e = Some v.
Proof.
  induction e as [|[k' v'] e IH]; intros ND Hin; [contradiction|].
  cbn [map fst] in ND. inversion ND as [|? ? Hna Hnd]; subst. cbn [lookup_extra].
  destruct Hin as [E|Hin].
  - inversion E; subst. rewrite Z.eqb_refl. reflexivity.
  - destruct (Z.eqb_spec k k') as [->|_]; [|apply IH; assumption].
    exfalso. apply Hna. apply (in_map fst) in Hin. exact Hin.
Qed.

Lemma extra_close_refl e : NoDup (map fst e) -> extra_close exact e e = true.
Proof.
  intros ND. unfold extra_close. rewrite Nat.eqb_refl. cbn [andb]. apply forallb_forall.
  intros [k v] Hin. cbn [fst snd]. rewrite (lookup_extra_In k v e ND Hin). apply allclose_exact_refl.
Qed.

Theorem res_equals_refl r : NoDup (map fst (r_extra r)) -> res_diff exact r r = [].
Proof.
  intros ND. unfold res_diff. rewrite Z.eqb_refl, eq_labels_refl, allclose_exact_refl, (extra_close_refl _ ND).
  reflexivity.
Qed.

Theorem res_equals_copy r : NoDup (map fst (r_extra r)) -> equals (ORes r) (ORes r) = true.
Proof.
  intros ND. unfold equals, diff, has_differences. rewrite Z.eqb_refl. cbn [negb].
  rewrite (res_equals_refl r ND). reflexivity.
Qed.

Lemma extra_close_weaker t a b :
  0 <= rtol t -> 0 <= atol t -> extra_close exact a b = true -> extra_close t a b = true.
Proof.
  intros Hr Ha. unfold extra_close. rewrite !andb_true_iff. intros [L F]. split; [exact L|].
  rewrite forallb_forall in *. intros kv Hin. specialize (F kv Hin).
  destruct (lookup_extra (fst kv) b); [|discriminate]. apply allclose_weaker; assumption.
Qed.

Theorem res_exact_implies_tolerant t a b :
  0 <= rtol t -> 0 <= atol t -> res_diff exact a b = [] -> res_diff t a b = [].
Proof.
  intros Hr Ha. unfold res_diff. intros H.
  apply app_eq_nil in H. destruct H as [H1 H]. apply app_eq_nil in H. destruct H as [H2 H].
  apply app_eq_nil in H. destruct H as [H3 H4].
  apply keep_nil in H1, H2, H3, H4.
  rewrite H1, H2, (allclose_weaker t _ _ Hr Ha H3), (extra_close_weaker t _ _ Hr Ha H4). reflexivity.
Qed.

Theorem res_equals_implies_aequals t a b :
  0 <= rtol t -> 0 <= atol t -> equals (ORes a) (ORes b) = true -> aequals t (ORes a) (ORes b) = true.
Proof.
  intros Hr Ha. unfold equals, aequals, diff, has_differences. cbn [type_tag].
  destruct (negb ((if r_kernel a then 3 else 2) =? (if r_kernel b then 3 else 2))%Z) eqn:T; [discriminate|].
  cbn [fst snd orb]. destruct (res_diff exact a b) eqn:E; [|discriminate]. intros _.
  rewrite (res_exact_implies_tolerant t a b Hr Ha E). reflexivity.
Qed.

(* a ranking result and a kernel result are never equal, whatever they contain *)
Theorem rank_and_kernel_results_differ a b : r_kernel a = true -> r_kernel b = false ->
  equals (ORes a) (ORes b) = false.
Proof. intros Ka Kb. unfold equals, diff, has_differences. cbn [type_tag]. rewrite Ka, Kb. reflexivity. Qed.
