From Coq Require Import ZArith QArith List Bool Arith Lia Lqa Permutation.
From SKC Require Import Base.QBool Base.QList Model.Transform Model.Weights Theory.QListFacts Theory.Transform.
Import ListNotations.

(* ---- normalisation --------------------------------------------------------------------- *)
Theorem normalise_sums_to_1 u : ~ qsum u == 0 -> qsum (normalise u) == 1.
Proof. apply sum_scale_sums_to_1. Qed.

Theorem normalise_nonneg u y :
  (forall x, In x u -> 0 <= x) -> 0 < qsum u -> In y (normalise u) -> 0 <= y.
Proof.
  intros Hu Hs Hy. unfold normalise, sum_scale in Hy. apply in_map_iff in Hy.
  destruct Hy as [x [<- Hx]]. apply Qle_shift_div_l; auto. specialize (Hu x Hx). lra.
Qed.

(* ---- order independence of the rational cores -------------------------------------------- *)
Lemma qsum_map_ext (f g : Q -> Q) l : (forall x, f x == g x) -> qsum (map f l) == qsum (map g l).
Proof. intros H. induction l as [|a t IH]; simpl; [reflexivity|]. rewrite IH, H. reflexivity. Qed.

Lemma qn_perm v v' : Permutation v v' -> qn v = qn v'.
Proof. intros H. unfold qn. rewrite (Permutation_length H). reflexivity. Qed.

Theorem mean_perm v v' : Permutation v v' -> mean v == mean v'.
Proof.
  intros H. unfold mean. rewrite (qsum_perm _ _ H), (Permutation_length H). reflexivity.
Qed.

Lemma sqdev_perm v v' :
  Permutation v v' ->
  qsum (map (fun x => (x - mean v) * (x - mean v)) v) ==
  qsum (map (fun x => (x - mean v') * (x - mean v')) v').
Proof.
  intros H.
  rewrite (qsum_perm _ _ (Permutation_map (fun x => (x - mean v) * (x - mean v)) H)).
  apply qsum_map_ext. intros x. rewrite (mean_perm _ _ H). reflexivity.
Qed.

Theorem pvar_perm v v' : Permutation v v' -> pvar v == pvar v'.
Proof.
  intros H. unfold pvar. rewrite (sqdev_perm _ _ H), (Permutation_length H). reflexivity.
Qed.

Theorem svar_perm v v' : Permutation v v' -> svar v == svar v'.
Proof.
  intros H. unfold svar. rewrite (sqdev_perm _ _ H), (qn_perm _ _ H). reflexivity.
Qed.

(* covariance: permuting the alternatives permutes both criteria together *)
Lemma map2_combine {A B C} (f : A -> B -> C) la lb :
  map2 f la lb = map (fun p => f (fst p) (snd p)) (combine la lb).
Proof. revert lb. induction la as [|a t IH]; intros [|b u]; simpl; auto. rewrite IH. reflexivity. Qed.

Lemma combine_fst {A B} (la : list A) (lb : list B) :
  length la = length lb -> map fst (combine la lb) = la.
Proof. revert lb. induction la as [|a t IH]; intros [|b u]; simpl; intros H; try discriminate; auto. rewrite IH; auto. Qed.
Lemma combine_snd {A B} (la : list A) (lb : list B) :
  length la = length lb -> map snd (combine la lb) = lb.
Proof. revert lb. induction la as [|a t IH]; intros [|b u]; simpl; intros H; try discriminate; auto. rewrite IH; auto. Qed.

Theorem cov_perm v u v' u' :
  length v = length u -> length v' = length u' ->
  Permutation (combine v u) (combine v' u') -> cov v u == cov v' u'.
Proof.
  intros L L' H. unfold cov.
  assert (Pv : Permutation v v').
  { rewrite <- (combine_fst v u L), <- (combine_fst v' u' L'). apply Permutation_map. exact H. }
  assert (Pu : Permutation u u').
  { rewrite <- (combine_snd v u L), <- (combine_snd v' u' L'). apply Permutation_map. exact H. }
  rewrite !map2_combine.
  rewrite (qsum_perm _ _ (Permutation_map (fun p => (fst p - mean v) * (snd p - mean u)) H)).
  rewrite (qn_perm _ _ Pv).
  assert (E : qsum (map (fun p : Q * Q => (fst p - mean v) * (snd p - mean u)) (combine v' u')) ==
              qsum (map (fun p : Q * Q => (fst p - mean v') * (snd p - mean u')) (combine v' u'))).
  { generalize (combine v' u'). intros l. induction l as [|a t IH]; simpl; [reflexivity|].
    rewrite IH, (mean_perm _ _ Pv), (mean_perm _ _ Pu). reflexivity. }
  rewrite E. reflexivity.
Qed.

Theorem cov_sym v u : length v = length u -> cov v u == cov u v.
Proof.
  intros L. unfold cov. unfold qn. rewrite L.
  assert (E : qsum (map2 (fun x y => (x - mean v) * (y - mean u)) v u) ==
              qsum (map2 (fun x y => (x - mean u) * (y - mean v)) u v)).
  { generalize (mean v) (mean u). intros a b. clear L. revert u.
    induction v as [|x t IH]; intros [|y w]; simpl; try reflexivity. rewrite IH. ring. }
  rewrite E. reflexivity.
Qed.

Theorem cov_self_is_pvar v : cov v v == pvar v.
Proof.
  unfold cov, pvar, qn.
  assert (E : qsum (map2 (fun x y => (x - mean v) * (y - mean v)) v v) ==
              qsum (map (fun x => (x - mean v) * (x - mean v)) v)).
  { generalize (mean v). intros a. induction v as [|x t IH]; simpl; [reflexivity|]. rewrite IH. reflexivity. }
  rewrite E. reflexivity.
Qed.

(* average ranks are a function of the multiset of values *)
Lemma filter_length_perm {A} (f : A -> bool) l l' : Permutation l l' -> length (filter f l) = length (filter f l').
Proof.
  induction 1; simpl; auto.
  - destruct (f x); simpl; congruence.
  - destruct (f x), (f y); reflexivity.
  - congruence.
Qed.

Theorem avg_rank_perm v v' : Permutation v v' -> Permutation (avg_rank v) (avg_rank v').
Proof.
  intros H. unfold avg_rank.
  assert (E : map (fun x => inject_Z (Z.of_nat (length (filter (fun y => Qltb y x) v))) +
                            (inject_Z (Z.of_nat (length (filter (fun y => Qeqb y x) v))) + 1) / 2) v' =
              map (fun x => inject_Z (Z.of_nat (length (filter (fun y => Qltb y x) v'))) +
                            (inject_Z (Z.of_nat (length (filter (fun y => Qeqb y x) v'))) + 1) / 2) v').
  { apply map_ext. intros x.
    rewrite (filter_length_perm (fun y => Qltb y x) _ _ H), (filter_length_perm (fun y => Qeqb y x) _ _ H).
    reflexivity. }
  rewrite <- E. apply Permutation_map. exact H.
Qed.

(* ---- Cauchy-Schwarz: |correlation| <= 1, hence CRITIC's (1 - r) terms are non-negative ---- *)
Lemma sq_nonneg (x : Q) : 0 <= x * x.
Proof.
  destruct (Qlt_le_dec x 0) as [N|P].
  - assert (0 <= (- x) * (- x)) by (apply Qmult_le_0_compat; lra). lra.
  - apply Qmult_le_0_compat; lra.
Qed.

Lemma cs_step A B C a b :
  0 <= A -> 0 <= B -> C * C <= A * B ->
  (C + a * b) * (C + a * b) <= (A + a * a) * (B + b * b).
Proof.
  intros HA HB HC.
  destruct (Qeq_dec A 0) as [Z|NZ].
  - assert (C == 0).
    { rewrite Z in HC. assert (C * C <= 0) by lra.
      destruct (Qlt_le_dec 0 C) as [P|P]; [exfalso; nra|].
      destruct (Qlt_le_dec C 0) as [N|N]; [exfalso; nra|]. lra. }
    rewrite H, Z. assert (0 <= a * a) by nra. assert (0 <= (a * a) * B) by nra. nra.
  - assert (PA : 0 < A) by (destruct (Qlt_le_dec 0 A); auto; exfalso; apply NZ; lra).
    (* A * (A b^2 + B a^2 - 2 C a b) = (A b - C a)^2 + (A B - C^2) a^2 >= 0 *)
    assert (K : 0 <= A * (A * (b * b) + B * (a * a) - 2 * C * (a * b))).
    { assert (E : A * (A * (b * b) + B * (a * a) - 2 * C * (a * b)) ==
                  (A * b - C * a) * (A * b - C * a) + (A * B - C * C) * (a * a)) by ring.
      rewrite E.
      assert (S1 : 0 <= (A * b - C * a) * (A * b - C * a)) by apply sq_nonneg.
      assert (S2 : 0 <= (A * B - C * C) * (a * a)).
      { apply Qmult_le_0_compat; [lra|apply sq_nonneg]. }
      lra. }
    assert (K2 : 0 <= A * (b * b) + B * (a * a) - 2 * C * (a * b)).
    { set (T := A * (b * b) + B * (a * a) - 2 * C * (a * b)) in *.
      destruct (Qlt_le_dec T 0) as [N|N]; [|exact N]. exfalso. nra. }
    nra.
Qed.

Lemma qsum_sq_nonneg l : 0 <= qsum (map (fun x => x * x) l).
Proof. apply qsum_nonneg. intros x Hx. apply in_map_iff in Hx. destruct Hx as [z [<- _]]. apply sq_nonneg. Qed.

Lemma cauchy_schwarz_lists (xs ys : list Q) :
  qsum (map2 Qmult xs ys) * qsum (map2 Qmult xs ys) <=
  qsum (map (fun x => x * x) xs) * qsum (map (fun y => y * y) ys).
Proof.
  revert ys. induction xs as [|a t IH]; intros [|b u]; simpl.
  - lra.
  - lra.
  - rewrite Qmult_0_r. lra.
  - specialize (IH u).
    pose proof (qsum_sq_nonneg t) as H. pose proof (qsum_sq_nonneg u) as H0.
    pose proof (cs_step _ _ _ a b H H0 IH) as K.
    set (C := qsum (map2 Qmult t u)) in *. set (A := qsum (map (fun x => x * x) t)) in *.
    set (B := qsum (map (fun y => y * y) u)) in *.
    assert (E1 : (a * b + C) * (a * b + C) == (C + a * b) * (C + a * b)) by ring.
    assert (E2 : (a * a + A) * (b * b + B) == (A + a * a) * (B + b * b)) by ring.
    rewrite E1, E2. exact K.
Qed.

(* cov(v,u)^2 <= pvar v * pvar u : the correlation coefficient lies in [-1, 1] *)
Theorem cov_cauchy_schwarz v u :
  length v = length u -> v <> [] -> cov v u * cov v u <= pvar v * pvar u.
Proof.
  intros L Hne. unfold cov, pvar, qn. rewrite <- L.
  set (n := inject_Z (Z.of_nat (length v))).
  assert (Hn : 0 < n).
  { unfold n. destruct v; [congruence|]. simpl length. rewrite Nat2Z.inj_succ.
    unfold Qlt, inject_Z. simpl. lia. }
  set (dv := map (fun x => x - mean v) v). set (du := map (fun y => y - mean u) u).
  assert (E1 : qsum (map2 (fun x y => (x - mean v) * (y - mean u)) v u) == qsum (map2 Qmult dv du)).
  { unfold dv, du. generalize (mean v) (mean u). intros a b. clear. revert u.
    induction v as [|x t IH]; intros [|y w]; simpl; try reflexivity. rewrite IH. reflexivity. }
  assert (E2 : qsum (map (fun x => (x - mean v) * (x - mean v)) v) == qsum (map (fun x => x * x) dv)).
  { unfold dv. rewrite map_map. reflexivity. }
  assert (E3 : qsum (map (fun x => (x - mean u) * (x - mean u)) u) == qsum (map (fun x => x * x) du)).
  { unfold du. rewrite map_map. reflexivity. }
  rewrite E1, E2, E3.
  pose proof (cauchy_schwarz_lists dv du) as CS.
  set (P := qsum (map2 Qmult dv du)) in *. set (S1 := qsum (map (fun x => x * x) dv)) in *.
  set (S2 := qsum (map (fun x => x * x) du)) in *.
  assert (X1 : P / n * (P / n) == P * P / (n * n)) by (field; lra).
  assert (X2 : S1 / n * (S2 / n) == S1 * S2 / (n * n)) by (field; lra).
  rewrite X1, X2. apply Qle_shift_div_l; [nra|].
  assert (X3 : P * P / (n * n) * (n * n) == P * P) by (field; lra). rewrite X3. exact CS.
Qed.

(* ---- the reduced executable versions compute the same values --------------------------------- *)
Lemma qsum_r_correct l : qsum_r l == qsum l.
Proof.
  induction l as [|a t IH]; [reflexivity|].
  change (qsum_r (a :: t)) with (Qred (a + qsum_r t)). change (qsum (a :: t)) with (a + qsum t).
  rewrite Qred_correct, IH. reflexivity.
Qed.

Lemma mean_r_correct v : mean_r v == mean v.
Proof. unfold mean_r, mean, qn. rewrite Qred_correct, qsum_r_correct. reflexivity. Qed.

Lemma sqdev_r_correct v :
  qsum_r (map (fun x => Qred ((x - mean_r v) * (x - mean_r v))) v) ==
  qsum (map (fun x => (x - mean v) * (x - mean v)) v).
Proof.
  rewrite qsum_r_correct. pose proof (mean_r_correct v) as M. revert M.
  generalize (mean_r v) (mean v). intros a b M.
  induction v as [|x t IH]; [reflexivity|].
  change (qsum (map (fun x0 => Qred ((x0 - a) * (x0 - a))) (x :: t)))
    with (Qred ((x - a) * (x - a)) + qsum (map (fun x0 => Qred ((x0 - a) * (x0 - a))) t)).
  change (qsum (map (fun x0 => (x0 - b) * (x0 - b)) (x :: t)))
    with ((x - b) * (x - b) + qsum (map (fun x0 => (x0 - b) * (x0 - b)) t)).
  rewrite IH, Qred_correct, M. reflexivity.
Qed.

Theorem pvar_r_correct v : pvar_r v == pvar v.
Proof. unfold pvar_r, pvar. rewrite Qred_correct, sqdev_r_correct. reflexivity. Qed.

Theorem svar_r_correct v : svar_r v == svar v.
Proof. unfold svar_r, svar. rewrite Qred_correct, sqdev_r_correct. reflexivity. Qed.

Theorem cov_r_correct v u : cov_r v u == cov v u.
Proof.
  unfold cov_r, cov. rewrite Qred_correct, qsum_r_correct.
  pose proof (mean_r_correct v) as Mv. pose proof (mean_r_correct u) as Mu. revert Mv Mu.
  generalize (mean_r v) (mean v) (mean_r u) (mean u) (qn v). intros a b c d n Mv Mu.
  assert (E : qsum (map2 (fun x y => Qred ((x - a) * (y - c))) v u) ==
              qsum (map2 (fun x y => (x - b) * (y - d)) v u)).
  { revert u. induction v as [|x t IH]; intros [|y w]; try reflexivity.
    change (qsum (map2 (fun x0 y0 => Qred ((x0 - a) * (y0 - c))) (x :: t) (y :: w)))
      with (Qred ((x - a) * (y - c)) + qsum (map2 (fun x0 y0 => Qred ((x0 - a) * (y0 - c))) t w)).
    change (qsum (map2 (fun x0 y0 => (x0 - b) * (y0 - d)) (x :: t) (y :: w)))
      with ((x - b) * (y - d) + qsum (map2 (fun x0 y0 => (x0 - b) * (y0 - d)) t w)).
    rewrite IH, Qred_correct, Mv, Mu. reflexivity. }
  rewrite E. reflexivity.
Qed.

Theorem cov_matrix_r_correct cs : Forall2 (Forall2 Qeq) (cov_matrix_r cs) (cov_matrix cs).
Proof.
  unfold cov_matrix_r, cov_matrix.
  assert (G : forall l l2, Forall2 (Forall2 Qeq) (map (fun v => map (fun u => cov_r v u) l2) l)
                                                  (map (fun v => map (fun u => cov v u) l2) l)).
  { induction l as [|v t IH]; intros l2; simpl; constructor; auto.
    induction l2 as [|u t2 IH2]; simpl; constructor; auto. apply cov_r_correct. }
  apply G.
Qed.
