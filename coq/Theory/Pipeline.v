From Coq Require Import ZArith List Bool Arith Lia.
From SKC Require Import Model.Pipeline.
Import ListNotations.

Section PipeFacts.
  Variables D R : Type.

  (* a suffix slice applied to the output of the preceding steps gives the same result *)
  Theorem suffix_slice (ts1 ts2 : list (D -> D)) (dm : D -> R) (d : D) :
    pipe_evaluate (ts1 ++ ts2) dm d = pipe_evaluate ts2 dm (pipe_transform ts1 d).
  Proof. unfold pipe_evaluate, pipe_transform. rewrite fold_left_app. reflexivity. Qed.

  Theorem transform_app (ts1 ts2 : list (D -> D)) (d : D) :
    pipe_transform (ts1 ++ ts2) d = pipe_transform ts2 (pipe_transform ts1 d).
  Proof. unfold pipe_transform. apply fold_left_app. Qed.

  (* evaluating = applying each transformer in order, then the decision maker *)
  Theorem evaluate_is_composition (t1 t2 t3 : D -> D) (dm : D -> R) (d : D) :
    pipe_evaluate [t1; t2; t3] dm d = dm (t3 (t2 (t1 d))).
  Proof. reflexivity. Qed.

  Theorem evaluate_cons (t : D -> D) ts (dm : D -> R) d :
    pipe_evaluate (t :: ts) dm d = pipe_evaluate ts dm (t d).
  Proof. reflexivity. Qed.

  (* a nested pipeline used as a step flattens *)
  Theorem nested_step_flattens (ts1 inner ts2 : list (D -> D)) (d : D) :
    pipe_transform (ts1 ++ [pipe_transform inner] ++ ts2) d = pipe_transform (ts1 ++ inner ++ ts2) d.
  Proof. rewrite !transform_app. reflexivity. Qed.

  Theorem nested_last_flattens (ts inner : list (D -> D)) (dm : D -> R) (d : D) :
    pipe_evaluate ts (pipe_evaluate inner dm) d = pipe_evaluate (ts ++ inner) dm d.
  Proof. rewrite suffix_slice. reflexivity. Qed.
End PipeFacts.

(* ---- unique names ------------------------------------------------------------------------------- *)
Lemma name_eqb_eq a b : name_eqb a b = true <-> a = b.
Proof.
  revert b. induction a as [|x t IH]; intros [|y u]; simpl; split; intros H; try discriminate; auto.
  - apply andb_true_iff in H. destruct H as [H1 H2]. apply Z.eqb_eq in H1. apply IH in H2. subst. reflexivity.
  - injection H as -> ->. rewrite Z.eqb_refl. apply IH. reflexivity.
Qed.

Lemma name_eqb_refl a : name_eqb a a = true.
Proof. apply name_eqb_eq. reflexivity. Qed.

Theorem unique_names_length names : length (unique_names names) = length names.
Proof. unfold unique_names. rewrite map_length, seq_length. reflexivity. Qed.

Definition uname_at (names : list name) (i : nat) : name :=
  let x := nth i names [] in
  if 1 <? count_name x names then suffix x (S (count_name x (firstn i names))) else x.

Lemma unique_names_nth names i : i < length names -> nth i (unique_names names) [] = uname_at names i.
Proof.
  intros H. unfold unique_names.
  rewrite (nth_indep _ [] (uname_at names 0)) by (rewrite map_length, seq_length; exact H).
  change (fun i0 : nat => _) with (uname_at names).
  rewrite (map_nth (uname_at names)). rewrite seq_nth by exact H. reflexivity.
Qed.

(* occurrences strictly before position i, plus the one at i, are among those before j > i *)
Lemma count_firstn_step x (l : list name) i j :
  i < j -> j <= length l -> nth i l [] = x ->
  count_name x (firstn i l) + 1 <= count_name x (firstn j l).
Proof.
  unfold count_name. revert i j. induction l as [|a t IH]; intros i j Hij Hj Hx; simpl in *; [lia|].
  destruct j; [lia|]. destruct i; simpl.
  - subst a. rewrite name_eqb_refl. simpl. lia.
  - specialize (IH i j ltac:(lia) ltac:(lia) Hx). destruct (name_eqb x a); simpl; lia.
Qed.

Section Unique.
  (* the only fact about suffixing that uniqueness needs *)
  Hypothesis suffix_inj : forall x y k l, suffix x k = suffix y l -> x = y /\ k = l.

  (* mkpipe names are unique PROVIDED no listed name already looks like a generated one *)
  Theorem unique_names_nodup names :
    (forall x k, 1 < count_name x names -> 1 <= k <= count_name x names -> ~ In (suffix x k) names) ->
    NoDup (unique_names names).
  Proof.
    intros Hfree. apply (proj2 (NoDup_nth (unique_names names) [])).
    intros i j Hi Hj E. rewrite unique_names_length in Hi, Hj.
    rewrite !unique_names_nth in E by assumption. unfold uname_at in E.
    set (x := nth i names []) in *. set (y := nth j names []) in *.
    destruct (Nat.ltb_spec 1 (count_name x names)) as [Cx|Cx],
             (Nat.ltb_spec 1 (count_name y names)) as [Cy|Cy].
    - apply suffix_inj in E. destruct E as [Exy Ek].
      destruct (Nat.lt_trichotomy i j) as [L|[Q|G]]; auto.
      + pose proof (count_firstn_step x names i j L ltac:(lia) eq_refl). rewrite <- Exy in Ek. lia.
      + assert (Ey : nth j names [] = x) by (fold y; auto).
        pose proof (count_firstn_step x names j i G ltac:(lia) Ey). rewrite <- Exy in Ek. lia.
    - exfalso. apply (Hfree x (S (count_name x (firstn i names))) Cx).
      + pose proof (count_firstn_step x names i (length names) Hi (le_n _) eq_refl) as H.
        rewrite firstn_all in H. lia.
      + rewrite E. apply nth_In. exact Hj.
    - exfalso. apply (Hfree y (S (count_name y (firstn j names))) Cy).
      + pose proof (count_firstn_step y names j (length names) Hj (le_n _) eq_refl) as H.
        rewrite firstn_all in H. lia.
      + rewrite <- E. apply nth_In. exact Hi.
    - (* both names occur once: equal names at two positions force the positions to coincide *)
      destruct (Nat.lt_trichotomy i j) as [L|[Q|G]]; auto; exfalso.
      + assert (Ey : nth j names [] = x) by (fold y; auto).
        pose proof (count_firstn_step x names i j L ltac:(lia) eq_refl).
        pose proof (count_firstn_step x names j (length names) Hj (le_n _) Ey) as H2.
        rewrite firstn_all in H2. lia.
      + assert (Ex : nth i names [] = y) by (fold x; auto).
        pose proof (count_firstn_step y names j i G ltac:(lia) eq_refl).
        pose proof (count_firstn_step y names i (length names) Hi (le_n _) Ex) as H2.
        rewrite firstn_all in H2. lia.
  Qed.
End Unique.

(* ---- parameters ------------------------------------------------------------------------------------ *)
Lemma pget_pupdate m ov p :
  pget p (pupdate m ov) =
  match pget p m with
  | None => None
  | Some v => match pget p ov with Some w => Some w | None => Some v end
  end.
Proof.
  unfold pupdate. induction m as [|[k v] t IH]; simpl; auto.
  destruct (Z.eqb_spec p k) as [->|Hne].
  - destruct (pget k ov) as [w|] eqn:E; simpl; rewrite Z.eqb_refl; reflexivity.
  - destruct (pget k ov) as [w|]; simpl; destruct (Z.eqb_spec p k); try contradiction; exact IH.
Qed.

(* copy with overrides changes exactly the overridden parameters *)
Theorem copy_overrides_only m ov p v :
  pget p m = Some v ->
  pget p (copy_with m ov) = match pget p ov with Some w => Some w | None => Some v end.
Proof. intros H. unfold copy_with. rewrite pget_pupdate, H. reflexivity. Qed.

Theorem copy_keeps_parameter_set m ov : map fst (copy_with m ov) = map fst m.
Proof.
  unfold copy_with, pupdate. rewrite map_map. apply map_ext. intros [k v]. simpl.
  destruct (pget k ov); reflexivity.
Qed.

(* reconstruction from get_parameters() gives the same parameters *)
Theorem rebuild_id m : rebuild m = m.
Proof. unfold rebuild, pupdate. simpl. induction m as [|[k v] t IH]; simpl; auto. rewrite IH. reflexivity. Qed.
