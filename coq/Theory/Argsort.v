(* The repaired untied_rank_ computes  argsort(argsort(rank, stable), stable) + 1.  This file proves that the
   position of alternative i in the stable argsort of the ranks is  untie_at r i - 1,  i.e. that the double stable
   argsort IS the specification [untie] (strictly better first, ties by order of appearance). *)
From Coq Require Import List Bool Arith Lia Permutation Sorting.Sorted.
From SKC Require Import Model.Untie Theory.Untie.
Import ListNotations.
Local Open Scope nat_scope.

Section Argsort.
  Variable r : list nat.
  Definition key (i : nat) : nat := nth i r 0.
  (* the order a stable sort by rank puts the positions in *)
  Definition lt2 (j i : nat) : Prop := key j < key i \/ (key j = key i /\ j < i).
  Definition lt2b (j i : nat) : bool := (key j <? key i) || ((key j =? key i) && (j <? i)).

  Lemma lt2b_spec j i : lt2b j i = true <-> lt2 j i.
  Proof.
    unfold lt2b, lt2. rewrite orb_true_iff, andb_true_iff, !Nat.ltb_lt, Nat.eqb_eq. tauto.
  Qed.

  Lemma lt2_asym j i : lt2 j i -> ~ lt2 i j.
  Proof. unfold lt2. lia. Qed.

  Lemma lt2_key_le j i : lt2 j i -> key j <= key i.
  Proof. unfold lt2. lia. Qed.

  (* ---- one insertion ---------------------------------------------------------------------------------- *)
  Lemma insert_perm i l : Permutation (i :: l) (insert_idx r i l).
  Proof.
    induction l as [|j t IH]; cbn [insert_idx]; [apply Permutation_refl|].
    fold (key i). fold (key j). destruct (key i <? key j); [apply Permutation_refl|].
    eapply perm_trans; [apply perm_swap|]. apply perm_skip. exact IH.
  Qed.

  Lemma insert_sorted i l :
    StronglySorted lt2 l -> (forall j, In j l -> j < i) -> StronglySorted lt2 (insert_idx r i l).
  Proof.
    induction l as [|j t IH]; intros Hs Hlt; cbn [insert_idx].
    - constructor; constructor.
    - fold (key i). fold (key j). inversion Hs as [|? ? Ht Hall]; subst.
      destruct (Nat.ltb_spec (key i) (key j)) as [Hk|Hk].
      + constructor; [exact Hs|]. constructor; [left; exact Hk|].
        rewrite Forall_forall in *. intros x Hx. left. specialize (Hall x Hx). apply lt2_key_le in Hall. lia.
      + constructor.
        * apply IH; [exact Ht|]. intros x Hx. apply Hlt. right. exact Hx.
        * rewrite Forall_forall in *. intros x Hx.
          apply (Permutation_in _ (Permutation_sym (insert_perm i t))) in Hx. destruct Hx as [<-|Hx].
          -- assert (j < i) by (apply Hlt; left; reflexivity). unfold lt2. lia.
          -- apply Hall. exact Hx.
  Qed.

  (* ---- the whole sort: sorted by (rank, position), a permutation of the positions ----------------------- *)
  Lemma argsort_prefix k :
    let acc := fold_left (fun acc i => insert_idx r i acc) (seq 0 k) [] in
    StronglySorted lt2 acc /\ Permutation acc (seq 0 k).
  Proof.
    induction k as [|k [Hs Hp]]; cbn zeta.
    - cbn. split; constructor.
    - rewrite seq_S, fold_left_app. cbn [fold_left plus].
      set (acc := fold_left (fun acc i => insert_idx r i acc) (seq 0 k) []) in *.
      split.
      + apply insert_sorted; [exact Hs|]. intros j Hj.
        apply (Permutation_in _ Hp) in Hj. apply in_seq in Hj. lia.
      + eapply perm_trans; [apply Permutation_sym, insert_perm|].
        eapply perm_trans; [apply perm_skip; exact Hp|].
        apply Permutation_cons_append.
  Qed.

  Lemma argsort_sorted : StronglySorted lt2 (argsort r).
  Proof. apply (argsort_prefix (length r)). Qed.

  Lemma argsort_perm : Permutation (argsort r) (seq 0 (length r)).
  Proof. apply (argsort_prefix (length r)). Qed.

  (* ---- position in a sorted list = number of smaller elements -------------------------------------------- *)
  Lemma sorted_position l i :
    StronglySorted lt2 l -> In i l ->
    nth_error l (length (filter (fun j => lt2b j i) l)) = Some i.
  Proof.
    induction l as [|a t IH]; intros Hs Hi; [destruct Hi|].
    inversion Hs as [|? ? Ht Hall]; subst. rewrite Forall_forall in Hall.
    destruct (Nat.eq_dec a i) as [->|Hne].
    - (* nothing in (i :: t) is below i *)
      assert (E : filter (fun j => lt2b j i) (i :: t) = []).
      { cbn [filter]. destruct (lt2b i i) eqn:Eii.
        - apply lt2b_spec in Eii. exfalso. exact (lt2_asym _ _ Eii Eii).
        - clear IH Hs Ht Hi. induction t as [|x t IHt]; [reflexivity|]. cbn [filter].
          destruct (lt2b x i) eqn:Ex.
          + apply lt2b_spec in Ex. exfalso. apply (lt2_asym _ _ Ex). apply Hall. left; reflexivity.
          + apply IHt. intros y Hy. apply Hall. right; exact Hy. }
      rewrite E. reflexivity.
    - destruct Hi as [Hi|Hi]; [congruence|].
      cbn [filter]. assert (Ea : lt2b a i = true) by (apply lt2b_spec, Hall, Hi).
      rewrite Ea. cbn [length nth_error]. apply IH; assumption.
  Qed.

  (* ---- counting over the positions = counting over the ranks ---------------------------------------------- *)
  Lemma count_split x :
    forall (l : list nat) s i,
      length (filter (fun j => (nth (j - s) l 0 <? x) || ((nth (j - s) l 0 =? x) && (j <? s + i)))
                     (seq s (length l)))
      = count_lt x l + count_eq x (firstn i l).
  Proof.
    unfold count_lt, count_eq.
    induction l as [|a t IH]; intros s i; [destruct i; reflexivity|].
    set (f := fun j => (nth (j - s) (a :: t) 0 <? x) || ((nth (j - s) (a :: t) 0 =? x) && (j <? s + i))).
    assert (E : filter f (seq (S s) (length t))
                = filter (fun j => (nth (j - S s) t 0 <? x) || ((nth (j - S s) t 0 =? x) && (j <? S s + (i - 1))))
                         (seq (S s) (length t))).
    { apply filter_ext_in. intros j Hj. apply in_seq in Hj. unfold f.
      replace (j - s) with (S (j - S s)) by lia. cbn [nth].
      destruct i as [|i'].
      - replace (j <? s + 0) with false by (symmetry; apply Nat.ltb_ge; lia).
        replace (j <? S s + (0 - 1)) with false by (symmetry; apply Nat.ltb_ge; lia). reflexivity.
      - replace (S s + (S i' - 1)) with (s + S i') by lia. reflexivity. }
    change (seq s (length (a :: t))) with (s :: seq (S s) (length t)).
    change (filter f (s :: seq (S s) (length t)))
      with (if f s then s :: filter f (seq (S s) (length t)) else filter f (seq (S s) (length t))).
    rewrite E. pose proof (IH (S s) (i - 1)) as L. clear E IH.
    assert (Fs : f s = (a <? x) || ((a =? x) && (0 <? i))).
    { unfold f. rewrite Nat.sub_diag. cbn [nth].
      replace (s <? s + i) with (0 <? i); [reflexivity|].
      destruct i; [symmetry; rewrite Nat.add_0_r; apply Nat.ltb_irrefl|].
      symmetry. apply Nat.ltb_lt. lia. }
    rewrite Fs. clear Fs f.
    destruct i as [|i'].
    - replace (0 <? 0) with false by reflexivity. rewrite andb_false_r, orb_false_r.
      cbn [Nat.sub firstn filter length] in *.
      destruct (a <? x); cbn [length]; rewrite L; lia.
    - replace (0 <? S i') with true by reflexivity. rewrite andb_true_r.
      replace (S i' - 1) with i' in * by lia.
      cbn [firstn filter length].
      destruct (Nat.ltb_spec a x), (Nat.eqb_spec a x); cbn [orb length]; rewrite L; lia.
  Qed.

  Lemma below_count i :
    length (filter (fun j => lt2b j i) (seq 0 (length r))) = untie_at r i - 1.
  Proof.
    unfold untie_at, lt2b, key. pose proof (count_split (nth i r 0) r 0 i) as H.
    cbn [plus] in H.
    erewrite filter_ext in H; [|intros j; rewrite Nat.sub_0_r; reflexivity].
    rewrite H. lia.
  Qed.

  (* ---- the theorem ----------------------------------------------------------------------------------------- *)
  Theorem argsort_position i :
    i < length r -> nth_error (argsort r) (untie_at r i - 1) = Some i.
  Proof.
    intros Hi. rewrite <- below_count.
    rewrite <- (filter_length_perm' (fun j : nat => lt2b j i) _ _ argsort_perm).
    apply sorted_position; [exact argsort_sorted|].
    apply (Permutation_in _ (Permutation_sym argsort_perm)). apply in_seq. lia.
  Qed.
End Argsort.

(* the double stable argsort (+1) of the implementation is the specification *)
Theorem untied_is_inverse_of_stable_argsort r i :
  i < length r -> nth_error (argsort r) (nth i (untie r) 0 - 1) = Some i.
Proof.
  intros Hi. unfold untie.
  rewrite (nth_indep _ 0 (untie_at r 0)) by (rewrite map_length, seq_length; exact Hi).
  rewrite (map_nth (untie_at r) (seq 0 (length r)) 0 i).
  rewrite seq_nth by exact Hi. cbn [plus]. apply argsort_position. exact Hi.
Qed.
