(* C12: order-preserving transformers never reverse a preference; dominance is invariant. *)
From Coq Require Import ZArith QArith List Bool Arith Lia Lqa.
From SKC Require Import Base.QBool Base.QList Model.Dominance Model.Agg Model.Transform
  Theory.QListFacts Theory.Dominance.
Import ListNotations.

(* ---- a strictly increasing map preserves every comparison ------------------------- *)
Lemma better_mono (f : Q -> Q) (mx : bool) x y :
  ((f x < f y) <-> (x < y)) -> ((f y < f x) <-> (y < x)) ->
  better mx (f x) (f y) = better mx x y.
Proof.
  intros H1 H2. unfold better. destruct mx.
  - destruct (Qltb (f y) (f x)) eqn:E1, (Qltb y x) eqn:E2; auto; qb.
    + apply H2 in E1. lra.
    + exfalso. assert (f y < f x) by (apply H2; exact E2). lra.
  - destruct (Qltb (f x) (f y)) eqn:E1, (Qltb x y) eqn:E2; auto; qb.
    + apply H1 in E1. lra.
    + exfalso. assert (f x < f y) by (apply H1; exact E2). lra.
Qed.

Definition strictly_increasing_on (P : Q -> Prop) (f : Q -> Q) : Prop :=
  forall x y, P x -> P y -> ((f x < f y) <-> (x < y)).

Theorem map_preserves_preferences (P : Q -> Prop) f mx v i j :
  strictly_increasing_on P f -> (forall x, In x v -> P x) ->
  (i < length v)%nat -> (j < length v)%nat ->
  better mx (nth i (map f v) 0) (nth j (map f v) 0) = better mx (nth i v 0) (nth j v 0).
Proof.
  intros Hf HP Hi Hj.
  rewrite (nth_indep (map f v) 0 (f 0)) by (rewrite map_length; exact Hi).
  rewrite (nth_indep (map f v) 0 (f 0) (n := j)) by (rewrite map_length; exact Hj).
  rewrite !(map_nth f).
  apply better_mono; apply Hf; apply HP; apply nth_In; assumption.
Qed.

(* the affine maps used by the scalers *)
Lemma div_pos_increasing s : 0 < s -> strictly_increasing_on (fun _ => True) (fun x => x / s).
Proof.
  intros Hs x y _ _. split; intros H.
  - assert (x / s * s < y / s * s) by nra.
    assert (E1 : x / s * s == x) by (field; lra). assert (E2 : y / s * s == y) by (field; lra). lra.
  - apply Qlt_shift_div_l; auto. assert (E : x / s * s == x) by (field; lra). lra.
Qed.

Lemma affine_increasing a r k c :
  0 < r -> 0 < k -> strictly_increasing_on (fun _ => True) (fun x => (x - a) / r * k + c).
Proof.
  intros Hr Hk x y _ _.
  pose proof (div_pos_increasing r Hr (x - a) (y - a) I I) as D. simpl in D.
  split; intros H.
  - assert ((x - a) / r < (y - a) / r) by nra. apply D in H0. lra.
  - assert ((x - a) / r < (y - a) / r) by (apply D; lra). nra.
Qed.

Lemma shift_increasing c : strictly_increasing_on (fun _ => True) (fun x => x - c).
Proof. intros x y _ _. split; intros H; lra. Qed.
Lemma add_increasing c : strictly_increasing_on (fun _ => True) (fun x => x + c).
Proof. intros x y _ _. split; intros H; lra. Qed.

(* ---- each rational scaler on one vector ------------------------------------------------ *)
Theorem sum_scale_order (mx : bool) v i j :
  0 < qsum v -> (i < length v)%nat -> (j < length v)%nat ->
  better mx (nth i (sum_scale v) 0) (nth j (sum_scale v) 0) = better mx (nth i v 0) (nth j v 0).
Proof.
  intros Hs Hi Hj. unfold sum_scale.
  apply (map_preserves_preferences (fun _ => True)); auto using div_pos_increasing.
Qed.

Theorem maxabs_scale_order (mx : bool) v i j :
  (i < length v)%nat -> (j < length v)%nat ->
  better mx (nth i (maxabs_scale v) 0) (nth j (maxabs_scale v) 0) = better mx (nth i v 0) (nth j v 0).
Proof.
  intros Hi Hj. unfold maxabs_scale. destruct (Qeqb (lmax (map qabs v)) 0) eqn:E; [reflexivity|].
  qb. assert (0 <= lmax (map qabs v)).
  { destruct v as [|a t]; [simpl; lra|]. simpl.
    destruct (qmaxl_ge (qabs a) (map qabs t)) as [H _]. pose proof (qabs_nonneg a). lra. }
  apply (map_preserves_preferences (fun _ => True)); auto.
  apply div_pos_increasing. destruct (Qlt_le_dec 0 (lmax (map qabs v))); auto. exfalso. apply E. lra.
Qed.

Lemma lmax_ge_lmin v : v <> [] -> lmin v <= lmax v.
Proof.
  intros H. pose proof (lmin_In v H) as Hin. apply lmax_ge in Hin. exact Hin.
Qed.

Theorem minmax_scale_order lo hi (mx : bool) v i j :
  lo < hi -> (i < length v)%nat -> (j < length v)%nat ->
  better mx (nth i (minmax_scale lo hi v) 0) (nth j (minmax_scale lo hi v) 0) =
  better mx (nth i v 0) (nth j v 0).
Proof.
  intros Hlh Hi Hj. unfold minmax_scale.
  assert (Hne : v <> []) by (destruct v; [simpl in Hi; lia|discriminate]).
  destruct (Qeqb (lmax v - lmin v) 0) eqn:E; qb.
  - (* constant criterion: all equal before and after *)
    assert (A : forall k, (k < length v)%nat -> nth k v 0 == lmin v).
    { intros k Hk. assert (In (nth k v 0) v) by (apply nth_In; exact Hk).
      pose proof (lmin_le v _ H). pose proof (lmax_ge v _ H). lra. }
    rewrite (nth_indep _ 0 lo) by (rewrite map_length; exact Hi).
    rewrite (nth_indep _ 0 lo (n := j)) by (rewrite map_length; exact Hj).
    rewrite !(map_nth (fun _ => lo) v 0).
    pose proof (A i Hi). pose proof (A j Hj).
    unfold better. destruct mx; symmetry.
    + replace (Qltb lo lo) with false by (symmetry; qb; lra). qb. lra.
    + replace (Qltb lo lo) with false by (symmetry; qb; lra). qb. lra.
  - apply (map_preserves_preferences (fun _ => True)); auto.
    apply affine_increasing; [|lra].
    pose proof (lmax_ge_lmin v Hne). destruct (Qlt_le_dec 0 (lmax v - lmin v)); auto.
    exfalso. apply E. lra.
Qed.

Theorem push_neg_order (mx : bool) v i j :
  (i < length v)%nat -> (j < length v)%nat ->
  better mx (nth i (push_neg v) 0) (nth j (push_neg v) 0) = better mx (nth i v 0) (nth j v 0).
Proof.
  intros Hi Hj. unfold push_neg. destruct (Qltb (lmin v) 0); [|reflexivity].
  apply (map_preserves_preferences (fun _ => True)); auto using shift_increasing.
Qed.

Theorem add_zero_order e (mx : bool) v i j :
  (i < length v)%nat -> (j < length v)%nat ->
  better mx (nth i (add_zero e v) 0) (nth j (add_zero e v) 0) = better mx (nth i v 0) (nth j v 0).
Proof.
  intros Hi Hj. unfold add_zero. destruct (existsb _ v); [|reflexivity].
  apply (map_preserves_preferences (fun _ => True)); auto using add_increasing.
Qed.

(* ---- objective inverters: "better" is kept under the new maximise objective ------------ *)
Theorem negate_keeps_preference x y : better true (- x) (- y) = better false x y.
Proof.
  unfold better. destruct (Qltb (- y) (- x)) eqn:E1, (Qltb x y) eqn:E2; auto; qb; lra.
Qed.

Theorem invert_keeps_preference x y : 0 < x -> 0 < y -> better true (/ x) (/ y) = better false x y.
Proof.
  intros Hx Hy. unfold better.
  assert (Ix : 0 < / x) by (apply Qinv_lt_0_compat; exact Hx).
  assert (Iy : 0 < / y) by (apply Qinv_lt_0_compat; exact Hy).
  assert (Ex : x * / x == 1) by (field; lra). assert (Ey : y * / y == 1) by (field; lra).
  destruct (Qltb (/ y) (/ x)) eqn:E1, (Qltb x y) eqn:E2; auto; qb.
  - exfalso. assert (y * / y <= x * / y) by nra. assert (x * / y < x * / x) by nra. lra.
  - exfalso. assert (x * / x < y * / x) by nra. assert (y * / x <= y * / y) by nra. lra.
Qed.

Theorem invert_col_keeps_preference (f : Q -> Q) (mx : bool) v i j :
  (forall x y, In x v -> In y v -> better true (f x) (f y) = better false x y) ->
  (i < length v)%nat -> (j < length v)%nat ->
  better true (nth i (invert_col f mx v) 0) (nth j (invert_col f mx v) 0) =
  better mx (nth i v 0) (nth j v 0).
Proof.
  intros Hf Hi Hj. unfold invert_col. destruct mx; [reflexivity|].
  rewrite (nth_indep (map f v) 0 (f 0)) by (rewrite map_length; exact Hi).
  rewrite (nth_indep (map f v) 0 (f 0) (n := j)) by (rewrite map_length; exact Hj).
  rewrite !(map_nth f). apply Hf; apply nth_In; assumption.
Qed.

(* ---- dominance depends only on the per-criterion preferences ----------------------------- *)
Fixpoint prefs (objs : list bool) (ra rb : list Q) : list (bool * bool) :=
  match objs, ra, rb with
  | o :: os, x :: xs, y :: ys => (better o x y, better o y x) :: prefs os xs ys
  | _, _, _ => []
  end.

Lemma all_geq_prefs objs ra rb : all_geq objs ra rb = forallb (fun p => negb (snd p)) (prefs objs ra rb).
Proof.
  revert ra rb. induction objs as [|o os IH]; intros [|x xs] [|y ys]; simpl; auto. rewrite IH. reflexivity.
Qed.
Lemma some_better_prefs objs ra rb : some_better objs ra rb = existsb fst (prefs objs ra rb).
Proof.
  revert ra rb. induction objs as [|o os IH]; intros [|x xs] [|y ys]; simpl; auto. rewrite IH. reflexivity.
Qed.
Lemma all_better_prefs objs ra rb : all_better objs ra rb = forallb fst (prefs objs ra rb).
Proof.
  revert ra rb. induction objs as [|o os IH]; intros [|x xs] [|y ys]; simpl; auto. rewrite IH. reflexivity.
Qed.

Theorem dominance_invariant strict objs ra rb objs' ra' rb' :
  prefs objs ra rb = prefs objs' ra' rb' ->
  dom_spec strict objs ra rb = dom_spec strict objs' ra' rb'.
Proof.
  intros H. unfold dom_spec.
  destruct strict; unfold strictly_dominates, dominates;
    rewrite ?all_geq_prefs, ?some_better_prefs, ?all_better_prefs, H; reflexivity.
Qed.

(* per-criterion preservation lifts to the preference profile of two rows *)
Theorem prefs_pointwise objs ra rb objs' ra' rb' :
  length objs = length objs' -> length ra = length objs -> length rb = length objs ->
  length ra' = length objs -> length rb' = length objs ->
  (forall j, (j < length objs)%nat ->
     better (nth j objs' true) (nth j ra' 0) (nth j rb' 0) = better (nth j objs true) (nth j ra 0) (nth j rb 0) /\
     better (nth j objs' true) (nth j rb' 0) (nth j ra' 0) = better (nth j objs true) (nth j rb 0) (nth j ra 0)) ->
  prefs objs ra rb = prefs objs' ra' rb'.
Proof.
  revert ra rb objs' ra' rb'.
  induction objs as [|o os IH]; intros [|x xs] [|y ys] [|o' os'] [|x' xs'] [|y' ys']; simpl;
    intros L0 L1 L2 L3 L4 H; try discriminate; auto.
  destruct (H 0%nat ltac:(lia)) as [H1 H2]. simpl in H1, H2. rewrite H1, H2. f_equal.
  apply IH; try lia. intros j Hj. apply (H (S j)). lia.
Qed.
