(* C05: the remaining scores under a reordering of the CRITERIA: TOPSIS distances (every rational metric and the
   squared euclidean one), the reference-point score; and the TOPSIS ranking under a reordering of the alternatives. *)
From Coq Require Import QArith List Bool Arith Lia Lqa Permutation.
From SKC Require Import Base.QBool Base.QList Base.QRank Model.Dominance Model.Agg
  Theory.QListFacts Theory.RankFacts Theory.Agg Theory.Invariance Theory.RankPerm Theory.RankPerm2.
Import ListNotations.

Lemma map2_combine_gen {A B C} (f : A -> B -> C) la lb :
  map2 f la lb = map (fun p => f (fst p) (snd p)) (combine la lb).
Proof. revert lb. induction la as [|a t IH]; intros [|b u]; cbn [map2 combine map]; auto. rewrite IH. reflexivity. Qed.

(* distance between two points given as coordinate pairs: any order of the coordinates *)
Theorem dist_criteria_order_irrelevant mt a b a' b' :
  Permutation (combine a b) (combine a' b') -> dist mt a b == dist mt a' b'.
Proof.
  intros P. unfold dist. rewrite !map2_combine_gen, !map_map.
  destruct mt.
  - apply qsum_perm. apply Permutation_map. exact P.
  - apply qsum_perm. apply Permutation_map. exact P.
  - apply lmax_perm. apply Permutation_map. exact P.
  - apply qsum_perm. apply Permutation_map. exact P.
Qed.

(* reference-point score of a row: (weight, value, reference) triples in any order *)
Fixpoint wtrips (w r rp : list Q) : list (Q * Q * Q) :=
  match w, r, rp with
  | wj :: w', x :: r', p :: rp' => (wj, x, p) :: wtrips w' r' rp'
  | _, _, _ => []
  end.

Lemma refpoint_as_trips w rp r :
  map2 (fun wj d => qabs (wj * d)) w (map2 Qminus r rp) =
  map (fun t => let '(wj, x, p) := t in qabs (wj * (x - p))) (wtrips w r rp).
Proof.
  revert r rp. induction w as [|wj w IH]; intros r rp.
  - destruct r, rp; reflexivity.
  - destruct r as [|x r]; [destruct rp; reflexivity|]. destruct rp as [|p rp]; [reflexivity|].
    cbn [map2 wtrips map]. rewrite IH. reflexivity.
Qed.

Theorem refpoint_row_criteria_order_irrelevant w rp r w' rp' r' :
  Permutation (wtrips w r rp) (wtrips w' r' rp') ->
  refpoint_score_row w rp r == refpoint_score_row w' rp' r'.
Proof.
  intros P. unfold refpoint_score_row. rewrite !refpoint_as_trips. apply lmax_perm. apply Permutation_map. exact P.
Qed.

(* ---- TOPSIS under a reordering of the alternatives ------------------------------------------------------ *)
Lemma weighted_reindex w sigma rows :
  (forall i, In i sigma -> (i < length rows)%nat) ->
  weighted w (reindex [] sigma rows) = reindex [] sigma (weighted w rows).
Proof.
  intros B. unfold weighted. rewrite (rowwise_reindex (fun r => map2 Qmult r w) sigma rows B).
  apply reindex_default. rewrite map_length. exact B.
Qed.

Lemma dist_ext mt a b b' : Forall2 Qeq b b' -> dist mt a b == dist mt a b'.
Proof.
  intros F. unfold dist.
  assert (G : Forall2 Qeq (map2 Qminus a b) (map2 Qminus a b')).
  { revert a. induction F as [|p q tp tq Hpq _ IH]; intros [|x a]; cbn [map2]; try constructor; auto.
    rewrite Hpq. reflexivity. }
  revert G. generalize (map2 Qminus a b) (map2 Qminus a b'). intros d d' G.
  destruct mt.
  - induction G as [|x y tx ty Hxy _ IH]; [reflexivity|]. cbn [map]. unfold qsum in *. cbn [fold_right].
    rewrite IH, (qabs_ext _ _ Hxy). reflexivity.
  - induction G as [|x y tx ty Hxy _ IH]; [reflexivity|]. cbn [map]. unfold qsum in *. cbn [fold_right].
    rewrite IH, Hxy. reflexivity.
  - apply lmax_Forall2. induction G as [|x y tx ty Hxy _ IH]; cbn [map]; constructor; auto. apply qabs_ext. exact Hxy.
  - induction G as [|x y tx ty Hxy _ IH]; [reflexivity|]. cbn [map]. unfold qsum in *. cbn [fold_right].
    rewrite IH, Hxy. reflexivity.
Qed.

Lemma col_anti_length objs rows : length (col_anti objs rows) = length objs.
Proof. unfold col_anti, cols. apply map2_length. rewrite map_length, seq_length. reflexivity. Qed.

(* both distance vectors of the reordered problem are the original ones read in the new order *)
Theorem topsis_distances_follow_alternatives mt objs w sigma rows :
  Permutation sigma (seq 0 (length rows)) ->
  Forall2 Qeq (t_dbetter (topsis_core mt objs w (reindex [] sigma rows)))
              (reindex 0 sigma (t_dbetter (topsis_core mt objs w rows))) /\
  Forall2 Qeq (t_dworst (topsis_core mt objs w (reindex [] sigma rows)))
              (reindex 0 sigma (t_dworst (topsis_core mt objs w rows))).
Proof.
  intros P. assert (B := perm_seq_bound _ _ P).
  assert (Lw : length (weighted w rows) = length rows) by (unfold weighted; apply map_length).
  assert (Pw : Permutation sigma (seq 0 (length (weighted w rows)))) by (rewrite Lw; exact P).
  assert (Bw : forall i, In i sigma -> (i < length (weighted w rows))%nat) by (rewrite Lw; exact B).
  unfold topsis_core. cbn [t_dbetter t_dworst]. rewrite (weighted_reindex w sigma rows B).
  set (wm := weighted w rows) in *.
  assert (FI : Forall2 Qeq (col_opt objs (reindex [] sigma wm)) (col_opt objs wm)).
  { apply Forall2_Qeq_nth; [rewrite !col_opt_length; reflexivity|]. intros j Hj. rewrite col_opt_length in Hj.
    apply col_opt_row_order_irrelevant; [apply reindex_perm; exact Pw|exact Hj]. }
  assert (FA : Forall2 Qeq (col_anti objs (reindex [] sigma wm)) (col_anti objs wm)).
  { apply Forall2_Qeq_nth; [rewrite !col_anti_length; reflexivity|]. intros j Hj. rewrite col_anti_length in Hj.
    apply col_anti_row_order_irrelevant; [apply reindex_perm; exact Pw|exact Hj]. }
  assert (G : forall ref ref', Forall2 Qeq ref' ref ->
              Forall2 Qeq (map (fun r => dist mt r ref') (reindex [] sigma wm))
                          (reindex 0 sigma (map (fun r => dist mt r ref) wm))).
  { intros ref ref' F.
    rewrite <- (reindex_default (dist mt [] ref) 0 sigma (map (fun r => dist mt r ref) wm))
      by (rewrite map_length; exact Bw).
    rewrite <- (rowwise_reindex (fun r => dist mt r ref) sigma wm Bw).
    generalize (reindex [] sigma wm). intros l. induction l as [|r t IH]; cbn [map]; constructor; auto.
    apply dist_ext. exact F. }
  split; apply G; assumption.
Qed.

(* ---- the whole TOPSIS result (rational metrics) under a reordering of the alternatives ------------------ *)
Lemma map2_maps' {A B C D} (f : B -> C -> D) (a : A -> B) (b : A -> C) l :
  map2 f (map a l) (map b l) = map (fun k => f (a k) (b k)) l.
Proof. induction l as [|x t IH]; cbn [map map2]; [reflexivity|]. rewrite IH. reflexivity. Qed.

Lemma all_some_spec {A} (l : list (option A)) v : all_some l = Some v <-> l = map Some v.
Proof.
  revert v. induction l as [|o t IH]; intros v; cbn [all_some].
  - split; [intros E; inversion E; reflexivity|]. intros E. destruct v; [reflexivity|discriminate].
  - destruct o as [x|].
    + destruct (all_some t) as [r|] eqn:E.
      * split.
        -- intros H. inversion H; subst. cbn [map]. f_equal. apply (proj1 (IH r)). reflexivity.
        -- intros H. destruct v as [|y v]; [discriminate|]. cbn [map] in H. inversion H; subst.
           f_equal. f_equal. assert (Some r = Some v) as X by (apply (proj2 (IH v)); reflexivity). inversion X; reflexivity.
      * split; [discriminate|]. intros H. destruct v as [|y v]; [discriminate|]. cbn [map] in H. inversion H; subst.
        assert (None = Some v) as X by (apply (proj2 (IH v)); reflexivity). discriminate.
    + split; [discriminate|]. intros H. destruct v; discriminate.
Qed.

Lemma all_some_none {A} (l : list (option A)) : all_some l = None <-> In None l.
Proof.
  induction l as [|o t IH]; cbn [all_some In]; [split; [discriminate|tauto]|].
  destruct o as [x|]; [|split; auto].
  destruct (all_some t) as [r|]; split.
  - discriminate.
  - intros [H|H]; [discriminate|]. apply IH in H. discriminate.
  - intros _. right. apply IH. reflexivity.
  - reflexivity.
Qed.

Lemma all_some_reindex {A} (d : A) sigma (l : list (option A)) :
  Permutation sigma (seq 0 (length l)) ->
  all_some (reindex None sigma l) =
  match all_some l with Some v => Some (reindex d sigma v) | None => None end.
Proof.
  intros P. destruct (all_some l) as [v|] eqn:E.
  - apply all_some_spec in E. subst l. apply all_some_spec.
    rewrite map_length in P. assert (B := perm_seq_bound _ _ P).
    rewrite (reindex_default None (Some d) sigma (map Some v)) by (rewrite map_length; exact B).
    apply (reindex_map Some d sigma v). exact B.
  - apply all_some_none. apply (reindex_same_set None sigma l P). apply all_some_none. exact E.
Qed.

Lemma similarity_ext db dw db' dw' : db == db' -> dw == dw' ->
  match similarity db dw, similarity db' dw' with
  | Some s, Some s' => s == s'
  | None, None => True
  | _, _ => False
  end.
Proof.
  intros E1 E2. unfold similarity.
  destruct (Qeqb (db + dw) 0) eqn:A, (Qeqb (db' + dw') 0) eqn:B; qb; auto.
  - apply B. rewrite <- E1, <- E2. exact A.
  - apply A. rewrite E1, E2. exact B.
  - rewrite E1, E2. reflexivity.
Qed.

Lemma all_some_ext (l l' : list (option Q)) :
  Forall2 (fun o o' => match o, o' with Some s, Some s' => s == s' | None, None => True | _, _ => False end) l l' ->
  match all_some l, all_some l' with
  | Some v, Some v' => Forall2 Qeq v v'
  | None, None => True
  | _, _ => False
  end.
Proof.
  intros F. induction F as [|o o' t t' H _ IH]; cbn [all_some]; [constructor|].
  destruct o as [s|], o' as [s'|]; try contradiction; [|exact I].
  destruct (all_some t) as [v|], (all_some t') as [v'|]; try contradiction; [|exact I].
  constructor; assumption.
Qed.

Theorem topsis_result_follows_alternatives mt objs w sigma rows :
  Permutation sigma (seq 0 (length rows)) ->
  match topsis_rational mt objs w rows, topsis_rational mt objs w (reindex [] sigma rows) with
  | Ok (rk, s), Ok (rk', s') => rk' = reindex 0%nat sigma rk /\ Forall2 Qeq s' (reindex 0 sigma s)
  | Err _, Err _ => True
  | _, _ => False
  end.
Proof.
  intros P. unfold topsis_rational.
  destruct (topsis_distances_follow_alternatives mt objs w sigma rows P) as [Fb Fw].
  set (c := topsis_core mt objs w rows) in *. set (c' := topsis_core mt objs w (reindex [] sigma rows)) in *.
  assert (Lb : length (t_dbetter c) = length rows) by (unfold c, topsis_core; cbn [t_dbetter]; unfold weighted; rewrite !map_length; reflexivity).
  assert (Lw : length (t_dworst c) = length rows) by (unfold c, topsis_core; cbn [t_dworst]; unfold weighted; rewrite !map_length; reflexivity).
  (* similarities of the reordered problem vs the reordered similarities *)
  assert (S : map2 similarity (reindex 0 sigma (t_dbetter c)) (reindex 0 sigma (t_dworst c)) =
              reindex None sigma (map2 similarity (t_dbetter c) (t_dworst c))).
  { unfold reindex. rewrite map2_maps'. apply map_ext_in. intros i Hi.
    assert (Hi' : (i < length rows)%nat) by (apply (perm_seq_bound _ _ P); exact Hi).
    symmetry. apply (map2_nth similarity (t_dbetter c) (t_dworst c) i 0 0 None); lia. }
  assert (F : Forall2 (fun o o' => match o, o' with Some s, Some s' => s == s' | None, None => True | _, _ => False end)
                (map2 similarity (t_dbetter c') (t_dworst c'))
                (reindex None sigma (map2 similarity (t_dbetter c) (t_dworst c)))).
  { rewrite <- S. clear S. revert Fw. generalize (t_dworst c') (reindex 0 sigma (t_dworst c)).
    induction Fb as [|a b ta tb Hab _ IH]; intros l l' Fw; [destruct l, l'; constructor|].
    destruct Fw as [|x y tx ty Hxy Fw]; cbn [map2]; constructor; [apply similarity_ext; assumption|apply IH; exact Fw]. }
  apply all_some_ext in F.
  assert (Ls : length (map2 similarity (t_dbetter c) (t_dworst c)) = length rows) by (rewrite map2_length; lia).
  rewrite (all_some_reindex 0 sigma _ ltac:(rewrite Ls; exact P)) in F.
  destruct (all_some (map2 similarity (t_dbetter c) (t_dworst c))) as [s|] eqn:Es,
           (all_some (map2 similarity (t_dbetter c') (t_dworst c'))) as [s'|]; try contradiction; [|exact I].
  split; [|exact F].
  assert (Lsv : length s = length rows).
  { apply all_some_spec in Es. rewrite <- Ls, Es, map_length. reflexivity. }
  rewrite <- (rank_values_reindex true sigma s) by (rewrite Lsv; exact P).
  unfold rank_values. apply dense_rank_Q_ext.
  clear -F. induction F as [|x y tx ty Hxy _ IH]; cbn [map]; constructor; auto. rewrite Hxy. reflexivity.
Qed.
