(* The variance of tie-free ranks.  Spearman's correlation is Pearson's on the ranks; a shortcut that replaces the
   variance of every rank column by the closed form (n^2 - 1) / 12 is right exactly when the column has no ties: proved
   here for the ranks 1..n, refuted for average ranks with a tie. *)
From Coq Require Import QArith ZArith List Lia Lqa.
From SKC Require Import Base.QList Model.Transform Theory.QListFacts.
Import ListNotations.
Local Open Scope Q_scope.

Definition qnat (k : nat) : Q := inject_Z (Z.of_nat k).
Definition ranks (n : nat) : list Q := map qnat (seq 1 n).

Lemma qnat_S k : qnat (S k) == qnat k + 1.
Proof. unfold qnat. rewrite Nat2Z.inj_succ. unfold Z.succ. rewrite inject_Z_plus. reflexivity. Qed.

Lemma qs_nil : qsum [] = 0.
Proof. reflexivity. Qed.
Lemma qs_cons a t : qsum (a :: t) = a + qsum t.
Proof. reflexivity. Qed.

Lemma ranks_S n : ranks (S n) = ranks n ++ [qnat (S n)].
Proof. unfold ranks. rewrite seq_S, map_app. reflexivity. Qed.

Lemma sum_ranks n : qsum (ranks n) == qnat n * (qnat n + 1) / 2.
Proof.
  induction n as [|n IH].
  - unfold ranks, qnat. cbn. reflexivity.
  - rewrite ranks_S, qsum_app, IH, qs_cons, qs_nil, qnat_S. field.
Qed.

Lemma sumsq_ranks n :
  qsum (map (fun x => x * x) (ranks n)) == qnat n * (qnat n + 1) * (2 * qnat n + 1) / 6.
Proof.
  induction n as [|n IH].
  - unfold ranks, qnat. cbn. reflexivity.
  - rewrite ranks_S, map_app, qsum_app, IH. cbn [map]. rewrite qs_cons, qs_nil, qnat_S. field.
Qed.

(* sum of squared deviations from any centre c *)
Lemma sumsq_dev c v :
  qsum (map (fun x => (x - c) * (x - c)) v)
  == qsum (map (fun x => x * x) v) - 2 * c * qsum v + qnat (length v) * c * c.
Proof.
  induction v as [|a t IH].
  - unfold qnat. cbn. ring.
  - cbn [map length]. rewrite !qs_cons, IH, qnat_S. ring.
Qed.

Lemma ranks_length n : length (ranks n) = n.
Proof. unfold ranks. rewrite map_length, seq_length. reflexivity. Qed.

Theorem pvar_of_tie_free_ranks n :
  (1 <= n)%nat -> pvar (ranks n) == (qnat n * qnat n - 1) / 12.
Proof.
  intros Hn. unfold pvar, mean. rewrite sumsq_dev, ranks_length, sum_ranks, sumsq_ranks.
  fold (qnat n).
  assert (Hne : ~ qnat n == 0).
  { unfold qnat. intros E. apply (f_equal Qnum) in E || idtac.
    assert (0 < inject_Z (Z.of_nat n)) by (rewrite <- (Zlt_Qlt 0); lia).
    rewrite E in H. apply Qlt_irrefl in H. exact H. }
  field. exact Hne.
Qed.

(* with a tie (average ranks 1, 2.5, 2.5, 4) the variance is smaller than the closed form for n = 4 *)
Example tied_ranks_have_smaller_variance :
  pvar [1; 5 # 2; 5 # 2; 4] < (qnat 4 * qnat 4 - 1) / 12.
Proof. vm_compute. reflexivity. Qed.
