From Coq Require Import ZArith List Bool Lia Permutation Arith.
From SKC Require Import Model.Result Base.QList Model.Electre.
Import ListNotations.

Lemma existsb_eqb_In x l : existsb (Z.eqb x) l = true <-> In x l.
Proof.
  rewrite existsb_exists. split.
  - intros [y [Hy E]]. apply Z.eqb_eq in E. subst. exact Hy.
  - intros H. exists x. split; auto. apply Z.eqb_refl.
Qed.

Lemma dedupZ_In l x : In x (dedupZ l) <-> In x l.
Proof.
  induction l as [|a t IH]; simpl; [tauto|].
  destruct (existsb (Z.eqb a) t) eqn:E; simpl; rewrite ?IH.
  - apply existsb_eqb_In in E. split; [tauto|]. intros [->|H]; auto.
  - tauto.
Qed.

Lemma dedupZ_NoDup l : NoDup (dedupZ l).
Proof.
  induction l as [|a t IH]; simpl; [constructor|].
  destruct (existsb (Z.eqb a) t) eqn:E; auto.
  constructor; auto. rewrite dedupZ_In. intros H. apply existsb_eqb_In in H. congruence.
Qed.

(* the validator accepts exactly the vectors whose set of values is {1..k} *)
Theorem validate_rank_iff vs :
  validate_rank vs = true <->
  (forall r, In r vs <-> (1 <= r <= Z.of_nat (length (dedupZ vs)))%Z).
Proof.
  unfold validate_rank. set (k := length (dedupZ vs)).
  rewrite forallb_forall. split.
  - intros H r. split.
    + intros Hr. apply H in Hr. lia.
    + intros Hr.
      (* pigeonhole: dedupZ vs is a NoDup list of k values inside 1..k *)
      assert (P : Permutation (dedupZ vs) (map Z.of_nat (seq 1 k))).
      { apply NoDup_Permutation_bis.
        - apply dedupZ_NoDup.
        - rewrite map_length, seq_length. fold k. lia.
        - intros x Hx. rewrite dedupZ_In in Hx. apply H in Hx.
          apply in_map_iff. exists (Z.to_nat x). split; [lia|]. apply in_seq. lia. }
      apply dedupZ_In. eapply Permutation_in; [apply Permutation_sym, P|].
      apply in_map_iff. exists (Z.to_nat r). split; [lia|]. apply in_seq. lia.
  - intros H x Hx. apply H in Hx. fold k in Hx. lia.
Qed.

(* kernel = alternatives that nothing outranks *)
Theorem kernel_spec n outrank j :
  j < n ->
  (nth j (kernel n outrank) false = true <-> forall i, i < n -> bget outrank i j = false).
Proof.
  intros Hj. unfold kernel.
  rewrite (nth_indep _ false (negb (existsb (fun i => bget outrank i 0) (seq 0 n))))
    by (rewrite map_length, seq_length; exact Hj).
  rewrite (map_nth (fun j => negb (existsb (fun i => bget outrank i j) (seq 0 n)))).
  rewrite seq_nth by exact Hj. simpl.
  rewrite negb_true_iff. split.
  - intros H i Hi. destruct (bget outrank i j) eqn:E; auto.
    assert (existsb (fun i0 => bget outrank i0 j) (seq 0 n) = true).
    { apply existsb_exists. exists i. split; auto. apply in_seq. lia. }
    congruence.
  - intros H. destruct (existsb _ _) eqn:E; auto.
    apply existsb_exists in E. destruct E as [i [Hi Hb]]. apply in_seq in Hi.
    rewrite H in Hb by lia. discriminate.
Qed.

Lemma kernel_length n outrank : length (kernel n outrank) = n.
Proof. unfold kernel. rewrite map_length, seq_length. reflexivity. Qed.

(* every ranking produced by rank_values is accepted by the RankResult validator *)
From SKC Require Import Base.QRank.
Theorem rank_values_validate rev xs :
  validate_rank (map Z.of_nat (rank_values rev xs)) = true.
Proof.
  apply validate_rank_iff.
  set (l := map Z.of_nat (rank_values rev xs)). set (k := rank_count rev xs).
  assert (Hin : forall r, In r l <-> (1 <= r <= Z.of_nat k)%Z).
  { intros r. unfold l. rewrite in_map_iff. split.
    - intros [n [<- Hn]]. apply rank_values_image in Hn. fold k in Hn. lia.
    - intros Hr. exists (Z.to_nat r). split; [lia|]. apply rank_values_image. fold k. lia. }
  assert (Hlen : length (dedupZ l) = k).
  { assert (P : Permutation (dedupZ l) (map Z.of_nat (seq 1 k))).
    { apply NoDup_Permutation.
      - apply dedupZ_NoDup.
      - apply FinFun.Injective_map_NoDup; [intros a b E; lia|apply seq_NoDup].
      - intros x. rewrite dedupZ_In, Hin, in_map_iff. split.
        + intros Hx. exists (Z.to_nat x). split; [lia|]. apply in_seq. lia.
        + intros [n [<- Hn]]. apply in_seq in Hn. lia. }
    rewrite (Permutation_length P), map_length, seq_length. reflexivity. }
  intros r. rewrite Hlen. apply Hin.
Qed.
