From Coq Require Import ZArith List Bool Arith Lia.
From SKC Require Import Model.Heap.
Import ListNotations.

Section Safe.
  Variable n : nat.
  Variable input : nat -> Z.
  Variable copies : nat -> bool.
  Hypothesis all_copy : forall p, copies p = true.

  (* the copies sit in n..2n-1, nothing the caller holds points there, and they still hold the input *)
  Definition HInv (s : hst) : Prop :=
    2 * n <= brk s /\
    (forall p, field s p = n + p) /\
    (forall a, In a (held s) -> a < n \/ 2 * n <= a) /\
    (forall p, p < n -> store s (n + p) = input p).

  Lemma HInv_construct : HInv (construct impl_cmode n input).
  Proof.
    unfold HInv, construct; cbn [brk field held store impl_cmode].
    split; [lia|]. split; [reflexivity|]. split.
    - intros a Ha. apply in_seq in Ha. lia.
    - intros p Hp. destruct (Nat.ltb_spec (n + p) n); [lia|]. f_equal. lia.
  Qed.

  Lemma HInv_step s o : HInv s -> HInv (hstep copies s o).
  Proof.
    intros (Hb & Hf & Hh & Hs). destruct o as [p|h v|]; cbn.
    - rewrite all_copy. unfold HInv; cbn [brk field held store].
      split; [lia|]. split; [exact Hf|]. split.
      + intros a [<-|Ha]; [right; lia|auto].
      + intros q Hq. unfold hupd. destruct (Nat.eqb_spec (n + q) (brk s)); [lia|auto].
    - destruct (nth_error (held s) h) as [a|] eqn:E; [|unfold HInv; auto].
      apply nth_error_In in E. apply Hh in E.
      unfold HInv; cbn [brk field held store].
      split; [exact Hb|]. split; [exact Hf|]. split; [exact Hh|].
      intros q Hq. unfold hupd. destruct (Nat.eqb_spec (n + q) a); [lia|auto].
    - unfold HInv; auto.
  Qed.

  Lemma HInv_run ops : forall s, HInv s -> HInv (hrun copies s ops).
  Proof.
    induction ops as [|o ops IH]; intros s H; cbn; [exact H|]. apply IH. apply HInv_step. exact H.
  Qed.

  Theorem constructor_inputs_are_values ops p :
    p < n -> report (hrun copies (construct impl_cmode n input) ops) p = input p.
  Proof.
    intros Hp. destruct (HInv_run ops _ HInv_construct) as (_ & Hf & _ & Hs).
    unfold report. rewrite Hf. apply Hs. exact Hp.
  Qed.
End Safe.

(* a constructor that keeps one of the caller's arrays is enough to break it, even with copying accessors *)
Theorem adopting_constructor_refuted :
  exists cm n input ops p,
    p < n /\ report (hrun (fun _ => true) (construct cm n input) ops) p <> input p.
Proof.
  exists (fun _ => Adopt), 1, (fun _ => 5%Z), [HWrite 0 7%Z], 0. split; [lia|]. vm_compute. discriminate.
Qed.

(* ... and so is one accessor that hands out the cell itself, even with a copying constructor *)
Theorem sharing_accessor_refuted :
  exists n input ops p,
    p < n /\ report (hrun (fun _ => false) (construct impl_cmode n input) ops) p <> input p.
Proof.
  exists 1, (fun _ => 5%Z), [HRead 0; HWrite 0 7%Z], 0. split; [lia|]. vm_compute. discriminate.
Qed.

(* non-vacuity: a concrete history with writes into the caller's own arrays and into returned copies *)
Example heap_history_reports_the_input :
  let s := hrun (fun _ => true) (construct impl_cmode 3 (fun k => Z.of_nat (10 + k)))
                [HWrite 0 99%Z; HRead 1; HWrite 0 77%Z; HRun; HWrite 3 55%Z; HRead 0; HWrite 0 1%Z] in
  map (report s) [0; 1; 2] = [10; 11; 12]%Z.
Proof. vm_compute. reflexivity. Qed.
