From Coq Require Import ZArith QArith List Bool Arith Lia Permutation.
From SKC Require Import Base.QBool Base.QList Model.Agg Model.Select Model.Dominance Model.Filters
  Theory.Select.
Import ListNotations.
Local Open Scope nat_scope.

(* ---- the implementation-shaped mask equals the specification ----------------------------- *)
Lemma forallb_combine_self {A B} (f : A -> B) (g : B * A -> bool) (l : list A) :
  forallb g (combine (map f l) l) = forallb (fun a => g (f a, a)) l.
Proof. induction l as [|a t IH]; simpl; auto. rewrite IH. reflexivity. Qed.

Lemma forallb_to_use crits conds (r : list Q) :
  forallb (fun jc => sat (snd jc) (nth (fst jc) r 0%Q)) (to_use crits conds) = survives crits conds r.
Proof.
  unfold to_use, survives. induction conds as [|[c k] t IH]; simpl; auto.
  destruct (index_of c crits) as [j|]; simpl; rewrite IH; reflexivity.
Qed.

Lemma make_mask_spec crits conds rows :
  make_mask (to_use crits conds) rows = map (survives crits conds) rows.
Proof.
  unfold make_mask. apply map_ext. intros r.
  rewrite (forallb_combine_self (fun jc : nat * cond => nth (fst jc) r 0%Q)
             (fun xc => sat (snd (snd xc)) (fst xc))).
  simpl. apply forallb_to_use.
Qed.

Theorem impl_refines_spec crits conds ignore rows :
  filter_impl crits conds ignore rows = filter_spec crits conds ignore rows.
Proof.
  unfold filter_impl, filter_spec. destruct (negb ignore && has_missing crits conds); auto.
  destruct (to_use crits conds) as [|u us] eqn:E.
  - f_equal. apply map_ext. intros r. rewrite <- forallb_to_use, E. reflexivity.
  - rewrite <- E. f_equal. apply make_mask_spec.
Qed.

(* ---- survivors: exactly the alternatives satisfying every condition by criterion label --- *)
Theorem survives_iff crits conds r :
  survives crits conds r = true <->
  forall c k, In (c, k) conds -> forall j, index_of c crits = Some j -> sat k (nth j r 0%Q) = true.
Proof.
  unfold survives. rewrite forallb_forall. split.
  - intros H c k Hin j Hj. specialize (H (c, k) Hin). simpl in H. rewrite Hj in H. exact H.
  - intros H [c k] Hin. simpl. destruct (index_of c crits) as [j|] eqn:E; auto. eapply H; eauto.
Qed.

(* ---- the order in which the conditions are written is irrelevant ------------------------- *)
Lemma forallb_perm {A} (f : A -> bool) l l' : Permutation l l' -> forallb f l = forallb f l'.
Proof.
  induction 1; simpl; auto.
  - rewrite IHPermutation. reflexivity.
  - destruct (f x), (f y); reflexivity.
  - congruence.
Qed.
Lemma existsb_perm {A} (f : A -> bool) l l' : Permutation l l' -> existsb f l = existsb f l'.
Proof.
  induction 1; simpl; auto.
  - rewrite IHPermutation. reflexivity.
  - destruct (f x), (f y); reflexivity.
  - congruence.
Qed.

Theorem cond_order_irrelevant crits conds conds' ignore rows :
  Permutation conds conds' ->
  filter_spec crits conds ignore rows = filter_spec crits conds' ignore rows.
Proof.
  intros H. unfold filter_spec, has_missing, survives.
  rewrite (existsb_perm _ _ _ H).
  destruct (negb ignore && _); auto. f_equal. apply map_ext. intros r. apply forallb_perm. exact H.
Qed.

Lemma forallb_ext' {A} (f g : A -> bool) l : (forall a, f a = g a) -> forallb f l = forallb g l.
Proof. intros H. induction l as [|a t IH]; simpl; auto. rewrite H, IH. reflexivity. Qed.

(* ---- the order of the criteria in the matrix is irrelevant -------------------------------- *)
Lemma index_of_gather_all crits ps c :
  NoDup crits -> Permutation ps (seq 0 (length crits)) ->
  match index_of c (gather 0%Z ps crits) with
  | Some k => exists p, nth_error ps k = Some p /\ index_of c crits = Some p
  | None => index_of c crits = None
  end.
Proof.
  intros Hnd Hp.
  assert (Hr : Forall (fun p => p < length crits) ps).
  { apply Forall_forall. intros p Hin. eapply Permutation_in in Hin; [|exact Hp]. apply in_seq in Hin. lia. }
  destruct (index_of c (gather 0%Z ps crits)) as [k|] eqn:E.
  - destruct (index_of_gather crits ps c k Hnd Hr E) as [p [H1 [_ H2]]]. eauto.
  - destruct (index_of c crits) as [p|] eqn:E2; auto. exfalso.
    apply index_of_None in E. apply E.
    apply index_of_Some in E2. destruct E2 as [Hlt Hn].
    assert (Hin : In p ps).
    { eapply Permutation_in; [apply Permutation_sym; exact Hp|]. apply in_seq. lia. }
    apply In_nth_error in Hin. destruct Hin as [k Hk].
    apply (nth_error_In _ k). rewrite (gather_nth_error 0%Z ps crits k p Hk).
    f_equal. apply nth_error_nth with (d := 0%Z) in Hn. exact Hn.
Qed.

Theorem criteria_order_irrelevant crits ps conds r :
  NoDup crits -> Permutation ps (seq 0 (length crits)) -> length r = length crits ->
  survives (gather 0%Z ps crits) conds (gather 0%Q ps r) = survives crits conds r /\
  has_missing (gather 0%Z ps crits) conds = has_missing crits conds.
Proof.
  intros Hnd Hp Hlen. unfold survives, has_missing. split.
  - apply forallb_ext'. intros [c k]. simpl.
    pose proof (index_of_gather_all crits ps c Hnd Hp) as G.
    destruct (index_of c (gather 0%Z ps crits)) as [j|].
    + destruct G as [p [H1 H2]]. rewrite H2.
      rewrite (nth_error_nth _ _ 0%Q (gather_nth_error 0%Q ps r j p H1)). reflexivity.
    + rewrite G. reflexivity.
  - induction conds as [|[c k] t IH]; simpl; auto. rewrite IH. f_equal.
    pose proof (index_of_gather_all crits ps c Hnd Hp) as G.
    destruct (index_of c (gather 0%Z ps crits)) as [j|].
    + destruct G as [p [_ H2]]. rewrite H2. reflexivity.
    + rewrite G. reflexivity.
Qed.

(* ---- missing criteria ------------------------------------------------------------------------ *)
Theorem missing_criterion_policy crits conds ignore rows :
  (filter_spec crits conds ignore rows = Err E_VALUE <->
   ignore = false /\ exists c k, In (c, k) conds /\ ~ In c crits).
Proof.
  unfold filter_spec, has_missing. split.
  - destruct ignore; simpl; [discriminate|].
    destruct (existsb _ conds) eqn:E; [|discriminate]. intros _. split; auto.
    apply existsb_exists in E. destruct E as [[c k] [Hin H]]. simpl in H.
    destruct (index_of c crits) eqn:E2; [discriminate|]. exists c, k. split; auto.
    apply index_of_None. exact E2.
  - intros [-> [c [k [Hin Hn]]]]. simpl.
    assert (E : existsb (fun p : Z * cond => match index_of (fst p) crits with None => true | Some _ => false end) conds = true).
    { apply existsb_exists. exists (c, k). split; auto. simpl.
      destruct (index_of c crits) eqn:E2; auto. apply index_of_Some in E2. destruct E2 as [_ E2].
      exfalso. apply Hn. eapply nth_error_In; eauto. }
    rewrite E. reflexivity.
Qed.

(* ---- non-dominated filter ---------------------------------------------------------------------- *)
Theorem nondominated_spec strict objs rows i :
  i < length rows ->
  nth i (nondominated strict objs rows) false =
  negb (existsb (fun j => dom_cell strict objs rows j i) (seq 0 (length rows))).
Proof.
  intros Hi. unfold nondominated, dominated.
  rewrite map_map.
  rewrite (nth_indep _ false ((fun j => negb (existsb (fun i0 => dom_cell strict objs rows i0 j) (seq 0 (length rows)))) 0))
    by (rewrite map_length, seq_length; exact Hi).
  rewrite (map_nth (fun j => negb (existsb (fun i0 => dom_cell strict objs rows i0 j) (seq 0 (length rows))))).
  rewrite seq_nth by exact Hi. reflexivity.
Qed.

(* ---- what each operator means, in the order of the rationals -------------------------------------------- *)
Theorem sat_meaning c x :
  sat c x = true <->
  match c with
  | CGt v => (v < x)%Q | CGe v => (v <= x)%Q | CLt v => (x < v)%Q | CLe v => (x <= v)%Q
  | CEq v => (x == v)%Q | CNe v => ~ (x == v)%Q
  | CIn s => exists y, In y s /\ (x == y)%Q
  | CNotIn s => forall y, In y s -> ~ (x == y)%Q
  | CFn k => palette k x = true
  end.
Proof.
  destruct c as [v|v|v|v|v|v|s|s|k]; cbn [sat].
  - apply Qltb_lt.
  - apply Qleb_le.
  - apply Qltb_lt.
  - apply Qleb_le.
  - apply Qeqb_eq.
  - rewrite negb_true_iff. apply Qeqb_neq.
  - rewrite existsb_exists. split; intros [y [Hy E]]; exists y; split; auto; apply Qeqb_eq; exact E.
  - rewrite negb_true_iff. split.
    + intros H y Hy E. assert (T : existsb (Qeqb x) s = true).
      { apply existsb_exists. exists y. split; [exact Hy|apply Qeqb_eq; exact E]. }
      congruence.
    + intros H. destruct (existsb (Qeqb x) s) eqn:E; [|reflexivity].
      apply existsb_exists in E. destruct E as [y [Hy E]]. apply Qeqb_eq in E. exfalso. exact (H y Hy E).
  - tauto.
Qed.

(* the operators come in complementary pairs: exactly one of each pair holds of every value *)
Theorem sat_complements x :
  (forall s, sat (CNotIn s) x = negb (sat (CIn s) x)) /\
  (forall v, sat (CNe v) x = negb (sat (CEq v) x)) /\
  (forall v, sat (CLe v) x = negb (sat (CGt v) x)) /\
  (forall v, sat (CLt v) x = negb (sat (CGe v) x)).
Proof.
  repeat split; intros; cbn [sat]; try reflexivity.
  - unfold Qleb, Qltb. rewrite <- (Qcompare_antisym x v). destruct (x ?= v)%Q; reflexivity.
  - unfold Qleb, Qltb. rewrite <- (Qcompare_antisym x v). destruct (x ?= v)%Q; reflexivity.
Qed.

(* >= is > or ==, <= is < or == *)
Theorem sat_weak_is_strict_or_equal v x :
  sat (CGe v) x = sat (CGt v) x || sat (CEq v) x /\ sat (CLe v) x = sat (CLt v) x || sat (CEq v) x.
Proof.
  cbn [sat]. unfold Qleb, Qltb, Qeqb. rewrite <- (Qcompare_antisym x v). destruct (x ?= v)%Q; split; reflexivity.
Qed.

(* two filters one after the other keep what one filter with both lists of conditions keeps; and adding
   conditions never brings an alternative back *)
Theorem survives_app crits c1 c2 r :
  survives crits (c1 ++ c2) r = survives crits c1 r && survives crits c2 r.
Proof. unfold survives. apply forallb_app. Qed.

Theorem more_conditions_keep_fewer crits c1 c2 r :
  survives crits (c1 ++ c2) r = true -> survives crits c1 r = true.
Proof. rewrite survives_app. intros H. apply andb_true_iff in H. tauto. Qed.

(* a single-valued set: FilterIn keeps exactly the alternatives with that value, FilterNotIn the others *)
Theorem single_valued_sets v x :
  sat (CIn [v]) x = sat (CEq v) x /\ sat (CNotIn [v]) x = sat (CNe v) x.
Proof. cbn [sat existsb]. rewrite orb_false_r. split; reflexivity. Qed.
