(* C05, pipelines: a chain of rational matrix scalers followed by a linear method ranks the alternatives the same
   way whatever order they are listed in. *)
From Coq Require Import ZArith QArith List Bool Arith Lia Lqa Permutation.
From SKC Require Import Base.QBool Base.QList Base.QRank Model.Agg Model.Transform
  Theory.QListFacts Theory.RankFacts Theory.Invariance Theory.RankPerm Theory.RankPerm2 Theory.Transform Theory.ScalerPerm Theory.ElectreInv.
Import ListNotations.

Definition Q2eq (a b : list (list Q)) : Prop := Forall2 (Forall2 Qeq) a b.

(* ---- == is respected --------------------------------------------------------------------------------------- *)
Lemma F2_refl l : Forall2 Qeq l l.                         Proof. apply Forall2_Qeq_refl. Qed.
Lemma F2_sym l l' : Forall2 Qeq l l' -> Forall2 Qeq l' l.
Proof. intros F. induction F; constructor; auto. symmetry. assumption. Qed.
Lemma F2_trans l1 l2 l3 : Forall2 Qeq l1 l2 -> Forall2 Qeq l2 l3 -> Forall2 Qeq l1 l3.
Proof. apply Forall2_Qeq_trans. Qed.
Lemma F2_length l l' : Forall2 Qeq l l' -> length l = length l'.
Proof. intros F. induction F; cbn [length]; congruence. Qed.
Lemma F2_nth l l' i : Forall2 Qeq l l' -> nth i l 0 == nth i l' 0.
Proof. intros F. revert i. induction F as [|a b ta tb Hab _ IH]; intros [|i]; cbn [nth]; try reflexivity; auto. Qed.
Lemma F2_map (g g' : Q -> Q) l l' : (forall x y, x == y -> g x == g' y) -> Forall2 Qeq l l' -> Forall2 Qeq (map g l) (map g' l').
Proof. intros H F. induction F; cbn [map]; constructor; auto. Qed.

Lemma Q2_refl a : Q2eq a a.
Proof. induction a; constructor; auto. apply F2_refl. Qed.
Lemma Q2_trans a b c : Q2eq a b -> Q2eq b c -> Q2eq a c.
Proof.
  intros F. revert c. induction F as [|x y tx ty Hxy _ IH]; intros c G; inversion G; subst; constructor.
  - eapply F2_trans; eassumption.
  - apply IH. assumption.
Qed.
Lemma Q2_length a b : Q2eq a b -> length a = length b.
Proof. intros F. induction F; cbn [length]; congruence. Qed.

Lemma qsum_F2 l l' : Forall2 Qeq l l' -> qsum l == qsum l'.
Proof. intros F. induction F as [|a b ta tb Hab _ IH]; [reflexivity|]. unfold qsum in *. cbn [fold_right]. rewrite IH, Hab. reflexivity. Qed.

Lemma lmin_F2 l l' : Forall2 Qeq l l' -> lmin l == lmin l'.
Proof.
  intros E. destruct E as [|a b ta tb Hab Ht]; [reflexivity|].
  assert (G : forall l1 l2, Forall2 Qeq l1 l2 -> forall y, In y l1 -> exists y', In y' l2 /\ y == y').
  { intros l1 l2 F. induction F as [|p q tp tq Hpq _ IH]; intros y Hy; [contradiction|].
    destruct Hy as [<-|Hy]; [exists q; split; simpl; auto|].
    destruct (IH y Hy) as [y' [Hin E]]. exists y'. split; simpl; auto. }
  assert (F : Forall2 Qeq (a :: ta) (b :: tb)) by (constructor; assumption).
  assert (F' := F2_sym _ _ F).
  apply Qle_antisym.
  - apply lmin_ge_bound; [discriminate|]. intros y Hy. destruct (G _ _ F' y Hy) as [y' [Hin E]].
    rewrite E. apply lmin_le. exact Hin.
  - apply lmin_ge_bound; [discriminate|]. intros y Hy. destruct (G _ _ F y Hy) as [y' [Hin E]].
    rewrite E. apply lmin_le. exact Hin.
Qed.

Definition respects (f : list Q -> list Q) : Prop := forall v v', Forall2 Qeq v v' -> Forall2 Qeq (f v) (f v').

Lemma sum_scale_respects : respects sum_scale.
Proof.
  intros v v' F. unfold sum_scale. apply F2_map; [|exact F]. intros x y E. rewrite E, (qsum_F2 _ _ F). reflexivity.
Qed.

Lemma maxabs_scale_respects : respects maxabs_scale.
Proof.
  intros v v' F. unfold maxabs_scale.
  assert (E : lmax (map qabs v) == lmax (map qabs v')).
  { apply lmax_Forall2. apply F2_map; [|exact F]. intros x y Exy. apply qabs_ext. exact Exy. }
  rewrite (Qeqb_ext _ _ 0 0 E (Qeq_refl 0)). destruct (Qeqb (lmax (map qabs v')) 0); [exact F|].
  apply F2_map; [|exact F]. intros x y Exy. rewrite Exy, E. reflexivity.
Qed.

Lemma minmax_scale_respects lo hi : respects (minmax_scale lo hi).
Proof.
  intros v v' F. unfold minmax_scale.
  assert (E1 := lmin_F2 _ _ F). assert (E2 := lmax_Forall2 _ _ F).
  assert (E : lmax v - lmin v == lmax v' - lmin v') by (rewrite E1, E2; reflexivity).
  rewrite (Qeqb_ext _ _ 0 0 E (Qeq_refl 0)). destruct (Qeqb (lmax v' - lmin v') 0).
  - apply F2_map; [|exact F]. intros; reflexivity.
  - apply F2_map; [|exact F]. intros x y Exy. rewrite Exy, E1, E2. reflexivity.
Qed.

Lemma push_neg_respects : respects push_neg.
Proof.
  intros v v' F. unfold push_neg. assert (E1 := lmin_F2 _ _ F).
  rewrite (Qltb_ext _ _ 0 0 E1 (Qeq_refl 0)). destruct (Qltb (lmin v') 0); [|exact F].
  apply F2_map; [|exact F]. intros x y Exy. rewrite Exy, E1. reflexivity.
Qed.

Lemma add_zero_respects e : respects (add_zero e).
Proof.
  intros v v' F. unfold add_zero.
  assert (E : existsb (fun x => Qeqb x 0) v = existsb (fun x => Qeqb x 0) v').
  { induction F as [|a b ta tb Hab _ IH]; [reflexivity|]. cbn [existsb]. rewrite IH, (Qeqb_ext a b 0 0 Hab (Qeq_refl 0)). reflexivity. }
  rewrite E. destruct (existsb (fun x => Qeqb x 0) v'); [|exact F].
  apply F2_map; [|exact F]. intros x y Exy. rewrite Exy. reflexivity.
Qed.

(* ---- on_matrix: cells, respect, equivariance ------------------------------------------------------------------ *)
Lemma nth_map_seq1 {A} n (g : nat -> A) k d : (k < n)%nat -> nth k (map g (seq 0 n)) d = g k.
Proof.
  intros Hk. rewrite (nth_indep _ d (g 0%nat)) by (rewrite map_length, seq_length; exact Hk).
  rewrite (map_nth g (seq 0 n) 0%nat k). rewrite seq_nth by exact Hk. reflexivity.
Qed.

Lemma on_matrix_length m f rows : length (on_matrix m f rows) = length rows.
Proof. unfold on_matrix, rows_of_cols. rewrite map_length, seq_length. reflexivity. Qed.

Lemma on_matrix_row m f rows i : (i < length rows)%nat ->
  nth i (on_matrix m f rows) [] = map (fun j => nth i (f (col rows j)) 0) (seq 0 m).
Proof.
  intros Hi. unfold on_matrix, rows_of_cols. rewrite (nth_map_seq1 (length rows) _ i [] Hi).
  unfold cols. rewrite !map_map. reflexivity.
Qed.

Lemma Q2eq_by_rows a b : length a = length b ->
  (forall i, (i < length a)%nat -> Forall2 Qeq (nth i a []) (nth i b [])) -> Q2eq a b.
Proof.
  revert b. induction a as [|x ta IH]; intros [|y tb] L H; cbn [length] in *; try discriminate; constructor.
  - apply (H 0%nat). lia.
  - apply IH; [lia|]. intros i Hi. apply (H (S i)). lia.
Qed.

Lemma Q2eq_nth a b i : Q2eq a b -> Forall2 Qeq (nth i a []) (nth i b []).
Proof. intros F. revert i. induction F as [|x y tx ty Hxy _ IH]; intros [|i]; cbn [nth]; try constructor; auto. Qed.

Lemma col_F2 a b j : Q2eq a b -> Forall2 Qeq (col a j) (col b j).
Proof. intros F. unfold col. induction F as [|x y tx ty Hxy _ IH]; cbn [map]; constructor; auto. apply F2_nth. exact Hxy. Qed.

Lemma F2_map_seq (g g' : nat -> Q) l : (forall j, In j l -> g j == g' j) -> Forall2 Qeq (map g l) (map g' l).
Proof. induction l as [|a t IH]; intros H; cbn [map]; constructor; [apply H; left; reflexivity|apply IH; intros j Hj; apply H; right; exact Hj]. Qed.

Theorem on_matrix_respects m f a b : respects f -> Q2eq a b -> Q2eq (on_matrix m f a) (on_matrix m f b).
Proof.
  intros Hf F. apply Q2eq_by_rows; [rewrite !on_matrix_length; apply Q2_length; exact F|].
  intros i Hi. rewrite on_matrix_length in Hi.
  rewrite !on_matrix_row by (try exact Hi; rewrite <- (Q2_length _ _ F); exact Hi).
  apply F2_map_seq. intros j _. apply F2_nth. apply Hf. apply col_F2. exact F.
Qed.

Theorem on_matrix_follows_alternatives m f sigma rows :
  Permutation sigma (seq 0 (length rows)) ->
  (forall v, Permutation sigma (seq 0 (length v)) -> Forall2 Qeq (f (reindex 0 sigma v)) (reindex 0 sigma (f v))) ->
  Q2eq (on_matrix m f (reindex [] sigma rows)) (reindex [] sigma (on_matrix m f rows)).
Proof.
  intros P Hf. assert (B := perm_seq_bound _ _ P).
  assert (L : length sigma = length rows) by (rewrite (Permutation_length P), seq_length; reflexivity).
  apply Q2eq_by_rows; [rewrite on_matrix_length, !reindex_length; reflexivity|].
  intros i Hi. rewrite on_matrix_length, reindex_length in Hi.
  rewrite on_matrix_row by (rewrite reindex_length; exact Hi).
  rewrite (reindex_nth [] sigma (on_matrix m f rows) i Hi).
  assert (Bi : (nth i sigma 0 < length rows)%nat) by (apply B, nth_In; exact Hi).
  rewrite on_matrix_row by exact Bi.
  apply F2_map_seq. intros j _.
  rewrite (col_reindex sigma rows j B).
  assert (Pc : Permutation sigma (seq 0 (length (col rows j)))) by (unfold col; rewrite map_length; exact P).
  rewrite (F2_nth _ _ i (Hf (col rows j) Pc)).
  rewrite (reindex_nth 0 sigma (f (col rows j)) i Hi). reflexivity.
Qed.

(* ---- a chain of scalers ----------------------------------------------------------------------------------------- *)
Definition good_step (sigma : list nat) (f : list Q -> list Q) : Prop :=
  respects f /\ forall v, Permutation sigma (seq 0 (length v)) -> Forall2 Qeq (f (reindex 0 sigma v)) (reindex 0 sigma (f v)).

Definition scale_all (m : nat) (fs : list (list Q -> list Q)) (rows : list (list Q)) : list (list Q) :=
  fold_left (fun r f => on_matrix m f r) fs rows.

Lemma scale_all_length m fs rows : length (scale_all m fs rows) = length rows.
Proof. unfold scale_all. revert rows. induction fs as [|f fs IH]; intros rows; cbn [fold_left]; [reflexivity|]. rewrite IH. apply on_matrix_length. Qed.

Lemma scale_all_respects m fs a b : Forall respects fs -> Q2eq a b -> Q2eq (scale_all m fs a) (scale_all m fs b).
Proof.
  unfold scale_all. intros F. revert a b. induction F as [|f fs Hf _ IH]; intros a b E; cbn [fold_left]; [exact E|].
  apply IH. apply on_matrix_respects; assumption.
Qed.

Theorem scaler_chain_follows_alternatives m fs sigma rows :
  Permutation sigma (seq 0 (length rows)) -> Forall (good_step sigma) fs ->
  Q2eq (scale_all m fs (reindex [] sigma rows)) (reindex [] sigma (scale_all m fs rows)).
Proof.
  intros P F. revert rows P. induction F as [|f fs [Hr He] Ffs IH]; intros rows P; [apply Q2_refl|].
  unfold scale_all in *. cbn [fold_left].
  eapply Q2_trans.
  - apply (scale_all_respects m fs); [|apply (on_matrix_follows_alternatives m f sigma rows P He)].
    clear -Ffs. induction Ffs as [|g gs [Hg _] _ IH]; constructor; assumption.
  - apply IH. rewrite on_matrix_length. exact P.
Qed.

(* ---- ... followed by a linear method ------------------------------------------------------------------------------ *)
Lemma dot_F2 r r' w : Forall2 Qeq r r' -> dot r w == dot r' w.
Proof.
  intros F. unfold dot. apply qsum_F2. revert w. induction F as [|a b ta tb Hab _ IH]; intros [|x w]; cbn [map2]; try constructor; auto.
  rewrite Hab. reflexivity.
Qed.

Theorem scaled_linear_ranking_follows_alternatives m fs wv sigma rows :
  Permutation sigma (seq 0 (length rows)) -> Forall (good_step sigma) fs ->
  rank_values true (map (fun r => dot r wv) (scale_all m fs (reindex [] sigma rows))) =
  reindex 0%nat sigma (rank_values true (map (fun r => dot r wv) (scale_all m fs rows))).
Proof.
  intros P F.
  assert (P' : Permutation sigma (seq 0 (length (scale_all m fs rows)))) by (rewrite scale_all_length; exact P).
  rewrite <- (rowwise_ranking_follows_alternatives true (fun r => dot r wv) sigma (scale_all m fs rows) P').
  unfold rank_values. apply dense_rank_Q_ext. apply F2_map; [intros x y E; rewrite E; reflexivity|].
  pose proof (scaler_chain_follows_alternatives m fs sigma rows P F) as Q.
  induction Q as [|a b ta tb Hab _ IH]; cbn [map]; constructor; auto. apply dot_F2. exact Hab.
Qed.

(* the listed rational scalers are good steps *)
Theorem rational_scalers_are_good_steps sigma :
  good_step sigma sum_scale /\ good_step sigma maxabs_scale /\ (forall lo hi, good_step sigma (minmax_scale lo hi)) /\
  good_step sigma push_neg /\ forall e, good_step sigma (add_zero e).
Proof.
  repeat split.
  - apply sum_scale_respects.
  - intros v Pv. apply sum_scale_reindex. exact Pv.
  - apply maxabs_scale_respects.
  - intros v Pv. apply maxabs_scale_reindex. exact Pv.
  - apply minmax_scale_respects.
  - intros v Pv. apply minmax_scale_reindex. exact Pv.
  - apply push_neg_respects.
  - intros v Pv. apply push_neg_reindex. exact Pv.
  - apply add_zero_respects.
  - intros v Pv. apply add_zero_reindex. exact Pv.
Qed.
