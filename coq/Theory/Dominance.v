From Coq Require Import QArith List Bool Arith Lia Lqa.
From SKC Require Import Base.QBool Model.Dominance.
Import ListNotations.
Local Open Scope nat_scope.

(* ---- per-criterion facts --------------------------------------------- *)
Lemma better_irrefl o x : better o x x = false.
Proof. unfold better. destruct o; qb; lra. Qed.

Lemma better_asym o x y : better o x y = true -> better o y x = false.
Proof. unfold better. destruct o; intros H; qb; lra. Qed.

Lemma better_trans o x y z : better o x y = true -> better o y z = true -> better o x z = true.
Proof. unfold better. destruct o; intros H1 H2; qb; lra. Qed.

Lemma geq_better_trans o x y z :
  better o y x = false -> better o y z = true -> better o x z = true.
Proof. unfold better. destruct o; intros H1 H2; qb; lra. Qed.

Lemma better_geq_trans o x y z :
  better o x y = true -> better o z y = false -> better o x z = true.
Proof. unfold better. destruct o; intros H1 H2; qb; lra. Qed.

Lemma geq_trans o x y z :
  better o y x = false -> better o z y = false -> better o z x = false.
Proof. unfold better. destruct o; intros H1 H2; qb; lra. Qed.

(* trichotomy: exactly one of better x y / equal / better y x *)
Lemma trichotomy o x y :
  negb (better o x y || Qeqb x y) = better o y x.
Proof.
  unfold better.
  destruct o.
  - destruct (Qltb y x) eqn:E1, (Qeqb x y) eqn:E2, (Qltb x y) eqn:E3; simpl; auto; qb; try lra.
    all: try (exfalso; apply E2; lra).
  - destruct (Qltb x y) eqn:E1, (Qeqb x y) eqn:E2, (Qltb y x) eqn:E3; simpl; auto; qb; try lra.
    all: try (exfalso; apply E2; lra).
Qed.

Lemma better_not_eq o x y : better o x y = true -> Qeqb x y = false.
Proof. unfold better. destruct o; intros H; qb; lra. Qed.

(* ---- the entry computed by rank.dominance ------------------------------ *)
Lemma count_true_cons b l : count_true (b :: l) = (if b then 1 else 0) + count_true l.
Proof. unfold count_true. simpl. destruct b; reflexivity. Qed.

Lemma entry_aDb objs ra rb : e_aDb (rank_dominance objs ra rb) = count_better objs ra rb.
Proof.
  simpl. revert ra rb. induction objs as [|o os IH]; intros [|x xs] [|y ys]; simpl; auto.
  rewrite count_true_cons, IH. unfold better. reflexivity.
Qed.

Lemma entry_eq objs ra rb : e_eq (rank_dominance objs ra rb) = count_equal objs ra rb.
Proof.
  simpl. revert ra rb. induction objs as [|o os IH]; intros [|x xs] [|y ys]; simpl; auto.
  rewrite count_true_cons, IH. reflexivity.
Qed.

Lemma entry_bDa objs ra rb : e_bDa (rank_dominance objs ra rb) = count_better objs rb ra.
Proof.
  simpl. revert ra rb. induction objs as [|o os IH]; intros [|x xs] [|y ys]; simpl; auto.
  rewrite count_true_cons, IH. f_equal.
  pose proof (trichotomy o x y) as T. unfold better in T at 1. rewrite T. reflexivity.
Qed.

Lemma entry_bDa_where objs ra rb :
  e_bDa_where (rank_dominance objs ra rb) = e_aDb_where (rank_dominance objs rb ra).
Proof.
  simpl. revert ra rb. induction objs as [|o os IH]; intros [|x xs] [|y ys]; simpl; auto.
  rewrite IH. f_equal.
  pose proof (trichotomy o x y) as T. unfold better in T. exact T.
Qed.

Lemma entry_eq_where_sym objs ra rb :
  e_eq_where (rank_dominance objs ra rb) = e_eq_where (rank_dominance objs rb ra).
Proof.
  simpl. revert ra rb. induction objs as [|o os IH]; intros [|x xs] [|y ys]; simpl; auto.
  rewrite IH, Qeqb_sym. reflexivity.
Qed.

Lemma count_equal_sym objs ra rb : count_equal objs ra rb = count_equal objs rb ra.
Proof.
  revert ra rb. induction objs as [|o os IH]; intros [|x xs] [|y ys]; simpl; auto.
  rewrite IH, Qeqb_sym. reflexivity.
Qed.

Lemma count_equal_refl objs r : length r = length objs -> count_equal objs r r = length objs.
Proof.
  revert r. induction objs as [|o os IH]; intros [|x xs]; simpl; intros H; try discriminate; auto.
  rewrite IH by lia. replace (Qeqb x x) with true; auto. symmetry. qb. reflexivity.
Qed.

Lemma count_better_refl objs r : count_better objs r r = 0.
Proof.
  revert r. induction objs as [|o os IH]; intros [|x xs]; simpl; auto.
  rewrite IH, better_irrefl. reflexivity.
Qed.

(* better(a,b) + better(b,a) + equal(a,b) = number of criteria *)
Theorem partition objs ra rb :
  length ra = length objs -> length rb = length objs ->
  count_better objs ra rb + count_better objs rb ra + count_equal objs ra rb = length objs.
Proof.
  revert ra rb. induction objs as [|o os IH]; intros [|x xs] [|y ys]; simpl; intros Ha Hb;
    try discriminate; auto.
  specialize (IH xs ys ltac:(lia) ltac:(lia)).
  pose proof (trichotomy o x y) as T.
  destruct (better o x y) eqn:E1, (Qeqb x y) eqn:E2, (better o y x) eqn:E3;
    simpl in T; try discriminate; try lia.
  all: try (apply better_not_eq in E1; congruence).
Qed.

(* counts versus the quantified definitions *)
Lemma all_geq_count objs ra rb : all_geq objs ra rb = true <-> count_better objs rb ra = 0.
Proof.
  revert ra rb. induction objs as [|o os IH]; intros [|x xs] [|y ys]; simpl; try tauto.
  rewrite andb_true_iff, IH. destruct (better o y x); simpl; split; try lia; intros [? ?]; auto; discriminate.
Qed.

Lemma some_better_count objs ra rb : some_better objs ra rb = true <-> 0 < count_better objs ra rb.
Proof.
  revert ra rb. induction objs as [|o os IH]; intros [|x xs] [|y ys]; simpl;
    try (split; [discriminate|lia]).
  rewrite orb_true_iff, IH. destruct (better o x y); simpl; split; try lia; auto.
  all: try (intros [?|?]; auto; discriminate).
Qed.

Lemma all_better_count objs ra rb :
  length ra = length objs -> length rb = length objs ->
  (all_better objs ra rb = true <->
   count_equal objs ra rb = 0 /\ count_better objs rb ra = 0).
Proof.
  revert ra rb. induction objs as [|o os IH]; intros [|x xs] [|y ys]; simpl; intros Ha Hb;
    try discriminate; try tauto.
  rewrite andb_true_iff, IH by lia.
  pose proof (trichotomy o x y) as T.
  destruct (better o x y) eqn:E1, (Qeqb x y) eqn:E2, (better o y x) eqn:E3;
    simpl in T; try discriminate; split; intros; try lia; try (split; [reflexivity|]; lia);
    try (destruct H as [? ?]; discriminate).
  all: try (apply better_not_eq in E1; congruence).
Qed.

Lemma all_geq_b objs ra rb : all_geq objs ra rb = (count_better objs rb ra =? 0).
Proof. apply eq_true_iff_eq. rewrite Nat.eqb_eq. apply all_geq_count. Qed.
Lemma some_better_b objs ra rb : some_better objs ra rb = (0 <? count_better objs ra rb).
Proof. apply eq_true_iff_eq. rewrite Nat.ltb_lt. apply some_better_count. Qed.
Lemma all_better_b objs ra rb :
  length ra = length objs -> length rb = length objs ->
  all_better objs ra rb = (count_equal objs ra rb =? 0) && (count_better objs rb ra =? 0).
Proof.
  intros La Lb. apply eq_true_iff_eq. rewrite andb_true_iff, !Nat.eqb_eq.
  apply all_better_count; auto.
Qed.

(* ---- cells of the accessor equal the definition -------------------------- *)
Definition rect (m : nat) (rows : list (list Q)) : Prop := Forall (fun r => length r = m) rows.

Lemma rect_row m rows i : rect m rows -> i < length rows -> length (row rows i) = m.
Proof.
  intros H Hi. unfold rect in H. rewrite Forall_forall in H. apply H.
  unfold row. apply nth_In. exact Hi.
Qed.

Theorem bt_cell_spec objs rows i j :
  bt_cell objs rows i j = count_better objs (row rows i) (row rows j).
Proof.
  unfold bt_cell, cache_read.
  destruct (Nat.eqb_spec i j) as [->|Hne]; [rewrite count_better_refl; reflexivity|].
  destruct (Nat.ltb_spec i j).
  - apply entry_aDb.
  - apply entry_bDa.
Qed.

Theorem eq_cell_spec objs rows i j :
  rect (length objs) rows -> i < length rows ->
  eq_cell objs rows i j = count_equal objs (row rows i) (row rows j).
Proof.
  intros Hr Hi. unfold eq_cell, cache_read.
  destruct (Nat.eqb_spec i j) as [<-|Hne].
  - rewrite count_equal_refl; auto. eapply rect_row; eauto.
  - destruct (Nat.ltb_spec i j); simpl fst; rewrite entry_eq; auto using count_equal_sym.
Qed.

Theorem dom_cell_spec strict objs rows i j :
  rect (length objs) rows -> i < length rows -> j < length rows ->
  dom_cell strict objs rows i j =
  if i =? j then false else dom_spec strict objs (row rows i) (row rows j).
Proof.
  intros Hr Hi Hj. unfold dom_cell.
  destruct (Nat.eqb_spec i j) as [->|Hne]; [reflexivity|].
  pose proof (rect_row _ _ _ Hr Hi) as Li. pose proof (rect_row _ _ _ Hr Hj) as Lj.
  set (ra := row rows i) in *. set (rb := row rows j) in *.
  assert (E : exists e rev, cache_read objs rows i j = (e, rev) /\
              (if rev then e_bDa e else e_aDb e) = count_better objs ra rb /\
              (if rev then e_aDb e else e_bDa e) = count_better objs rb ra /\
              e_eq e = count_equal objs ra rb).
  { unfold cache_read. destruct (Nat.ltb_spec i j); eexists; eexists; split; eauto;
      rewrite ?entry_aDb, ?entry_bDa, ?entry_eq; fold ra rb; auto using count_equal_sym. }
  destruct E as [e [rev [-> [E1 [E2 E3]]]]].
  assert (P : (let (p0, p1) := if rev then (e_bDa e, e_aDb e) else (e_aDb e, e_bDa e) in
               if strict && negb (e_eq e =? 0) then false else (0 <? p0) && (p1 =? 0)) =
              (if strict && negb (count_equal objs ra rb =? 0) then false
               else (0 <? count_better objs ra rb) && (count_better objs rb ra =? 0))).
  { destruct rev; rewrite E1, E2, E3; reflexivity. }
  rewrite P. clear P E1 E2 E3.
  unfold dom_spec.
  destruct strict; unfold strictly_dominates, dominates;
    rewrite ?(all_geq_b objs ra rb), ?(some_better_b objs ra rb), ?(all_better_b objs ra rb Li Lj);
    simpl.
  - destruct (count_equal objs ra rb =? 0); simpl; auto.
    destruct (0 <? count_better objs ra rb), (count_better objs rb ra =? 0); reflexivity.
  - destruct (0 <? count_better objs ra rb), (count_better objs rb ra =? 0); reflexivity.
Qed.

(* the reverted cache entry is the direct computation of the swapped pair *)
Theorem cache_read_reverted objs rows i j :
  j < i ->
  let e := fst (cache_read objs rows i j) in
  let d := rank_dominance objs (row rows i) (row rows j) in
  snd (cache_read objs rows i j) = true /\
  e_bDa e = e_aDb d /\ e_aDb e = e_bDa d /\ e_eq e = e_eq d /\
  e_bDa_where e = e_aDb_where d /\ e_aDb_where e = e_bDa_where d /\
  e_eq_where e = e_eq_where d.
Proof.
  intros Hji. unfold cache_read.
  destruct (Nat.ltb_spec i j); [lia|]. cbn [fst snd].
  repeat split.
  - rewrite entry_bDa, entry_aDb. reflexivity.
  - rewrite entry_bDa, entry_aDb. reflexivity.
  - rewrite !entry_eq. apply count_equal_sym.
  - apply entry_bDa_where.
  - symmetry. apply entry_bDa_where.
  - apply entry_eq_where_sym.
Qed.

(* ---- order properties ------------------------------------------------------ *)
Lemma some_better_refl objs r : some_better objs r r = false.
Proof.
  revert r. induction objs as [|o os IH]; intros [|x xs]; simpl; auto.
  rewrite better_irrefl, IH. reflexivity.
Qed.

Theorem dominates_irrefl strict objs r : dom_spec strict objs r r = false.
Proof.
  unfold dom_spec, dominates, strictly_dominates.
  destruct strict; rewrite some_better_refl; apply andb_false_r.
Qed.

Lemma all_better_all_geq objs ra rb : all_better objs ra rb = true -> all_geq objs ra rb = true.
Proof.
  revert ra rb. induction objs as [|o os IH]; intros [|x xs] [|y ys]; simpl; auto.
  rewrite !andb_true_iff. intros [H1 H2]. split; auto.
  apply better_asym in H1. rewrite H1. reflexivity.
Qed.

Theorem strict_implies_dominates objs ra rb :
  strictly_dominates objs ra rb = true -> dominates objs ra rb = true.
Proof.
  unfold strictly_dominates, dominates. rewrite !andb_true_iff. intros [H1 H2].
  split; auto using all_better_all_geq.
Qed.

Lemma dominates_asym_aux objs ra rb :
  some_better objs ra rb = true -> all_geq objs rb ra = false.
Proof.
  revert ra rb. induction objs as [|o os IH]; intros [|x xs] [|y ys]; simpl; try discriminate.
  rewrite orb_true_iff. intros [H|H].
  - rewrite H. reflexivity.
  - rewrite (IH _ _ H). apply andb_false_r.
Qed.

Theorem dominates_asym strict objs ra rb :
  dom_spec strict objs ra rb = true -> dom_spec strict objs rb ra = false.
Proof.
  intros H.
  assert (D : dominates objs ra rb = true)
    by (destruct strict; simpl in H; auto using strict_implies_dominates).
  assert (N : dominates objs rb ra = false).
  { unfold dominates in *. apply andb_true_iff in D. destruct D as [_ D].
    rewrite (dominates_asym_aux _ _ _ D). reflexivity. }
  destruct strict; simpl; auto.
  destruct (strictly_dominates objs rb ra) eqn:E; auto.
  apply strict_implies_dominates in E. congruence.
Qed.

Lemma all_geq_trans objs ra rb rc :
  length ra = length objs -> length rb = length objs -> length rc = length objs ->
  all_geq objs ra rb = true -> all_geq objs rb rc = true -> all_geq objs ra rc = true.
Proof.
  revert ra rb rc. induction objs as [|o os IH]; intros [|x xs] [|y ys] [|z zs]; simpl;
    intros La Lb Lc; try discriminate; auto.
  rewrite !andb_true_iff, !negb_true_iff. intros [H1 H2] [H3 H4]. split.
  - eapply geq_trans; eauto.
  - apply (IH xs ys zs); try lia; auto.
Qed.

Lemma all_better_trans objs ra rb rc :
  length ra = length objs -> length rb = length objs -> length rc = length objs ->
  all_better objs ra rb = true -> all_better objs rb rc = true -> all_better objs ra rc = true.
Proof.
  revert ra rb rc. induction objs as [|o os IH]; intros [|x xs] [|y ys] [|z zs]; simpl;
    intros La Lb Lc; try discriminate; auto.
  rewrite !andb_true_iff. intros [H1 H2] [H3 H4]. split.
  - eapply better_trans; eauto.
  - apply (IH xs ys zs); try lia; auto.
Qed.

Lemma some_better_geq_trans objs ra rb rc :
  length ra = length objs -> length rb = length objs -> length rc = length objs ->
  some_better objs ra rb = true -> all_geq objs rb rc = true -> some_better objs ra rc = true.
Proof.
  revert ra rb rc. induction objs as [|o os IH]; intros [|x xs] [|y ys] [|z zs]; simpl;
    intros La Lb Lc; try discriminate; auto.
  rewrite !andb_true_iff, !orb_true_iff, !negb_true_iff. intros [H1|H1] [H3 H4].
  - left. eapply better_geq_trans; eauto.
  - right. apply (IH xs ys zs); try lia; auto.
Qed.

Theorem dominates_trans strict objs ra rb rc :
  length ra = length objs -> length rb = length objs -> length rc = length objs ->
  dom_spec strict objs ra rb = true -> dom_spec strict objs rb rc = true ->
  dom_spec strict objs ra rc = true.
Proof.
  intros La Lb Lc. unfold dom_spec, strictly_dominates, dominates.
  destruct strict; rewrite !andb_true_iff; intros [H1 H2] [H3 H4]; split.
  - apply (all_better_trans objs ra rb rc); auto.
  - apply (some_better_geq_trans objs ra rb rc); auto using all_better_all_geq.
  - apply (all_geq_trans objs ra rb rc); auto.
  - apply (some_better_geq_trans objs ra rb rc); auto.
Qed.

(* ---- dominators_of: fuel adequacy, closure, no loops ---------------------- *)
Section Closure.
  Variable dom : nat -> nat -> bool.
  Variable n : nat.
  Hypothesis dom_irrefl : forall a, dom a a = false.
  Hypothesis dom_trans : forall a b c, dom a b = true -> dom b c = true -> dom a c = true.

  Definition direct (a : nat) : list nat := filter (fun d => dom d a) (seq 0 n).
  Definition nd (a : nat) : nat := length (direct a).

  Lemma direct_In a x : In x (direct a) <-> x < n /\ dom x a = true.
  Proof. unfold direct. rewrite filter_In, in_seq. intuition lia. Qed.

  Lemma direct_NoDup a : NoDup (direct a).
  Proof. apply NoDup_filter, seq_NoDup. Qed.

  Lemma nd_le a : nd a <= n.
  Proof.
    unfold nd. rewrite <- (seq_length n 0). apply NoDup_incl_length; [apply direct_NoDup|].
    intros x Hx. apply direct_In in Hx. apply in_seq. lia.
  Qed.

  Lemma nd_lt d a : d < n -> dom d a = true -> nd d < nd a.
  Proof.
    intros Hd Hda. unfold nd.
    change (length (d :: direct d) <= length (direct a)).
    apply NoDup_incl_length.
    - constructor; [|apply direct_NoDup]. rewrite direct_In. rewrite dom_irrefl. intros [_ H]. discriminate.
    - intros x [<-|Hx]; apply direct_In; auto.
      apply direct_In in Hx. destruct Hx as [Hx1 Hx2]. eauto.
  Qed.

  Let step (f : nat) (acc : option (list nat)) (d : nat) : option (list nat) :=
    match acc, dominators_of f dom n d with
    | Some l, Some l' => Some (l ++ l')
    | _, _ => None
    end.

  Lemma fold_some (P : nat -> Prop) f ds acc :
    (forall d, In d ds -> exists l, dominators_of f dom n d = Some l /\ forall x, In x l -> P x) ->
    (forall x, In x acc -> P x) ->
    exists r, fold_left (step f) ds (Some acc) = Some r /\ (forall x, In x r -> P x) /\ incl acc r.
  Proof.
    revert acc. induction ds as [|d ds IH]; intros acc Hds Hacc; cbn [fold_left].
    - exists acc. split; auto. split; auto. apply incl_refl.
    - destruct (Hds d (or_introl eq_refl)) as [l [Hl HlP]].
      replace (step f (Some acc) d) with (Some (acc ++ l)) by (unfold step; rewrite Hl; reflexivity).
      destruct (IH (acc ++ l)) as [r [Hr [HrP Hincl]]].
      + intros d' Hd'. apply Hds. right. exact Hd'.
      + intros x Hx. apply in_app_or in Hx. destruct Hx; auto.
      + exists r. split; auto. split; auto.
        intros x Hx. apply Hincl. apply in_or_app. left. exact Hx.
  Qed.

  Theorem dominators_of_spec fuel a :
    nd a < fuel ->
    exists l, dominators_of fuel dom n a = Some l /\
              forall x, In x l <-> (x < n /\ dom x a = true).
  Proof.
    revert a. induction fuel as [|f IH]; intros a Hf; [lia|].
    simpl. fold (direct a). fold (step f).
    destruct (fold_some (fun x => x < n /\ dom x a = true) f (direct a) (direct a)) as [r [Hr [HrP Hincl]]].
    - intros d Hd. apply direct_In in Hd. destruct Hd as [Hd1 Hd2].
      destruct (IH d) as [l [Hl Hlspec]].
      + pose proof (nd_lt d a Hd1 Hd2). lia.
      + exists l. split; auto. intros x Hx. apply Hlspec in Hx. destruct Hx as [Hx1 Hx2]. eauto.
    - intros x Hx. apply direct_In. exact Hx.
    - exists r. split; auto. intros x. split; auto.
      intros Hx. apply Hincl. apply direct_In. exact Hx.
  Qed.

  (* with the fuel the model passes, the recursion never runs out *)
  Corollary dominators_fuel_adequate a :
    exists l, dominators_of (S n) dom n a = Some l /\
              forall x, In x l <-> (x < n /\ dom x a = true).
  Proof. apply dominators_of_spec. pose proof (nd_le a). lia. Qed.

  Theorem no_loops : has_loops dom n = false.
  Proof.
    unfold has_loops. destruct (existsb _ _) eqn:E; auto.
    apply existsb_exists in E. destruct E as [a [_ Ha]].
    destruct (dominators_fuel_adequate a) as [l [Hl _]]. rewrite Hl in Ha. discriminate.
  Qed.
End Closure.

(* instantiate with the accessor's own relation *)
Section AccessorClosure.
  Variable strict : bool.
  Variable objs : list bool.
  Variable rows : list (list Q).
  Hypothesis Hrect : rect (length objs) rows.

  Definition dom_rel (i j : nat) : bool :=
    (i <? length rows) && (j <? length rows) && dom_cell strict objs rows i j.

  Lemma dom_rel_irrefl a : dom_rel a a = false.
  Proof. unfold dom_rel, dom_cell. rewrite Nat.eqb_refl. apply andb_false_r. Qed.

  Lemma dom_rel_trans a b c : dom_rel a b = true -> dom_rel b c = true -> dom_rel a c = true.
  Proof.
    unfold dom_rel. rewrite !andb_true_iff, !Nat.ltb_lt.
    intros [[Ha Hb] H1] [[_ Hc] H2]. split; [split; auto|].
    rewrite dom_cell_spec in * by auto.
    destruct (Nat.eqb_spec a b) as [|Nab]; [discriminate|].
    destruct (Nat.eqb_spec b c) as [|Nbc]; [discriminate|].
    assert (T : dom_spec strict objs (row rows a) (row rows c) = true).
    { eapply dominates_trans; eauto; eapply rect_row; eauto. }
    destruct (Nat.eqb_spec a c) as [<-|Nac]; auto.
    apply dominates_asym in H1. congruence.
  Qed.

  Theorem accessor_no_loops : has_loops dom_rel (length rows) = false.
  Proof. apply no_loops; [apply dom_rel_irrefl|apply dom_rel_trans]. Qed.

  Theorem accessor_dominators_closure a :
    exists l, dominators_of (S (length rows)) dom_rel (length rows) a = Some l /\
              forall x, In x l <-> (x < length rows /\ dom_rel x a = true).
  Proof. apply dominators_fuel_adequate; [apply dom_rel_irrefl|apply dom_rel_trans]. Qed.
End AccessorClosure.
