(* The ranking follows the alternatives: listing the scores in another order lists the ranks in that order. *)
From Coq Require Import QArith Qcanon List Arith Lia Permutation.
From SKC Require Import Base.DenseRank Base.QRank Base.QList.
Import ListNotations.
Local Open Scope nat_scope.

(* the list l read in the order sigma (sigma lists, for each new position, the old position) *)
Definition reindex {A} (d : A) (sigma : list nat) (l : list A) : list A := map (fun i => nth i l d) sigma.

Lemma reindex_length {A} (d : A) sigma l : length (reindex d sigma l) = length sigma.
Proof. apply map_length. Qed.

Lemma reindex_same_set {A} (d : A) sigma l :
  Permutation sigma (seq 0 (length l)) -> forall z, In z (reindex d sigma l) <-> In z l.
Proof.
  intros P z. unfold reindex. rewrite in_map_iff. split.
  - intros [i [<- Hi]]. apply nth_In. apply (Permutation_in _ P) in Hi. apply in_seq in Hi. lia.
  - intros Hz. destruct (In_nth _ _ d Hz) as [i [Hi E]]. exists i. split; [exact E|].
    apply (Permutation_in _ (Permutation_sym P)). apply in_seq. lia.
Qed.

Lemma reindex_map {A B} (f : A -> B) d sigma l :
  (forall i, In i sigma -> i < length l) -> reindex (f d) sigma (map f l) = map f (reindex d sigma l).
Proof.
  intros H. unfold reindex. rewrite map_map. apply map_ext_in. intros i Hi. apply map_nth.
Qed.

Lemma reindex_default {A} (d d' : A) sigma l :
  (forall i, In i sigma -> i < length l) -> reindex d sigma l = reindex d' sigma l.
Proof. intros H. unfold reindex. apply map_ext_in. intros i Hi. apply nth_indep. auto. Qed.

Lemma perm_seq_bound sigma n : Permutation sigma (seq 0 n) -> forall i, In i sigma -> i < n.
Proof. intros P i Hi. apply (Permutation_in _ P) in Hi. apply in_seq in Hi. lia. Qed.

Section Generic.
  Variable A : Type.
  Variable ltb : A -> A -> bool.
  Variable eq_dec : forall x y : A, {x = y} + {x <> y}.

  Theorem dense_rank_reindex d sigma xs :
    Permutation sigma (seq 0 (length xs)) ->
    dense_rank A ltb eq_dec (reindex d sigma xs) = reindex 0 sigma (dense_rank A ltb eq_dec xs).
  Proof.
    intros P. unfold dense_rank at 1. unfold reindex at 2. rewrite map_map.
    unfold reindex at 2. apply map_ext_in. intros i Hi.
    pose proof (perm_seq_bound _ _ P i Hi) as Li.
    rewrite (rank1_same_set A ltb eq_dec _ xs) by (apply reindex_same_set; exact P).
    unfold dense_rank.
    rewrite (nth_indep _ 0 (rank1 A ltb eq_dec xs d)) by (rewrite map_length; exact Li).
    symmetry. apply map_nth.
  Qed.
End Generic.

Theorem dense_rank_Q_reindex sigma xs :
  Permutation sigma (seq 0 (length xs)) ->
  dense_rank_Q (reindex 0%Q sigma xs) = reindex 0%nat sigma (dense_rank_Q xs).
Proof.
  intros P. unfold dense_rank_Q.
  rewrite <- (reindex_map Q2Qc 0%Q sigma xs) by (apply perm_seq_bound; exact P).
  apply dense_rank_reindex. rewrite map_length. exact P.
Qed.

(* the library's ranking of the scores listed in another order is the same ranking listed in that order *)
Theorem rank_values_reindex rev sigma xs :
  Permutation sigma (seq 0 (length xs)) ->
  rank_values rev (reindex 0%Q sigma xs) = reindex 0%nat sigma (rank_values rev xs).
Proof.
  intros P. unfold rank_values. destruct rev; [|apply dense_rank_Q_reindex; exact P].
  assert (B := perm_seq_bound _ _ P).
  rewrite <- (reindex_map Qopp 0%Q sigma xs) by exact B.
  rewrite (reindex_default (- 0)%Q 0%Q) by (rewrite map_length; exact B).
  apply dense_rank_Q_reindex. rewrite map_length. exact P.
Qed.

(* any row-wise score commutes with reordering the rows *)
Lemma rowwise_reindex {A} (f : list Q -> A) sigma rows :
  (forall i, In i sigma -> i < length rows) ->
  map f (reindex [] sigma rows) = reindex (f []) sigma (map f rows).
Proof. intros H. symmetry. apply reindex_map. exact H. Qed.
