From Coq Require Import ZArith QArith List Bool Arith Lia Lqa Sorted.
From SKC Require Import Base.QBool Base.QList Model.Agg Model.Select Model.Transform
  Theory.QListFacts Theory.Select.
Import ListNotations.

(* ================= C10: frame ====================================================== *)
Theorem transform_frame k d pr p :
  declares k p = false -> get_part p (merge k d pr) = get_part p d.
Proof.
  destruct k as [t| | | | | |ps]; destruct p; simpl; intros H; try reflexivity; try discriminate;
    try (destruct t; simpl in *; try discriminate; reflexivity);
    try (rewrite H; reflexivity).
Qed.

(* criteria are never touched by any built-in transformer kind *)
Theorem criteria_unchanged k d pr : crits (merge k d pr) = crits d.
Proof. destruct k; reflexivity. Qed.

(* alternatives change only under filters *)
Theorem alternatives_unchanged k d pr :
  k <> KFilter -> alts (merge k d pr) = alts d.
Proof. intros H. destruct k; try reflexivity. exfalso. apply H. reflexivity. Qed.

Theorem pipeline_frame steps d p :
  (forall t, In t steps -> declares (fst t) p = false) ->
  get_part p (pipeline_transform steps d) = get_part p d.
Proof.
  unfold pipeline_transform. revert d. induction steps as [|t ts IH]; intros d H; simpl; [reflexivity|].
  rewrite IH by (intros t' Ht'; apply H; right; exact Ht').
  unfold transform. apply transform_frame. apply H. left. reflexivity.
Qed.

(* objective inverters leave every objective maximise *)
Theorem inverter_all_max f d : Forall (fun o => o = true) (objs (transform (KInverter, inverter_proposal f) d)).
Proof.
  unfold transform. simpl. apply Forall_forall. intros o Ho. apply in_map_iff in Ho.
  destruct Ho as [x [E _]]. symmetry. exact E.
Qed.

(* filters: the survivors are a subsequence of the original alternatives, each with its own row *)
Lemma mask_pos_sorted bs k : StronglySorted lt (mask_pos k bs) /\ Forall (fun p => k <= p)%nat (mask_pos k bs).
Proof.
  revert k. induction bs as [|b t IH]; intros k; simpl; [split; constructor|].
  destruct (IH (S k)) as [S1 S2].
  assert (S2' : Forall (fun p => k <= p)%nat (mask_pos (S k) t)).
  { eapply Forall_impl; [|exact S2]. simpl. intros a Ha. lia. }
  destruct b; [|split; assumption].
  split; constructor; auto.
Qed.

Theorem filter_rows_subsequence d pr :
  let d' := merge KFilter d pr in
  let rp := mask_pos 0 (pr_keep pr) in
  StronglySorted lt rp /\
  alts d' = map (fun p => nth p (alts d) 0%Z) rp /\
  cells d' = map (fun p => nth p (cells d) []) rp /\
  crits d' = crits d /\ objs d' = objs d /\ wts d' = wts d.
Proof.
  simpl. split; [apply mask_pos_sorted|]. repeat split; reflexivity.
Qed.

(* ================= C11: normal forms ================================================= *)
Lemma qsum_map_div s v : ~ s == 0 -> qsum (map (fun x => x / s) v) == qsum v / s.
Proof.
  intros Hs. induction v as [|a t IH]; simpl; [field; exact Hs|]. rewrite IH. field. exact Hs.
Qed.

Theorem sum_scale_sums_to_1 v : ~ qsum v == 0 -> qsum (sum_scale v) == 1.
Proof. intros H. unfold sum_scale. rewrite qsum_map_div by exact H. field. exact H. Qed.

Theorem sum_scale_cell v i : nth i (sum_scale v) 0 == nth i v 0 / qsum v.
Proof.
  unfold sum_scale. destruct (Nat.ltb_spec i (length v)) as [H|H].
  - rewrite (nth_indep _ 0 (0 / qsum v)) by (rewrite map_length; exact H).
    rewrite (map_nth (fun x => x / qsum v)). reflexivity.
  - rewrite !nth_overflow by (rewrite ?map_length; lia). unfold Qdiv. ring.
Qed.

Lemma qabs_div x s : 0 < s -> qabs (x / s) == qabs x / s.
Proof.
  intros Hs. destruct (qabs_cases x) as [[H ->]|[H ->]].
  - destruct (qabs_cases (x / s)) as [[H1 ->]|[H1 ->]]; [reflexivity|].
    assert (0 <= x / s) by (apply Qle_shift_div_l; lra). lra.
  - destruct (qabs_cases (x / s)) as [[H1 ->]|[H1 ->]].
    + assert (x / s < 0). { apply Qlt_shift_div_r; lra. } lra.
    + field. lra.
Qed.

Theorem maxabs_max_is_1 v :
  v <> [] -> ~ lmax (map qabs v) == 0 -> lmax (map qabs (maxabs_scale v)) == 1.
Proof.
  intros Hne Hs. unfold maxabs_scale. set (s := lmax (map qabs v)) in *.
  destruct (Qeqb s 0) eqn:E; [qb; contradiction|]. clear E.
  assert (Hpos : 0 < s).
  { assert (0 <= s).
    { unfold s. destruct v as [|a t]; [congruence|]. simpl.
      destruct (qmaxl_ge (qabs a) (map qabs t)) as [H _]. pose proof (qabs_nonneg a). lra. }
    destruct (Qlt_le_dec 0 s); auto. exfalso. apply Hs. lra. }
  assert (Hne' : map qabs (map (fun x => x / s) v) <> []) by (destruct v; [congruence|discriminate]).
  apply Qle_antisym.
  - apply lmax_le_bound; auto. intros y Hy. rewrite map_map in Hy. apply in_map_iff in Hy.
    destruct Hy as [x [<- Hx]]. rewrite qabs_div by exact Hpos.
    apply Qle_shift_div_r; auto.
    assert (qabs x <= s) by (apply lmax_ge; apply in_map; exact Hx). lra.
  - (* the maximum of |v| is attained *)
    assert (Hin : In s (map qabs v)) by (apply lmax_In; destruct v; [congruence|discriminate]).
    apply in_map_iff in Hin. destruct Hin as [x [Ex Hx]].
    assert (In (qabs (x / s)) (map qabs (map (fun x => x / s) v))).
    { apply in_map. apply (in_map (fun x => x / s)). exact Hx. }
    pose proof (lmax_ge _ _ H) as G. rewrite qabs_div in G by exact Hpos. rewrite Ex in G.
    assert (s / s == 1) by (field; lra). lra.
Qed.

(* MinMaxScaler: affine, minimum -> lo, maximum -> hi *)
Theorem minmax_cell lo hi v x :
  ~ lmax v - lmin v == 0 -> In x v ->
  In ((x - lmin v) / (lmax v - lmin v) * (hi - lo) + lo) (minmax_scale lo hi v).
Proof.
  intros Hr Hx. unfold minmax_scale. destruct (Qeqb (lmax v - lmin v) 0) eqn:E; [qb; contradiction|].
  apply (in_map (fun x => (x - lmin v) / (lmax v - lmin v) * (hi - lo) + lo)). exact Hx.
Qed.

Theorem minmax_endpoints lo hi v :
  ~ lmax v - lmin v == 0 ->
  (lmin v - lmin v) / (lmax v - lmin v) * (hi - lo) + lo == lo /\
  (lmax v - lmin v) / (lmax v - lmin v) * (hi - lo) + lo == hi.
Proof. intros Hr. split; field; exact Hr. Qed.

Theorem minmax_constant lo hi v :
  lmax v - lmin v == 0 -> minmax_scale lo hi v = map (fun _ => lo) v.
Proof. intros H. unfold minmax_scale. destruct (Qeqb (lmax v - lmin v) 0) eqn:E; auto. qb. contradiction. Qed.

(* CenitDistance: ideal -> 1, anti-ideal -> 0, per the criterion's objective *)
Theorem cenit_ideal_1_nadir_0 (mx : bool) v :
  ~ lmax v - lmin v == 0 ->
  let cenit := if mx then lmax v else lmin v in
  let nadir := if mx then lmin v else lmax v in
  (cenit - nadir) / (cenit - nadir) == 1 /\ (nadir - nadir) / (cenit - nadir) == 0.
Proof. intros Hr. destruct mx; simpl; split; field; lra. Qed.

Theorem cenit_cell (mx : bool) v x :
  In x v ->
  In ((x - (if mx then lmin v else lmax v)) /
      ((if mx then lmax v else lmin v) - (if mx then lmin v else lmax v))) (cenit_col mx v).
Proof.
  intros Hx. unfold cenit_col.
  apply (in_map (fun x => (x - (if mx then lmin v else lmax v)) /
                          ((if mx then lmax v else lmin v) - (if mx then lmin v else lmax v)))).
  exact Hx.
Qed.

(* PushNegatives: only vectors with a negative minimum are shifted, and then by exactly -min *)
Theorem push_neg_spec v :
  (lmin v < 0 -> push_neg v = map (fun x => x - lmin v) v) /\
  (0 <= lmin v -> push_neg v = v).
Proof.
  unfold push_neg. split; intros H.
  - destruct (Qltb (lmin v) 0) eqn:E; auto. qb. lra.
  - destruct (Qltb (lmin v) 0) eqn:E; auto. qb. lra.
Qed.

Lemma lmin_map_shift c v : v <> [] -> lmin (map (fun x => x - c) v) == lmin v - c.
Proof.
  intros Hne. assert (Hne' : map (fun x => x - c) v <> []) by (destruct v; [congruence|discriminate]).
  apply Qle_antisym.
  - assert (In (lmin v - c) (map (fun x => x - c) v)).
    { apply (in_map (fun x => x - c)). apply lmin_In. exact Hne. }
    apply lmin_le. exact H.
  - apply lmin_ge_bound; auto. intros y Hy. apply in_map_iff in Hy. destruct Hy as [x [<- Hx]].
    pose proof (lmin_le v x Hx). lra.
Qed.

Theorem push_neg_min_zero v : v <> [] -> lmin v < 0 -> lmin (push_neg v) == 0.
Proof.
  intros Hne H. rewrite (proj1 (push_neg_spec v) H). rewrite lmin_map_shift by exact Hne. lra.
Qed.

(* AddValueToZero: the value is added exactly to the vectors that contain a zero *)
Theorem add_zero_spec e v :
  ((exists x, In x v /\ x == 0) -> add_zero e v = map (fun x => x + e) v) /\
  ((forall x, In x v -> ~ x == 0) -> add_zero e v = v).
Proof.
  unfold add_zero. split; intros H.
  - destruct (existsb (fun x => Qeqb x 0) v) eqn:E; auto.
    destruct H as [x [Hx Hz]].
    assert (existsb (fun x => Qeqb x 0) v = true).
    { apply existsb_exists. exists x. split; auto. qb. exact Hz. }
    congruence.
  - destruct (existsb (fun x => Qeqb x 0) v) eqn:E; auto.
    apply existsb_exists in E. destruct E as [x [Hx Hz]]. qb. exfalso. exact (H x Hx Hz).
Qed.

Theorem equal_weights_spec base m :
  length (equal_weights base m) = m /\
  forall w, In w (equal_weights base m) -> w = base / inject_Z (Z.of_nat m).
Proof.
  unfold equal_weights. split; [apply repeat_length|]. intros w Hw. apply repeat_spec in Hw. exact Hw.
Qed.

(* ---- right axis: a matrix-target scaler acts on every criterion separately ------------- *)
Lemma rows_of_cols_col n cs j :
  (j < length cs)%nat -> (forall c, In c cs -> length c = n) ->
  col (rows_of_cols n cs) j = nth j cs [].
Proof.
  intros Hj Hlen. unfold col, rows_of_cols. rewrite map_map.
  assert (L : length (nth j cs []) = n) by (apply Hlen; apply nth_In; exact Hj).
  apply nth_ext with (d := 0) (d' := 0).
  - rewrite map_length, seq_length. symmetry. exact L.
  - intros i Hi. rewrite map_length, seq_length in Hi.
    rewrite (nth_indep _ 0 ((fun x => nth j (map (fun c => nth x c 0) cs) 0) 0%nat))
      by (rewrite map_length, seq_length; exact Hi).
    rewrite (map_nth (fun x => nth j (map (fun c => nth x c 0) cs) 0)).
    rewrite seq_nth by exact Hi. simpl.
    rewrite (nth_indep _ 0 ((fun c => nth i c 0) [])) by (rewrite map_length; exact Hj).
    rewrite (map_nth (fun c => nth i c 0)). reflexivity.
Qed.

Theorem matrix_target_columnwise m f rows j :
  (j < m)%nat -> (forall c, length (f c) = length c) ->
  col (on_matrix m f rows) j = f (col rows j).
Proof.
  intros Hj Hf. unfold on_matrix.
  rewrite rows_of_cols_col.
  - rewrite (nth_indep _ [] (f [])) by (rewrite map_length; unfold cols; rewrite map_length, seq_length; exact Hj).
    rewrite (map_nth f). unfold cols.
    rewrite (nth_indep _ [] (col rows 0)) by (rewrite map_length, seq_length; exact Hj).
    rewrite (map_nth (col rows)). rewrite seq_nth by exact Hj. reflexivity.
  - rewrite map_length. unfold cols. rewrite map_length, seq_length. exact Hj.
  - intros c Hc. apply in_map_iff in Hc. destruct Hc as [c0 [<- Hc0]]. rewrite Hf.
    unfold cols in Hc0. apply in_map_iff in Hc0. destruct Hc0 as [k [<- _]].
    unfold col. apply map_length.
Qed.

(* ---- the two irrational scalers, stated for ANY s with s*s == the rational core ------------------------
   (the real square root is such an s; no axiom is needed for the algebra) *)
Lemma qsum_map_sq_div s v : ~ s == 0 ->
  qsum (map (fun x => x / s * (x / s)) v) == qsum (map (fun x => x * x) v) / (s * s).
Proof.
  intros Hz. induction v as [|a t IH].
  - simpl. field. exact Hz.
  - change (qsum (map (fun x => x / s * (x / s)) (a :: t))) with (a / s * (a / s) + qsum (map (fun x => x / s * (x / s)) t)).
    change (qsum (map (fun x => x * x) (a :: t))) with (a * a + qsum (map (fun x => x * x) t)).
    rewrite IH. field. exact Hz.
Qed.

Theorem vector_scaler_unit_norm v s :
  s * s == sumsq v -> ~ s == 0 -> sumsq (map (fun x => x / s) v) == 1.
Proof.
  intros Hs Hz. unfold sumsq in *. rewrite map_map, qsum_map_sq_div by exact Hz.
  rewrite <- Hs. field. exact Hz.
Qed.

Lemma qn_nonzero (v : list Q) : v <> [] -> ~ inject_Z (Z.of_nat (length v)) == 0.
Proof.
  intros Hne. destruct v; [congruence|]. simpl length. rewrite Nat2Z.inj_succ. unfold Qeq, inject_Z. simpl. lia.
Qed.

Lemma qsum_shift_scale mu s v :
  ~ s == 0 -> qsum (map (fun x => (x - mu) / s) v) == (qsum v - inject_Z (Z.of_nat (length v)) * mu) / s.
Proof.
  intros Hz. induction v as [|a t IH].
  - simpl. field. exact Hz.
  - change (qsum (map (fun x => (x - mu) / s) (a :: t))) with ((a - mu) / s + qsum (map (fun x => (x - mu) / s) t)).
    change (qsum (a :: t)) with (a + qsum t).
    rewrite IH. simpl length. rewrite Nat2Z.inj_succ. unfold Z.succ. rewrite inject_Z_plus.
    change (inject_Z 1) with 1. field. exact Hz.
Qed.

(* StandarScaler(with_mean, with_std): the output has mean 0 ... *)
Theorem standard_scaler_mean_0 v s :
  v <> [] -> ~ s == 0 -> mean (map (fun x => (x - mean v) / s) v) == 0.
Proof.
  intros Hne Hz. pose proof (qn_nonzero v Hne) as Hn.
  unfold mean at 1. rewrite map_length, qsum_shift_scale by exact Hz.
  unfold mean. field. split; assumption.
Qed.

Lemma qsum_map_sqdev_div mu s v : ~ s == 0 ->
  qsum (map (fun x => ((x - mu) / s - 0) * ((x - mu) / s - 0)) v) ==
  qsum (map (fun x => (x - mu) * (x - mu)) v) / (s * s).
Proof.
  intros Hz. induction v as [|a t IH].
  - simpl. field. exact Hz.
  - change (qsum (map (fun x => ((x - mu) / s - 0) * ((x - mu) / s - 0)) (a :: t)))
      with (((a - mu) / s - 0) * ((a - mu) / s - 0) + qsum (map (fun x => ((x - mu) / s - 0) * ((x - mu) / s - 0)) t)).
    change (qsum (map (fun x => (x - mu) * (x - mu)) (a :: t)))
      with ((a - mu) * (a - mu) + qsum (map (fun x => (x - mu) * (x - mu)) t)).
    rewrite IH. field. exact Hz.
Qed.

Lemma qsum_map_ext' (f g : Q -> Q) l : (forall x, f x == g x) -> qsum (map f l) == qsum (map g l).
Proof.
  intros H. induction l as [|a t IH]; [reflexivity|].
  change (qsum (map f (a :: t))) with (f a + qsum (map f t)). change (qsum (map g (a :: t))) with (g a + qsum (map g t)).
  rewrite IH, H. reflexivity.
Qed.

(* ... and, for any s with s*s == the population variance, population variance 1 *)
Theorem standard_scaler_var_1 v s :
  v <> [] -> s * s == pvar v -> ~ s == 0 -> pvar (map (fun x => (x - mean v) / s) v) == 1.
Proof.
  intros Hne Hs Hz. pose proof (qn_nonzero v Hne) as Hn.
  unfold pvar at 1. rewrite map_length, map_map.
  pose proof (standard_scaler_mean_0 v s Hne Hz) as M0.
  assert (E : qsum (map (fun x => ((x - mean v) / s - mean (map (fun x0 => (x0 - mean v) / s) v)) *
                                  ((x - mean v) / s - mean (map (fun x0 => (x0 - mean v) / s) v))) v) ==
              qsum (map (fun x => ((x - mean v) / s - 0) * ((x - mean v) / s - 0)) v)).
  { apply qsum_map_ext'. intros x. rewrite M0. reflexivity. }
  rewrite E, qsum_map_sqdev_div by exact Hz.
  rewrite Hs. unfold pvar. field. split; [exact Hn|].
  (* the variance is non-zero because s is *)
  intros Z. apply Hz.
  assert (P : pvar v == 0).
  { unfold pvar. rewrite Z. field. exact Hn. }
  rewrite P in Hs. destruct (Qeq_dec s 0) as [|NZ]; auto. exfalso.
  destruct (Qlt_le_dec 0 s) as [A|A]; [nra|]. assert (s < 0) by (destruct (Qlt_le_dec s 0); auto; exfalso; apply NZ; lra). nra.
Qed.

(* StandarScaler(with_mean=False, with_std=True): only the division *)
Theorem standard_scaler_std_only_var_1 v s :
  v <> [] -> s * s == pvar v -> ~ s == 0 -> pvar (map (fun x => x / s) v) == 1.
Proof.
  intros Hne Hs Hz. pose proof (qn_nonzero v Hne) as Hn.
  assert (M : mean (map (fun x => x / s) v) == mean v / s).
  { unfold mean. rewrite map_length, qsum_map_div by exact Hz. field. split; assumption. }
  unfold pvar at 1. rewrite map_length, map_map.
  assert (E : qsum (map (fun x => (x / s - mean (map (fun x0 => x0 / s) v)) * (x / s - mean (map (fun x0 => x0 / s) v))) v) ==
              qsum (map (fun x => ((x - mean v) / s - 0) * ((x - mean v) / s - 0)) v)).
  { apply qsum_map_ext'. intros x. rewrite M. field. exact Hz. }
  rewrite E, qsum_map_sqdev_div by exact Hz.
  rewrite Hs. unfold pvar. field. split; [exact Hn|].
  intros Z. apply Hz.
  assert (P : pvar v == 0) by (unfold pvar; rewrite Z; field; exact Hn).
  rewrite P in Hs. destruct (Qeq_dec s 0) as [|NZ]; auto. exfalso.
  destruct (Qlt_le_dec 0 s) as [A|A]; [nra|]. assert (s < 0) by (destruct (Qlt_le_dec s 0); auto; exfalso; apply NZ; lra). nra.
Qed.

(* StandarScaler(with_mean=True, with_std=False): only the shift *)
Theorem standard_scaler_mean_only v :
  v <> [] -> mean (map (fun x => x - mean v) v) == 0.
Proof.
  intros Hne. assert (H : ~ 1 == 0) by (intros X; discriminate X).
  pose proof (standard_scaler_mean_0 v 1 Hne H) as M.
  rewrite <- M. unfold mean. rewrite !map_length.
  assert (E : qsum (map (fun x => x - qsum v / inject_Z (Z.of_nat (length v))) v) ==
              qsum (map (fun x => (x - qsum v / inject_Z (Z.of_nat (length v))) / 1) v)).
  { apply qsum_map_ext'. intros x. field. apply (qn_nonzero v Hne). }
  rewrite E. reflexivity.
Qed.
