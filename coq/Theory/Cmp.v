From Coq Require Import ZArith QArith List Bool Arith Lia Lqa Permutation.
From SKC Require Import Base.QBool Base.QList Model.Transform Model.Weights Model.Untie Theory.QListFacts.
Import ListNotations.

(* ---- alignment by alternative name ------------------------------------------------------------ *)
Lemma lookup_In a v rk : NoDup (map fst rk) -> In (a, v) rk -> lookup a rk = Some v.
Proof.
  induction rk as [|[b w] t IH]; simpl; intros Hnd Hin; [contradiction|].
  inversion Hnd as [|? ? Hnot Hnd']; subst.
  destruct Hin as [E|Hin].
  - injection E as -> ->. rewrite Z.eqb_refl. reflexivity.
  - destruct (Z.eqb_spec a b) as [->|Hne].
    + exfalso. apply Hnot. apply in_map_iff. exists (b, v). split; auto.
    + apply IH; auto.
Qed.

Lemma lookup_None a rk : ~ In a (map fst rk) -> lookup a rk = None.
Proof.
  induction rk as [|[b w] t IH]; simpl; intros H; auto.
  destruct (Z.eqb_spec a b) as [->|Hne]; [exfalso; apply H; auto|]. apply IH. intros Hin. apply H. auto.
Qed.

Lemma lookup_Some_In a v rk : lookup a rk = Some v -> In (a, v) rk.
Proof.
  induction rk as [|[b w] t IH]; simpl; intros H; [discriminate|].
  destruct (Z.eqb_spec a b) as [->|Hne]; [injection H as ->; auto|]. right. apply IH. exact H.
Qed.

(* the order in which a ranking lists its alternatives is irrelevant: each alternative's rank
   appears under its own name *)
Theorem lookup_perm a rk rk' :
  NoDup (map fst rk) -> Permutation rk rk' -> lookup a rk = lookup a rk'.
Proof.
  intros Hnd P.
  assert (Hnd' : NoDup (map fst rk')).
  { eapply Permutation_NoDup; [apply Permutation_map; exact P|exact Hnd]. }
  destruct (lookup a rk) as [v|] eqn:E.
  - apply lookup_Some_In in E. symmetry. apply lookup_In; auto. eapply Permutation_in; eauto.
  - destruct (lookup a rk') as [v|] eqn:E'; auto. exfalso.
    apply lookup_Some_In in E'. apply Permutation_sym in P.
    pose proof (Permutation_in _ P E') as Hin. apply lookup_In in Hin; auto. congruence.
Qed.

Theorem frame_cell_by_label names rk rk' :
  NoDup (map fst rk) -> Permutation rk rk' -> aligned names rk = aligned names rk'.
Proof.
  intros Hnd P. unfold aligned. apply map_ext. intros a. rewrite (lookup_perm a rk rk' Hnd P). reflexivity.
Qed.

(* ---- self comparison values on the diagonal --------------------------------------------------- *)
Theorem diag_distance_0 v : v <> [] -> hamming v v == 0.
Proof.
  intros Hne. unfold hamming.
  assert (E : qsum (map2 (fun x y => if Qeqb x y then 0 else 1) v v) == 0).
  { clear Hne. induction v as [|a t IH]; simpl; [reflexivity|]. rewrite IH.
    replace (Qeqb a a) with true by (symmetry; qb; reflexivity). lra. }
  rewrite E. unfold Qdiv. ring.
Qed.

Theorem diag_cov_is_var v : scov v v == svar v.
Proof.
  unfold scov, svar.
  assert (E : qsum (map2 (fun x y => (x - mean v) * (y - mean v)) v v) ==
              qsum (map (fun x => (x - mean v) * (x - mean v)) v)).
  { generalize (mean v). intros a. induction v as [|x t IH]; simpl; [reflexivity|]. rewrite IH. reflexivity. }
  rewrite E. reflexivity.
Qed.

Theorem diag_r2_1 v :
  ~ qsum (map (fun x => (x - mean v) * (x - mean v)) v) == 0 -> r2 v v == 1.
Proof.
  intros Hnz. unfold r2.
  assert (E : qsum (map2 (fun x y => (x - y) * (x - y)) v v) == 0).
  { clear Hnz. induction v as [|a t IH]; simpl; [reflexivity|]. rewrite IH. ring. }
  rewrite E. field. exact Hnz.
Qed.

(* Pearson self-correlation: cov(v,v) = var(v), so r = var / (sd * sd) = 1 for a non-constant ranking *)
Theorem diag_corr_core v : cov v v == pvar v.
Proof.
  unfold cov, pvar, qn.
  assert (E : qsum (map2 (fun x y => (x - mean v) * (y - mean v)) v v) ==
              qsum (map (fun x => (x - mean v) * (x - mean v)) v)).
  { generalize (mean v). intros a. induction v as [|x t IH]; simpl; [reflexivity|]. rewrite IH. reflexivity. }
  rewrite E. reflexivity.
Qed.
