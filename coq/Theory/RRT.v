From Coq Require Import ZArith QArith List Bool Arith Lia Lqa.
From SKC Require Import Base.QBool Base.QList Model.Dominance Model.Transform Model.Impute Model.Electre Model.RRT
  Theory.QListFacts.
Import ListNotations.

(* ---- exactly one row changes -------------------------------------------------------------------- *)
Lemma replace_row_length k r rows : length (replace_row k r rows) = length rows.
Proof. revert k. induction rows as [|x t IH]; intros [|k]; simpl; auto. Qed.

Lemma replace_row_other k r rows i d : i <> k -> nth i (replace_row k r rows) d = nth i rows d.
Proof.
  revert k i. induction rows as [|x t IH]; intros [|k] [|i] H; simpl; auto; try congruence;
    try (apply IH; congruence).
Qed.

Lemma replace_row_same k r rows d : (k < length rows)%nat -> nth k (replace_row k r rows) d = r.
Proof.
  revert k. induction rows as [|x t IH]; intros [|k] H; simpl in *; try lia; auto. apply IH. lia.
Qed.

Theorem mutate_one_row objs rows k gap u i :
  i <> k -> nth i (mutate objs rows k gap u) [] = nth i rows [].
Proof. intros H. unfold mutate. apply replace_row_other. exact H. Qed.

Theorem mutate_keeps_shape objs rows k gap u : length (mutate objs rows k gap u) = length rows.
Proof. unfold mutate. apply replace_row_length. Qed.

Theorem mutate_row_is_row_plus_noise objs rows k gap u :
  (k < length rows)%nat ->
  nth k (mutate objs rows k gap u) [] = apply_noise (nth k rows []) (noise_of objs gap u).
Proof. intros H. unfold mutate. apply replace_row_same. exact H. Qed.

(* ---- the noise: right direction, inside the bound ----------------------------------------------- *)
Lemma In_map3 {A B C D} (f : A -> B -> C -> D) la lb lc z :
  In z (map3 f la lb lc) -> exists a b c, In a la /\ In b lb /\ In c lc /\ z = f a b c.
Proof.
  revert lb lc. induction la as [|a t IH]; intros [|b u] [|c v]; simpl; try tauto.
  intros [<-|H].
  - exists a, b, c. auto.
  - destruct (IH _ _ H) as [a' [b' [c' [Ha [Hb [Hc E]]]]]]. exists a', b', c'. auto.
Qed.

Lemma map3_length {A B C D} (f : A -> B -> C -> D) la lb lc :
  length lb = length la -> length lc = length la -> length (map3 f la lb lc) = length la.
Proof.
  revert lb lc. induction la as [|a t IH]; intros [|b u] [|c v]; simpl; intros H1 H2; try discriminate; auto.
Qed.

Theorem noise_ok_sound objs gap noise :
  noise_ok objs gap noise = true ->
  (forall o g e, In (o, g, e) (map3 (fun (o : bool) g e => (o, g, e)) objs gap noise) ->
     (o = true -> e <= 0) /\ (o = false -> 0 <= e) /\ qabs e <= g) /\
  (exists e, In e noise /\ ~ e == 0).
Proof.
  unfold noise_ok. rewrite !andb_true_iff. intros [[[H1 H2] _] _]. split.
  - intros o g e Hin. rewrite forallb_forall in H1. specialize (H1 _ Hin). simpl in H1.
    apply andb_true_iff in H1. destruct H1 as [Hs Hb]. qb.
    destruct o; qb; repeat split; auto; try discriminate; intros _; auto.
  - apply existsb_exists in H2. destruct H2 as [e [Hin He]]. exists e. split; auto.
    apply negb_true_iff in He. qb. exact He.
Qed.

Lemma constructed_forallb objs gap u :
  length gap = length objs -> length u = length objs ->
  (forall g, In g gap -> 0 <= g) -> (forall x, In x u -> 0 <= x <= 1) ->
  forallb (fun t => let '(o, g, e) := t in
                    (if (o : bool) then Qleb e 0 else Qleb 0 e) && Qleb (qabs e) g)
          (map3 (fun (o : bool) g e => (o, g, e)) objs gap (noise_of objs gap u)) = true.
Proof.
  unfold noise_of. revert gap u.
  induction objs as [|o os IH]; intros [|g gs] [|x xs]; simpl; intros Lg Lu Hg Hu; try discriminate; auto.
  assert (G0 : 0 <= g) by (apply Hg; auto). assert (X : 0 <= x <= 1) by (apply Hu; auto).
  assert (P : 0 <= x * g) by nra. assert (B : x * g <= g) by nra.
  rewrite IH; try lia; try (intros; apply Hg; auto); try (intros; apply Hu; auto).
  rewrite andb_true_r. apply andb_true_iff. destruct o; split; qb; try lra.
  - destruct (qabs_cases (- (x * g))) as [[H ->]|[H ->]]; lra.
  - destruct (qabs_cases (x * g)) as [[H ->]|[H ->]]; lra.
Qed.

(* the noise the implementation constructs (uniform draws in [0, bound], sign by objective)
   passes the checker as soon as one component is non-zero *)
Theorem constructed_noise_is_ok objs gap u :
  length gap = length objs -> length u = length objs ->
  (forall g, In g gap -> 0 <= g) -> (forall x, In x u -> 0 <= x <= 1) ->
  (exists e, In e (noise_of objs gap u) /\ ~ e == 0) ->
  noise_ok objs gap (noise_of objs gap u) = true.
Proof.
  intros Lg Lu Hg Hu [e [Hin He]]. unfold noise_ok. rewrite !andb_true_iff. repeat split.
  - apply constructed_forallb; auto.
  - apply existsb_exists. exists e. split; auto. apply negb_true_iff. qb. exact He.
  - apply Nat.eqb_eq. unfold noise_of. apply map3_length; auto.
  - apply Nat.eqb_eq. exact Lg.
Qed.

(* a change in the worsening direction never makes the alternative better on that criterion *)
Theorem worsening_never_improves (o : bool) x e :
  (o = true -> e <= 0) -> (o = false -> 0 <= e) -> better o (x + e) x = false.
Proof.
  intros H1 H2. unfold better. destruct o; qb.
  - specialize (H1 eq_refl). lra.
  - specialize (H2 eq_refl). lra.
Qed.

(* ---- schedule ------------------------------------------------------------------------------------ *)
Theorem schedule_length nonbest repeat : length (schedule nonbest repeat) = (length nonbest * repeat)%nat.
Proof.
  unfold schedule. generalize 0%nat as s. induction repeat as [|r IH]; intros s; simpl; [lia|].
  rewrite app_length, map_length, IH. lia.
Qed.

Theorem schedule_spec nonbest repeat it a :
  In (it, a) (schedule nonbest repeat) <-> ((it < repeat)%nat /\ In a nonbest).
Proof.
  unfold schedule. rewrite in_flat_map. split.
  - intros [k [Hk Hin]]. apply in_seq in Hk. apply in_map_iff in Hin.
    destruct Hin as [b [E Hb]]. injection E as <- <-. split; [lia|exact Hb].
  - intros [H1 H2]. exists it. split; [apply in_seq; lia|]. apply in_map_iff. exists a. auto.
Qed.

Lemma NoDup_app_intro {A} (l1 l2 : list A) :
  NoDup l1 -> NoDup l2 -> (forall x, In x l1 -> In x l2 -> False) -> NoDup (l1 ++ l2).
Proof.
  intros H1 H2 H. induction H1 as [|a t Ha Ht IH]; simpl; auto.
  constructor.
  - rewrite in_app_iff. intros [X|X]; [contradiction|]. apply (H a); simpl; auto.
  - apply IH. intros x Hx. apply H. simpl. auto.
Qed.

(* each non-best alternative is mutated exactly once per repetition *)
Theorem schedule_once_per_repetition nonbest repeat :
  NoDup nonbest -> NoDup (schedule nonbest repeat).
Proof.
  intros Hnd. unfold schedule. generalize 0%nat as s.
  induction repeat as [|r IH]; intros s; simpl; [constructor|].
  apply NoDup_app_intro.
  - clear IH. induction Hnd; simpl; constructor; auto.
    rewrite in_map_iff. intros [b [E Hb]]. injection E as <-. contradiction.
  - apply IH.
  - intros [it a] H1 H2. apply in_map_iff in H1. destruct H1 as [b [E _]]. injection E as <- <-.
    apply in_flat_map in H2. destruct H2 as [k [Hk Hin]]. apply in_seq in Hk.
    apply in_map_iff in Hin. destruct Hin as [c [E _]]. injection E as E1 _. lia.
Qed.

(* ---- the rejection loop: terminates iff some draw yields a non-zero noise ------------------------- *)
Lemma noise_zero_when_gaps_zero objs gap u :
  (forall g, In g gap -> g == 0) -> existsb (fun x => negb (Qeqb x 0)) (noise_of objs gap u) = false.
Proof.
  intros Hz. destruct (existsb _ _) eqn:E; auto. exfalso.
  apply existsb_exists in E. destruct E as [e [Hin He]]. apply negb_true_iff in He. qb.
  unfold noise_of in Hin. apply In_map3 in Hin. destruct Hin as [o [g [x [_ [Hg [_ ->]]]]]].
  specialize (Hz g Hg). apply He. destruct o; rewrite Hz; ring.
Qed.

(* the known finding: with every gap equal to zero no draw is ever accepted *)
Theorem zero_gaps_loop_never_ends objs gap draws fuel t :
  (forall g, In g gap -> g == 0) -> draw_loop fuel objs gap draws t = None.
Proof.
  intros Hz. revert t. induction fuel as [|f IH]; intros t; simpl; auto.
  rewrite (noise_zero_when_gaps_zero objs gap (draws t) Hz). apply IH.
Qed.

Theorem loop_result_is_nonzero objs gap draws fuel t e :
  draw_loop fuel objs gap draws t = Some e -> exists x, In x e /\ ~ x == 0.
Proof.
  revert t. induction fuel as [|f IH]; intros t; simpl; [discriminate|].
  destruct (existsb _ (noise_of objs gap (draws t))) eqn:E.
  - intros [= <-]. apply existsb_exists in E. destruct E as [x [Hx Hn]]. exists x. split; auto.
    apply negb_true_iff in Hn. qb. exact Hn.
  - apply IH.
Qed.
