From Coq Require Import ZArith QArith List Bool Arith Lia.
From SKC Require Import Model.Agg Model.Select.
Import ListNotations.
Local Open Scope nat_scope.
Local Arguments Nat.sub : simpl never.

(* ---- index_of ------------------------------------------------------------------ *)
Lemma index_of_Some x l k : index_of x l = Some k -> k < length l /\ nth_error l k = Some x.
Proof.
  revert k. induction l as [|y t IH]; simpl; intros k H; [discriminate|].
  destruct (Z.eqb_spec x y) as [->|Hne].
  - injection H as <-. simpl. split; [lia|reflexivity].
  - destruct (index_of x t) as [j|] eqn:E; [|discriminate]. injection H as <-.
    destruct (IH j eq_refl) as [H1 H2]. simpl. split; [lia|exact H2].
Qed.

Lemma index_of_None x l : index_of x l = None -> ~ In x l.
Proof.
  induction l as [|y t IH]; simpl; intros H; [tauto|].
  destruct (Z.eqb_spec x y) as [->|Hne]; [discriminate|].
  destruct (index_of x t) eqn:E; [discriminate|]. intros [E'|E']; [congruence|]. apply IH; auto.
Qed.

Lemma index_of_In x l : In x l -> exists k, index_of x l = Some k.
Proof.
  intros H. destruct (index_of x l) eqn:E; eauto. apply index_of_None in E. contradiction.
Qed.

Lemma index_of_nth l k x : NoDup l -> nth_error l k = Some x -> index_of x l = Some k.
Proof.
  revert k. induction l as [|y t IH]; intros k Hnd Hk; [destruct k; discriminate|].
  inversion Hnd as [|? ? Hnin Hnd']; subst. simpl.
  destruct k; simpl in Hk.
  - injection Hk as ->. rewrite Z.eqb_refl. reflexivity.
  - destruct (Z.eqb_spec x y) as [->|Hne].
    + exfalso. apply Hnin. eapply nth_error_In; eauto.
    + rewrite (IH k Hnd' Hk). reflexivity.
Qed.

(* ---- gather ---------------------------------------------------------------------- *)
Lemma gather_nth_error {A} (d : A) ps l k p :
  nth_error ps k = Some p -> nth_error (gather d ps l) k = Some (nth p l d).
Proof. intros H. unfold gather. rewrite nth_error_map, H. reflexivity. Qed.

Lemma gather_length {A} (d : A) ps l : length (gather d ps l) = length ps.
Proof. apply map_length. Qed.

Lemma nth_nth_error {A} (d : A) l p : p < length l -> nth_error l p = Some (nth p l d).
Proof. intros H. apply nth_error_nth'. exact H. Qed.

(* looking a label up in a gathered label list finds a position that holds the same label
   in the source list *)
Lemma index_of_gather L ps c k :
  NoDup L -> Forall (fun p => p < length L) ps ->
  index_of c (gather 0%Z ps L) = Some k ->
  exists p, nth_error ps k = Some p /\ p < length L /\ index_of c L = Some p.
Proof.
  intros Hnd Hps H. apply index_of_Some in H. destruct H as [Hk Hn].
  rewrite gather_length in Hk.
  destruct (nth_error ps k) as [p|] eqn:E; [|apply nth_error_None in E; lia].
  exists p. rewrite (gather_nth_error 0%Z ps L k p E) in Hn. injection Hn as Hn.
  assert (Hp : p < length L).
  { rewrite Forall_forall in Hps. apply Hps. eapply nth_error_In; eauto. }
  repeat split; auto. apply index_of_nth; auto. rewrite <- Hn. apply nth_nth_error. exact Hp.
Qed.

(* ---- positions produced by resolve are in range ------------------------------------- *)
Lemma mapM_opt_index ls labels ps :
  mapM_opt (fun l => index_of l labels) ls = Some ps ->
  Forall (fun p => p < length labels) ps /\ gather 0%Z ps labels = ls.
Proof.
  revert ps. induction ls as [|l t IH]; simpl; intros ps H.
  - injection H as <-. split; constructor.
  - destruct (index_of l labels) as [k|] eqn:E; [|discriminate].
    destruct (mapM_opt _ t) as [ks|] eqn:E2; [|discriminate]. injection H as <-.
    destruct (IH ks eq_refl) as [H1 H2]. apply index_of_Some in E. destruct E as [Hk Hn].
    split; [constructor; auto|]. simpl. rewrite H2. f_equal.
    apply nth_error_nth with (d := 0%Z) in Hn. exact Hn.
Qed.

Lemma mask_pos_bound bs k : Forall (fun p => p < k + length bs) (mask_pos k bs).
Proof.
  revert k. induction bs as [|b t IH]; intros k; simpl; [constructor|].
  specialize (IH (S k)).
  assert (H : Forall (fun p => p < k + S (length t)) (mask_pos (S k) t)).
  { eapply Forall_impl; [|exact IH]. simpl. intros a Ha. lia. }
  destruct b; [constructor; [lia|exact H]|exact H].
Qed.

Lemma forallb_ltb ps n : forallb (fun p => p <? n) ps = true -> Forall (fun p => p < n) ps.
Proof.
  intros H. rewrite forallb_forall in H. apply Forall_forall. intros p Hp.
  apply Nat.ltb_lt. apply H. exact Hp.
Qed.

Theorem resolve_in_range labels s ps :
  resolve labels s = Ok ps -> Forall (fun p => p < length labels) ps.
Proof.
  destruct s as [|ls|a b rv|qs|a b st|bs]; simpl; intros H.
  - injection H as <-. apply Forall_forall. intros p Hp. apply in_seq in Hp. lia.
  - destruct (mapM_opt _ ls) as [qs|] eqn:E; [|discriminate]. injection H as <-.
    apply (mapM_opt_index ls labels qs E).
  - destruct (index_of a labels) as [i|] eqn:Ea; [|discriminate].
    destruct (index_of b labels) as [j|] eqn:Eb; [|discriminate].
    apply index_of_Some in Ea. apply index_of_Some in Eb.
    destruct Ea as [Ea _]. destruct Eb as [Eb _].
    destruct rv; injection H as <-; apply Forall_forall; intros p Hp.
    + rewrite <- in_rev in Hp. apply in_seq in Hp. lia.
    + apply in_seq in Hp. lia.
  - destruct (forallb _ qs) eqn:E; [|discriminate]. injection H as <-. apply forallb_ltb. exact E.
  - destruct (forallb _ _) eqn:E; [|discriminate]. injection H as <-. apply forallb_ltb. exact E.
  - destruct (Nat.eqb_spec (length bs) (length labels)) as [E|E]; [|discriminate].
    injection H as <-. rewrite <- E. apply (mask_pos_bound bs 0).
Qed.

(* a list of labels selects exactly those labels, in the requested order *)
Theorem resolve_labels_order labels ls ps :
  resolve labels (SLabels ls) = Ok ps -> gather 0%Z ps labels = ls.
Proof.
  simpl. destruct (mapM_opt _ ls) as [qs|] eqn:E; [|discriminate]. intros [= <-].
  apply (mapM_opt_index ls labels qs E).
Qed.

Theorem resolve_missing_label labels ls :
  (exists l, In l ls /\ ~ In l labels) -> resolve labels (SLabels ls) = Err E_KEY.
Proof.
  intros [l [Hl Hn]]. simpl.
  destruct (mapM_opt _ ls) as [qs|] eqn:E; auto. exfalso.
  revert qs E. induction ls as [|x t IH]; simpl; intros qs E; [contradiction|].
  destruct (index_of x labels) as [k|] eqn:Ex; [|discriminate].
  destruct (mapM_opt _ t) as [ks|] eqn:Et; [|discriminate].
  destruct Hl as [->|Hl].
  - apply index_of_Some in Ex. destruct Ex as [_ Ex]. apply Hn. eapply nth_error_In; eauto.
  - eapply IH; eauto.
Qed.

(* ---- one selection keeps every criterion's own data --------------------------------- *)
Definition aligned (d d' : dmx) : Prop :=
  forall c, In c (crits d') ->
    obj_of d' c = obj_of d c /\ wt_of d' c = wt_of d c /\ dt_of d' c = dt_of d c /\
    forall a, In a (alts d') -> cell_of d' a c = cell_of d a c.

Lemma view_gather {A} (dflt : A) (L : list Z) (X : list A) ps c :
  NoDup L -> length X = length L -> Forall (fun p => p < length L) ps ->
  In c (gather 0%Z ps L) ->
  match index_of c (gather 0%Z ps L) with
  | Some j => nth_error (gather dflt ps X) j | None => None end =
  match index_of c L with Some j => nth_error X j | None => None end.
Proof.
  intros Hnd HX Hps Hin.
  destruct (index_of_In _ _ Hin) as [k Hk]. rewrite Hk.
  destruct (index_of_gather L ps c k Hnd Hps Hk) as [p [Hp [Hlt Hi]]].
  rewrite Hi, (gather_nth_error dflt ps X k p Hp).
  symmetry. apply nth_nth_error. lia.
Qed.

Theorem select_aligned rp cp d :
  wf d ->
  Forall (fun p => p < length (alts d)) rp -> Forall (fun p => p < length (crits d)) cp ->
  aligned d (select rp cp d).
Proof.
  intros [Hna [Hnc [Hrows [Hrect [Ho [Hw Hd]]]]]] Hrp Hcp c Hc.
  unfold obj_of, wt_of, dt_of, cell_of. cbn [alts crits cells objs wts dts select] in *.
  repeat split.
  - apply view_gather; auto.
  - apply view_gather; auto.
  - apply view_gather; auto.
  - intros a Ha.
    destruct (index_of_In _ _ Ha) as [i Hi]. destruct (index_of_In _ _ Hc) as [k Hk].
    rewrite Hi, Hk.
    destruct (index_of_gather _ rp a i Hna Hrp Hi) as [p [Hp [Hplt Hpi]]].
    destruct (index_of_gather _ cp c k Hnc Hcp Hk) as [q [Hq [Hqlt Hqi]]].
    rewrite Hpi, Hqi.
    rewrite nth_error_map, (gather_nth_error [] rp (cells d) i p Hp). cbn [option_map].
    rewrite (gather_nth_error 0%Q cp _ k q Hq).
    rewrite (nth_nth_error [] (cells d) p) by lia.
    symmetry. apply nth_nth_error.
    rewrite Forall_forall in Hrect. rewrite (Hrect (nth p (cells d) [])); [exact Hqlt|].
    apply nth_In. lia.
Qed.

Theorem apply_op_aligned o d d' : wf d -> apply_op o d = Ok d' -> aligned d d'.
Proof.
  intros Hwf. destruct o as [rs cs| |]; simpl.
  - destruct (resolve (alts d) rs) as [rp|e] eqn:Er; [|discriminate].
    destruct (resolve (crits d) cs) as [cp|e] eqn:Ec; [|discriminate].
    intros [= <-]. apply select_aligned; auto; eapply resolve_in_range; eauto.
  - intros [= <-]. intros c Hc. repeat split.
  - intros [= <-]. intros c Hc. repeat split.
Qed.

(* the derived matrix lists criteria / alternatives in the order the selection asked for *)
Theorem select_order rp cp d :
  crits (select rp cp d) = map (fun p => nth p (crits d) 0%Z) cp /\
  alts (select rp cp d) = map (fun p => nth p (alts d) 0%Z) rp.
Proof. split; reflexivity. Qed.

(* ---- chains ---------------------------------------------------------------------------- *)
Inductive run_wf : list op -> dmx -> dmx -> Prop :=
| rw_nil d : wf d -> run_wf [] d d
| rw_cons o t d d1 d' : wf d -> apply_op o d = Ok d1 -> run_wf t d1 d' -> run_wf (o :: t) d d'.

Lemma run_wf_run ops d d' : run_wf ops d d' -> run_ops ops d = Ok d'.
Proof. induction 1; simpl; auto. rewrite H0. exact IHrun_wf. Qed.

Lemma aligned_subset_crits o d d' c : apply_op o d = Ok d' -> In c (crits d') -> In c (crits d).
Proof.
  destruct o as [rs cs| |]; simpl.
  - destruct (resolve (alts d) rs) as [rp|e] eqn:Er; [|discriminate].
    destruct (resolve (crits d) cs) as [cp|e] eqn:Ec; [|discriminate].
    intros [= <-]. cbn [crits select]. unfold gather. intros H. apply in_map_iff in H.
    destruct H as [p [<- Hp]]. apply nth_In.
    pose proof (resolve_in_range _ _ _ Ec) as R. rewrite Forall_forall in R. apply R. exact Hp.
  - intros [= <-]. auto.
  - intros [= <-]. auto.
Qed.

Lemma aligned_subset_alts o d d' a : apply_op o d = Ok d' -> In a (alts d') -> In a (alts d).
Proof.
  destruct o as [rs cs| |]; simpl.
  - destruct (resolve (alts d) rs) as [rp|e] eqn:Er; [|discriminate].
    destruct (resolve (crits d) cs) as [cp|e] eqn:Ec; [|discriminate].
    intros [= <-]. cbn [alts select]. unfold gather. intros H. apply in_map_iff in H.
    destruct H as [p [<- Hp]]. apply nth_In.
    pose proof (resolve_in_range _ _ _ Er) as R. rewrite Forall_forall in R. apply R. exact Hp.
  - intros [= <-]. auto.
  - intros [= <-]. auto.
Qed.

Theorem run_aligned ops d d' : run_wf ops d d' -> aligned d d'.
Proof.
  induction 1 as [d Hwf|o t d d1 d' Hwf Hop Hrun IH].
  - intros c Hc. repeat split.
  - pose proof (apply_op_aligned o d d1 Hwf Hop) as A1.
    intros c Hc.
    assert (Hc1 : In c (crits d1)).
    { clear - Hrun Hc. induction Hrun; auto. apply IHHrun in Hc. eapply aligned_subset_crits; eauto. }
    destruct (IH c Hc) as [E1 [E2 [E3 E4]]]. destruct (A1 c Hc1) as [F1 [F2 [F3 F4]]].
    repeat split; try congruence.
    intros a Ha.
    assert (Ha1 : In a (alts d1)).
    { clear - Hrun Ha. induction Hrun; auto. apply IHHrun in Ha. eapply aligned_subset_alts; eauto. }
    rewrite (E4 a Ha). apply F4. exact Ha1.
Qed.

(* ---- aliases --------------------------------------------------------------------------- *)
Theorem alias_table_sound :
  (forall c, In c max_codes -> alias_sense c = Some true) /\
  (forall c, In c min_codes -> alias_sense c = Some false).
Proof.
  split; intros c Hc; simpl in Hc;
    repeat (destruct Hc as [<-|Hc]; [vm_compute; reflexivity|]); contradiction.
Qed.

Lemma NoDup_app_intro2 {A} (l1 l2 : list A) :
  NoDup l1 -> NoDup l2 -> (forall x, In x l1 -> In x l2 -> False) -> NoDup (l1 ++ l2).
Proof.
  intros H1 H2 H. induction H1 as [|a t Ha Ht IH]; simpl; auto.
  constructor.
  - rewrite in_app_iff. intros [X|X]; [contradiction|]. apply (H a); simpl; auto.
  - apply IH. intros x Hx. apply H. simpl. auto.
Qed.

(* ---- well-formedness is preserved, so chains need no side condition beyond "no label listed twice" --- *)
Lemma gather_NoDup L ps :
  NoDup L -> NoDup ps -> Forall (fun p => p < length L) ps -> NoDup (gather 0%Z ps L).
Proof.
  intros HL Hps Hr. unfold gather. induction Hps as [|p t Hnin Hnd IH]; simpl; constructor.
  - inversion Hr as [|? ? Hp Ht]; subst. rewrite in_map_iff. intros [q [E Hq]].
    rewrite Forall_forall in Ht. specialize (Ht q Hq).
    assert (p = q).
    { apply (proj1 (NoDup_nth L 0%Z) HL); auto. }
    subst. contradiction.
  - apply IH. inversion Hr; assumption.
Qed.

Lemma select_wf rp cp d :
  wf d -> NoDup rp -> NoDup cp ->
  Forall (fun p => p < length (alts d)) rp -> Forall (fun p => p < length (crits d)) cp ->
  wf (select rp cp d).
Proof.
  intros [Hna [Hnc [Hrows [Hrect [Ho [Hw Hd]]]]]] Nr Nc Rr Rc.
  unfold wf. cbn [alts crits cells objs wts dts select].
  repeat split.
  - apply gather_NoDup; auto.
  - apply gather_NoDup; auto.
  - rewrite map_length, !gather_length. reflexivity.
  - apply Forall_forall. intros r Hr. apply in_map_iff in Hr. destruct Hr as [r0 [<- _]].
    rewrite !gather_length. reflexivity.
  - rewrite !gather_length. reflexivity.
  - rewrite !gather_length. reflexivity.
  - rewrite !gather_length. reflexivity.
Qed.

(* positions produced by slices, masks and "all" never repeat; explicit lists repeat only if the
   caller repeats a label / position *)
Lemma mask_pos_NoDup bs k : NoDup (mask_pos k bs).
Proof.
  assert (G : forall bs k, NoDup (mask_pos k bs) /\ Forall (fun p => k <= p) (mask_pos k bs)).
  { clear. induction bs as [|b t IH]; intros k; simpl; [split; constructor|].
    destruct (IH (S k)) as [N F].
    assert (F' : Forall (fun p => k <= p) (mask_pos (S k) t)) by (eapply Forall_impl; [|exact F]; simpl; intros; lia).
    destruct b; [|split; assumption]. split; [|constructor; auto].
    constructor; auto. intros Hin. rewrite Forall_forall in F. specialize (F k Hin). lia. }
  apply G.
Qed.

(* for bounds as Python's slice.indices produces them: start >= 0 when stepping up, stop >= -1 when stepping down *)
Lemma range_pos_NoDup fuel cur stop step :
  ((0 < step)%Z -> (0 <= cur)%Z) -> ((step < 0)%Z -> (-1 <= stop)%Z) ->
  NoDup (range_pos fuel cur stop step).
Proof.
  assert (G : forall fuel cur stop step,
            ((0 < step)%Z -> (0 <= cur)%Z) -> ((step < 0)%Z -> (-1 <= stop)%Z) ->
            NoDup (range_pos fuel cur stop step) /\
            ((0 < step)%Z -> Forall (fun p => (cur <= Z.of_nat p)%Z) (range_pos fuel cur stop step)) /\
            ((step < 0)%Z -> Forall (fun p => (Z.of_nat p <= cur)%Z) (range_pos fuel cur stop step))).
  { clear. induction fuel as [|f IH]; intros cur stop step H1 H2; simpl.
    - repeat split; constructor.
    - destruct (Z.ltb_spec 0 step) as [Hs|Hs].
      + destruct (Z.ltb_spec cur stop) as [Hlt|Hge]; [|repeat split; constructor].
        specialize (H1 Hs).
        destruct (IH (cur + step)%Z stop step ltac:(lia) ltac:(lia)) as [N [F1 _]]. specialize (F1 Hs).
        repeat split.
        * constructor; auto. intros Hin. rewrite Forall_forall in F1. specialize (F1 _ Hin). lia.
        * intros _. constructor; [lia|]. eapply Forall_impl; [|exact F1]. simpl. intros; lia.
        * intros; lia.
      + destruct (Z.ltb_spec step 0) as [Hn|Hz]; [|repeat split; constructor].
        destruct (Z.ltb_spec stop cur) as [Hlt|Hge]; [|repeat split; constructor].
        specialize (H2 Hn).
        destruct (IH (cur + step)%Z stop step ltac:(lia) ltac:(lia)) as [N [_ F2]]. specialize (F2 Hn).
        repeat split.
        * constructor; auto. intros Hin. rewrite Forall_forall in F2. specialize (F2 _ Hin). lia.
        * intros; lia.
        * intros _. constructor; [lia|]. eapply Forall_impl; [|exact F2]. simpl. intros; lia. }
  intros H1 H2. apply G; assumption.
Qed.

Lemma rev_NoDup {A} (l : list A) : NoDup l -> NoDup (rev l).
Proof.
  induction 1 as [|a t Ha Ht IH]; simpl; [constructor|].
  apply NoDup_app_intro2; auto.
  - constructor; [simpl; tauto|constructor].
  - intros x Hx [<-|[]]. apply Ha. apply in_rev. exact Hx.
Qed.

Lemma nodupZ_NoDup l : nodupZ l = true -> NoDup l.
Proof.
  induction l as [|x t IH]; simpl; intros H; [constructor|].
  apply andb_true_iff in H. destruct H as [H1 H2]. constructor; auto.
  intros Hin. apply negb_true_iff in H1.
  assert (existsb (Z.eqb x) t = true) by (apply existsb_exists; exists x; split; auto; apply Z.eqb_refl).
  congruence.
Qed.
Lemma nodupN_NoDup l : nodupN l = true -> NoDup l.
Proof.
  induction l as [|x t IH]; simpl; intros H; [constructor|].
  apply andb_true_iff in H. destruct H as [H1 H2]. constructor; auto.
  intros Hin. apply negb_true_iff in H1.
  assert (existsb (Nat.eqb x) t = true) by (apply existsb_exists; exists x; split; auto; apply Nat.eqb_refl).
  congruence.
Qed.

Lemma mapM_index_NoDup labels ls ps :
  NoDup ls -> mapM_opt (fun l => index_of l labels) ls = Some ps -> NoDup ps.
Proof.
  intros Hnd. revert ps. induction Hnd as [|l t Hnin Hnd IH]; simpl; intros ps H.
  - injection H as <-. constructor.
  - destruct (index_of l labels) as [k|] eqn:E; [|discriminate].
    destruct (mapM_opt _ t) as [ks|] eqn:E2; [|discriminate]. injection H as <-.
    constructor; [|apply IH; reflexivity].
    intros Hin.
    (* some l' in t has the same index, hence is the same label *)
    assert (G : forall t ks, mapM_opt (fun l => index_of l labels) t = Some ks -> In k ks ->
                exists l', In l' t /\ index_of l' labels = Some k).
    { clear. induction t as [|a t IH]; simpl; intros ks H Hin.
      - injection H as <-. contradiction.
      - destruct (index_of a labels) as [j|] eqn:Ea; [|discriminate].
        destruct (mapM_opt _ t) as [js|] eqn:Et; [|discriminate]. injection H as <-.
        destruct Hin as [->|Hin]; [exists a; auto|].
        destruct (IH js eq_refl Hin) as [l' [H1 H2]]. exists l'. auto. }
    destruct (G t ks E2 Hin) as [l' [Hl' El']].
    apply index_of_Some in E. apply index_of_Some in El'. destruct E as [_ E]. destruct El' as [_ El'].
    assert (l = l') by congruence. subst. contradiction.
Qed.

Theorem resolve_NoDup labels s ps :
  sel_ok s = true -> resolve labels s = Ok ps -> NoDup ps.
Proof.
  destruct s as [|ls|a b rv|qs|a b st|bs]; unfold resolve, sel_ok; intros Hok H.
  - injection H as <-. apply seq_NoDup.
  - destruct (mapM_opt _ ls) as [qs|] eqn:E; [|discriminate]. injection H as <-.
    eapply mapM_index_NoDup; eauto. apply nodupZ_NoDup. exact Hok.
  - destruct (index_of a labels) as [i|]; [|discriminate]. destruct (index_of b labels) as [j|]; [|discriminate].
    destruct rv; injection H as <-; [apply rev_NoDup|]; apply seq_NoDup.
  - destruct (forallb _ qs); [|discriminate]. injection H as <-. apply nodupN_NoDup. exact Hok.
  - destruct (forallb _ _); [|discriminate]. injection H as <-.
    apply andb_true_iff in Hok. destruct Hok as [H1 H2].
    apply orb_true_iff in H1. apply orb_true_iff in H2.
    match goal with |- NoDup ?x => change x with (range_pos (S (length labels)) a b st) end.
    apply range_pos_NoDup; intros Hs.
    + destruct H1 as [H1|H1]; [apply Z.leb_le in H1; lia|apply Z.leb_le in H1; exact H1].
    + destruct H2 as [H2|H2]; [apply Z.leb_le in H2; lia|apply Z.leb_le in H2; exact H2].
  - destruct (Nat.eqb_spec (length bs) (length labels)); [|discriminate]. injection H as <-. apply mask_pos_NoDup.
Qed.

Theorem apply_op_wf o d d' : wf d -> op_ok o = true -> apply_op o d = Ok d' -> wf d'.
Proof.
  intros Hwf Hok. destruct o as [rs cs| |]; simpl in *.
  - destruct (resolve (alts d) rs) as [rp|e] eqn:Er; [|discriminate].
    destruct (resolve (crits d) cs) as [cp|e] eqn:Ec; [|discriminate].
    intros [= <-]. apply andb_true_iff in Hok. destruct Hok as [O1 O2].
    apply select_wf; auto.
    + eapply resolve_NoDup; [exact O1|exact Er].
    + eapply resolve_NoDup; [exact O2|exact Ec].
    + eapply resolve_in_range; exact Er.
    + eapply resolve_in_range; exact Ec.
  - intros [= <-]. exact Hwf.
  - intros [= <-]. exact Hwf.
Qed.

Lemma run_ops_run_wf ops d d' :
  wf d -> forallb op_ok ops = true -> run_ops ops d = Ok d' -> run_wf ops d d' /\ wf d'.
Proof.
  revert d. induction ops as [|o t IH]; intros d Hwf Hok H; simpl in *.
  - injection H as <-. split; [constructor|]; exact Hwf.
  - apply andb_true_iff in Hok. destruct Hok as [Ho Ht].
    destruct (apply_op o d) as [d1|e] eqn:E; [|discriminate].
    pose proof (apply_op_wf o d d1 Hwf Ho E) as Hwf1.
    destruct (IH d1 Hwf1 Ht H) as [R W]. split; auto.
    econstructor; eauto.
Qed.

(* THE chain theorem, directly about run_ops: any finite chain of selections, copies and round trips in
   which nothing is listed twice keeps every criterion's own objective, weight, dtype and cells *)
Theorem run_ops_aligned ops d d' :
  wf d -> forallb op_ok ops = true -> run_ops ops d = Ok d' -> aligned d d' /\ wf d'.
Proof.
  intros Hwf Hok H. destruct (run_ops_run_wf ops d d' Hwf Hok H) as [R W]. split; auto.
  apply run_aligned with (ops := ops). exact R.
Qed.
