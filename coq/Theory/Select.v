From Coq Require Import ZArith QArith List Bool Arith Lia.
From SKC Require Import Model.Agg Model.Select.
Import ListNotations.
Local Open Scope nat_scope.
Local Arguments Nat.sub : simpl never.

(* ---- index_of ------------------------------------------------------------------ *)
Lemma index_of_Some x l k : index_of x l = Some k -> k < length l /\ nth_error l k = Some x.
Proof.
  revert k. induction l as [|y t IH]; simpl; intros k H; [discriminate|].
  destruct (Z.eqb_spec x y) as [->|Hne].
  - injection H as <-. simpl. split; [lia|reflexivity].
  - destruct (index_of x t) as [j|] eqn:E; [|discriminate]. injection H as <-.
    destruct (IH j eq_refl) as [H1 H2]. simpl. split; [lia|exact H2].
Qed.

Lemma index_of_None x l : index_of x l = None -> ~ In x l.
Proof.
  induction l as [|y t IH]; simpl; intros H; [tauto|].
  destruct (Z.eqb_spec x y) as [->|Hne]; [discriminate|].
  destruct (index_of x t) eqn:E; [discriminate|]. intros [E'|E']; [congruence|]. apply IH; auto.
Qed.

Lemma index_of_In x l : In x l -> exists k, index_of x l = Some k.
Proof.
  intros H. destruct (index_of x l) eqn:E; eauto. apply index_of_None in E. contradiction.
Qed.

Lemma index_of_nth l k x : NoDup l -> nth_error l k = Some x -> index_of x l = Some k.
Proof.
  revert k. induction l as [|y t IH]; intros k Hnd Hk; [destruct k; discriminate|].
  inversion Hnd as [|? ? Hnin Hnd']; subst. simpl.
  destruct k; simpl in Hk.
  - injection Hk as ->. rewrite Z.eqb_refl. reflexivity.
  - destruct (Z.eqb_spec x y) as [->|Hne].
    + exfalso. apply Hnin. eapply nth_error_In; eauto.
    + rewrite (IH k Hnd' Hk). reflexivity.
Qed.

(* ---- gather ---------------------------------------------------------------------- *)
Lemma gather_nth_error {A} (d : A) ps l k p :
  nth_error ps k = Some p -> nth_error (gather d ps l) k = Some (nth p l d).
Proof. intros H. unfold gather. rewrite nth_error_map, H. reflexivity. Qed.

Lemma gather_length {A} (d : A) ps l : length (gather d ps l) = length ps.
Proof. apply map_length. Qed.

Lemma nth_nth_error {A} (d : A) l p : p < length l -> nth_error l p = Some (nth p l d).
Proof. intros H. apply nth_error_nth'. exact H. Qed.

(* looking a label up in a gathered label list finds a position that holds the same label
   in the source list *)
Lemma index_of_gather L ps c k :
  NoDup L -> Forall (fun p => p < length L) ps ->
  index_of c (gather 0%Z ps L) = Some k ->
  exists p, nth_error ps k = Some p /\ p < length L /\ index_of c L = Some p.
Proof.
  intros Hnd Hps H. apply index_of_Some in H. destruct H as [Hk Hn].
  rewrite gather_length in Hk.
  destruct (nth_error ps k) as [p|] eqn:E; [|apply nth_error_None in E; lia].
  exists p. rewrite (gather_nth_error 0%Z ps L k p E) in Hn. injection Hn as Hn.
  assert (Hp : p < length L).
  { rewrite Forall_forall in Hps. apply Hps. eapply nth_error_In; eauto. }
  repeat split; auto. apply index_of_nth; auto. rewrite <- Hn. apply nth_nth_error. exact Hp.
Qed.

(* ---- positions produced by resolve are in range ------------------------------------- *)
Lemma mapM_opt_index ls labels ps :
  mapM_opt (fun l => index_of l labels) ls = Some ps ->
  Forall (fun p => p < length labels) ps /\ gather 0%Z ps labels = ls.
Proof.
  revert ps. induction ls as [|l t IH]; simpl; intros ps H.
  - injection H as <-. split; constructor.
  - destruct (index_of l labels) as [k|] eqn:E; [|discriminate].
    destruct (mapM_opt _ t) as [ks|] eqn:E2; [|discriminate]. injection H as <-.
    destruct (IH ks eq_refl) as [H1 H2]. apply index_of_Some in E. destruct E as [Hk Hn].
    split; [constructor; auto|]. simpl. rewrite H2. f_equal.
    apply nth_error_nth with (d := 0%Z) in Hn. exact Hn.
Qed.

Lemma mask_pos_bound bs k : Forall (fun p => p < k + length bs) (mask_pos k bs).
Proof.
  revert k. induction bs as [|b t IH]; intros k; simpl; [constructor|].
  specialize (IH (S k)).
  assert (H : Forall (fun p => p < k + S (length t)) (mask_pos (S k) t)).
  { eapply Forall_impl; [|exact IH]. simpl. intros a Ha. lia. }
  destruct b; [constructor; [lia|exact H]|exact H].
Qed.

Lemma forallb_ltb ps n : forallb (fun p => p <? n) ps = true -> Forall (fun p => p < n) ps.
Proof.
  intros H. rewrite forallb_forall in H. apply Forall_forall. intros p Hp.
  apply Nat.ltb_lt. apply H. exact Hp.
Qed.

Theorem resolve_in_range labels s ps :
  resolve labels s = Ok ps -> Forall (fun p => p < length labels) ps.
Proof.
  destruct s as [|ls|a b rv|qs|a b st|bs]; simpl; intros H.
  - injection H as <-. apply Forall_forall. intros p Hp. apply in_seq in Hp. lia.
  - destruct (mapM_opt _ ls) as [qs|] eqn:E; [|discriminate]. injection H as <-.
    apply (mapM_opt_index ls labels qs E).
  - destruct (index_of a labels) as [i|] eqn:Ea; [|discriminate].
    destruct (index_of b labels) as [j|] eqn:Eb; [|discriminate].
    apply index_of_Some in Ea. apply index_of_Some in Eb.
    destruct Ea as [Ea _]. destruct Eb as [Eb _].
    destruct rv; injection H as <-; apply Forall_forall; intros p Hp.
    + rewrite <- in_rev in Hp. apply in_seq in Hp. lia.
    + apply in_seq in Hp. lia.
  - destruct (forallb _ qs) eqn:E; [|discriminate]. injection H as <-. apply forallb_ltb. exact E.
  - destruct (forallb _ _) eqn:E; [|discriminate]. injection H as <-. apply forallb_ltb. exact E.
  - destruct (Nat.eqb_spec (length bs) (length labels)) as [E|E]; [|discriminate].
    injection H as <-. rewrite <- E. apply (mask_pos_bound bs 0).
Qed.

(* a list of labels selects exactly those labels, in the requested order *)
Theorem resolve_labels_order labels ls ps :
  resolve labels (SLabels ls) = Ok ps -> gather 0%Z ps labels = ls.
Proof.
  simpl. destruct (mapM_opt _ ls) as [qs|] eqn:E; [|discriminate]. intros [= <-].
  apply (mapM_opt_index ls labels qs E).
Qed.

Theorem resolve_missing_label labels ls :
  (exists l, In l ls /\ ~ In l labels) -> resolve labels (SLabels ls) = Err E_KEY.
Proof.
  intros [l [Hl Hn]]. simpl.
  destruct (mapM_opt _ ls) as [qs|] eqn:E; auto. exfalso.
  revert qs E. induction ls as [|x t IH]; simpl; intros qs E; [contradiction|].
  destruct (index_of x labels) as [k|] eqn:Ex; [|discriminate].
  destruct (mapM_opt _ t) as [ks|] eqn:Et; [|discriminate].
  destruct Hl as [->|Hl].
  - apply index_of_Some in Ex. destruct Ex as [_ Ex]. apply Hn. eapply nth_error_In; eauto.
  - eapply IH; eauto.
Qed.

(* ---- one selection keeps every criterion's own data --------------------------------- *)
Definition aligned (d d' : dmx) : Prop :=
  forall c, In c (crits d') ->
    obj_of d' c = obj_of d c /\ wt_of d' c = wt_of d c /\ dt_of d' c = dt_of d c /\
    forall a, In a (alts d') -> cell_of d' a c = cell_of d a c.

Lemma view_gather {A} (dflt : A) (L : list Z) (X : list A) ps c :
  NoDup L -> length X = length L -> Forall (fun p => p < length L) ps ->
  In c (gather 0%Z ps L) ->
  match index_of c (gather 0%Z ps L) with
  | Some j => nth_error (gather dflt ps X) j | None => None end =
  match index_of c L with Some j => nth_error X j | None => None end.
Proof.
  intros Hnd HX Hps Hin.
  destruct (index_of_In _ _ Hin) as [k Hk]. rewrite Hk.
  destruct (index_of_gather L ps c k Hnd Hps Hk) as [p [Hp [Hlt Hi]]].
  rewrite Hi, (gather_nth_error dflt ps X k p Hp).
  symmetry. apply nth_nth_error. lia.
Qed.

Theorem select_aligned rp cp d :
  wf d ->
  Forall (fun p => p < length (alts d)) rp -> Forall (fun p => p < length (crits d)) cp ->
  aligned d (select rp cp d).
Proof.
  intros [Hna [Hnc [Hrows [Hrect [Ho [Hw Hd]]]]]] Hrp Hcp c Hc.
  unfold obj_of, wt_of, dt_of, cell_of. cbn [alts crits cells objs wts dts select] in *.
  repeat split.
  - apply view_gather; auto.
  - apply view_gather; auto.
  - apply view_gather; auto.
  - intros a Ha.
    destruct (index_of_In _ _ Ha) as [i Hi]. destruct (index_of_In _ _ Hc) as [k Hk].
    rewrite Hi, Hk.
    destruct (index_of_gather _ rp a i Hna Hrp Hi) as [p [Hp [Hplt Hpi]]].
    destruct (index_of_gather _ cp c k Hnc Hcp Hk) as [q [Hq [Hqlt Hqi]]].
    rewrite Hpi, Hqi.
    rewrite nth_error_map, (gather_nth_error [] rp (cells d) i p Hp). cbn [option_map].
    rewrite (gather_nth_error 0%Q cp _ k q Hq).
    rewrite (nth_nth_error [] (cells d) p) by lia.
    symmetry. apply nth_nth_error.
    rewrite Forall_forall in Hrect. rewrite (Hrect (nth p (cells d) [])); [exact Hqlt|].
    apply nth_In. lia.
Qed.

Theorem apply_op_aligned o d d' : wf d -> apply_op o d = Ok d' -> aligned d d'.
Proof.
  intros Hwf. destruct o as [rs cs| |]; simpl.
  - destruct (resolve (alts d) rs) as [rp|e] eqn:Er; [|discriminate].
    destruct (resolve (crits d) cs) as [cp|e] eqn:Ec; [|discriminate].
    intros [= <-]. apply select_aligned; auto; eapply resolve_in_range; eauto.
  - intros [= <-]. intros c Hc. repeat split.
  - intros [= <-]. intros c Hc. repeat split.
Qed.

(* the derived matrix lists criteria / alternatives in the order the selection asked for *)
Theorem select_order rp cp d :
  crits (select rp cp d) = map (fun p => nth p (crits d) 0%Z) cp /\
  alts (select rp cp d) = map (fun p => nth p (alts d) 0%Z) rp.
Proof. split; reflexivity. Qed.

(* ---- chains ---------------------------------------------------------------------------- *)
Inductive run_wf : list op -> dmx -> dmx -> Prop :=
| rw_nil d : wf d -> run_wf [] d d
| rw_cons o t d d1 d' : wf d -> apply_op o d = Ok d1 -> run_wf t d1 d' -> run_wf (o :: t) d d'.

Lemma run_wf_run ops d d' : run_wf ops d d' -> run_ops ops d = Ok d'.
Proof. induction 1; simpl; auto. rewrite H0. exact IHrun_wf. Qed.

Lemma aligned_subset_crits o d d' c : apply_op o d = Ok d' -> In c (crits d') -> In c (crits d).
Proof.
  destruct o as [rs cs| |]; simpl.
  - destruct (resolve (alts d) rs) as [rp|e] eqn:Er; [|discriminate].
    destruct (resolve (crits d) cs) as [cp|e] eqn:Ec; [|discriminate].
    intros [= <-]. cbn [crits select]. unfold gather. intros H. apply in_map_iff in H.
    destruct H as [p [<- Hp]]. apply nth_In.
    pose proof (resolve_in_range _ _ _ Ec) as R. rewrite Forall_forall in R. apply R. exact Hp.
  - intros [= <-]. auto.
  - intros [= <-]. auto.
Qed.

Lemma aligned_subset_alts o d d' a : apply_op o d = Ok d' -> In a (alts d') -> In a (alts d).
Proof.
  destruct o as [rs cs| |]; simpl.
  - destruct (resolve (alts d) rs) as [rp|e] eqn:Er; [|discriminate].
    destruct (resolve (crits d) cs) as [cp|e] eqn:Ec; [|discriminate].
    intros [= <-]. cbn [alts select]. unfold gather. intros H. apply in_map_iff in H.
    destruct H as [p [<- Hp]]. apply nth_In.
    pose proof (resolve_in_range _ _ _ Er) as R. rewrite Forall_forall in R. apply R. exact Hp.
  - intros [= <-]. auto.
  - intros [= <-]. auto.
Qed.

Theorem run_aligned ops d d' : run_wf ops d d' -> aligned d d'.
Proof.
  induction 1 as [d Hwf|o t d d1 d' Hwf Hop Hrun IH].
  - intros c Hc. repeat split.
  - pose proof (apply_op_aligned o d d1 Hwf Hop) as A1.
    intros c Hc.
    assert (Hc1 : In c (crits d1)).
    { clear - Hrun Hc. induction Hrun; auto. apply IHHrun in Hc. eapply aligned_subset_crits; eauto. }
    destruct (IH c Hc) as [E1 [E2 [E3 E4]]]. destruct (A1 c Hc1) as [F1 [F2 [F3 F4]]].
    repeat split; try congruence.
    intros a Ha.
    assert (Ha1 : In a (alts d1)).
    { clear - Hrun Ha. induction Hrun; auto. apply IHHrun in Ha. eapply aligned_subset_alts; eauto. }
    rewrite (E4 a Ha). apply F4. exact Ha1.
Qed.

(* ---- aliases --------------------------------------------------------------------------- *)
Theorem alias_table_sound :
  (forall c, In c max_codes -> alias_sense c = Some true) /\
  (forall c, In c min_codes -> alias_sense c = Some false).
Proof.
  split; intros c Hc; simpl in Hc;
    repeat (destruct Hc as [<-|Hc]; [vm_compute; reflexivity|]); contradiction.
Qed.
