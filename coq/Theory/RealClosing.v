(* The irrational closing steps (sqrt, ln) as real-valued functions and the properties the
   harness relies on.  Axioms: the standard library's real-number axioms only (see Print Assumptions). *)
From Coq Require Import Reals Lra List.
Import ListNotations.
Local Open Scope R_scope.

(* ---- TOPSIS with the euclidean metric: closeness from the squared distances ------------------------ *)
Definition closeness (dbetter2 dworst2 : R) : R := sqrt dworst2 / (sqrt dbetter2 + sqrt dworst2).

(* nearer to the ideal (a <= b) and farther from the anti-ideal (d <= c) never lowers the closeness *)
Theorem closeness_monotone (a b c d : R) :
  0 <= a <= b -> 0 <= d <= c -> 0 < sqrt a + sqrt c -> 0 < sqrt b + sqrt d ->
  closeness b d <= closeness a c.
Proof.
  intros [Ha Hab] [Hd Hdc] P1 P2. unfold closeness.
  assert (Sa := sqrt_pos a). assert (Sb := sqrt_pos b). assert (Sc := sqrt_pos c). assert (Sd := sqrt_pos d).
  assert (Lab : sqrt a <= sqrt b) by (apply sqrt_le_1; lra).
  assert (Ldc : sqrt d <= sqrt c) by (apply sqrt_le_1; lra).
  apply (Rmult_le_reg_r ((sqrt a + sqrt c) * (sqrt b + sqrt d))); [nra|].
  replace (sqrt d / (sqrt b + sqrt d) * ((sqrt a + sqrt c) * (sqrt b + sqrt d)))
    with (sqrt d * (sqrt a + sqrt c)) by (field; lra).
  replace (sqrt c / (sqrt a + sqrt c) * ((sqrt a + sqrt c) * (sqrt b + sqrt d)))
    with (sqrt c * (sqrt b + sqrt d)) by (field; lra).
  nra.
Qed.

Theorem closeness_bounds (a c : R) : 0 <= a -> 0 <= c -> 0 < sqrt a + sqrt c -> 0 <= closeness a c <= 1.
Proof.
  intros Ha Hc P. unfold closeness. assert (Sa := sqrt_pos a). assert (Sc := sqrt_pos c). split.
  - apply Rmult_le_pos; [lra|]. left. apply Rinv_0_lt_compat. exact P.
  - apply (Rmult_le_reg_r (sqrt a + sqrt c)); [exact P|].
    replace (sqrt c / (sqrt a + sqrt c) * (sqrt a + sqrt c)) with (sqrt c) by (field; lra). lra.
Qed.

(* multiplying every weight by k > 0 multiplies both squared distances by k^2: closeness unchanged *)
Theorem closeness_scale (k a c : R) : 0 < k -> 0 <= a -> 0 <= c -> 0 < sqrt a + sqrt c ->
  closeness (k * k * a) (k * k * c) = closeness a c.
Proof.
  intros Hk Ha Hc P. unfold closeness.
  assert (E : forall x, 0 <= x -> sqrt (k * k * x) = k * sqrt x).
  { intros x Hx. rewrite sqrt_mult by nra. rewrite sqrt_square by lra. reflexivity. }
  rewrite !E by assumption. field. split; nra.
Qed.

(* ---- division by a positive real (VectorScaler, StandarScaler) keeps every comparison -------------- *)
Theorem div_pos_keeps_order (s x y : R) : 0 < s -> (x / s < y / s <-> x < y).
Proof.
  intros Hs. split; intros H.
  - apply (Rmult_lt_reg_r (/ s)); [apply Rinv_0_lt_compat; exact Hs|exact H].
  - apply Rmult_lt_compat_r; [apply Rinv_0_lt_compat; exact Hs|exact H].
Qed.

(* each squared output cell of VectorScaler is x^2 / sum of squares, so the squares sum to one *)
Theorem vector_scale_cell_square (s x : R) : 0 < s -> (x / sqrt s) * (x / sqrt s) = x * x / s.
Proof.
  intros Hs. assert (P : 0 < sqrt s) by (apply sqrt_lt_R0; exact Hs).
  assert (E : sqrt s * sqrt s = s) by (apply sqrt_sqrt; lra).
  replace (x / sqrt s * (x / sqrt s)) with (x * x / (sqrt s * sqrt s)) by (field; lra).
  rewrite E. reflexivity.
Qed.

(* ---- logarithmic scores: WPM (sum_j w_j log a_ij) and FMF (signed sum of log (w_j a_ij)) ----------- *)
Fixpoint rsum (l : list R) : R := match l with [] => 0 | x :: t => x + rsum t end.

Fixpoint wlog (w a : list R) : R :=      (* sum_j w_j * ln a_j ; log10 differs by the positive factor 1/ln 10 *)
  match w, a with
  | wj :: w', aj :: a' => wj * ln aj + wlog w' a'
  | _, _ => 0
  end.

(* at least as good everywhere (all criteria maximised, positive data, positive weights) *)
Inductive geq_all : list R -> list R -> Prop :=
| ga_nil : geq_all [] []
| ga_cons x y xs ys : 0 < y -> y <= x -> geq_all xs ys -> geq_all (x :: xs) (y :: ys).

Theorem wpm_monotone w a b :
  geq_all a b -> Forall (fun x => 0 < x) w -> length w = length a -> wlog w b <= wlog w a.
Proof.
  intros H. revert w. induction H as [|x y xs ys Hy Hxy _ IH]; intros [|wj w] Hw L; simpl in *; try lra; try discriminate.
  inversion Hw as [|? ? Hwj Hw']; subst.
  assert (ln y <= ln x).
  { destruct (Rle_lt_or_eq_dec _ _ Hxy) as [Lt|Eq]; [left; apply ln_increasing; lra|subst; lra]. }
  specialize (IH w Hw' ltac:(injection L; auto)). nra.
Qed.

(* positive multiples of the weights keep the order of any two WPM scores *)
Lemma wlog_scale c w a : wlog (map (Rmult c) w) a = c * wlog w a.
Proof.
  revert a. induction w as [|wj w IH]; intros [|aj a]; simpl; try lra. rewrite IH. lra.
Qed.

Theorem wpm_weight_scale c w a b : 0 < c ->
  (wlog (map (Rmult c) w) a < wlog (map (Rmult c) w) b <-> wlog w a < wlog w b).
Proof. intros Hc. rewrite !wlog_scale. split; intros H; nra. Qed.

(* FMF: sum over maximise criteria of ln(w x) minus sum over minimise criteria; scaling every weight
   by c > 0 shifts EVERY alternative's score by the same constant, so the order is unchanged *)
Fixpoint fmf (objs : list bool) (w a : list R) : R :=
  match objs, w, a with
  | o :: os, wj :: w', aj :: a' => (if o then ln (wj * aj) else - ln (wj * aj)) + fmf os w' a'
  | _, _, _ => 0
  end.
Fixpoint fmf_shift (objs : list bool) (c : R) : R :=
  match objs with [] => 0 | o :: os => (if o then ln c else - ln c) + fmf_shift os c end.

Theorem fmf_weight_scale c objs w a :
  0 < c -> Forall (fun x => 0 < x) w -> Forall (fun x => 0 < x) a ->
  length w = length objs -> length a = length objs ->
  fmf objs (map (Rmult c) w) a = fmf objs w a + fmf_shift objs c.
Proof.
  intros Hc. revert w a. induction objs as [|o os IH]; intros [|wj w] [|aj a] Hw Ha Lw La; simpl in *;
    try lra; try discriminate.
  inversion Hw as [|? ? Hwj Hw']; inversion Ha as [|? ? Haj Ha']; subst.
  rewrite (IH w a Hw' Ha') by (injection Lw; injection La; auto).
  assert (E : ln (c * wj * aj) = ln c + ln (wj * aj)).
  { replace (c * wj * aj) with (c * (wj * aj)) by ring. apply ln_mult; nra. }
  destruct o; rewrite E; lra.
Qed.

(* FMF monotone: better (larger on maximise, smaller on minimise criteria) never lowers the score *)
Inductive fmf_geq : list bool -> list R -> list R -> Prop :=
| fg_nil : fmf_geq [] [] []
| fg_max x y os xs ys : 0 < y -> y <= x -> fmf_geq os xs ys -> fmf_geq (true :: os) (x :: xs) (y :: ys)
| fg_min x y os xs ys : 0 < x -> x <= y -> fmf_geq os xs ys -> fmf_geq (false :: os) (x :: xs) (y :: ys).

Lemma ln_le x y : 0 < x -> x <= y -> ln x <= ln y.
Proof. intros Hx H. destruct (Rle_lt_or_eq_dec _ _ H) as [Lt|Eq]; [left; apply ln_increasing; lra|subst; lra]. Qed.

Theorem fmf_monotone objs w a b :
  fmf_geq objs a b -> Forall (fun x => 0 < x) w -> length w = length objs -> fmf objs w b <= fmf objs w a.
Proof.
  intros H. revert w. induction H as [|x y os xs ys Hy Hxy _ IH|x y os xs ys Hx Hxy _ IH];
    intros [|wj w] Hw L; simpl in *; try lra; try discriminate;
    inversion Hw as [|? ? Hwj Hw']; subst; specialize (IH w Hw' ltac:(injection L; auto)).
  - assert (ln (wj * y) <= ln (wj * x)) by (apply ln_le; nra). lra.
  - assert (ln (wj * x) <= ln (wj * y)) by (apply ln_le; nra). lra.
Qed.

(* ---- EntropyWeighter: 1 - H(p) / ln n is non-negative (Gibbs' inequality), hence the weights are ------ *)
Fixpoint plogp (l : list R) : R := match l with [] => 0 | p :: t => p * ln p + plogp t end.

Lemma ln_le_minus_1 y : 0 < y -> ln y <= y - 1.
Proof. intros Hy. pose proof (exp_ineq1_le (ln y)) as H. rewrite exp_ln in H by exact Hy. lra. Qed.

(* term by term: p ln p >= p ln c + p - c for every c > 0 (with 0 ln 0 = 0, as scipy.stats.entropy) *)
Lemma plogp_term c p : 0 < c -> 0 <= p -> p * ln c + p - c <= p * ln p.
Proof.
  intros Hc [Hp|<-]; [|lra].
  assert (Q : 0 < c / p) by (apply Rdiv_lt_0_compat; assumption).
  pose proof (ln_le_minus_1 (c / p) Q) as H.
  unfold Rdiv in H. rewrite ln_mult in H by (try assumption; apply Rinv_0_lt_compat; exact Hp).
  rewrite ln_Rinv in H by exact Hp.
  assert (E : p * (c * / p - 1) = c - p) by (field; lra).
  assert (p * (ln c + - ln p) <= p * (c * / p - 1)) by (apply Rmult_le_compat_l; lra).
  lra.
Qed.

Lemma plogp_lower c l : 0 < c -> Forall (fun p => 0 <= p) l ->
  ln c * rsum l + rsum l - c * INR (length l) <= plogp l.
Proof.
  intros Hc F. induction F as [|p t Hp _ IH]; [simpl; lra|].
  change (plogp (p :: t)) with (p * ln p + plogp t). change (rsum (p :: t)) with (p + rsum t).
  change (length (p :: t)) with (S (length t)). rewrite S_INR.
  pose proof (plogp_term c p Hc Hp). lra.
Qed.

(* the Shannon entropy of a probability vector of length n is at most ln n *)
Theorem entropy_le_ln_n l :
  l <> [] -> Forall (fun p => 0 <= p) l -> rsum l = 1 -> - plogp l <= ln (INR (length l)).
Proof.
  intros Hne F S1.
  assert (Hn : 0 < INR (length l)) by (apply lt_0_INR; destruct l; [congruence|simpl; apply Nat.lt_0_succ]).
  pose proof (plogp_lower (/ INR (length l)) l (Rinv_0_lt_compat _ Hn) F) as H.
  rewrite S1, ln_Rinv in H by exact Hn.
  rewrite Rinv_l in H by lra. lra.
Qed.

(* so each criterion's diversity 1 - H / ln n is in [0, 1] for n >= 2 alternatives *)
Theorem entropy_diversity_bounds l :
  (2 <= length l)%nat -> Forall (fun p => 0 <= p) l -> Forall (fun p => p <= 1) l -> rsum l = 1 ->
  0 <= 1 + plogp l / ln (INR (length l)) <= 1.
Proof.
  intros Hn F F1 S1.
  assert (Hne : l <> []) by (destruct l; [simpl in Hn; inversion Hn|discriminate]).
  assert (L : 0 < ln (INR (length l))).
  { rewrite <- ln_1. apply ln_increasing; [lra|]. change 1 with (INR 1). apply lt_INR. exact Hn. }
  pose proof (entropy_le_ln_n l Hne F S1) as E.
  assert (NP : plogp l <= 0).
  { clear -F F1. induction F as [|p t Hp _ IH]; [simpl; lra|]. inversion F1 as [|? ? Hp1 Ft]; subst.
    change (plogp (p :: t)) with (p * ln p + plogp t). specialize (IH Ft).
    assert (p * ln p <= 0).
    { destruct Hp as [Hp|<-]; [|lra].
      assert (ln p <= 0) by (rewrite <- ln_1; destruct Hp1 as [Hlt| ->]; [left; apply ln_increasing; assumption|lra]).
      nra. }
    lra. }
  split.
  - apply (Rmult_le_reg_r (ln (INR (length l)))); [exact L|].
    replace ((1 + plogp l / ln (INR (length l))) * ln (INR (length l))) with (ln (INR (length l)) + plogp l) by (field; lra).
    lra.
  - assert (plogp l / ln (INR (length l)) <= 0).
    { unfold Rdiv. replace 0 with (0 * / ln (INR (length l))) by ring.
      apply Rmult_le_compat_r; [left; apply Rinv_0_lt_compat; exact L|exact NP]. }
    lra.
Qed.
