From Coq Require Import List Arith Lia.
From SKC Require Import Model.Stateless.
Import ListNotations.

Section Facts.
  Variables P D O : Type.
  Variable apply : P -> D -> O.

  Lemma run_state s ds : fst (run apply s ds) = s.
  Proof. revert s. induction ds as [|d t IH]; intros s; simpl; auto. destruct (run apply s t) eqn:E.
         simpl. specialize (IH s). rewrite E in IH. exact IH. Qed.

  Lemma run_outputs s ds : snd (run apply s ds) = map (apply s) ds.
  Proof. revert s. induction ds as [|d t IH]; intros s; simpl; auto. destruct (run apply s t) eqn:E.
         simpl. specialize (IH s). rewrite E in IH. simpl in IH. rewrite IH. reflexivity. Qed.

  (* the output for a probe matrix is the same at every position of every call sequence *)
  Theorem probe_position_independent s before after probe d :
    nth (length before) (snd (run apply s (before ++ probe :: after))) d = apply s probe.
  Proof.
    rewrite run_outputs, map_app. simpl. rewrite app_nth2 by (rewrite map_length; lia).
    rewrite map_length, Nat.sub_diag. reflexivity.
  Qed.

  Theorem same_params_same_behaviour s1 s2 ds : s1 = s2 -> run apply s1 ds = run apply s2 ds.
  Proof. intros ->. reflexivity. Qed.

  Theorem object_unchanged_by_calls s ds : fst (run apply s ds) = s.
  Proof. apply run_state. Qed.
End Facts.

(* what the sequence test decides: "the probe returns, after every history, what a fresh object returns" is EQUIVALENT to
   "no reachable hidden state influences any output" - the test's statement is the property, not a consequence of it *)
Section HiddenFacts.
  Variables P H D O : Type.
  Variable out : P -> H -> D -> O.
  Variable next : P -> H -> D -> H.
  Variable h0 : P -> H.

  Theorem probe_test_characterises_statelessness p :
    state_blind out next h0 p <-> forall ds probe, probe_after out next h0 p ds probe = fresh out h0 p probe.
  Proof. unfold state_blind, probe_after, fresh. split; intros Hb ds d; apply Hb. Qed.

  (* a state-blind object behaves like the stateless model: outputs of any sequence are the fresh outputs *)
  Fixpoint run_hidden (p : P) (h : H) (ds : list D) : list O :=
    match ds with [] => [] | d :: t => out p h d :: run_hidden p (next p h d) t end.

  Lemma run_hidden_from p pre : forall ds,
    state_blind out next h0 p -> run_hidden p (after next h0 p pre) ds = map (fresh out h0 p) ds.
  Proof.
    intros ds Hb. revert pre. induction ds as [|d t IH]; intros pre; cbn [run_hidden map]; [reflexivity|].
    rewrite (Hb pre d). f_equal.
    replace (next p (after next h0 p pre) d) with (after next h0 p (pre ++ [d])) by (unfold after; rewrite fold_left_app; reflexivity).
    apply IH.
  Qed.

  Theorem blind_objects_are_the_stateless_model p ds :
    state_blind out next h0 p -> run_hidden p (h0 p) ds = map (fresh out h0 p) ds.
  Proof. intros Hb. exact (run_hidden_from p [] ds Hb). Qed.

  (* conversely one reachable state that changes one output is a failing sequence for the probe test *)
  Theorem a_state_dependence_is_a_failing_sequence p ds d :
    out p (after next h0 p ds) d <> out p (h0 p) d ->
    probe_after out next h0 p ds d <> fresh out h0 p d.
  Proof. intros Hne. exact Hne. Qed.
End HiddenFacts.
