From Coq Require Import List Arith Lia.
From SKC Require Import Model.Stateless.
Import ListNotations.

Section Facts.
  Variables P D O : Type.
  Variable apply : P -> D -> O.

  Lemma run_state s ds : fst (run apply s ds) = s.
  Proof. revert s. induction ds as [|d t IH]; intros s; simpl; auto. destruct (run apply s t) eqn:E.
         simpl. specialize (IH s). rewrite E in IH. exact IH. Qed.

  Lemma run_outputs s ds : snd (run apply s ds) = map (apply s) ds.
  Proof. revert s. induction ds as [|d t IH]; intros s; simpl; auto. destruct (run apply s t) eqn:E.
         simpl. specialize (IH s). rewrite E in IH. simpl in IH. rewrite IH. reflexivity. Qed.

  (* the output for a probe matrix is the same at every position of every call sequence *)
  Theorem probe_position_independent s before after probe d :
    nth (length before) (snd (run apply s (before ++ probe :: after))) d = apply s probe.
  Proof.
    rewrite run_outputs, map_app. simpl. rewrite app_nth2 by (rewrite map_length; lia).
    rewrite map_length, Nat.sub_diag. reflexivity.
  Qed.

  Theorem same_params_same_behaviour s1 s2 ds : s1 = s2 -> run apply s1 ds = run apply s2 ds.
  Proof. intros ->. reflexivity. Qed.

  Theorem object_unchanged_by_calls s ds : fst (run apply s ds) = s.
  Proof. apply run_state. Qed.
End Facts.

(* what the sequence test decides: "the probe returns, after every history, what a fresh object returns" is EQUIVALENT to
   "no reachable hidden state influences any output" - the test's statement is the property, not a consequence of it *)
Section HiddenFacts.
  Variables P H D O : Type.
  Variable out : P -> H -> D -> O.
  Variable next : P -> H -> D -> H.
  Variable h0 : P -> H.

  Theorem probe_test_characterises_statelessness p :
    state_blind out next h0 p <-> forall ds probe, probe_after out next h0 p ds probe = fresh out h0 p probe.
  Proof. unfold state_blind, probe_after, fresh. split; intros Hb ds d; apply Hb. Qed.

  (* a state-blind object behaves like the stateless model: outputs of any sequence are the fresh outputs *)
  Fixpoint run_hidden (p : P) (h : H) (ds : list D) : list O :=
    match ds with [] => [] | d :: t => out p h d :: run_hidden p (next p h d) t end.

  Lemma run_hidden_from p pre : forall ds,
    state_blind out next h0 p -> run_hidden p (after next h0 p pre) ds = map (fresh out h0 p) ds.
  Proof.
    intros ds Hb. revert pre. induction ds as [|d t IH]; intros pre; cbn [run_hidden map]; [reflexivity|].
    rewrite (Hb pre d). f_equal.
    replace (next p (after next h0 p pre) d) with (after next h0 p (pre ++ [d])) by (unfold after; rewrite fold_left_app; reflexivity).
    apply IH.
  Qed.

  Theorem blind_objects_are_the_stateless_model p ds :
    state_blind out next h0 p -> run_hidden p (h0 p) ds = map (fresh out h0 p) ds.
  Proof. intros Hb. exact (run_hidden_from p [] ds Hb). Qed.

  (* conversely one reachable state that changes one output is a failing sequence for the probe test *)
  Theorem a_state_dependence_is_a_failing_sequence p ds d :
    out p (after next h0 p ds) d <> out p (h0 p) d ->
    probe_after out next h0 p ds d <> fresh out h0 p d.
  Proof. intros Hne. exact Hne. Qed.
End HiddenFacts.

(* State shared by the WHOLE process (a module-level table, a library-wide setting): one world g for all objects;
   a call by an object with parameters p on a matrix d returns [wout p g d] and leaves the world [wnext p g d].
   This is the hidden-state situation with one "object" (the process) whose inputs are the pairs (p, d), so the
   characterisation carries over: the process-wide state never changes any output of any object exactly when every
   probe call (any parameters, any matrix) answers after every history of calls - by any objects - as it does in
   a new interpreter.  (The check runs such probe batteries before / after each sequence and in a new interpreter.) *)
Section World.
  Variables P G D O : Type.
  Variable wout : P -> G -> D -> O.
  Variable wnext : P -> G -> D -> G.
  Variable g0 : G.

  Definition world_after (calls : list (P * D)) : G :=
    fold_left (fun g c => wnext (fst c) g (snd c)) calls g0.
  Definition world_blind : Prop :=
    forall calls p d, wout p (world_after calls) d = wout p g0 d.

  Theorem world_probe_characterises :
    world_blind <-> forall calls p d, wout p (world_after calls) d = wout p g0 d.
  Proof. unfold world_blind. tauto. Qed.

  (* a battery of probes that is unchanged by every SINGLE call, from every reachable world, is unchanged by every
     history: it is enough to look before / after each call (what the per-sequence battery does, call by call) *)
  Theorem world_blind_by_single_steps :
    (forall calls c p d, wout p (world_after (calls ++ [c])) d = wout p (world_after calls) d) -> world_blind.
  Proof.
    intros Hs calls. induction calls as [|c calls IH] using rev_ind; intros p d; [reflexivity|].
    rewrite Hs. apply IH.
  Qed.

  (* and under blindness every call of every object answers as in a new interpreter, whatever came before *)
  Theorem world_blind_outputs calls :
    world_blind ->
    forall pre, map (fun c => wout (fst c) (world_after pre) (snd c)) calls
                = map (fun c => wout (fst c) g0 (snd c)) calls.
  Proof. intros Hb pre. apply map_ext. intros c. apply Hb. Qed.
End World.

(* non-vacuity: a library-wide switch that one kind of call turns on is not blind; a world nobody writes is *)
Example switch_world_not_blind :
  ~ world_blind unit bool bool bool (fun _ g _ => g) (fun _ g d => orb g d) false.
Proof. intros H. specialize (H [(tt, true)] tt false). vm_compute in H. discriminate. Qed.
Example untouched_world_blind : forall (G D O : Type) (wout : unit -> G -> D -> O) g0,
  world_blind unit G D O wout (fun _ g _ => g) g0.
Proof.
  intros G D O wout g0 calls p d. unfold world_after.
  assert (E : fold_left (fun g (c : unit * D) => g) calls g0 = g0) by (induction calls; auto).
  cbn. rewrite E. reflexivity.
Qed.
