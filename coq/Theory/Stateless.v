From Coq Require Import List Arith Lia.
From SKC Require Import Model.Stateless.
Import ListNotations.

Section Facts.
  Variables P D O : Type.
  Variable apply : P -> D -> O.

  Lemma run_state s ds : fst (run apply s ds) = s.
  Proof. revert s. induction ds as [|d t IH]; intros s; simpl; auto. destruct (run apply s t) eqn:E.
         simpl. specialize (IH s). rewrite E in IH. exact IH. Qed.

  Lemma run_outputs s ds : snd (run apply s ds) = map (apply s) ds.
  Proof. revert s. induction ds as [|d t IH]; intros s; simpl; auto. destruct (run apply s t) eqn:E.
         simpl. specialize (IH s). rewrite E in IH. simpl in IH. rewrite IH. reflexivity. Qed.

  (* the output for a probe matrix is the same at every position of every call sequence *)
  Theorem probe_position_independent s before after probe d :
    nth (length before) (snd (run apply s (before ++ probe :: after))) d = apply s probe.
  Proof.
    rewrite run_outputs, map_app. simpl. rewrite app_nth2 by (rewrite map_length; lia).
    rewrite map_length, Nat.sub_diag. reflexivity.
  Qed.

  Theorem same_params_same_behaviour s1 s2 ds : s1 = s2 -> run apply s1 ds = run apply s2 ds.
  Proof. intros ->. reflexivity. Qed.

  Theorem object_unchanged_by_calls s ds : fst (run apply s ds) = s.
  Proof. apply run_state. Qed.
End Facts.
