From Coq Require Import QArith List Bool Arith Lia Lqa Permutation.
From SKC Require Import Base.QBool Base.QList Base.QRank Model.Dominance Model.Agg
  Theory.QListFacts Theory.Dominance Theory.RankFacts.
Import ListNotations.

(* ---- refusal clauses (C04) -------------------------------------------------- *)
Lemma any_cell_spec p rows :
  any_cell p rows = true <-> exists r x, In r rows /\ In x r /\ p x = true.
Proof.
  unfold any_cell. rewrite existsb_exists. split.
  - intros [r [Hr H]]. apply existsb_exists in H. destruct H as [x [Hx Hp]]. eauto.
  - intros [r [x [Hr [Hx Hp]]]]. exists r. split; auto. apply existsb_exists. eauto.
Qed.

Lemma has_min_spec objs : has_min objs = true <-> In false objs.
Proof.
  unfold has_min. rewrite existsb_exists. split.
  - intros [b [Hb E]]. destruct b; [discriminate|exact Hb].
  - intros H. exists false. auto.
Qed.

Theorem wsm_refuses_iff objs w rows :
  wsm objs w rows = Err E_VALUE <->
  (In false objs \/ exists r x, In r rows /\ In x r /\ x < 0).
Proof.
  unfold wsm. rewrite <- has_min_spec.
  destruct (has_min objs) eqn:Hm.
  - split; auto.
  - destruct (any_cell (fun x => Qltb x 0) rows) eqn:Hn.
    + split; auto. intros _. right. apply any_cell_spec in Hn.
      destruct Hn as [r [x [Hr [Hx Hp]]]]. exists r, x. qb. auto.
    + split; [discriminate|]. intros [H|[r [x [Hr [Hx Hp]]]]]; [discriminate|].
      assert (any_cell (fun x => Qltb x 0) rows = true).
      { apply any_cell_spec. exists r, x. repeat split; auto. qb. exact Hp. }
      congruence.
Qed.

Theorem wsm_accepts objs w rows :
  ~ In false objs -> (forall r x, In r rows -> In x r -> 0 <= x) ->
  wsm objs w rows = Ok (rank_values true (wsm_scores w rows), wsm_scores w rows).
Proof.
  intros H1 H2. unfold wsm.
  destruct (has_min objs) eqn:Hm; [apply has_min_spec in Hm; contradiction|].
  destruct (any_cell (fun x => Qltb x 0) rows) eqn:Hn; auto.
  apply any_cell_spec in Hn. destruct Hn as [r [x [Hr [Hx Hp]]]]. qb.
  specialize (H2 r x Hr Hx). lra.
Qed.

Theorem wpm_domain_iff objs rows :
  wpm_domain objs rows = true <->
  (~ In false objs /\ forall r x, In r rows -> In x r -> 0 < x).
Proof.
  unfold wpm_domain. rewrite andb_true_iff, !negb_true_iff. rewrite <- has_min_spec. split.
  - intros [H1 H2]. split; [congruence|]. intros r x Hr Hx.
    destruct (Qlt_le_dec 0 x) as [L|L]; auto.
    assert (any_cell (fun x => Qleb x 0) rows = true).
    { apply any_cell_spec. exists r, x. repeat split; auto. qb. exact L. }
    congruence.
  - intros [H1 H2]. split.
    + destruct (has_min objs); auto. exfalso. auto.
    + destruct (any_cell (fun x => Qleb x 0) rows) eqn:E; auto.
      apply any_cell_spec in E. destruct E as [r [x [Hr [Hx Hp]]]]. qb.
      specialize (H2 r x Hr Hx). lra.
Qed.

Theorem fmf_domain_iff rows :
  fmf_domain rows = true <-> (forall r x, In r rows -> In x r -> 0 < x).
Proof.
  unfold fmf_domain. rewrite negb_true_iff. split.
  - intros H r x Hr Hx. destruct (Qlt_le_dec 0 x) as [L|L]; auto.
    assert (any_cell (fun x => Qleb x 0) rows = true).
    { apply any_cell_spec. exists r, x. repeat split; auto. qb. exact L. }
    congruence.
  - intros H. destruct (any_cell (fun x => Qleb x 0) rows) eqn:E; auto.
    apply any_cell_spec in E. destruct E as [r [x [Hr [Hx Hp]]]]. qb.
    specialize (H r x Hr Hx). lra.
Qed.

(* ---- column optimum = ideal / reference point ---------------------------------- *)
Lemma cols_length m rows : length (cols m rows) = m.
Proof. unfold cols. rewrite map_length, seq_length. reflexivity. Qed.

Lemma cols_nth m rows j : (j < m)%nat -> nth j (cols m rows) [] = col rows j.
Proof.
  intros H. unfold cols.
  rewrite (nth_indep _ [] (col rows 0)) by (rewrite map_length, seq_length; exact H).
  rewrite (map_nth (col rows)). rewrite seq_nth by exact H. reflexivity.
Qed.

Lemma col_opt_nth objs rows j :
  (j < length objs)%nat ->
  nth j (col_opt objs rows) 0 =
  if nth j objs true then lmax (col rows j) else lmin (col rows j).
Proof.
  intros H. unfold col_opt.
  rewrite (map2_nth _ _ _ j true [] 0) by (rewrite ?cols_length; exact H).
  rewrite cols_nth by exact H. reflexivity.
Qed.

Lemma col_anti_nth objs rows j :
  (j < length objs)%nat ->
  nth j (col_anti objs rows) 0 =
  if nth j objs true then lmin (col rows j) else lmax (col rows j).
Proof.
  intros H. unfold col_anti.
  rewrite (map2_nth _ _ _ j true [] 0) by (rewrite ?cols_length; exact H).
  rewrite cols_nth by exact H. reflexivity.
Qed.

Lemma col_In rows r j : In r rows -> In (nth j r 0) (col rows j).
Proof. intros H. unfold col. apply (in_map (fun r => nth j r 0)). exact H. Qed.

(* the ideal (reference point) is at least as good as every alternative on every
   criterion and is attained; the anti-ideal symmetric *)
Theorem col_opt_is_best objs rows r j :
  (j < length objs)%nat -> In r rows ->
  better (nth j objs true) (nth j r 0) (nth j (col_opt objs rows) 0) = false.
Proof.
  intros Hj Hr. rewrite col_opt_nth by exact Hj. unfold better.
  pose proof (col_In rows r j Hr) as Hin.
  destruct (nth j objs true); qb.
  - apply lmax_ge. exact Hin.
  - apply lmin_le. exact Hin.
Qed.

Theorem col_anti_is_worst objs rows r j :
  (j < length objs)%nat -> In r rows ->
  better (nth j objs true) (nth j (col_anti objs rows) 0) (nth j r 0) = false.
Proof.
  intros Hj Hr. rewrite col_anti_nth by exact Hj. unfold better.
  pose proof (col_In rows r j Hr) as Hin.
  destruct (nth j objs true); qb.
  - apply lmin_le. exact Hin.
  - apply lmax_ge. exact Hin.
Qed.

Theorem col_opt_attained objs rows j :
  (j < length objs)%nat -> rows <> [] ->
  exists r, In r rows /\ nth j (col_opt objs rows) 0 = nth j r 0.
Proof.
  intros Hj Hne. rewrite col_opt_nth by exact Hj.
  assert (Hc : col rows j <> []) by (destruct rows; [congruence|discriminate]).
  destruct (nth j objs true).
  - pose proof (lmax_In _ Hc) as H. unfold col in H at 2. apply in_map_iff in H.
    destruct H as [r [E Hr]]. exists r. split; auto.
  - pose proof (lmin_In _ Hc) as H. unfold col in H at 2. apply in_map_iff in H.
    destruct H as [r [E Hr]]. exists r. split; auto.
Qed.

(* ---- distances and similarity ---------------------------------------------------- *)
Lemma qsum_map_nonneg (f : Q -> Q) l : (forall x, 0 <= f x) -> 0 <= qsum (map f l).
Proof. intros H. apply qsum_nonneg. intros x Hx. apply in_map_iff in Hx. destruct Hx as [y [<- _]]. apply H. Qed.

Lemma lmax_map_qabs_nonneg l : 0 <= lmax (map qabs l).
Proof.
  destruct l as [|x t]; simpl; [lra|].
  destruct (qmaxl_ge (qabs x) (map qabs t)) as [H _]. pose proof (qabs_nonneg x). lra.
Qed.

Theorem dist_nonneg mt a b : 0 <= dist mt a b.
Proof.
  unfold dist. destruct mt.
  - apply qsum_map_nonneg, qabs_nonneg.
  - apply qsum_map_nonneg. intros x. nra.
  - apply lmax_map_qabs_nonneg.
  - apply qsum_map_nonneg. intros x. nra.
Qed.

Theorem similarity_bounds db dw s :
  0 <= db -> 0 <= dw -> similarity db dw = Some s ->
  0 <= s <= 1 /\ (s == 1 <-> db == 0) /\ (s == 0 <-> dw == 0).
Proof.
  intros Hb Hw. unfold similarity. destruct (Qeqb (db + dw) 0) eqn:E; [discriminate|].
  intros [= <-]. qb. assert (P : 0 < db + dw) by lra.
  assert (X : dw / (db + dw) * (db + dw) == dw) by (field; lra).
  repeat split; try nra; intros H; try nra; rewrite H in X; lra.
Qed.

Theorem similarity_refuses_iff db dw :
  0 <= db -> 0 <= dw -> (similarity db dw = None <-> (db == 0 /\ dw == 0)).
Proof.
  intros Hb Hw. unfold similarity. destruct (Qeqb (db + dw) 0) eqn:E; qb; split; intros H;
    try discriminate; auto.
  - split; lra.
  - exfalso. apply E. lra.
Qed.

(* closeness is monotone: closer to the ideal and farther from the anti-ideal
   never gives a smaller similarity (C06, rational metrics) *)
Theorem similarity_monotone db dw db' dw' s s' :
  0 <= db -> 0 <= dw' -> db <= db' -> dw' <= dw ->
  similarity db dw = Some s -> similarity db' dw' = Some s' -> s' <= s.
Proof.
  intros Hb Hw' Hbb Hww. unfold similarity.
  destruct (Qeqb (db + dw) 0) eqn:E; [discriminate|].
  destruct (Qeqb (db' + dw') 0) eqn:E'; [discriminate|].
  intros [= <-] [= <-]. qb.
  assert (P : 0 < db + dw) by lra. assert (P' : 0 < db' + dw') by lra.
  apply Qle_shift_div_l; auto.
  assert (X : dw' / (db' + dw') * (db + dw) == dw' * (db + dw) / (db' + dw')) by (field; lra).
  rewrite X. apply Qle_shift_div_r; auto. nra.
Qed.

(* ---- linear scores: monotone under dominance (C06) ----------------------------- *)
Lemma dot_signed_mono objs w ra rb :
  length ra = length objs -> length rb = length objs -> length w = length objs ->
  (forall x, In x w -> 0 <= x) ->
  all_geq objs ra rb = true ->
  dot rb (signed_weights objs w) <= dot ra (signed_weights objs w).
Proof.
  unfold dot, signed_weights.
  revert w ra rb. induction objs as [|o os IH]; intros [|wj w] [|x xs] [|y ys]; simpl;
    intros La Lb Lw Hw Hg; try discriminate; try lra.
  apply andb_true_iff in Hg. destruct Hg as [Hg1 Hg2].
  assert (0 <= wj) by (apply Hw; auto).
  assert (IHs := IH w xs ys ltac:(lia) ltac:(lia) ltac:(lia) ltac:(intros; apply Hw; auto) Hg2).
  apply negb_true_iff in Hg1. unfold better in Hg1. destruct o; qb; nra.
Qed.

Lemma dot_signed_strict objs w ra rb :
  length ra = length objs -> length rb = length objs -> length w = length objs ->
  (forall x, In x w -> 0 < x) ->
  all_geq objs ra rb = true -> some_better objs ra rb = true ->
  dot rb (signed_weights objs w) < dot ra (signed_weights objs w).
Proof.
  unfold dot, signed_weights.
  revert w ra rb. induction objs as [|o os IH]; intros [|wj w] [|x xs] [|y ys]; simpl;
    intros La Lb Lw Hw Hg Hs; try discriminate.
  apply andb_true_iff in Hg. destruct Hg as [Hg1 Hg2].
  assert (0 < wj) by (apply Hw; auto).
  apply negb_true_iff in Hg1.
  assert (Hw' : forall x, In x w -> 0 <= x) by (intros z Hz; apply Qlt_le_weak, Hw; auto).
  pose proof (dot_signed_mono os w xs ys ltac:(lia) ltac:(lia) ltac:(lia) Hw' Hg2) as M.
  unfold dot, signed_weights in M.
  apply orb_true_iff in Hs. destruct Hs as [Hs|Hs].
  - unfold better in Hg1, Hs. destruct o; qb; nra.
  - assert (IHs := IH w xs ys ltac:(lia) ltac:(lia) ltac:(lia) ltac:(intros; apply Hw; auto) Hg2 Hs).
    unfold better in Hg1. destruct o; qb; nra.
Qed.

Theorem ratio_monotone objs w ra rb :
  length ra = length objs -> length rb = length objs -> length w = length objs ->
  (forall x, In x w -> 0 < x) ->
  dominates objs ra rb = true ->
  dot rb (signed_weights objs w) < dot ra (signed_weights objs w).
Proof.
  intros La Lb Lw Hw D. unfold dominates in D. apply andb_true_iff in D. destruct D.
  apply dot_signed_strict; auto.
Qed.

Lemma signed_weights_allmax objs w :
  ~ In false objs -> length w = length objs -> signed_weights objs w = w.
Proof.
  unfold signed_weights. revert w. induction objs as [|o os IH]; intros [|x t]; simpl;
    intros H L; try discriminate; auto.
  destruct o; [|exfalso; auto]. f_equal. apply IH; auto.
Qed.

Theorem wsm_monotone objs w ra rb :
  ~ In false objs ->
  length ra = length objs -> length rb = length objs -> length w = length objs ->
  (forall x, In x w -> 0 < x) ->
  dominates objs ra rb = true -> dot rb w < dot ra w.
Proof.
  intros Hm La Lb Lw Hw D.
  rewrite <- (signed_weights_allmax objs w Hm Lw). apply ratio_monotone; auto.
Qed.

(* identical rows get identical scores (every score is [map f rows]) *)
Theorem duplicates_share_score {A} (f : list Q -> A) rows i j d :
  (i < length rows)%nat -> (j < length rows)%nat ->
  nth i rows [] = nth j rows [] ->
  nth i (map f rows) d = nth j (map f rows) d.
Proof.
  intros Hi Hj E.
  rewrite (nth_indep _ d (f [])) by (rewrite map_length; exact Hi).
  rewrite (nth_indep (map f rows) d (f [])) by (rewrite map_length; exact Hj).
  rewrite !(map_nth f). rewrite E. reflexivity.
Qed.

(* ---- homogeneity in the weights (C05) --------------------------------------------- *)
Lemma signed_weights_scale c objs w :
  Forall2 Qeq (signed_weights objs (map (Qmult c) w)) (map (Qmult c) (signed_weights objs w)).
Proof.
  unfold signed_weights. revert w. induction objs as [|o os IH]; intros [|x t]; simpl;
    try constructor; auto.
  destruct o; lra.
Qed.

Lemma dot_ext_r a b b' : Forall2 Qeq b b' -> dot a b == dot a b'.
Proof.
  unfold dot. intros H. revert a. induction H as [|y y' u u' Hy _ IH]; intros [|x t]; simpl; try lra.
  rewrite IH, Hy. lra.
Qed.

Theorem ratio_scores_scale c objs w rows :
  Forall2 Qeq (ratio_scores objs (map (Qmult c) w) rows)
              (map (Qmult c) (ratio_scores objs w rows)).
Proof.
  unfold ratio_scores. induction rows as [|r t IH]; simpl; constructor; auto.
  rewrite (dot_ext_r _ _ _ (signed_weights_scale c objs w)). apply dot_scale_r.
Qed.

Theorem ratio_rank_scale_invariant c objs w rows :
  0 < c ->
  fst (ratio objs (map (Qmult c) w) rows) = fst (ratio objs w rows).
Proof.
  intros Hc. unfold ratio. cbn [fst].
  apply (rank_values_affine true c 0); auto.
  eapply Forall2_Qeq_trans; [apply ratio_scores_scale|].
  apply Forall2_Qeq_map; [|apply Forall2_Qeq_refl]. intros a b E. rewrite E. lra.
Qed.

(* WSM is RatioMOORA with all-maximise objectives *)
Lemma wsm_scores_ratio objs w rows :
  ~ In false objs -> length w = length objs -> wsm_scores w rows = ratio_scores objs w rows.
Proof.
  intros H L. unfold wsm_scores, ratio_scores. rewrite signed_weights_allmax; auto.
Qed.

(* reordering the alternatives reorders the scores in the same way *)
Theorem scores_row_permutation {A} (f : list Q -> A) rows rows' :
  Permutation rows rows' -> Permutation (map f rows) (map f rows').
Proof. apply Permutation_map. Qed.
