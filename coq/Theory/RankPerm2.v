(* C05: whole rankings (not just scores) follow the alternatives when the rows are listed in another order. *)
From Coq Require Import QArith List Arith Lia Lqa Permutation.
From SKC Require Import Base.QBool Base.QList Base.QRank Model.Dominance Model.Agg
  Theory.QListFacts Theory.RankFacts Theory.Agg Theory.Invariance Theory.RankPerm.
Import ListNotations.

Lemma map_nth_seq' {A} (l : list A) d : map (fun i => nth i l d) (seq 0 (length l)) = l.
Proof.
  apply (nth_ext _ _ d d).
  - rewrite map_length, seq_length. reflexivity.
  - intros n Hn. rewrite map_length, seq_length in Hn.
    rewrite (nth_indep _ _ (nth 0 l d)) by (rewrite map_length, seq_length; exact Hn).
    rewrite (map_nth (fun i => nth i l d) (seq 0 (length l)) 0%nat n) at 1.
    rewrite seq_nth by exact Hn. reflexivity.
Qed.

Lemma reindex_perm {A} (d : A) sigma l :
  Permutation sigma (seq 0 (length l)) -> Permutation (reindex d sigma l) l.
Proof.
  intros P. unfold reindex. eapply Permutation_trans; [apply Permutation_map; exact P|].
  rewrite map_nth_seq'. apply Permutation_refl.
Qed.

(* ---- row-wise scores: WSM, WPM, RatioMOORA, FMF --------------------------------------------------- *)
Theorem rowwise_ranking_follows_alternatives rev (f : list Q -> Q) sigma rows :
  Permutation sigma (seq 0 (length rows)) ->
  rank_values rev (map f (reindex [] sigma rows)) = reindex 0%nat sigma (rank_values rev (map f rows)).
Proof.
  intros P. assert (B := perm_seq_bound _ _ P).
  rewrite rowwise_reindex by exact B.
  rewrite (reindex_default (f []) 0) by (rewrite map_length; exact B).
  apply rank_values_reindex. rewrite map_length. exact P.
Qed.

Corollary wsm_ranking_follows_alternatives w sigma rows :
  Permutation sigma (seq 0 (length rows)) ->
  rank_values true (wsm_scores w (reindex [] sigma rows)) =
  reindex 0%nat sigma (rank_values true (wsm_scores w rows)).
Proof. apply rowwise_ranking_follows_alternatives. Qed.

Corollary ratio_ranking_follows_alternatives objs w sigma rows :
  Permutation sigma (seq 0 (length rows)) ->
  rank_values true (ratio_scores objs w (reindex [] sigma rows)) =
  reindex 0%nat sigma (rank_values true (ratio_scores objs w rows)).
Proof. apply rowwise_ranking_follows_alternatives. Qed.

(* ---- ReferencePointMOORA: the score of a row depends on the whole matrix through the reference point -- *)
Lemma qabs_ext x y : x == y -> qabs x == qabs y.
Proof. intros E. destruct (qabs_cases x) as [[H ->]|[H ->]], (qabs_cases y) as [[H' ->]|[H' ->]]; lra. Qed.

Lemma lmax_Forall2 l l' : Forall2 Qeq l l' -> lmax l == lmax l'.
Proof.
  intros E. destruct E as [|a b ta tb Hab Ht]; [reflexivity|].
  assert (G : forall l1 l2, Forall2 Qeq l1 l2 -> forall y, In y l1 -> exists y', In y' l2 /\ y == y').
  { intros l1 l2 F. induction F as [|p q tp tq Hpq _ IH]; intros y Hy; [contradiction|].
    destruct Hy as [<-|Hy]; [exists q; split; simpl; auto|].
    destruct (IH y Hy) as [y' [Hin E]]. exists y'. split; simpl; auto. }
  assert (F : Forall2 Qeq (a :: ta) (b :: tb)) by (constructor; assumption).
  assert (F' : Forall2 Qeq (b :: tb) (a :: ta)).
  { clear -F. induction F; constructor; auto. symmetry. assumption. }
  apply Qle_antisym.
  - apply lmax_le_bound; [discriminate|]. intros y Hy. destruct (G _ _ F y Hy) as [y' [Hin E]].
    rewrite E. apply lmax_ge. exact Hin.
  - apply lmax_le_bound; [discriminate|]. intros y Hy. destruct (G _ _ F' y Hy) as [y' [Hin E]].
    rewrite E. apply lmax_ge. exact Hin.
Qed.

Lemma refpoint_score_row_ext w rp rp' r :
  Forall2 Qeq rp rp' -> refpoint_score_row w rp r == refpoint_score_row w rp' r.
Proof.
  intros F. unfold refpoint_score_row. apply lmax_Forall2.
  revert w r. induction F as [|p q tp tq Hpq _ IH]; intros w r.
  - destruct r; cbn [map2]; apply Forall2_Qeq_refl.
  - destruct r as [|x r]; [apply Forall2_Qeq_refl|]. cbn [map2].
    destruct w as [|wj w]; [constructor|]. cbn [map2]. constructor; [|apply IH].
    apply qabs_ext. rewrite Hpq. reflexivity.
Qed.

Lemma col_opt_length objs rows : length (col_opt objs rows) = length objs.
Proof. unfold col_opt, cols. apply map2_length. rewrite map_length, seq_length. reflexivity. Qed.

Lemma Forall2_Qeq_nth l l' : length l = length l' -> (forall j, (j < length l)%nat -> nth j l 0 == nth j l' 0) ->
  Forall2 Qeq l l'.
Proof.
  revert l'. induction l as [|a t IH]; intros [|b u] L H; cbn [length] in *; try discriminate; constructor.
  - apply (H 0%nat). lia.
  - apply IH; [lia|]. intros j Hj. apply (H (S j)). lia.
Qed.

Theorem refpoint_ranking_follows_alternatives objs w sigma rows :
  Permutation sigma (seq 0 (length rows)) ->
  rank_values false (refpoint_scores objs w (reindex [] sigma rows)) =
  reindex 0%nat sigma (rank_values false (refpoint_scores objs w rows)).
Proof.
  intros P. unfold refpoint_scores.
  rewrite <- (rowwise_ranking_follows_alternatives false (refpoint_score_row w (col_opt objs rows)) sigma rows P).
  unfold rank_values. apply dense_rank_Q_ext.
  assert (F : Forall2 Qeq (col_opt objs (reindex [] sigma rows)) (col_opt objs rows)).
  { apply Forall2_Qeq_nth; [rewrite !col_opt_length; reflexivity|].
    intros j Hj. rewrite col_opt_length in Hj.
    apply col_opt_row_order_irrelevant; [apply reindex_perm; exact P|exact Hj]. }
  revert F. generalize (col_opt objs (reindex [] sigma rows)). intros rp' F.
  generalize (reindex [] sigma rows). intros l. induction l as [|r t IH]; cbn [map]; constructor; auto.
  apply refpoint_score_row_ext. exact F.
Qed.
