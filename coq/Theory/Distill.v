(* C08 / C03: the ELECTRE2 distillation (direct and inverse rankings) produces a well-formed ranking:
   one rank per alternative, the ranks are exactly 1..k, and alternatives distilled earlier rank ahead. *)
From Coq Require Import QArith List Bool Arith Lia Permutation.
From SKC Require Import Base.QBool Base.QList Model.Electre Theory.Electre Theory.ElectreInv.
Import ListNotations.
Local Open Scope nat_scope.

Lemma filter_partition_length {A} (f : A -> bool) l :
  length (filter f l) + length (filter (fun x => negb (f x)) l) = length l.
Proof. induction l as [|a t IH]; cbn [filter length]; [reflexivity|]. destruct (f a); cbn [negb length]; lia. Qed.

Section Distillation.
  Variable n : nat.
  Variables s w : nat -> nat -> bool.

  (* a well-formed ranking of n alternatives: ranks are exactly 1..k for some k <= n *)
  Definition well_ranked (r : list nat) : Prop :=
    length r = n /\
    exists k, k <= n /\ (forall i, i < n -> 1 <= nth i r 0 <= k) /\ (forall p, 1 <= p <= k -> exists i, i < n /\ nth i r 0 = p).

  Record Inv (idx ranking : list nat) (pos : nat) : Prop := {
    inv_len : length ranking = n;
    inv_nodup : NoDup idx;
    inv_bound : forall i, In i idx -> i < n;
    inv_zero : forall i, i < n -> (In i idx <-> nth i ranking 0 = 0);
    inv_done : forall i, i < n -> ~ In i idx -> 1 <= nth i ranking 0 < pos;
    inv_pos : 1 <= pos /\ (pos - 1) + length idx <= n;
    inv_surj : forall p, 1 <= p < pos -> exists i, i < n /\ nth i ranking 0 = p }.

  Lemma bump_nth chosen pos ranking i : length ranking = n -> i < n ->
    nth i (bump chosen pos ranking) 0 = if existsb (Nat.eqb i) chosen then nth i ranking 0 + pos else nth i ranking 0.
  Proof.
    intros L Hi. rewrite bump_as_map, L.
    apply (nth_map_seq n (fun k => if existsb (Nat.eqb k) chosen then nth k ranking 0 + pos else nth k ranking 0) i 0 Hi).
  Qed.

  Theorem ranker_loop_well_ranked fuel : forall idx ranking pos r,
    Inv idx ranking pos -> ranker_loop fuel s w idx ranking pos = Some r -> well_ranked r.
  Proof.
    induction fuel as [|f IH]; intros idx ranking pos r I H; cbn [ranker_loop] in H; [discriminate|].
    destruct I as [L ND B Z D [P1 P2] Sj].
    destruct idx as [|a t].
    { (* nothing left *)
      inversion H; subst r. split; [exact L|]. exists (pos - 1). split; [cbn [length] in P2; lia|]. split.
      - intros i Hi. pose proof (D i Hi (fun x => x)) as Q. lia.
      - intros p Hp. apply Sj. lia. }
    remember (a :: t) as idx eqn:Eidx.
    assert (Hne : idx <> []) by (rewrite Eidx; discriminate).
    assert (Hlen : 1 <= length idx) by (rewrite Eidx; cbn [length]; lia).
    clear Eidx a t.
    set (smw := fun i => in_kernel idx s i && negb (in_kernel idx w i)) in *.
    destruct (filter smw idx) as [|c0 ct] eqn:EC.
    { (* nobody can be separated: everybody left shares the last rank *)
      inversion H; subst r. split; [rewrite map_length; exact L|]. exists pos. split; [lia|].
      assert (N : forall i, i < n -> nth i (map (fun r => if r =? 0 then pos else r) ranking) 0 =
                                     (if nth i ranking 0 =? 0 then pos else nth i ranking 0)).
      { intros i Hi. rewrite (nth_indep _ 0 ((fun r => if r =? 0 then pos else r) 0)) by (rewrite map_length, L; exact Hi).
        apply (map_nth (fun r => if r =? 0 then pos else r) ranking 0 i). }
      split.
      - intros i Hi. rewrite (N i Hi). destruct (Nat.eqb_spec (nth i ranking 0) 0) as [E|NE]; [lia|].
        assert (~ In i idx) as NI by (intros X; apply (Z i Hi) in X; contradiction).
        pose proof (D i Hi NI). lia.
      - intros p Hp. destruct (Nat.eq_dec p pos) as [->|NE].
        + destruct idx as [|i0 rest]; [contradiction|]. exists i0.
          assert (Hi0 : i0 < n) by (apply B; left; reflexivity). split; [exact Hi0|].
          rewrite (N i0 Hi0). assert (E : nth i0 ranking 0 = 0) by (apply (Z i0 Hi0); left; reflexivity).
          rewrite E. reflexivity.
        + destruct (Sj p ltac:(lia)) as [i [Hi E]]. exists i. split; [exact Hi|]. rewrite (N i Hi), E.
          destruct (Nat.eqb_spec p 0); [lia|reflexivity]. }
    (* a non-empty class is distilled and gets rank pos *)
    rewrite <- EC in H. fold (bump (filter smw idx) pos ranking) in H.
    assert (Cin : forall i, In i (filter smw idx) <-> In i idx /\ smw i = true) by (intros i; apply filter_In).
    assert (Cne : 1 <= length (filter smw idx)) by (rewrite EC; cbn [length]; lia).
    assert (Mem : forall i, existsb (Nat.eqb i) (filter smw idx) = true <-> In i (filter smw idx)) by (intros i; apply mem_eqb).
    assert (I' : Inv (filter (fun i => negb (smw i)) idx) (bump (filter smw idx) pos ranking) (Datatypes.S pos));
      [constructor|exact (IH _ _ _ _ I' H)].
    - rewrite bump_as_map, map_length, seq_length. exact L.
    - apply NoDup_filter. exact ND.
    - intros i Hi. apply filter_In in Hi. apply B. tauto.
    - intros i Hi. rewrite (bump_nth _ _ _ i L Hi). rewrite filter_In.
      destruct (existsb (Nat.eqb i) (filter smw idx)) eqn:E.
      + apply Mem, Cin in E. destruct E as [E1 E2]. rewrite E2. cbn [negb]. split; [intros [_ X]; discriminate|lia].
      + split.
        * intros [X _]. apply (Z i Hi). exact X.
        * intros X. apply (Z i Hi) in X. split; [exact X|].
          destruct (smw i) eqn:E2; [|reflexivity]. exfalso.
          assert (In i (filter smw idx)) as Y by (apply Cin; split; assumption).
          apply Mem in Y. congruence.
    - intros i Hi NI. rewrite (bump_nth _ _ _ i L Hi).
      destruct (existsb (Nat.eqb i) (filter smw idx)) eqn:E.
      + apply Mem, Cin in E. destruct E as [E1 _]. apply (Z i Hi) in E1. rewrite E1. lia.
      + assert (~ In i idx) as NI'.
        { intros X. apply NI. apply filter_In. split; [exact X|].
          destruct (smw i) eqn:E2; [|reflexivity]. exfalso.
          assert (In i (filter smw idx)) as Y by (apply Cin; split; assumption). apply Mem in Y. congruence. }
        pose proof (D i Hi NI'). lia.
    - pose proof (filter_partition_length smw idx). lia.
    - intros p Hp. destruct (Nat.eq_dec p pos) as [->|NE].
      + exists c0. assert (In c0 (filter smw idx)) as Y by (rewrite EC; left; reflexivity).
        assert (Hc : c0 < n) by (apply B; apply Cin in Y; tauto). split; [exact Hc|].
        rewrite (bump_nth _ _ _ c0 L Hc). rewrite (proj2 (Mem c0) Y).
        apply Cin in Y. destruct Y as [Y _]. apply (Z c0 Hc) in Y. rewrite Y. reflexivity.
      + destruct (Sj p ltac:(lia)) as [i [Hi E]]. exists i. split; [exact Hi|].
        rewrite (bump_nth _ _ _ i L Hi).
        destruct (existsb (Nat.eqb i) (filter smw idx)) eqn:E2; [|exact E].
        apply Mem, Cin in E2. destruct E2 as [E2 _]. apply (Z i Hi) in E2. lia.
  Qed.

  Lemma Inv_start : Inv (seq 0 n) (repeat 0 n) 1.
  Proof.
    constructor.
    - apply repeat_length.
    - apply seq_NoDup.
    - intros i Hi. apply in_seq in Hi. lia.
    - intros i Hi. rewrite nth_repeat. split; [reflexivity|]. intros _. apply in_seq. lia.
    - intros i Hi NI. exfalso. apply NI. apply in_seq. lia.
    - rewrite seq_length. lia.
    - intros p Hp. lia.
  Qed.
End Distillation.

Lemma fold_max_bound l k : (forall x, In x l -> x <= k) -> fold_right Nat.max 0 l <= k.
Proof. induction l as [|a t IH]; intros H; cbn [fold_right]; [lia|]. pose proof (H a (or_introl eq_refl)). specialize (IH (fun x Hx => H x (or_intror Hx))). lia. Qed.
Lemma fold_max_ge l x : In x l -> x <= fold_right Nat.max 0 l.
Proof. induction l as [|a t IH]; intros H; [contradiction|]. cbn [fold_right]. destruct H as [->|H]; [lia|]. specialize (IH H). lia. Qed.

(* both distillations (direct; inverse = transposed relations, ranks reversed) are well-formed rankings *)
Theorem ranker_well_ranked n s w invert r : ranker n s w invert = Some r -> well_ranked n r.
Proof.
  unfold ranker. destruct (ranker_loop (S n) (bget s) (bget w) (seq 0 n) (repeat 0 n) 1) as [r0|] eqn:E; [|discriminate].
  pose proof (ranker_loop_well_ranked n (bget s) (bget w) (S n) _ _ _ _ (Inv_start n) E) as W.
  destruct invert; intros H; inversion H; subst r; [|exact W].
  destruct W as [L [k [Hk [R Sj]]]].
  assert (M : fold_right Nat.max 0 r0 = k).
  { apply Nat.le_antisymm.
    - apply fold_max_bound. intros x Hx. destruct (In_nth _ _ 0 Hx) as [i [Hi <-]]. rewrite L in Hi. apply R. exact Hi.
    - destruct (Nat.eq_dec k 0) as [->|NZ]; [lia|]. destruct (Sj k ltac:(lia)) as [i [Hi Ei]]. rewrite <- Ei.
      apply fold_max_ge. apply nth_In. rewrite L. exact Hi. }
  rewrite M. split; [rewrite map_length; exact L|]. exists k. split; [exact Hk|].
  assert (N : forall i, i < n -> nth i (map (fun x => k + 1 - x) r0) 0 = k + 1 - nth i r0 0).
  { intros i Hi. rewrite (nth_indep _ 0 ((fun x => k + 1 - x) 0)) by (rewrite map_length, L; exact Hi).
    apply (map_nth (fun x => k + 1 - x) r0 0 i). }
  split.
  - intros i Hi. rewrite (N i Hi). pose proof (R i Hi). lia.
  - intros p Hp. destruct (Sj (k + 1 - p) ltac:(lia)) as [i [Hi Ei]]. exists i. split; [exact Hi|].
    rewrite (N i Hi), Ei. lia.
Qed.
