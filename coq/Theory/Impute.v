From Coq Require Import ZArith QArith List Bool Arith Lia Lqa.
From SKC Require Import Base.QBool Base.QList Model.Transform Model.Impute Theory.QListFacts.
Import ListNotations.

Lemma nth_map_lt {A B} (g : A -> B) l j dB dA :
  (j < length l)%nat -> nth j (map g l) dB = g (nth j l dA).
Proof.
  intros H. rewrite (nth_indep _ dB (g dA)) by (rewrite map_length; exact H). apply map_nth.
Qed.

(* ---- for EVERY source of filled values: observed cells unchanged, no gap left, shape kept ---- *)
Theorem impute_with_shape f columns : length (impute_with f columns) = length columns.
Proof. unfold impute_with. rewrite map_length, combine_length, seq_length. apply Nat.min_id. Qed.

Theorem impute_with_cell f columns j i :
  (j < length columns)%nat -> (i < length (nth j columns []))%nat ->
  nth i (nth j (impute_with f columns) []) 0 =
  match nth i (nth j columns []) None with Some x => x | None => f i j end.
Proof.
  intros Hj Hi. unfold impute_with.
  rewrite (nth_map_lt _ _ j [] (0%nat, [])) by (rewrite combine_length, seq_length; apply Nat.min_glb_lt; assumption).
  rewrite combine_nth by (rewrite seq_length; reflexivity).
  rewrite seq_nth by exact Hj. cbn [fst snd]. set (c := nth j columns []) in *.
  rewrite (nth_map_lt _ _ i 0 (0%nat, None)) by (rewrite combine_length, seq_length; apply Nat.min_glb_lt; assumption).
  rewrite combine_nth by (rewrite seq_length; reflexivity).
  rewrite seq_nth by exact Hi. reflexivity.
Qed.

Theorem impute_with_col_length f columns j :
  (j < length columns)%nat ->
  length (nth j (impute_with f columns) []) = length (nth j columns []).
Proof.
  intros Hj. unfold impute_with.
  rewrite (nth_map_lt _ _ j [] (0%nat, [])) by (rewrite combine_length, seq_length; apply Nat.min_glb_lt; assumption).
  rewrite combine_nth by (rewrite seq_length; reflexivity).
  cbn [fst snd]. rewrite map_length, combine_length, seq_length. apply Nat.min_id.
Qed.

(* every cell that was not missing holds exactly its original value *)
Corollary impute_observed_unchanged f columns j i x :
  (j < length columns)%nat -> (i < length (nth j columns []))%nat ->
  nth i (nth j columns []) None = Some x ->
  nth i (nth j (impute_with f columns) []) 0 = x.
Proof. intros Hj Hi E. rewrite impute_with_cell by assumption. rewrite E. reflexivity. Qed.

(* ---- SimpleImputer ---------------------------------------------------------------------------- *)
Theorem simple_col_length s c : length (simple_impute_col s c) = length c.
Proof. unfold simple_impute_col. apply map_length. Qed.

Theorem simple_observed_unchanged s c i x :
  nth i c None = Some x -> nth i (simple_impute_col s c) 0 = x.
Proof.
  intros E. unfold simple_impute_col.
  destruct (Nat.ltb_spec i (length c)) as [Hi|Hi].
  - rewrite (nth_map_lt _ c i 0 None Hi). rewrite E. reflexivity.
  - rewrite nth_overflow in E by exact Hi. discriminate.
Qed.

(* each gap is filled with the configured statistic of the observed values of that SAME criterion *)
Theorem simple_fill_is_column_statistic s c i :
  (i < length c)%nat -> nth i c None = None -> nth i (simple_impute_col s c) 0 = fill_value s c.
Proof.
  intros Hi E. unfold simple_impute_col.
  rewrite (nth_map_lt _ c i 0 None Hi). rewrite E. reflexivity.
Qed.

(* the filled matrix depends on the other criteria not at all (column locality) *)
Theorem simple_columnwise s columns j :
  nth j (simple_impute s columns) [] = simple_impute_col s (nth j columns []).
Proof.
  unfold simple_impute. destruct (Nat.ltb_spec j (length columns)) as [Hj|Hj].
  - rewrite (nth_indep _ [] (simple_impute_col s [])) by (rewrite map_length; exact Hj).
    apply (map_nth (simple_impute_col s)).
  - rewrite !nth_overflow by (rewrite ?map_length; exact Hj). reflexivity.
Qed.

(* the mean of the observed values lies between their extremes *)
Lemma qsum_bounds l lo hi :
  (forall x, In x l -> lo <= x <= hi) ->
  inject_Z (Z.of_nat (length l)) * lo <= qsum l <= inject_Z (Z.of_nat (length l)) * hi.
Proof.
  induction l as [|a t IH]; intros H; simpl qsum; simpl length.
  - change (inject_Z (Z.of_nat 0)) with 0. lra.
  - rewrite Nat2Z.inj_succ. unfold Z.succ. rewrite inject_Z_plus.
    destruct (H a (or_introl eq_refl)) as [H1 H2].
    destruct IH as [I1 I2]; [intros x Hx; apply H; right; exact Hx|].
    set (n := inject_Z (Z.of_nat (length t))) in *. change (inject_Z 1) with 1. split; nra.
Qed.

Theorem mean_between_extremes l :
  l <> [] -> lmin l <= mean l <= lmax l.
Proof.
  intros Hne. unfold mean.
  assert (Hn : 0 < inject_Z (Z.of_nat (length l))).
  { destruct l; [congruence|]. simpl length. rewrite Nat2Z.inj_succ. unfold Qlt, inject_Z. simpl. lia. }
  destruct (qsum_bounds l (lmin l) (lmax l)) as [B1 B2].
  { intros x Hx. split; [apply lmin_le|apply lmax_ge]; exact Hx. }
  split.
  - apply Qle_shift_div_l; auto. lra.
  - apply Qle_shift_div_r; auto. lra.
Qed.

From Coq Require Import Permutation.
(* ---- the statistics themselves ------------------------------------------------------------------------ *)
Lemma insertQ_perm x l : Permutation (x :: l) (insertQ x l).
Proof.
  induction l as [|y t IH]; cbn; [apply Permutation_refl|].
  destruct (Qleb x y); [apply Permutation_refl|].
  eapply perm_trans; [apply perm_swap|]. apply perm_skip. exact IH.
Qed.

Lemma sortQ_perm l : Permutation l (sortQ l).
Proof.
  induction l as [|x t IH]; cbn; [constructor|].
  eapply perm_trans; [apply perm_skip; exact IH|]. apply insertQ_perm.
Qed.

Lemma sortQ_In l x : In x (sortQ l) <-> In x l.
Proof. split; apply Permutation_in; [apply Permutation_sym|]; apply sortQ_perm. Qed.

(* the most frequent value is one of the observed values, and no observed value occurs more often *)
Lemma mode_fold_In l s best :
  In best l -> incl s l ->
  In (fold_left (fun b x => if countQ b l <? countQ x l then x else b) s best) l.
Proof.
  revert best. induction s as [|x s IH]; intros best Hb Hs; cbn [fold_left]; [exact Hb|].
  apply IH; [|intros y Hy; apply Hs; right; exact Hy].
  destruct (countQ best l <? countQ x l); [apply Hs; left; reflexivity|exact Hb].
Qed.

Theorem mode_is_observed l : l <> [] -> In (mode l) l.
Proof.
  intros Hne. unfold mode.
  assert (Hs : sortQ l <> []).
  { intros E. apply Hne. apply Permutation_nil. rewrite <- E. apply Permutation_sym, sortQ_perm. }
  apply mode_fold_In.
  - destruct (sortQ l) as [|a t] eqn:E; [congruence|]. cbn. apply sortQ_In. rewrite E. left; reflexivity.
  - intros y Hy. apply sortQ_In. exact Hy.
Qed.

Lemma mode_fold_max l s best :
  forall y, (y = best \/ In y s) ->
  (countQ y l <= countQ (fold_left (fun b x => if countQ b l <? countQ x l then x else b) s best) l)%nat.
Proof.
  revert best. induction s as [|x s IH]; intros best y Hy; cbn [fold_left].
  - destruct Hy as [->|[]]. apply Nat.le_refl.
  - destruct (Nat.ltb_spec (countQ best l) (countQ x l)) as [Hlt|Hge].
    + destruct Hy as [->|[->|Hy]].
      * eapply Nat.le_trans; [apply Nat.lt_le_incl; exact Hlt|]. apply IH. left; reflexivity.
      * apply IH. left; reflexivity.
      * apply IH. right; exact Hy.
    + destruct Hy as [->|[->|Hy]].
      * apply IH. left; reflexivity.
      * eapply Nat.le_trans; [exact Hge|]. apply IH. left; reflexivity.
      * apply IH. right; exact Hy.
Qed.

Theorem mode_is_most_frequent l y : In y l -> (countQ y l <= countQ (mode l) l)%nat.
Proof.
  intros Hy. unfold mode. apply mode_fold_max. right. apply sortQ_In. exact Hy.
Qed.

(* a constant strategy fills every gap with the configured constant, whatever the criterion holds *)
Theorem constant_fills_the_constant v c i :
  (i < length c)%nat -> nth i c None = None -> nth i (simple_impute_col (SConst v) c) 0 = v.
Proof. intros Hi E. rewrite simple_fill_is_column_statistic by assumption. reflexivity. Qed.

(* a criterion without gaps comes back as it is *)
Theorem complete_criterion_untouched s c :
  simple_impute_col s (map Some c) = c.
Proof.
  unfold simple_impute_col. rewrite map_map. apply map_id.
Qed.

(* the value that fills the gaps of a criterion depends on its observed values only - not on where the gaps are,
   nor on how many there are *)
Theorem fill_depends_on_observed_only s c c' :
  observed c = observed c' -> fill_value s c = fill_value s c'.
Proof. intros E. destruct s; cbn; rewrite ?E; reflexivity. Qed.
