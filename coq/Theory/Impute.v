From Coq Require Import ZArith QArith List Bool Arith Lia Lqa.
From SKC Require Import Base.QBool Base.QList Model.Transform Model.Impute Theory.QListFacts.
Import ListNotations.

Lemma nth_map_lt {A B} (g : A -> B) l j dB dA :
  (j < length l)%nat -> nth j (map g l) dB = g (nth j l dA).
Proof.
  intros H. rewrite (nth_indep _ dB (g dA)) by (rewrite map_length; exact H). apply map_nth.
Qed.

(* ---- for EVERY source of filled values: observed cells unchanged, no gap left, shape kept ---- *)
Theorem impute_with_shape f columns : length (impute_with f columns) = length columns.
Proof. unfold impute_with. rewrite map_length, combine_length, seq_length. apply Nat.min_id. Qed.

Theorem impute_with_cell f columns j i :
  (j < length columns)%nat -> (i < length (nth j columns []))%nat ->
  nth i (nth j (impute_with f columns) []) 0 =
  match nth i (nth j columns []) None with Some x => x | None => f i j end.
Proof.
  intros Hj Hi. unfold impute_with.
  rewrite (nth_map_lt _ _ j [] (0%nat, [])) by (rewrite combine_length, seq_length; apply Nat.min_glb_lt; assumption).
  rewrite combine_nth by (rewrite seq_length; reflexivity).
  rewrite seq_nth by exact Hj. cbn [fst snd]. set (c := nth j columns []) in *.
  rewrite (nth_map_lt _ _ i 0 (0%nat, None)) by (rewrite combine_length, seq_length; apply Nat.min_glb_lt; assumption).
  rewrite combine_nth by (rewrite seq_length; reflexivity).
  rewrite seq_nth by exact Hi. reflexivity.
Qed.

Theorem impute_with_col_length f columns j :
  (j < length columns)%nat ->
  length (nth j (impute_with f columns) []) = length (nth j columns []).
Proof.
  intros Hj. unfold impute_with.
  rewrite (nth_map_lt _ _ j [] (0%nat, [])) by (rewrite combine_length, seq_length; apply Nat.min_glb_lt; assumption).
  rewrite combine_nth by (rewrite seq_length; reflexivity).
  cbn [fst snd]. rewrite map_length, combine_length, seq_length. apply Nat.min_id.
Qed.

(* every cell that was not missing holds exactly its original value *)
Corollary impute_observed_unchanged f columns j i x :
  (j < length columns)%nat -> (i < length (nth j columns []))%nat ->
  nth i (nth j columns []) None = Some x ->
  nth i (nth j (impute_with f columns) []) 0 = x.
Proof. intros Hj Hi E. rewrite impute_with_cell by assumption. rewrite E. reflexivity. Qed.

(* ---- SimpleImputer ---------------------------------------------------------------------------- *)
Theorem simple_col_length s c : length (simple_impute_col s c) = length c.
Proof. unfold simple_impute_col. apply map_length. Qed.

Theorem simple_observed_unchanged s c i x :
  nth i c None = Some x -> nth i (simple_impute_col s c) 0 = x.
Proof.
  intros E. unfold simple_impute_col.
  destruct (Nat.ltb_spec i (length c)) as [Hi|Hi].
  - rewrite (nth_map_lt _ c i 0 None Hi). rewrite E. reflexivity.
  - rewrite nth_overflow in E by exact Hi. discriminate.
Qed.

(* each gap is filled with the configured statistic of the observed values of that SAME criterion *)
Theorem simple_fill_is_column_statistic s c i :
  (i < length c)%nat -> nth i c None = None -> nth i (simple_impute_col s c) 0 = fill_value s c.
Proof.
  intros Hi E. unfold simple_impute_col.
  rewrite (nth_map_lt _ c i 0 None Hi). rewrite E. reflexivity.
Qed.

(* the filled matrix depends on the other criteria not at all (column locality) *)
Theorem simple_columnwise s columns j :
  nth j (simple_impute s columns) [] = simple_impute_col s (nth j columns []).
Proof.
  unfold simple_impute. destruct (Nat.ltb_spec j (length columns)) as [Hj|Hj].
  - rewrite (nth_indep _ [] (simple_impute_col s [])) by (rewrite map_length; exact Hj).
    apply (map_nth (simple_impute_col s)).
  - rewrite !nth_overflow by (rewrite ?map_length; exact Hj). reflexivity.
Qed.

(* the mean of the observed values lies between their extremes *)
Lemma qsum_bounds l lo hi :
  (forall x, In x l -> lo <= x <= hi) ->
  inject_Z (Z.of_nat (length l)) * lo <= qsum l <= inject_Z (Z.of_nat (length l)) * hi.
Proof.
  induction l as [|a t IH]; intros H; simpl qsum; simpl length.
  - change (inject_Z (Z.of_nat 0)) with 0. lra.
  - rewrite Nat2Z.inj_succ. unfold Z.succ. rewrite inject_Z_plus.
    destruct (H a (or_introl eq_refl)) as [H1 H2].
    destruct IH as [I1 I2]; [intros x Hx; apply H; right; exact Hx|].
    set (n := inject_Z (Z.of_nat (length t))) in *. change (inject_Z 1) with 1. split; nra.
Qed.

Theorem mean_between_extremes l :
  l <> [] -> lmin l <= mean l <= lmax l.
Proof.
  intros Hne. unfold mean.
  assert (Hn : 0 < inject_Z (Z.of_nat (length l))).
  { destruct l; [congruence|]. simpl length. rewrite Nat2Z.inj_succ. unfold Qlt, inject_Z. simpl. lia. }
  destruct (qsum_bounds l (lmin l) (lmax l)) as [B1 B2].
  { intros x Hx. split; [apply lmin_le|apply lmax_ge]; exact Hx. }
  split.
  - apply Qle_shift_div_l; auto. lra.
  - apply Qle_shift_div_r; auto. lra.
Qed.
