(* Refutation witnesses: the faithful model of behaviour that violates a property,
   with a concrete input (proved by computation).  Each is also a corpus case of
   the corresponding check. *)
From Coq Require Import ZArith QArith List Bool Arith.
From SKC Require Import Base.QBool Base.QList Model.Electre Model.Agg.
Import ListNotations.

(* C08: ELECTRE2 calls weights_outrank(matrix, objectives, weights) against the
   signature (matrix, weights, objectives); the relation it reports is not the
   weight-comparison relation. *)
Theorem wor_as_called_refuted :
  exists objs w ra rb, wor_called_cell objs w ra rb <> wor_spec_cell objs w ra rb.
Proof.
  exists [true; true], [3#4; 1#4], [1; 2], [2; 1]. vm_compute. discriminate.
Qed.

(* C04: FullMultiplicativeForm with no maximise criterion carries an offset of 1 *)
Theorem fmf_allmin_offset : forall objs, has_max objs = false -> fmf_offset objs == 1.
Proof. intros objs H. unfold fmf_offset. rewrite H. reflexivity. Qed.

(* C14 (repaired by a fix: commit): the arithmetic filters picked the columns with a membership
   mask in MATRIX order while the thresholds stayed in the order the conditions were written *)
From SKC Require Import Model.Select Model.Filters.
Definition make_mask_matrix_order (crits : list Z) (conds : list (Z * cond)) (rows : list (list Q)) : list bool :=
  let present := filter (fun p => match index_of (fst p) crits with Some _ => true | None => false end) conds in
  let names := map fst present in
  let idxs := filter (fun j => existsb (Z.eqb (nth j crits 0%Z)) names) (seq 0 (length crits)) in
  map (fun r => forallb (fun xc => sat (snd (snd xc)) (fst xc))
                        (combine (map (fun j => nth j r 0) idxs) present)) rows.

Theorem arith_mask_matrix_order_refuted :
  exists crits conds rows,
    make_mask_matrix_order crits conds rows <> map (survives crits conds) rows.
Proof.
  exists [1; 2]%Z, [(2%Z, CGt 27); (1%Z, CGt 1)], [[7; 35]]. vm_compute. discriminate.
Qed.

(* C18 (repaired by a fix: commit): untied_rank_ = argsort(rank_) + 1 is the sorting permutation,
   not a ranking: the worst alternative of [2;1;1] came out second *)
From SKC Require Import Model.Untie.
Theorem argsort_untie_refuted :
  exists r, argsort_plus_1 r <> untie r /\
            exists i j, (nth i r 0 < nth j r 0 /\ nth j (argsort_plus_1 r) 0 < nth i (argsort_plus_1 r) 0)%nat.
Proof.
  exists [2; 1; 1]%nat. split; [vm_compute; discriminate|].
  exists 1%nat, 0%nat. vm_compute. split; repeat constructor.
Qed.

(* C17 (repaired by a fix: commit): the unguarded comparison of result values broadcasts like
   numpy.allclose and RAISES on incompatible lengths, where the guarded one answers "different" *)
From SKC Require Import Model.Diff.
Fixpoint allclose_unguarded (t : tol) (a b : list Q) : option bool :=
  match a, b with
  | [], [] => Some true
  | x :: ta, y :: tb => match allclose_unguarded t ta tb with
                        | Some r => Some (close1 t x y && r) | None => None end
  | _, _ => None      (* ValueError: operands could not be broadcast together *)
  end.
Theorem result_diff_broadcast_refuted :
  exists t a b, allclose_unguarded t a b = None /\ allclose t a b = false.
Proof. exists exact, [1; 2; 3], [1; 2]. split; reflexivity. Qed.

(* C16 (known finding): unique_names / mkpipe can produce a duplicated step name when a name that
   occurs once already looks like a generated one: ["a"; "a"; "a_1"] -> ["a_1"; "a_2"; "a_1"] *)
From SKC Require Import Model.Pipeline.
Theorem unique_names_collision_refuted :
  exists names, ~ NoDup (unique_names names).
Proof.
  exists [[97]; [97]; [97; 95; 49]]%Z. intros H.
  assert (E : unique_names [[97]; [97]; [97; 95; 49]]%Z = [[97; 95; 49]; [97; 95; 50]; [97; 95; 49]]%Z)
    by (vm_compute; reflexivity).
  rewrite E in H. inversion H as [|? ? Hn _]. apply Hn. simpl. auto.
Qed.

(* C09 (repaired by a fix: commit): PuLP lists variables sorted by name as text, so with more than
   ten alternatives the value vector read positionally credits x10 to alternative 2, x2 to 4, ... *)
From SKC Require Import Model.Simus.
Theorem credit_sorted_refuted :
  exists vals, credit_sorted vals <> credit_by_index vals.
Proof.
  exists (map (fun k => inject_Z (Z.of_nat k)) (seq 0 12)). vm_compute. discriminate.
Qed.

From Coq Require Import Lia.
(* C11 (repaired by a fix: commit): push_negatives shifted an integer criterion in the criterion's own
   storage type.  Model of the old behaviour for a signed integer type of [bits] bits: every result is
   wrapped into [-2^(bits-1), 2^(bits-1)).  On int8 [-127; -2; 10] the shifted criterion does not have
   minimum 0 (10 + 127 = 137 wraps to -119); in unbounded integers - the repaired behaviour widens to 64
   bits first - it has, for every input (Transform.push_neg_min_zero). *)
From SKC Require Import Model.IntStorage.
Theorem push_neg_int8_refuted :
  exists v, Forall (fun x => (-128 <= x < 128)%Z) v /\ zmin (push_neg_wrapped 8 v) <> 0%Z.
Proof.
  exists [-127; -2; 10]%Z. split.
  - repeat constructor; vm_compute; discriminate.
  - vm_compute. discriminate.
Qed.

(* wrap is the identity on values that fit: the old code was right exactly when every shifted value fits *)
Lemma wrap_fits bits x :
  (- Z.pow 2 (Z.pos bits - 1) <= x < Z.pow 2 (Z.pos bits - 1))%Z -> wrap bits x = x.
Proof.
  intros H. unfold wrap. set (h := Z.pow 2 (Z.pos bits - 1)) in *.
  assert (Hh : (0 < h)%Z) by (apply Z.pow_pos_nonneg; lia).
  rewrite Z.mod_small by lia. lia.
Qed.

Theorem push_neg_wrapped_agrees bits v :
  Forall (fun x => (- Z.pow 2 (Z.pos bits - 1) <= x - zmin v < Z.pow 2 (Z.pos bits - 1))%Z) v ->
  push_neg_wrapped bits v = push_neg_Z v.
Proof.
  intros H. unfold push_neg_wrapped, push_neg_Z. destruct (zmin v <? 0)%Z; [|reflexivity].
  apply map_ext_in. intros x Hx. apply wrap_fits. rewrite Forall_forall in H. exact (H x Hx).
Qed.

(* the repair (arrays of 8/16/32-bit integers are widened to 64 bits before the shift) is exact: whatever
   32-bit values the criterion holds, no shifted value wraps in 64 bits, so the repaired function IS the
   unbounded one, whose minimum is 0 *)
Lemma zmin_range lo hi v :
  v <> [] -> Forall (fun x => (lo <= x < hi)%Z) v -> (lo <= zmin v < hi)%Z.
Proof.
  intros Hne H. unfold zmin. destruct v as [|a v]; [congruence|]. cbn [hd].
  assert (G : forall l, Forall (fun x => (lo <= x < hi)%Z) l -> (lo <= fold_right Z.min a l < hi)%Z).
  { induction l as [|x l IH]; intros Hl; cbn.
    - inversion H; assumption.
    - inversion Hl; subst. specialize (IH H3). lia. }
  apply G. exact H.
Qed.

Theorem push_neg_widened_is_exact v :
  Forall (fun x => (- 2 ^ 31 <= x < 2 ^ 31)%Z) v -> push_neg_wrapped 64 v = push_neg_Z v.
Proof.
  intros H. apply push_neg_wrapped_agrees. destruct v as [|a v]; [constructor|].
  assert (Hm := zmin_range (- 2 ^ 31) (2 ^ 31) (a :: v) ltac:(discriminate) H).
  rewrite Forall_forall in *. intros x Hx. specialize (H x Hx).
  change (Z.pos 64 - 1)%Z with 63%Z. lia.
Qed.

Lemma zmin_shift k v : v <> [] -> zmin (map (fun x => (x - k)%Z) v) = (zmin v - k)%Z.
Proof.
  intros Hne. destruct v as [|a v]; [congruence|]. unfold zmin. cbn [map hd].
  assert (G : forall l, fold_right Z.min (a - k)%Z (map (fun x => (x - k)%Z) l) = (fold_right Z.min a l - k)%Z).
  { induction l as [|x l IH]; cbn; [reflexivity|]. rewrite IH. lia. }
  change (fold_right Z.min (a - k)%Z (map (fun x => (x - k)%Z) (a :: v)) = (fold_right Z.min a (a :: v) - k)%Z).
  apply G.
Qed.

Theorem push_neg_Z_min_zero v : v <> [] -> (zmin v < 0)%Z -> zmin (push_neg_Z v) = 0%Z.
Proof.
  intros Hne H. unfold push_neg_Z. destruct (Z.ltb_spec (zmin v) 0); [|lia].
  rewrite zmin_shift by exact Hne. lia.
Qed.

(* together: the repaired function on any 8/16/32-bit criterion with a negative minimum reaches minimum 0 *)
Corollary push_neg_repaired_min_zero v :
  v <> [] -> Forall (fun x => (- 2 ^ 31 <= x < 2 ^ 31)%Z) v -> (zmin v < 0)%Z ->
  zmin (push_neg_wrapped 64 v) = 0%Z.
Proof. intros Hne Hr Hm. rewrite push_neg_widened_is_exact by exact Hr. apply push_neg_Z_min_zero; assumption. Qed.
