(* Refutation witnesses: the faithful model of behaviour that violates a property,
   with a concrete input (proved by computation).  Each is also a corpus case of
   the corresponding check. *)
From Coq Require Import ZArith QArith List Bool Arith.
From SKC Require Import Base.QBool Base.QList Model.Electre Model.Agg.
Import ListNotations.

(* C08: ELECTRE2 calls weights_outrank(matrix, objectives, weights) against the
   signature (matrix, weights, objectives); the relation it reports is not the
   weight-comparison relation. *)
Theorem wor_as_called_refuted :
  exists objs w ra rb, wor_called_cell objs w ra rb <> wor_spec_cell objs w ra rb.
Proof.
  exists [true; true], [3#4; 1#4], [1; 2], [2; 1]. vm_compute. discriminate.
Qed.

(* C04: FullMultiplicativeForm with no maximise criterion carries an offset of 1 *)
Theorem fmf_allmin_offset : forall objs, has_max objs = false -> fmf_offset objs == 1.
Proof. intros objs H. unfold fmf_offset. rewrite H. reflexivity. Qed.
