From Coq Require Import Extraction ExtrOcamlBasic.
From SKC Require Import Model.Val Model.Dispatch.
Extraction Language OCaml.

Extraction "model.ml" dispatch.
