(* C02 — decision matrices and results are values: no aliasing, inputs never mutated.
   PARTIAL BY NATURE: the theorems are about the ownership abstraction (Model/Alias.v); that every
   real accessor hands out a copy is established by the correspondence check only. *)
From Coq Require Import ZArith List Bool Arith.
From SKC Require Import Model.Alias Theory.Alias.
Import ListNotations.

(* if every accessor hands out a copy then, for EVERY history of reads, writes into returned
   objects and method runs, the object reports afterwards exactly what it reported before *)
Theorem C02_values_semantics : forall mode,
  (forall a, exists src, mode a = Copy src) ->
  forall ops i c, observe_eq (run mode (init i c) ops) (init i c).
Proof. exact values_semantics_init. Qed.
Print Assumptions C02_values_semantics.

Theorem C02_any_reachable_state : forall mode,
  (forall a, exists src, mode a = Copy src) ->
  forall ops s, all_fresh s -> observe_eq (run mode s ops) s.
Proof. exact values_semantics. Qed.
Print Assumptions C02_any_reachable_state.

Theorem C02_the_enumerated_surface_copies : forall a, exists src, impl_mode a = Copy src.
Proof. intros a. exists (Internal a). reflexivity. Qed.
Print Assumptions C02_the_enumerated_surface_copies.

Theorem C02_running_a_method_changes_nothing : forall mode s, observe_eq (step mode s RunMethod) s.
Proof. exact run_method_frame. Qed.
Print Assumptions C02_running_a_method_changes_nothing.

(* non-vacuity / necessity: one sharing accessor is enough to break it (the repaired defect) *)
Theorem C02_one_shared_accessor_breaks_it :
  exists mode ops, ~ observe_eq (run mode (init (fun _ => 0%Z) (fun _ => 0%Z)) ops) (init (fun _ => 0%Z) (fun _ => 0%Z)).
Proof. exact shared_accessor_refuted. Qed.
Print Assumptions C02_one_shared_accessor_breaks_it.

(* ---- first clause: the arrays handed to the constructor ----------------------------------------------
   (heap model, Model/Heap.v: the object's parts point to cells, the caller keeps the addresses of his
   own arrays).  A constructor that copies each array it is given, with accessors that hand out copies:
   after EVERY history of reads, writes - through returned objects and through the caller's own arrays -
   and method runs, every part reports what was handed to the constructor. *)
From SKC Require Import Model.Heap Theory.Heap.
Theorem C02_constructor_inputs_are_values : forall n input copies,
  (forall p, copies p = true) ->
  forall ops p, p < n -> report (hrun copies (construct impl_cmode n input) ops) p = input p.
Proof. exact constructor_inputs_are_values. Qed.
Print Assumptions C02_constructor_inputs_are_values.

(* necessity: a constructor that keeps one array of the caller breaks it ... *)
Theorem C02_adopting_constructor_breaks_it :
  exists cm n input ops p,
    p < n /\ report (hrun (fun _ => true) (construct cm n input) ops) p <> input p.
Proof. exact adopting_constructor_refuted. Qed.
Print Assumptions C02_adopting_constructor_breaks_it.

(* ... and so does one accessor that hands out the cell itself *)
Theorem C02_sharing_accessor_breaks_it_on_the_heap :
  exists n input ops p,
    p < n /\ report (hrun (fun _ => false) (construct impl_cmode n input) ops) p <> input p.
Proof. exact sharing_accessor_refuted. Qed.
Print Assumptions C02_sharing_accessor_breaks_it_on_the_heap.

Example C02_heap_history :
  let s := hrun (fun _ => true) (construct impl_cmode 3 (fun k => Z.of_nat (10 + k)))
                [HWrite 0 99%Z; HRead 1; HWrite 0 77%Z; HRun; HWrite 3 55%Z; HRead 0; HWrite 0 1%Z] in
  map (report s) [0; 1; 2] = [10; 11; 12]%Z.
Proof. exact heap_history_reports_the_input. Qed.
