(* C02 — decision matrices and results are values: no aliasing, inputs never mutated.
   PARTIAL BY NATURE: the theorems are about the ownership abstraction (Model/Alias.v); that every
   real accessor hands out a copy is established by the correspondence check only. *)
From Coq Require Import ZArith List Bool Arith.
From SKC Require Import Model.Alias Theory.Alias.
Import ListNotations.

(* if every accessor hands out a copy then, for EVERY history of reads, writes into returned
   objects and method runs, the object reports afterwards exactly what it reported before *)
Theorem C02_values_semantics : forall mode,
  (forall a, exists src, mode a = Copy src) ->
  forall ops i c, observe_eq (run mode (init i c) ops) (init i c).
Proof. exact values_semantics_init. Qed.
Print Assumptions C02_values_semantics.

Theorem C02_any_reachable_state : forall mode,
  (forall a, exists src, mode a = Copy src) ->
  forall ops s, all_fresh s -> observe_eq (run mode s ops) s.
Proof. exact values_semantics. Qed.
Print Assumptions C02_any_reachable_state.

Theorem C02_the_enumerated_surface_copies : forall a, exists src, impl_mode a = Copy src.
Proof. intros a. exists (Internal a). reflexivity. Qed.
Print Assumptions C02_the_enumerated_surface_copies.

Theorem C02_running_a_method_changes_nothing : forall mode s, observe_eq (step mode s RunMethod) s.
Proof. exact run_method_frame. Qed.
Print Assumptions C02_running_a_method_changes_nothing.

(* non-vacuity / necessity: one sharing accessor is enough to break it (the repaired defect) *)
Theorem C02_one_shared_accessor_breaks_it :
  exists mode ops, ~ observe_eq (run mode (init (fun _ => 0%Z) (fun _ => 0%Z)) ops) (init (fun _ => 0%Z) (fun _ => 0%Z)).
Proof. exact shared_accessor_refuted. Qed.
Print Assumptions C02_one_shared_accessor_breaks_it.
