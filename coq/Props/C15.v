(* C15 — imputation fills the gaps and touches nothing else. *)
From Coq Require Import ZArith QArith List Bool Arith.
From SKC Require Import Base.QBool Base.QList Model.Transform Model.Impute Theory.Impute.
Import ListNotations.

(* KNN / Iterative imputers: whatever values scikit-learn chooses for the gaps (f is arbitrary),
   the shape is kept, every observed cell keeps exactly its value and every gap is filled *)
Theorem C15_shape_kept : forall f columns, length (impute_with f columns) = length columns.
Proof. exact impute_with_shape. Qed.
Print Assumptions C15_shape_kept.

Theorem C15_criterion_length_kept : forall f columns j,
  (j < length columns)%nat -> length (nth j (impute_with f columns) []) = length (nth j columns []).
Proof. exact impute_with_col_length. Qed.
Print Assumptions C15_criterion_length_kept.

Theorem C15_cell_is_observed_value_or_filled : forall f columns j i,
  (j < length columns)%nat -> (i < length (nth j columns []))%nat ->
  nth i (nth j (impute_with f columns) []) 0 =
  match nth i (nth j columns []) None with Some x => x | None => f i j end.
Proof. exact impute_with_cell. Qed.
Print Assumptions C15_cell_is_observed_value_or_filled.

Theorem C15_observed_cells_unchanged : forall f columns j i x,
  (j < length columns)%nat -> (i < length (nth j columns []))%nat ->
  nth i (nth j columns []) None = Some x -> nth i (nth j (impute_with f columns) []) 0 = x.
Proof. exact impute_observed_unchanged. Qed.
Print Assumptions C15_observed_cells_unchanged.

(* SimpleImputer *)
Theorem C15_simple_observed_unchanged : forall s c i x,
  nth i c None = Some x -> nth i (simple_impute_col s c) 0 = x.
Proof. exact simple_observed_unchanged. Qed.
Print Assumptions C15_simple_observed_unchanged.

Theorem C15_simple_gap_gets_the_statistic_of_its_own_criterion : forall s c i,
  (i < length c)%nat -> nth i c None = None -> nth i (simple_impute_col s c) 0 = fill_value s c.
Proof. exact simple_fill_is_column_statistic. Qed.
Print Assumptions C15_simple_gap_gets_the_statistic_of_its_own_criterion.

Theorem C15_simple_is_columnwise : forall s columns j,
  nth j (simple_impute s columns) [] = simple_impute_col s (nth j columns []).
Proof. exact simple_columnwise. Qed.
Print Assumptions C15_simple_is_columnwise.

Theorem C15_mean_between_extremes : forall l, l <> [] -> lmin l <= mean l <= lmax l.
Proof. exact mean_between_extremes. Qed.
Print Assumptions C15_mean_between_extremes.

(* the statistics: the most frequent value is an observed value that no other observed value beats in frequency;
   a constant strategy fills with the constant; a criterion without gaps is returned as it is; the filling value
   depends on the observed values only *)
Theorem C15_most_frequent_is_observed_and_most_frequent : forall l,
  l <> [] -> In (mode l) l /\ forall y, In y l -> (countQ y l <= countQ (mode l) l)%nat.
Proof. intros l H. split; [apply mode_is_observed; exact H|intros y; apply mode_is_most_frequent]. Qed.
Print Assumptions C15_most_frequent_is_observed_and_most_frequent.

Theorem C15_constant_fills_the_constant : forall v c i,
  (i < length c)%nat -> nth i c None = None -> nth i (simple_impute_col (SConst v) c) 0%Q = v.
Proof. exact constant_fills_the_constant. Qed.
Print Assumptions C15_constant_fills_the_constant.

Theorem C15_complete_criterion_untouched : forall s c, simple_impute_col s (map Some c) = c.
Proof. exact complete_criterion_untouched. Qed.
Print Assumptions C15_complete_criterion_untouched.

Theorem C15_fill_depends_on_observed_values_only : forall s c c',
  observed c = observed c' -> fill_value s c = fill_value s c'.
Proof. exact fill_depends_on_observed_only. Qed.
Print Assumptions C15_fill_depends_on_observed_values_only.

Example C15_example :
  simple_impute_col SMedian [Some 5; None; Some 1; Some 3] = [5; 3; 1; 3] /\
  simple_impute_col SMode [Some 2; None; Some 7; Some 7; Some 2] = [2; 2; 7; 7; 2] /\
  simple_impute_col (SConst (1#2)) [None; Some 4] = [1#2; 4] /\
  Qeq (fill_value SMean [Some 1; None; Some 2]) (3#2).
Proof. vm_compute. repeat split. Qed.
