(* C16 — pipelines are the composition of their steps; methods rebuild from their parameters. *)
From Coq Require Import ZArith List Bool Arith.
From SKC Require Import Model.Pipeline Theory.Pipeline Theory.Suffix.
Import ListNotations.

Theorem C16_evaluate_is_composition : forall (D R : Type) (t1 t2 t3 : D -> D) (dm : D -> R) (d : D),
  pipe_evaluate [t1; t2; t3] dm d = dm (t3 (t2 (t1 d))).
Proof. exact evaluate_is_composition. Qed.
Print Assumptions C16_evaluate_is_composition.

Theorem C16_evaluate_unfolds_step_by_step : forall (D R : Type) (t : D -> D) ts (dm : D -> R) d,
  pipe_evaluate (t :: ts) dm d = pipe_evaluate ts dm (t d).
Proof. exact evaluate_cons. Qed.
Print Assumptions C16_evaluate_unfolds_step_by_step.

(* every split point: a suffix slice applied to the output of the preceding steps *)
Theorem C16_suffix_slice : forall (D R : Type) (ts1 ts2 : list (D -> D)) (dm : D -> R) (d : D),
  pipe_evaluate (ts1 ++ ts2) dm d = pipe_evaluate ts2 dm (pipe_transform ts1 d).
Proof. exact suffix_slice. Qed.
Print Assumptions C16_suffix_slice.

Theorem C16_nested_pipeline_as_step_flattens : forall (D : Type) (ts1 inner ts2 : list (D -> D)) (d : D),
  pipe_transform (ts1 ++ [pipe_transform inner] ++ ts2) d = pipe_transform (ts1 ++ inner ++ ts2) d.
Proof. exact nested_step_flattens. Qed.
Print Assumptions C16_nested_pipeline_as_step_flattens.

Theorem C16_nested_pipeline_as_last_step_flattens : forall (D R : Type) (ts inner : list (D -> D)) (dm : D -> R) (d : D),
  pipe_evaluate ts (pipe_evaluate inner dm) d = pipe_evaluate (ts ++ inner) dm d.
Proof. exact nested_last_flattens. Qed.
Print Assumptions C16_nested_pipeline_as_last_step_flattens.

Theorem C16_one_name_per_step : forall names, length (unique_names names) = length names.
Proof. exact unique_names_length. Qed.
Print Assumptions C16_one_name_per_step.

(* names are unique provided no listed name already equals a generated name of a repeated one - the explicit side
   condition; Findings.unique_names_collision_refuted shows it cannot be dropped (known finding).  That suffixing is
   injective (the last "_" separates a non-empty digit string, and decimal notation is injective) is proved. *)
Theorem C16_suffixing_is_injective : forall x y k l, suffix x k = suffix y l -> x = y /\ k = l.
Proof. exact suffix_injective. Qed.
Print Assumptions C16_suffixing_is_injective.

Theorem C16_step_names_unique_partial :
  forall names,
  (forall x k, (1 < count_name x names)%nat -> (1 <= k <= count_name x names)%nat -> ~ In (suffix x k) names) ->
  NoDup (unique_names names).
Proof. exact unique_names_nodup_unconditional. Qed.
Print Assumptions C16_step_names_unique_partial.

Theorem C16_copy_changes_only_the_overrides : forall m ov p v,
  pget p m = Some v ->
  pget p (copy_with m ov) = match pget p ov with Some w => Some w | None => Some v end.
Proof. exact copy_overrides_only. Qed.
Print Assumptions C16_copy_changes_only_the_overrides.

Theorem C16_copy_keeps_the_parameter_set : forall m ov, map fst (copy_with m ov) = map fst m.
Proof. exact copy_keeps_parameter_set. Qed.
Print Assumptions C16_copy_keeps_the_parameter_set.

Theorem C16_rebuild_from_parameters_is_identity : forall m, rebuild m = m.
Proof. exact rebuild_id. Qed.
Print Assumptions C16_rebuild_from_parameters_is_identity.

Example C16_example :
  unique_names [[97]; [98]; [97]; [97]]%Z = [[97; 95; 49]; [98]; [97; 95; 50]; [97; 95; 51]]%Z /\
  suffix [120]%Z 12 = [120; 95; 49; 50]%Z /\
  copy_with [(1, 10); (2, 20)]%Z [(2, 99)]%Z = [(1, 10); (2, 99)]%Z /\
  pipe_evaluate [fun x => x + 1; fun x => x * 2] (fun x => x - 3) 5 = ((5 + 1) * 2 - 3).
Proof. vm_compute. repeat split. Qed.
