(* C06 — a dominated alternative is never ranked above the one that dominates it. *)
From Coq Require Import QArith List Bool Arith.
From Coq Require Import Reals.
From SKC Require Import Base.QBool Base.QList Base.QRank Model.Dominance Model.Agg Theory.Agg Theory.Monotone Theory.RealClosing.
Import ListNotations.

(* RatioMOORA (signed weighted sum): strictly better score for the dominator *)
Theorem C06_ratio_monotone : forall objs w ra rb,
  length ra = length objs -> length rb = length objs -> length w = length objs ->
  (forall x, In x w -> 0 < x) ->
  dominates objs ra rb = true ->
  dot rb (signed_weights objs w) < dot ra (signed_weights objs w).
Proof. exact ratio_monotone. Qed.
Print Assumptions C06_ratio_monotone.

Theorem C06_wsm_monotone : forall objs w ra rb,
  ~ In false objs ->
  length ra = length objs -> length rb = length objs -> length w = length objs ->
  (forall x, In x w -> 0 < x) ->
  dominates objs ra rb = true -> dot rb w < dot ra w.
Proof. exact wsm_monotone. Qed.
Print Assumptions C06_wsm_monotone.

(* TOPSIS closeness: nearer to the ideal and farther from the anti-ideal never lowers it *)
Theorem C06_closeness_monotone : forall db dw db' dw' s s',
  0 <= db -> 0 <= dw' -> db <= db' -> dw' <= dw ->
  similarity db dw = Some s -> similarity db' dw' = Some s' -> s' <= s.
Proof. exact similarity_monotone. Qed.
Print Assumptions C06_closeness_monotone.

(* a strictly better reported score is a strictly smaller rank, equal scores share one *)
Theorem C06_rank_never_worse : forall xs i j x y ri rj,
  nth_error xs i = Some x -> nth_error xs j = Some y ->
  nth_error (rank_values true xs) i = Some ri -> nth_error (rank_values true xs) j = Some rj ->
  ((y < x)%Q <-> (ri < rj)%nat).
Proof. exact rank_values_rev_lt. Qed.
Print Assumptions C06_rank_never_worse.

(* identical alternatives get identical scores under every row-wise score *)
Theorem C06_duplicates_share_score : forall (f : list Q -> Q) rows i j d,
  (i < length rows)%nat -> (j < length rows)%nat ->
  nth i rows [] = nth j rows [] ->
  nth i (map f rows) d = nth j (map f rows) d.
Proof. exact (@duplicates_share_score Q). Qed.
Print Assumptions C06_duplicates_share_score.

(* TOPSIS, rational metrics (cityblock, squared euclidean, chebyshev): the dominator is at least as
   near to the ideal and at least as far from the anti-ideal, coordinate by coordinate ... *)
Theorem C06_dominator_is_between_dominated_and_ideal : forall objs w ra rb ideal,
  length ra = length objs -> length rb = length objs -> length w = length objs -> length ideal = length objs ->
  (forall x, In x w -> 0 <= x) ->
  all_geq objs ra rb = true ->
  (forall j, (j < length objs)%nat ->
     better (nth j objs true) (nth j (map2 Qmult ra w) 0) (nth j ideal 0) = false /\
     better (nth j objs true) (nth j (map2 Qmult rb w) 0) (nth j ideal 0) = false) ->
  between (map2 Qmult ra w) (map2 Qmult rb w) ideal.
Proof. exact dominance_gives_between. Qed.
Print Assumptions C06_dominator_is_between_dominated_and_ideal.

Theorem C06_distance_monotone : forall mt a b t, between a b t -> dist mt a t <= dist mt b t.
Proof. exact dist_between. Qed.
Print Assumptions C06_distance_monotone.

(* ... hence its closeness is at least as high *)
Theorem C06_topsis_monotone_rational_metrics : forall mt wa wb ideal anti sa sb,
  between wa wb ideal -> between wb wa anti ->
  similarity (dist mt wa ideal) (dist mt wa anti) = Some sa ->
  similarity (dist mt wb ideal) (dist mt wb anti) = Some sb ->
  sb <= sa.
Proof. exact topsis_dominance_monotone. Qed.
Print Assumptions C06_topsis_monotone_rational_metrics.

(* euclidean metric: the same from the squared distances through the real square root *)
Theorem C06_topsis_monotone_euclidean : forall (a b c d : R),
  (0 <= a <= b)%R -> (0 <= d <= c)%R -> (0 < sqrt a + sqrt c)%R -> (0 < sqrt b + sqrt d)%R ->
  (closeness b d <= closeness a c)%R.
Proof. exact closeness_monotone. Qed.
Print Assumptions C06_topsis_monotone_euclidean.

(* ReferencePointMOORA (lower is better): the dominator's score is at most the dominated one's *)
Theorem C06_refpoint_monotone : forall w rp ra rb,
  (forall x, In x w -> 0 <= x) -> between ra rb rp -> length w = length ra ->
  refpoint_score_row w rp ra <= refpoint_score_row w rp rb.
Proof. exact refpoint_dominance_monotone. Qed.
Print Assumptions C06_refpoint_monotone.

(* WPM and FMF: logarithmic scores over the reals *)
Theorem C06_wpm_monotone : forall w a b,
  geq_all a b -> Forall (fun x => (0 < x)%R) w -> length w = length a -> (wlog w b <= wlog w a)%R.
Proof. exact wpm_monotone. Qed.
Print Assumptions C06_wpm_monotone.

Theorem C06_fmf_monotone : forall objs w a b,
  fmf_geq objs a b -> Forall (fun x => (0 < x)%R) w -> length w = length objs ->
  (RealClosing.fmf objs w b <= RealClosing.fmf objs w a)%R.
Proof. exact fmf_monotone. Qed.
Print Assumptions C06_fmf_monotone.

Example C06_example :
  let objs := [true; false] in
  dominates objs [3; 1] [2; 1] = true /\
  dot [2; 1] (signed_weights objs [1; 2]) < dot [3; 1] (signed_weights objs [1; 2]).
Proof. vm_compute. split; reflexivity. Qed.
