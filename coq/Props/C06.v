(* C06 — a dominated alternative is never ranked above the one that dominates it. *)
From Coq Require Import QArith List Bool Arith.
From SKC Require Import Base.QBool Base.QList Base.QRank Model.Dominance Model.Agg Theory.Agg.
Import ListNotations.

(* RatioMOORA (signed weighted sum): strictly better score for the dominator *)
Theorem C06_ratio_monotone : forall objs w ra rb,
  length ra = length objs -> length rb = length objs -> length w = length objs ->
  (forall x, In x w -> 0 < x) ->
  dominates objs ra rb = true ->
  dot rb (signed_weights objs w) < dot ra (signed_weights objs w).
Proof. exact ratio_monotone. Qed.
Print Assumptions C06_ratio_monotone.

Theorem C06_wsm_monotone : forall objs w ra rb,
  ~ In false objs ->
  length ra = length objs -> length rb = length objs -> length w = length objs ->
  (forall x, In x w -> 0 < x) ->
  dominates objs ra rb = true -> dot rb w < dot ra w.
Proof. exact wsm_monotone. Qed.
Print Assumptions C06_wsm_monotone.

(* TOPSIS closeness: nearer to the ideal and farther from the anti-ideal never lowers it *)
Theorem C06_closeness_monotone : forall db dw db' dw' s s',
  0 <= db -> 0 <= dw' -> db <= db' -> dw' <= dw ->
  similarity db dw = Some s -> similarity db' dw' = Some s' -> s' <= s.
Proof. exact similarity_monotone. Qed.
Print Assumptions C06_closeness_monotone.

(* a strictly better reported score is a strictly smaller rank, equal scores share one *)
Theorem C06_rank_never_worse : forall xs i j x y ri rj,
  nth_error xs i = Some x -> nth_error xs j = Some y ->
  nth_error (rank_values true xs) i = Some ri -> nth_error (rank_values true xs) j = Some rj ->
  ((y < x)%Q <-> (ri < rj)%nat).
Proof. exact rank_values_rev_lt. Qed.
Print Assumptions C06_rank_never_worse.

(* identical alternatives get identical scores under every row-wise score *)
Theorem C06_duplicates_share_score : forall (f : list Q -> Q) rows i j d,
  (i < length rows)%nat -> (j < length rows)%nat ->
  nth i rows [] = nth j rows [] ->
  nth i (map f rows) d = nth j (map f rows) d.
Proof. exact (@duplicates_share_score Q). Qed.
Print Assumptions C06_duplicates_share_score.

Example C06_example :
  let objs := [true; false] in
  dominates objs [3; 1] [2; 1] = true /\
  dot [2; 1] (signed_weights objs [1; 2]) < dot [3; 1] (signed_weights objs [1; 2]).
Proof. vm_compute. split; reflexivity. Qed.
