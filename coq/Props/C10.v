(* C10 — transformers change only the part of the decision matrix they declare. *)
From Coq Require Import ZArith QArith List Bool Arith Sorted.
From SKC Require Import Model.Agg Model.Select Model.Transform Theory.Transform.
Import ListNotations.

(* for EVERY concrete computation a transformer of a given kind performs (the proposal is an
   arbitrary function of the input), the parts the kind does not declare are unchanged *)
Theorem C10_frame : forall k d pr p,
  declares k p = false -> get_part p (merge k d pr) = get_part p d.
Proof. exact transform_frame. Qed.
Print Assumptions C10_frame.

Theorem C10_criteria_never_change : forall k d pr, crits (merge k d pr) = crits d.
Proof. exact criteria_unchanged. Qed.
Print Assumptions C10_criteria_never_change.

Theorem C10_alternatives_change_only_under_filters : forall k d pr,
  k <> KFilter -> alts (merge k d pr) = alts d.
Proof. exact alternatives_unchanged. Qed.
Print Assumptions C10_alternatives_change_only_under_filters.

(* pipelines: a part no step declares is unchanged by the whole pipeline *)
Theorem C10_pipeline_frame : forall steps d p,
  (forall t, In t steps -> declares (fst t) p = false) ->
  get_part p (pipeline_transform steps d) = get_part p d.
Proof. exact pipeline_frame. Qed.
Print Assumptions C10_pipeline_frame.

Theorem C10_inverters_make_all_maximise : forall f d,
  Forall (fun o => o = true) (objs (transform (KInverter, inverter_proposal f) d)).
Proof. exact inverter_all_max. Qed.
Print Assumptions C10_inverters_make_all_maximise.

(* filters only drop whole alternatives: survivors in original order, each with its own row *)
Theorem C10_filters_drop_whole_rows : forall d pr,
  let d' := merge KFilter d pr in
  let rp := mask_pos 0 (pr_keep pr) in
  StronglySorted lt rp /\
  alts d' = map (fun p => nth p (alts d) 0%Z) rp /\
  cells d' = map (fun p => nth p (cells d) []) rp /\
  crits d' = crits d /\ objs d' = objs d /\ wts d' = wts d.
Proof. exact filter_rows_subsequence. Qed.
Print Assumptions C10_filters_drop_whole_rows.

Example C10_example :
  let d := {| alts := [1; 2; 3]%Z; crits := [7; 8]%Z; cells := [[1; 2]; [3; 4]; [5; 6]]%Q;
              objs := [true; false]; wts := [1#4; 3#4]%Q; dts := [0; 0]%Z |} in
  let pr := {| pr_matrix := [[9; 9]; [9; 9]; [9; 9]]%Q; pr_wts := [1; 1]%Q; pr_objs := [false; false];
               pr_keep := [true; false; true] |} in
  wts (merge (KScaler TMatrix) d pr) = wts d /\ cells (merge (KScaler TMatrix) d pr) = pr_matrix pr /\
  cells (merge KWeighter d pr) = cells d /\ wts (merge KWeighter d pr) = pr_wts pr /\
  alts (merge KFilter d pr) = [1; 3]%Z /\ cells (merge KFilter d pr) = [[1; 2]; [5; 6]]%Q.
Proof. vm_compute. repeat split. Qed.
