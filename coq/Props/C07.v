(* C07 — dominance analysis matches the definition of (strict) dominance.
   Property theorems only; proofs are in Theory/Dominance.v. *)
From Coq Require Import QArith List Bool Arith.
From SKC Require Import Base.QBool Model.Dominance Theory.Dominance Theory.Dominance2.
Import ListNotations.
Local Open Scope nat_scope.

(* better-than counts reported by the accessor (through the unordered-pair
   cache and its "reverted" flag) are the definition's counts *)
Theorem C07_bt_is_definition : forall objs rows i j,
  bt_cell objs rows i j = count_better objs (row rows i) (row rows j).
Proof. exact bt_cell_spec. Qed.
Print Assumptions C07_bt_is_definition.

Theorem C07_eq_is_definition : forall objs rows i j,
  rect (length objs) rows -> i < length rows ->
  eq_cell objs rows i j = count_equal objs (row rows i) (row rows j).
Proof. exact eq_cell_spec. Qed.
Print Assumptions C07_eq_is_definition.

(* a dominates b iff nowhere worse and somewhere better; strictly iff better
   everywhere — for every pair, both strict settings *)
Theorem C07_dominance_is_definition : forall strict objs rows i j,
  rect (length objs) rows -> i < length rows -> j < length rows ->
  dom_cell strict objs rows i j =
  if i =? j then false else dom_spec strict objs (row rows i) (row rows j).
Proof. exact dom_cell_spec. Qed.
Print Assumptions C07_dominance_is_definition.

Theorem C07_cache_reverted_entry_is_swapped_pair : forall objs rows i j,
  j < i ->
  let e := fst (cache_read objs rows i j) in
  let d := rank_dominance objs (row rows i) (row rows j) in
  snd (cache_read objs rows i j) = true /\
  e_bDa e = e_aDb d /\ e_aDb e = e_bDa d /\ e_eq e = e_eq d /\
  e_bDa_where e = e_aDb_where d /\ e_aDb_where e = e_bDa_where d /\
  e_eq_where e = e_eq_where d.
Proof. exact cache_read_reverted. Qed.
Print Assumptions C07_cache_reverted_entry_is_swapped_pair.

Theorem C07_partition : forall objs ra rb,
  length ra = length objs -> length rb = length objs ->
  count_better objs ra rb + count_better objs rb ra + count_equal objs ra rb = length objs.
Proof. exact partition. Qed.
Print Assumptions C07_partition.

Theorem C07_irreflexive : forall strict objs r, dom_spec strict objs r r = false.
Proof. exact dominates_irrefl. Qed.
Print Assumptions C07_irreflexive.

Theorem C07_asymmetric : forall strict objs ra rb,
  dom_spec strict objs ra rb = true -> dom_spec strict objs rb ra = false.
Proof. exact dominates_asym. Qed.
Print Assumptions C07_asymmetric.

Theorem C07_transitive : forall strict objs ra rb rc,
  length ra = length objs -> length rb = length objs -> length rc = length objs ->
  dom_spec strict objs ra rb = true -> dom_spec strict objs rb rc = true ->
  dom_spec strict objs ra rc = true.
Proof. exact dominates_trans. Qed.
Print Assumptions C07_transitive.

Theorem C07_strict_implies_dominance : forall objs ra rb,
  strictly_dominates objs ra rb = true -> dominates objs ra rb = true.
Proof. exact strict_implies_dominates. Qed.
Print Assumptions C07_strict_implies_dominance.

(* dominators_of (recursive, concatenating) never runs out of fuel and lists,
   as a set, exactly the direct dominators = the transitive closure *)
Theorem C07_dominators_of_is_closure : forall strict objs rows,
  rect (length objs) rows -> forall a,
  exists l, dominators_of (S (length rows)) (dom_rel strict objs rows) (length rows) a = Some l /\
            forall x, In x l <-> (x < length rows /\ dom_rel strict objs rows x a = true).
Proof. exact accessor_dominators_closure. Qed.
Print Assumptions C07_dominators_of_is_closure.

Theorem C07_no_loops : forall strict objs rows,
  rect (length objs) rows -> has_loops (dom_rel strict objs rows) (length rows) = false.
Proof. exact accessor_no_loops. Qed.
Print Assumptions C07_no_loops.

(* the per-criterion comparison table: three boolean rows (a better, b better, equal) and the counts,
   whichever way round the unordered-pair cache stores the pair *)
Theorem C07_compare_is_definition : forall objs rows i j,
  i <> j ->
  compare_cell objs rows i j =
  ((better_where objs (row rows i) (row rows j), better_where objs (row rows j) (row rows i),
    equal_where objs (row rows i) (row rows j)),
   (count_better objs (row rows i) (row rows j), count_better objs (row rows j) (row rows i),
    count_equal objs (row rows i) (row rows j))).
Proof. exact compare_cell_spec. Qed.
Print Assumptions C07_compare_is_definition.

Theorem C07_compare_rows_per_criterion : forall objs ra rb k,
  k < length objs -> k < length ra -> k < length rb ->
  nth k (better_where objs ra rb) false = better (nth k objs true) (nth k ra 0%Q) (nth k rb 0%Q) /\
  nth k (equal_where objs ra rb) false = Qeqb (nth k ra 0%Q) (nth k rb 0%Q).
Proof. intros. split; [apply better_where_nth|apply equal_where_nth]; assumption. Qed.
Print Assumptions C07_compare_rows_per_criterion.

(* the dominated set *)
Theorem C07_dominated_is_definition : forall strict objs rows j,
  rect (length objs) rows -> j < length rows ->
  (nth j (dominated strict objs rows) false = true <->
   exists i, i < length rows /\ i <> j /\ dom_spec strict objs (row rows i) (row rows j) = true).
Proof. exact dominated_spec. Qed.
Print Assumptions C07_dominated_is_definition.

Theorem C07_strictly_dominated_is_dominated : forall objs rows j,
  rect (length objs) rows -> j < length rows ->
  nth j (dominated true objs rows) false = true -> nth j (dominated false objs rows) false = true.
Proof. exact strictly_dominated_is_dominated. Qed.
Print Assumptions C07_strictly_dominated_is_dominated.

(* non-vacuity: a concrete matrix with a tie, a dominating pair and mixed objectives *)
Example C07_example :
  let objs := [true; false] in
  let rows := [[1; 2]; [2; 1]; [1; 2]; [2; 2]]%Q in
  rect (length objs) rows /\
  dom_cell false objs rows 1 0 = true /\ dom_cell true objs rows 1 0 = true /\
  dom_cell false objs rows 3 0 = true /\ dom_cell true objs rows 3 0 = false /\
  bt_cell objs rows 1 0 = 2 /\ eq_cell objs rows 0 2 = 2.
Proof. vm_compute. repeat split; repeat constructor. Qed.
