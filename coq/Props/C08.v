(* C08 — ELECTRE outranking relations, kernel and distillation follow their definition.
   concordance / discordance / weight comparison are the model's definitions
   (Model/Electre.v: conc_cell, disc_cell, wor_spec_cell); the theorems are the
   properties of those definitions and of the relations built from them. *)
From Coq Require Import QArith List Bool Arith.
From SKC Require Import Base.QBool Base.QList Model.Electre Theory.Electre Theory.Result Theory.ElectreInv Theory.Distill Theory.Electre2.
Import ListNotations.

Theorem C08_outrank_iff : forall n p q conc disc i j,
  (i < n)%nat -> (j < n)%nat ->
  (bget (outrank_of n p q conc disc) i j = true <->
   i <> j /\ p <= qget conc i j /\ qget disc i j <= q).
Proof. exact outrank_iff. Qed.
Print Assumptions C08_outrank_iff.

Theorem C08_kernel_is_not_outranked : forall n outrank j,
  (j < n)%nat ->
  (nth j (kernel n outrank) false = true <-> forall i, (i < n)%nat -> bget outrank i j = false).
Proof. exact kernel_spec. Qed.
Print Assumptions C08_kernel_is_not_outranked.

Theorem C08_concordance_bounds : forall objs w ra rb,
  (forall x, In x w -> 0 <= x) -> 0 <= conc_cell objs w ra rb <= qsum w.
Proof. exact conc_bounds. Qed.
Print Assumptions C08_concordance_bounds.

(* concordance(a,b) is the total weight minus the weight where b is strictly better *)
Theorem C08_concordance_complement : forall objs w ra rb,
  length w = length objs -> length ra = length objs -> length rb = length objs ->
  conc_cell objs w ra rb + wor_sum objs w rb ra == qsum w.
Proof. exact conc_complement. Qed.
Print Assumptions C08_concordance_complement.

Theorem C08_discordance_nonneg : forall objs ra rb, 0 <= disc_num objs ra rb.
Proof. exact disc_num_nonneg. Qed.
Print Assumptions C08_discordance_nonneg.

Theorem C08_discordance_zero_iff_nowhere_worse : forall objs ra rb,
  length ra = length objs -> length rb = length objs ->
  (disc_num objs ra rb == 0 <->
   forall j, (j < length objs)%nat -> worse1 (nth j objs true) (nth j ra 0) (nth j rb 0) = false).
Proof. exact disc_zero_iff. Qed.
Print Assumptions C08_discordance_zero_iff_nowhere_worse.

Theorem C08_weight_comparison_total : forall objs w ra rb,
  wor_spec_cell objs w ra rb = true \/ wor_spec_cell objs w rb ra = true.
Proof. exact wor_spec_total. Qed.
Print Assumptions C08_weight_comparison_total.

Theorem C08_strong_subset_weak : forall n p0 p1 p2 q0 q1 conc disc wor i j,
  p2 <= p1 -> p1 <= p0 -> q1 <= q0 -> (i < n)%nat -> (j < n)%nat ->
  bget (outrank_s_of n p0 p1 q0 q1 conc disc wor) i j = true ->
  bget (outrank_w_of n p2 q0 conc disc wor) i j = true.
Proof. exact strong_subset_weak. Qed.
Print Assumptions C08_strong_subset_weak.

(* the distillation always terminates within the fuel the model passes: the
   rankings are defined for every pair of relations *)
Theorem C08_distillation_defined : forall n s w, exists out, electre2_rank n s w = Some out.
Proof. exact electre2_rank_defined. Qed.
Print Assumptions C08_distillation_defined.

(* each distillation (direct; inverse = transposed relations with the ranks reversed) yields one rank per
   alternative and the ranks are exactly 1..k: every class distilled in a round shares the round's rank, and
   the alternatives nobody can separate any more share the last one *)
Theorem C08_distillations_are_well_formed_rankings : forall n s w invert r,
  ranker n s w invert = Some r ->
  length r = n /\
  exists k, (k <= n)%nat /\ (forall i, (i < n)%nat -> (1 <= nth i r 0 <= k)%nat) /\
            (forall p, (1 <= p <= k)%nat -> exists i, (i < n)%nat /\ nth i r 0%nat = p).
Proof. exact ranker_well_ranked. Qed.
Print Assumptions C08_distillations_are_well_formed_rankings.

(* renumbering the alternatives renumbers the distillation: nothing depends on the listing order *)
Theorem C08_distillation_independent_of_listing_order : forall n sg (ts tw ts' tw' : list (list bool)) invert,
  Permutation.Permutation (map sg (seq 0 n)) (seq 0 n) ->
  (forall i j, (i < n)%nat -> (j < n)%nat -> bget ts' i j = bget ts (sg i) (sg j)) ->
  (forall i j, (i < n)%nat -> (j < n)%nat -> bget tw' i j = bget tw (sg i) (sg j)) ->
  match ranker n ts tw invert, ranker n ts' tw' invert with
  | Some r, Some r' => follows n sg r r'
  | None, None => True
  | _, _ => False
  end.
Proof. intros n sg ts tw ts' tw' invert P. exact (ranker_follows_alternatives n sg P ts tw ts' tw' invert). Qed.
Print Assumptions C08_distillation_independent_of_listing_order.

(* discordance: the numerator is the LARGEST amount by which b beats a on any criterion (an upper bound of every
   criterion's shortfall, and attained), and divided by the largest criterion range it lies in [0, 1] *)
Theorem C08_discordance_is_largest_shortfall : forall objs ra rb,
  length ra = length objs -> length rb = length objs ->
  (forall j, (j < length objs)%nat -> shortfall (nth j objs true) (nth j ra 0) (nth j rb 0) <= disc_num objs ra rb) /\
  (objs = [] \/ exists j, (j < length objs)%nat /\
                          disc_num objs ra rb = shortfall (nth j objs true) (nth j ra 0) (nth j rb 0)).
Proof. exact disc_num_is_largest_shortfall. Qed.
Print Assumptions C08_discordance_is_largest_shortfall.

Theorem C08_discordance_in_unit_interval : forall objs rows ra rb,
  Forall (fun r => length r = length objs) rows -> In ra rows -> In rb rows ->
  0 < max_range (length objs) rows ->
  0 <= disc_cell objs (max_range (length objs) rows) ra rb <= 1.
Proof. exact discordance_bounds. Qed.
Print Assumptions C08_discordance_in_unit_interval.

Example C08_example :
  let objs := [true; false] in let w := [3#4; 1#4] in
  let rows := [[1; 2]; [2; 1]; [1; 1]] in
  Forall2 (Forall2 Qeq) (concordance objs w rows) [[1; 0; 3#4]; [1; 1; 1]; [1; 1#4; 1]] /\
  Forall2 (Forall2 Qeq) (discordance objs rows) [[0; 1; 1]; [0; 0; 0]; [0; 1; 0]] /\
  kernel 3 (outrank_of 3 (65#100) (35#100) (concordance objs w rows) (discordance objs rows))
    = [false; true; false].
Proof. vm_compute. repeat split; repeat (constructor; try reflexivity). Qed.
