(* C09 — SIMUS stages are optimal LP solutions credited to the right alternatives. *)
From Coq Require Import ZArith QArith List Bool Arith.
From SKC Require Import Base.QBool Base.QList Model.Electre Model.Simus Theory.Simus Theory.Simus2.
Import ListNotations.

(* the certificate checker is sound: an accepted (x, y) proves x feasible and OPTIMAL for the LP *)
Theorem C09_certificate_checker_sound : forall p x y,
  check_cert p x y = true ->
  feasible p x = true /\ forall x', feasible p x' = true -> dot (lp_c p) x' <= dot (lp_c p) x.
Proof. exact check_cert_sound. Qed.
Print Assumptions C09_certificate_checker_sound.

Theorem C09_weak_duality : forall p x y,
  rows_len (length (lp_c p)) (lp_A p) = true -> length y = length (lp_A p) ->
  length (lp_b p) = length (lp_A p) ->
  feasible p x = true -> nonneg y = true -> all_le (lp_c p) (ytA (length (lp_c p)) y (lp_A p)) = true ->
  dot (lp_c p) x <= dot y (lp_b p).
Proof. exact weak_duality. Qed.
Print Assumptions C09_weak_duality.

(* each stage row is the solution normalised to sum one (all zeros when the solution is zero) *)
Theorem C09_stage_row_sums_to_one_or_zero : forall r,
  (qsum r == 0 -> forall v, In v (normalise_row r) -> v == 0) /\
  (~ qsum r == 0 -> qsum (normalise_row r) == 1).
Proof. exact stage_row_sums_to_one_or_zero. Qed.
Print Assumptions C09_stage_row_sums_to_one_or_zero.

Theorem C09_second_method_formula : forall n sr,
  let '(score, p, s, d) := second_method n sr in
  score = map2 Qminus p s /\ p = map qsum d /\ s = map (fun j => qsum (col_of 0 d j)) (seq 0 n) /\
  d = dominance_table n sr.
Proof. exact second_method_formula. Qed.
Print Assumptions C09_second_method_formula.

(* the i-th reported value is that of the i-th alternative's variable *)
Theorem C09_values_credited_by_index : forall vals, credit_by_index vals = vals.
Proof. exact credit_by_index_id. Qed.
Print Assumptions C09_values_credited_by_index.

(* the linear program built for stage z (minimise rows negated, row z removed) IS the documented one:
   non-negative variables; every other maximised criterion at most its bound, every other minimised one at least *)
Theorem C09_stage_program_is_the_documented_one : forall objs tm bv z x,
  length objs = length tm -> length tm = length bv -> (z < length objs)%nat ->
  (feasible (stage_lp objs tm bv z) x = true <-> doc_feasible objs tm bv z x).
Proof. exact stage_lp_is_the_documented_program. Qed.
Print Assumptions C09_stage_program_is_the_documented_one.

(* so a stage whose certificate checks satisfies every documented constraint and attains the true optimum of
   criterion z in that criterion's own sense *)
Theorem C09_certified_stage_is_optimal : forall objs tm bv z x y,
  length objs = length tm -> length tm = length bv -> (z < length objs)%nat ->
  check_cert (stage_lp objs tm bv z) x y = true ->
  doc_feasible objs tm bv z x /\
  forall x', doc_feasible objs tm bv z x' ->
    if nth z objs true then stage_value objs tm z x' <= stage_value objs tm z x
    else stage_value objs tm z x <= stage_value objs tm z x'.
Proof. exact certified_stage_is_optimal. Qed.
Print Assumptions C09_certified_stage_is_optimal.

(* scoring: first method cell; the second method's dominance table is the sum over the stages of how much one
   alternative exceeds the other; what one alternative gains another loses *)
Theorem C09_first_method_formula : forall n sr j, (j < n)%nat ->
  nth j (first_method n sr) 0 =
  qsum (col_of 0 sr j) * (inject_Z (Z.of_nat (length (filter (fun v => Qltb 0 v) (col_of 0 sr j)))) /
                          inject_Z (Z.of_nat (length sr))).
Proof. exact first_method_cell. Qed.
Print Assumptions C09_first_method_formula.

Theorem C09_dominance_table_cell : forall n sr a b,
  Forall (fun c => length c = n) sr -> (a < n)%nat -> (b < n)%nat ->
  qget (dominance_table n sr) a b == qsum (map (fun crit => pos_part (nth a crit 0 - nth b crit 0)) sr).
Proof. exact dominance_table_cell. Qed.
Print Assumptions C09_dominance_table_cell.

Theorem C09_second_method_scores_sum_to_zero : forall n sr,
  Forall (fun c => length c = n) sr ->
  let '(score, _, _, _) := second_method n sr in qsum score == 0.
Proof. exact second_method_scores_sum_to_zero. Qed.
Print Assumptions C09_second_method_scores_sum_to_zero.

(* the bound of every constraint: the supplied b where given (0 included), otherwise the criterion's own extreme *)
Theorem C09_default_bounds : forall objs tm user k,
  length objs = length tm -> length tm = length user -> (k < length objs)%nat ->
  nth k (default_b objs tm user) 0 =
  match nth k user None with
  | Some v => v
  | None => if nth k objs true then lmax (nth k tm []) else lmin (nth k tm [])
  end.
Proof. exact default_b_spec. Qed.
Print Assumptions C09_default_bounds.

Example C09_example :
  let objs := [true; true; false] in
  let tm := [[2; 1]; [1; 3]; [4; 2]] in      (* 3 criteria x 2 alternatives *)
  let p := stage_lp objs tm (default_b objs tm [None; None; None]) 0 in
  lp_c p = [2; 1] /\ lp_A p = [[1; 3]; [-(4); -(2)]] /\ lp_b p = [3; -(2)] /\
  check_cert p [3; 0] [2; 0] = true /\ check_cert p [0; 1] [2; 0] = false /\
  name_sorted 12 = [0; 1; 10; 11; 2; 3; 4; 5; 6; 7; 8; 9]%nat.
Proof. vm_compute. repeat split. Qed.
