(* C09 — SIMUS stages are optimal LP solutions credited to the right alternatives. *)
From Coq Require Import ZArith QArith List Bool Arith.
From SKC Require Import Base.QBool Base.QList Model.Electre Model.Simus Theory.Simus.
Import ListNotations.

(* the certificate checker is sound: an accepted (x, y) proves x feasible and OPTIMAL for the LP *)
Theorem C09_certificate_checker_sound : forall p x y,
  check_cert p x y = true ->
  feasible p x = true /\ forall x', feasible p x' = true -> dot (lp_c p) x' <= dot (lp_c p) x.
Proof. exact check_cert_sound. Qed.
Print Assumptions C09_certificate_checker_sound.

Theorem C09_weak_duality : forall p x y,
  rows_len (length (lp_c p)) (lp_A p) = true -> length y = length (lp_A p) ->
  length (lp_b p) = length (lp_A p) ->
  feasible p x = true -> nonneg y = true -> all_le (lp_c p) (ytA (length (lp_c p)) y (lp_A p)) = true ->
  dot (lp_c p) x <= dot y (lp_b p).
Proof. exact weak_duality. Qed.
Print Assumptions C09_weak_duality.

(* each stage row is the solution normalised to sum one (all zeros when the solution is zero) *)
Theorem C09_stage_row_sums_to_one_or_zero : forall r,
  (qsum r == 0 -> forall v, In v (normalise_row r) -> v == 0) /\
  (~ qsum r == 0 -> qsum (normalise_row r) == 1).
Proof. exact stage_row_sums_to_one_or_zero. Qed.
Print Assumptions C09_stage_row_sums_to_one_or_zero.

Theorem C09_second_method_formula : forall n sr,
  let '(score, p, s, d) := second_method n sr in
  score = map2 Qminus p s /\ p = map qsum d /\ s = map (fun j => qsum (col_of 0 d j)) (seq 0 n) /\
  d = dominance_table n sr.
Proof. exact second_method_formula. Qed.
Print Assumptions C09_second_method_formula.

(* the i-th reported value is that of the i-th alternative's variable *)
Theorem C09_values_credited_by_index : forall vals, credit_by_index vals = vals.
Proof. exact credit_by_index_id. Qed.
Print Assumptions C09_values_credited_by_index.

Example C09_example :
  let objs := [true; true; false] in
  let tm := [[2; 1]; [1; 3]; [4; 2]] in      (* 3 criteria x 2 alternatives *)
  let p := stage_lp objs tm (default_b objs tm [None; None; None]) 0 in
  lp_c p = [2; 1] /\ lp_A p = [[1; 3]; [-(4); -(2)]] /\ lp_b p = [3; -(2)] /\
  check_cert p [3; 0] [2; 0] = true /\ check_cert p [0; 1] [2; 0] = false /\
  name_sorted 12 = [0; 1; 10; 11; 2; 3; 4; 5; 6; 7; 8; 9]%nat.
Proof. vm_compute. repeat split. Qed.
