(* C20 — methods are stateless and deterministic across calls.
   PARTIAL BY NATURE: the theorems are frame statements about the abstraction "the state of a method
   object is its parameters" (Model/Stateless.v); that the real classes keep no other state is
   established by the correspondence check (deep snapshot of the object around every call). *)
From Coq Require Import List Arith.
From SKC Require Import Model.Stateless Theory.Stateless.
Import ListNotations.

Theorem C20_probe_position_independent : forall (P D O : Type) (apply : P -> D -> O) s before after probe d,
  nth (length before) (snd (run apply s (before ++ probe :: after))) d = apply s probe.
Proof. exact probe_position_independent. Qed.
Print Assumptions C20_probe_position_independent.

Theorem C20_same_parameters_same_behaviour : forall (P D O : Type) (apply : P -> D -> O) s1 s2 ds,
  s1 = s2 -> run apply s1 ds = run apply s2 ds.
Proof. exact same_params_same_behaviour. Qed.
Print Assumptions C20_same_parameters_same_behaviour.

Theorem C20_object_unchanged_by_calls : forall (P D O : Type) (apply : P -> D -> O) s ds,
  fst (run apply s ds) = s.
Proof. exact object_unchanged_by_calls. Qed.
Print Assumptions C20_object_unchanged_by_calls.

(* objects MAY carry hidden state (a cache, a fitted estimator kept from an earlier call, a keyword left behind by a call
   that raised).  What the call-sequence test states - the probe returns, after every history, what a fresh object
   returns - is equivalent to: no hidden state that some history can produce influences any output *)
Theorem C20_probe_test_characterises_statelessness : forall (P H D O : Type) (out : P -> H -> D -> O)
    (next : P -> H -> D -> H) (h0 : P -> H) p,
  state_blind out next h0 p <-> forall ds probe, probe_after out next h0 p ds probe = fresh out h0 p probe.
Proof. exact probe_test_characterises_statelessness. Qed.
Print Assumptions C20_probe_test_characterises_statelessness.

(* ... and such an object is exactly the stateless model above: every sequence returns the fresh outputs *)
Theorem C20_blind_objects_are_the_stateless_model : forall (P H D O : Type) (out : P -> H -> D -> O)
    (next : P -> H -> D -> H) (h0 : P -> H) p ds,
  state_blind out next h0 p -> run_hidden P H D O out next p (h0 p) ds = map (fresh out h0 p) ds.
Proof. exact blind_objects_are_the_stateless_model. Qed.
Print Assumptions C20_blind_objects_are_the_stateless_model.

(* non-vacuity, both ways: a call counter that is never read is invisible; a keyword that a failed call leaves behind
   (hidden state = the last d that was 0) is caught by the history [0] *)
Example C20_hidden_state_examples :
  state_blind (fun (p h d : nat) => p + d) (fun _ h _ => S h) (fun _ => 0%nat) 5%nat /\
  probe_after (fun (p h d : nat) => p + d + h) (fun _ h d => if Nat.eqb d 0 then 7%nat else h) (fun _ => 0%nat) 5%nat [0%nat] 3%nat
    <> fresh (fun (p h d : nat) => p + d + h) (fun _ => 0%nat) 5%nat 3%nat.
Proof. split; [intros ds d; reflexivity|vm_compute; discriminate]. Qed.

Example C20_example :
  snd (run (fun (p : nat) (d : nat) => if Nat.eqb d 0 then None else Some (p + d)) 10 [3; 0; 3; 7; 3]) =
  [Some 13; None; Some 13; Some 17; Some 13].
Proof. reflexivity. Qed.

(* state shared by the whole process (module-level tables, library-wide settings): one world for all objects *)
Theorem C20_process_wide_state_single_steps_suffice : forall (P G D O : Type) (wout : P -> G -> D -> O)
    (wnext : P -> G -> D -> G) (g0 : G),
  (forall calls c p d, wout p (world_after P G D wnext g0 (calls ++ [c])) d = wout p (world_after P G D wnext g0 calls) d) ->
  world_blind P G D O wout wnext g0.
Proof. exact world_blind_by_single_steps. Qed.
Print Assumptions C20_process_wide_state_single_steps_suffice.

Theorem C20_blind_world_answers_as_a_new_interpreter : forall (P G D O : Type) (wout : P -> G -> D -> O)
    (wnext : P -> G -> D -> G) (g0 : G) calls,
  world_blind P G D O wout wnext g0 ->
  forall pre, map (fun c => wout (fst c) (world_after P G D wnext g0 pre) (snd c)) calls
              = map (fun c => wout (fst c) g0 (snd c)) calls.
Proof. exact world_blind_outputs. Qed.
Print Assumptions C20_blind_world_answers_as_a_new_interpreter.

Example C20_a_library_wide_switch_is_seen :
  ~ world_blind unit bool bool bool (fun _ g _ => g) (fun _ g d => orb g d) false.
Proof. exact switch_world_not_blind. Qed.
