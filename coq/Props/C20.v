(* C20 — methods are stateless and deterministic across calls.
   PARTIAL BY NATURE: the theorems are frame statements about the abstraction "the state of a method
   object is its parameters" (Model/Stateless.v); that the real classes keep no other state is
   established by the correspondence check (deep snapshot of the object around every call). *)
From Coq Require Import List Arith.
From SKC Require Import Model.Stateless Theory.Stateless.
Import ListNotations.

Theorem C20_probe_position_independent : forall (P D O : Type) (apply : P -> D -> O) s before after probe d,
  nth (length before) (snd (run apply s (before ++ probe :: after))) d = apply s probe.
Proof. exact probe_position_independent. Qed.
Print Assumptions C20_probe_position_independent.

Theorem C20_same_parameters_same_behaviour : forall (P D O : Type) (apply : P -> D -> O) s1 s2 ds,
  s1 = s2 -> run apply s1 ds = run apply s2 ds.
Proof. exact same_params_same_behaviour. Qed.
Print Assumptions C20_same_parameters_same_behaviour.

Theorem C20_object_unchanged_by_calls : forall (P D O : Type) (apply : P -> D -> O) s ds,
  fst (run apply s ds) = s.
Proof. exact object_unchanged_by_calls. Qed.
Print Assumptions C20_object_unchanged_by_calls.

Example C20_example :
  snd (run (fun (p : nat) (d : nat) => if Nat.eqb d 0 then None else Some (p + d)) 10 [3; 0; 3; 7; 3]) =
  [Some 13; None; Some 13; Some 17; Some 13].
Proof. reflexivity. Qed.
