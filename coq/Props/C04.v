(* C04 — reported scores equal the published formulas; out-of-domain input is refused.
   The formulas themselves are the model's definitions (Model/Agg.v: wsm_scores,
   ratio_scores, refpoint_scores, topsis_core, fmf_terms); the theorems below are
   the properties of those definitions that the statement relies on. *)
From Coq Require Import QArith List Bool Arith.
From SKC Require Import Base.QBool Base.QList Base.QRank Model.Dominance Model.Agg Theory.Agg Theory.MultiMoora.
Import ListNotations.

(* WSM refuses exactly a minimise objective or a negative cell *)
Theorem C04_wsm_refuses_iff : forall objs w rows,
  wsm objs w rows = Err E_VALUE <->
  (In false objs \/ exists r x, In r rows /\ In x r /\ x < 0).
Proof. exact wsm_refuses_iff. Qed.
Print Assumptions C04_wsm_refuses_iff.

(* ... and otherwise reports sum_j w_j a_ij ranked best-first with ties sharing a rank *)
Theorem C04_wsm_score_and_rank : forall objs w rows,
  ~ In false objs -> (forall r x, In r rows -> In x r -> 0 <= x) ->
  wsm objs w rows = Ok (rank_values true (map (fun r => dot r w) rows), map (fun r => dot r w) rows).
Proof. exact wsm_accepts. Qed.
Print Assumptions C04_wsm_score_and_rank.

Theorem C04_wpm_domain_iff : forall objs rows,
  wpm_domain objs rows = true <->
  (~ In false objs /\ forall r x, In r rows -> In x r -> 0 < x).
Proof. exact wpm_domain_iff. Qed.
Print Assumptions C04_wpm_domain_iff.

Theorem C04_fmf_multimoora_domain_iff : forall rows,
  fmf_domain rows = true <-> (forall r x, In r rows -> In x r -> 0 < x).
Proof. exact fmf_domain_iff. Qed.
Print Assumptions C04_fmf_multimoora_domain_iff.

(* TOPSIS ideal / ReferencePointMOORA reference point: per criterion the best value
   under that criterion's objective, attained by some alternative *)
Theorem C04_ideal_is_best : forall objs rows r j,
  (j < length objs)%nat -> In r rows ->
  better (nth j objs true) (nth j r 0) (nth j (col_opt objs rows) 0) = false.
Proof. exact col_opt_is_best. Qed.
Print Assumptions C04_ideal_is_best.

Theorem C04_ideal_is_attained : forall objs rows j,
  (j < length objs)%nat -> rows <> [] ->
  exists r, In r rows /\ nth j (col_opt objs rows) 0 = nth j r 0.
Proof. exact col_opt_attained. Qed.
Print Assumptions C04_ideal_is_attained.

Theorem C04_anti_ideal_is_worst : forall objs rows r j,
  (j < length objs)%nat -> In r rows ->
  better (nth j objs true) (nth j (col_anti objs rows) 0) (nth j r 0) = false.
Proof. exact col_anti_is_worst. Qed.
Print Assumptions C04_anti_ideal_is_worst.

Theorem C04_distance_nonneg : forall mt a b, 0 <= dist mt a b.
Proof. exact dist_nonneg. Qed.
Print Assumptions C04_distance_nonneg.

(* similarity = d-/(d+ + d-) lies in [0,1], is 1 exactly at the ideal, 0 exactly at the anti-ideal *)
Theorem C04_similarity_bounds : forall db dw s,
  0 <= db -> 0 <= dw -> similarity db dw = Some s ->
  0 <= s <= 1 /\ (s == 1 <-> db == 0) /\ (s == 0 <-> dw == 0).
Proof. exact similarity_bounds. Qed.
Print Assumptions C04_similarity_bounds.

(* TOPSIS yields no ranking exactly when an alternative is at distance 0 from both *)
Theorem C04_similarity_refuses_iff : forall db dw,
  0 <= db -> 0 <= dw -> (similarity db dw = None <-> (db == 0 /\ dw == 0)).
Proof. exact similarity_refuses_iff. Qed.
Print Assumptions C04_similarity_refuses_iff.

(* MultiMOORA: the rank matrix is the three component rankings side by side ... *)
Theorem C04_multimoora_rank_matrix : forall r1 r2 r3 i,
  length r1 = length r2 -> length r2 = length r3 -> (i < length r1)%nat ->
  nth i (rank_matrix r1 r2 r3) [] = [nth i r1 0%nat; nth i r2 0%nat; nth i r3 0%nat].
Proof. exact rank_matrix_rows. Qed.
Print Assumptions C04_multimoora_rank_matrix.

(* ... and the final score computed by the loop over index pairs is the documented pairwise-dominance
   count: the number of alternatives it beats (no component ranks the two equal, ahead in more components) *)
Theorem C04_multimoora_score_is_dominance_count : forall rm,
  Forall (fun r => length r = 3%nat) rm -> mm_score rm = mm_spec rm.
Proof. exact mm_score_is_spec. Qed.
Print Assumptions C04_multimoora_score_is_dominance_count.

Theorem C04_multimoora_one_point_per_untied_pair : forall ra rb, length ra = 3%nat -> length rb = 3%nat ->
  ((if beats ra rb then 1 else 0) + (if beats rb ra then 1 else 0) =
   (let '(e, _, _) := cmp_ranks ra rb in if Nat.eqb e 0 then 1 else 0))%nat.
Proof. exact mm_points_per_pair. Qed.
Print Assumptions C04_multimoora_one_point_per_untied_pair.


Example C04_example :
  wsm [true; true] [1; 2] [[1; 2]; [3; 0]; [1; 2]] = Ok ([1; 2; 1]%nat, [1 * 1 + (2 * 2 + 0); 3 * 1 + (0 * 2 + 0); 1 * 1 + (2 * 2 + 0)]) /\
  wsm [true; false] [1; 2] [[1; 2]] = Err E_VALUE /\
  wsm [true; true] [1; 2] [[1; -(2)]] = Err E_VALUE /\
  wpm_domain [true] [[0]] = false /\ fmf_domain [[1; 2]; [3; -(1)]] = false.
Proof. vm_compute. repeat split. Qed.
